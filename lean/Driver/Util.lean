/-
  Driver.Util — JSON line protocol shared by all family handlers.
  One input line:  {"case": <canonical input>, "impl": <canonical output of the real code>}
  One output line: {"k": bool, "model": <model output>, "o": "ok" | "fail:<why>",
                    "nt": bool (non-trivial by the family's rule), "tags": [..]}
-/
import Lean.Data.Json
open Lean

namespace Driver

structure Verdict where
  model : Json
  k : Bool                       -- model output = (or ∋) implementation output
  oracle : Option String := none -- none = property predicate holds on impl output
  nt : Bool := true              -- non-trivial case by the family's stated rule
  tags : List String := []
  attr : Option String := none   -- id of a listed known finding that fully explains this failing case

def Verdict.toJson (v : Verdict) : Json :=
  let base : List (String × Json) :=
    [("k", Json.bool v.k), ("model", v.model),
     ("o", Json.str (match v.oracle with | none => "ok" | some w => s!"fail:{w}")),
     ("nt", Json.bool v.nt), ("tags", Json.arr (v.tags.map Json.str).toArray)]
  let extra : List (String × Json) := match v.attr with | some a => [("attr", Json.str a)] | none => []
  Json.mkObj (base ++ extra)

abbrev Handler := Json → Json → Except String Verdict

def jNatList (l : List Nat) : Json := Json.arr (l.map (fun (n : Nat) => (Json.num (JsonNumber.fromNat n)))).toArray

def getStr (j : Json) (k : String) : Except String String := j.getObjValAs? String k
def getNat (j : Json) (k : String) : Except String Nat := j.getObjValAs? Nat k
def getInt (j : Json) (k : String) : Except String Int := j.getObjValAs? Int k
def getBool (j : Json) (k : String) : Except String Bool := j.getObjValAs? Bool k
def getArr (j : Json) (k : String) : Except String (Array Json) := j.getObjValAs? (Array Json) k
def getObj (j : Json) (k : String) : Except String Json := j.getObjVal? k

def asNatList (j : Json) : Except String (List Nat) := do
  let a ← j.getArr?
  a.toList.mapM (fun x => x.getNat?)

def asIntList (j : Json) : Except String (List Int) := do
  let a ← j.getArr?
  a.toList.mapM (fun x => x.getInt?)

/-- bytes are shipped as arrays of 0..255 -/
def asBytes (j : Json) : Except String (List UInt8) := do
  let l ← asNatList j
  pure (l.map (fun n => n.toUInt8))

def jBytes (l : List UInt8) : Json := Json.arr (l.map (fun (b : UInt8) => Json.num (JsonNumber.fromNat b.toNat))).toArray

partial def loop (h : IO.FS.Stream) (out : IO.FS.Stream) (f : Handler) : IO Unit := do
  let line ← h.getLine
  if line.isEmpty then return ()
  let res : Except String Verdict := do
    let j ← Json.parse line
    let c ← j.getObjVal? "case"
    let i ← j.getObjVal? "impl"
    f c i
  match res with
  | .ok v => out.putStrLn v.toJson.compress
  | .error e => out.putStrLn (Json.mkObj [("driver_error", e)]).compress
  loop h out f

end Driver
