-- FAMILY: C03
import Driver.Util
import Driver.PlanJson
import IQE.Engine.PlanGraph
import IQE.Gen.OptGates
open Lean IQE.Engine IQE.Engine.PlanWf IQE.Engine.PlanGraph
namespace Driver.C03

/-! The adversarial-statistics family of C03.  Oracle: every optimizer configuration returns the answer of the
    unoptimized plan.  K: the TRANSLATED statistics gates, evaluated here on the real footer statistics, predict
    whether the rule fired (GroupKeyReduction on the single-table stream, PackedJoinKeys on the plain two-key stream,
    with the same modulus K).  Attribution to the listed findings by signature + neutraliser (DESIGN §3.4). -/

structure ColStat where
  table : String
  name : String
  min : Option Int
  max : Option Int
  nulls : Option Int
  ndv : Option Int
  rows : Int

def statsOfJson (j : Json) : Except String (List ColStat) := do
  let mut out : List ColStat := []
  for t in (← j.getArr?).toList do
    let table ← t.getObjValAs? String "table"
    let rows ← t.getObjValAs? Int "rows"
    for c in (← t.getObjValAs? (Array Json) "cols").toList do
      let oi (k : String) : Option Int := (c.getObjValAs? Int k).toOption
      out := out ++ [{ table := table, name := ← c.getObjValAs? String "n", min := oi "min", max := oi "max", nulls := oi "nulls", ndv := oi "ndv", rows := rows }]
  pure out

/-- `GroupKeyReduction::is_unique_key(table, col)` through the translated tail expression -/
def uniqueGate (st : List ColStat) (table col : String) : Bool :=
  match st.find? (fun c => c.table == table && c.name == col) with
  | some c => IQE.Gen.OptGates.unique_key_gate c.nulls c.ndv c.rows
  | none => false

/-- `PackedJoinKeys::key_bounds` (since /repo 3d7ebfd): the (min, max) of the base column the reference denotes — the
    statistics of ITS table only.  In this family key references are plain scan columns, qualified by the table name or
    unqualified and unique. -/
def columnBounds (st : List ColStat) (rel : Option String) (col : String) : Option (Int × Int) :=
  let cands := st.filter (fun c => c.name == col && (match rel with | some t => c.table == t | none => true))
  match cands with
  | [c] => (match c.min, c.max with | some lo, some hi => some (lo, hi) | _, _ => none)
  | _ => none

/-- the pack gate of `PackedJoinKeys::try_pack` assembled from the translated pieces (as IQE.Props.C03.packJoinGate) -/
def packJoinGate (b0 b1 b2 b3 : Int × Int) : Option Int :=
  if b0.1 < 0 ∨ b1.1 < 0 ∨ b2.1 < 0 ∨ b3.1 < 0 then none
  else
    let max2 := IQE.Gen.OptGates.pj_max2 b2.2 b3.2
    match IQE.Gen.OptGates.pj_k max2 with
    | none => none
    | some k => if IQE.Gen.OptGates.pj_overflow (IQE.Gen.OptGates.pj_max1 b0.2 b1.2) k max2 then none else some k

def colName : PExpr → Option String
  | .col _ n => some n
  | _ => none

/-- first inner join with exactly two plain-column ON pairs (bound plan) -/
partial def twoKeyJoin : Plan → Option (List PExpr × List PExpr)
  | .join .inner onL onR _ _ l r =>
    if onL.length == 2 && (onL ++ onR).all (fun e => (colName e).isSome) then some (onL, onR)
    else (twoKeyJoin l).orElse (fun _ => twoKeyJoin r)
  | .join _ _ _ _ _ l r => (twoKeyJoin l).orElse (fun _ => twoKeyJoin r)
  | .filter _ i | .project _ _ i | .agg _ _ _ i | .sort _ _ i | .limit _ _ i | .distinct i | .alias _ _ _ i => twoKeyJoin i
  | _ => none

/-- the modulus of the first packed ON pair of a plan -/
partial def packedK : Plan → Option Int
  | .join _ onL _ _ _ l r =>
    (match onL.filterMap unpack with | (_, _, k) :: _ => some k | [] => none).orElse (fun _ => (packedK l).orElse (fun _ => packedK r))
  | .filter _ i | .project _ _ i | .agg _ _ _ i | .sort _ _ i | .limit _ _ i | .distinct i | .alias _ _ _ i => packedK i
  | _ => none

/-- signature of finding C03-F4: an Aggregate whose SUM multiplies by `CAST(__ea_cnt AS DOUBLE)` while the stored
    output column of that SUM is an integer -/
partial def hasFloatCountInIntSum : Plan → Bool
  | .agg group aggs s i =>
    let castCnt : PExpr → Bool := fun e => match e with | .op "cast" "f64" [.col _ "__ea_cnt"] => true | _ => false
    let rec mentions (e : PExpr) : Bool := castCnt e || (match e with | .op _ _ args => args.any mentions | .alias e' _ => mentions e' | _ => false)
    let hit := (aggs.zipIdx).any (fun (a, k) => mentions a && (match s[group.length + k]? with | some f => f.ty == "i64" || f.ty == "i32" | none => false))
    hit || hasFloatCountInIntSum i
  | .join _ _ _ _ _ l r => hasFloatCountInIntSum l || hasFloatCountInIntSum r
  | .filter _ i | .project _ _ i | .sort _ _ i | .limit _ _ i | .distinct i | .alias _ _ _ i => hasFloatCountInIntSum i
  | _ => false

def subsetOf (xs ys : List String) : Bool := xs.all (fun x => ys.contains x)

def handler : Driver.Handler := fun c i => do
  let stream := (Driver.getStr c "stream").toOption.getD "?"
  let layout := (Driver.getStr c "layout").toOption.getD "?"
  let caseTags := match c.getObjValAs? (Array Json) "tags" with | .ok a => a.toList.filterMap (fun (j : Json) => j.getStr?.toOption) | .error _ => []
  let baseTags := (["s:" ++ stream, "layout_" ++ layout] ++ caseTags.filter (fun t => t.startsWith "f:" || t.startsWith "shape:")).eraseDups
  if let .ok e := i.getObjValAs? String "harness_err" then throw s!"harness: {e}"
  if let .ok m := i.getObjValAs? String "panic" then throw s!"harness panic: {m}"
  if let .ok _ := i.getObjVal? "bind_err" then
    return { model := Json.str "unbound", k := true, nt := false, tags := baseTags ++ ["unbound"] }
  let cfgs ← Driver.getObj i "cfgs"
  let names : List String := match cfgs with | .obj kvs => kvs.toList.map (fun (kv : String × Json) => kv.1) | _ => []
  let ans (n : String) : Json := (cfgs.getObjVal? n).toOption.getD Json.null
  let ran (a : Json) : Bool := (a.getObjVal? "rows").toOption.isSome || (a.getObjVal? "digest").toOption.isSome
  -- the reference answer: the unoptimized plan; subquery predicates are not executable before decorrelation, the reference is then
  -- the plan with ONLY SubqueryDecorrelation applied (config "decorr", tag `ref_decorr`)
  let refDecorr := !ran (ans "noopt") && ran (ans "decorr")
  let ref := if refDecorr then ans "decorr" else ans "noopt"
  let baseTags := if refDecorr then baseTags ++ ["ref_decorr"] else baseTags
  let names := if refDecorr then names.filter (· != "noopt") else names
  if !ran ref then
    -- the unoptimized plan does not run: nothing to compare against
    return { model := Json.mkObj [("noopt", ref)], k := true, nt := false, tags := baseTags ++ ["noopt_not_run"] }
  let bad := names.filter (fun n => ans n != ref)
  let fired ← Driver.getObj i "fired"
  let firedRules : List String := match fired with | .obj kvs => kvs.toList.filterMap (fun (kv : String × Json) => if kv.2 == Json.bool true then some kv.1 else none) | _ => []
  let st ← statsOfJson (← Driver.getObj i "stats")
  let plans := (Driver.getObj i "plans").toOption.getD Json.null
  let planOf (n : String) : Option Plan := match plans.getObjVal? n with
    | .ok pj => (match PlanJson.planOrErr pj with | .ok (.ok p) => some p | _ => none)
    | .error _ => none
  -- K 1: "sql" (ExecutionContext::sql) is the production configuration
  -- (when both deviate from the reference the deviation itself is the oracle's business: ANY_VALUE picks differ between runs)
  let kSql := if ran (ans "sql") || ran (ans "prod") then ans "sql" == ans "prod" || (ans "sql" != ref && ans "prod" != ref) else true
  -- K 2: translated gates vs. what the rules did
  let firedGkr := firedRules.contains "only:GroupKeyReduction"
  let firedPj := firedRules.contains "only:PackedJoinKeys"
  let mut kNotes : List String := []
  let mut kGate := true
  if stream == "gkr" then
    -- any integer group column may serve as the key (`try_reduce` tries every position); both belong to table t
    let predicted := uniqueGate st "t" "k" || uniqueGate st "t" "d"
    if predicted != firedGkr then
      kGate := false
      kNotes := kNotes ++ [s!"unique-key gate (translated) = {predicted}, GroupKeyReduction fired = {firedGkr}"]
  if stream == "packjoin" && !caseTags.contains "f:three_keys" then
    match planOf "noopt" with
    | some pb =>
      match twoKeyJoin pb with
      | some (onL, onR) =>
        let bnd (e : Option PExpr) : Option (Int × Int) := match e with
          | some (.col rel n) => columnBounds st rel n
          | _ => none
        let bs := [bnd onL[0]?, bnd onR[0]?, bnd onL[1]?, bnd onR[1]?]
        let predicted : Option Int := match bs with
          | [some b0, some b1, some b2, some b3] => packJoinGate b0 b1 b2 b3
          | _ => none
        let actual : Option Int := if firedPj then (planOf "only:PackedJoinKeys").bind packedK else none
        if predicted != actual then
          kGate := false
          kNotes := kNotes ++ [s!"pack gate (translated) = {predicted}, PackedJoinKeys produced K = {actual}"]
      | none => pure ()
    | none => pure ()
  -- O
  let oracle : Option String :=
    if bad.isEmpty then none
    else some s!"configurations {bad} return a different answer than the unoptimized plan"
  -- attribution
  let neutral := (Driver.getObj i "neutral").toOption.getD Json.null
  let neutralOk : Bool :=
    match neutral.getObjVal? "cfgs" with
    | .ok ncfgs =>
      let nn : List (String × Json) := match ncfgs with | .obj kvs => kvs.toList | _ => []
      let nref := (ncfgs.getObjVal? "noopt").toOption.getD Json.null
      ran nref && nn.all (fun (kv : String × Json) => kv.2 == nref)
    | .error _ => false
  let what := ((Driver.getObj c "neutral").toOption.bind (fun n => (n.getObjValAs? String "what").toOption)).getD ""
  let f1 := !bad.isEmpty && what == "unique" && neutralOk && subsetOf bad ["prod", "sql", "only:GroupKeyReduction", "only:EagerAggregation"]
    && (firedRules.contains "only:GroupKeyReduction" || firedRules.contains "only:EagerAggregation")
  let f2 := !bad.isEmpty && what == "rename" && neutralOk && subsetOf bad ["prod", "sql", "only:PackedJoinKeys", "only:EagerAggregation"]
    && bad.contains "only:PackedJoinKeys"
  -- C03-F2, second face: a key column that exists in several tables is bounded with ANOTHER table's statistics when
  -- its own table has none (files written without statistics)
  let caseTables := ((c.getObjValAs? (Array Json) "tables").toOption.getD #[]).toList
  let tablesWith (col : String) : List String := caseTables.filterMap (fun t =>
    let cols := ((t.getObjValAs? (Array Json) "cols").toOption.getD #[]).toList.filterMap (fun cj => (cj.getArr?.toOption).bind (fun a => a[0]?.bind (fun x => x.getStr?.toOption)))
    if cols.contains col then (t.getObjValAs? String "name").toOption else none)
  let borrowed (col : String) : Bool :=
    let haveT := (st.filter (fun cs => cs.name == col && cs.min.isSome && cs.max.isSome)).map (·.table)
    !haveT.isEmpty && (tablesWith col).any (fun t => !haveT.contains t)
  let keyNames : List String := match (planOf "noopt").bind twoKeyJoin with
    | some (onL, onR) => (onL ++ onR).filterMap colName
    | none => []
  let f2b := !bad.isEmpty && subsetOf bad ["prod", "sql", "only:PackedJoinKeys"] && firedPj && keyNames.any borrowed
  -- C03-F5: the same by-name pattern in PackedGroupKeys (a computed group key re-using a base column's name)
  let f5 := !bad.isEmpty && what == "rename" && neutralOk && subsetOf bad ["prod", "sql", "only:PackedGroupKeys"]
    && firedRules.contains "only:PackedGroupKeys"
  -- C03-F6: the runtime join-key filter is pushed through a projection that computes the key (Parquet, derived table
  -- on the probe side after JoinReorder)
  let f6 := !bad.isEmpty && layout == "pq" && what == "rename" && neutralOk && bad.contains "only:JoinReorder"
    && subsetOf bad ["prod", "sql", "only:JoinReorder"]
  let f4 := !bad.isEmpty && subsetOf bad ["prod", "sql", "only:EagerAggregation"] && firedRules.contains "only:EagerAggregation"
    && ((planOf "only:EagerAggregation").map hasFloatCountInIntSum).getD false
  let attr : Option String := if f1 then some "C03-F1" else if f2 || f2b then some "C03-F2" else if f5 then some "C03-F5" else if f6 then some "C03-F6" else if f4 then some "C03-F4" else none
  let model := Json.mkObj [("bad", Json.arr (bad.map Json.str).toArray), ("fired", Json.arr (firedRules.map Json.str).toArray),
    ("k_notes", Json.arr (kNotes.map Json.str).toArray), ("neutral_ok", Json.bool neutralOk)]
  pure { model := model, k := kSql && kGate, oracle := oracle, nt := !firedRules.isEmpty, attr := attr,
         tags := baseTags ++ firedRules.map (fun r => "fired:" ++ r) ++ (match attr with | some a => ["attr_" ++ a] | none => [])
                 ++ (if kSql then [] else ["sql_differs_from_prod"]) }

end Driver.C03
