-- FAMILY: SQL
/-
  Driver.SQL.handler — the SQL family: `Driver.SqlCore` plus the attribution of failing cases to the listed known
  findings of the properties served by the generic harness family `SQL` (C44, C24, C01, C28, C27).
  Rule (DESIGN §3.4): a failing case is attributed to finding F only if the implementation's rows are an acceptable
  answer of the plan *as the engine model with exactly F's deviation switch on executes it*; the model with all
  switches off is the reference semantics, which satisfies the oracle by `C01_acceptable_refl`.
-/
import Driver.SqlCore
import IQE.Engine.Values
import IQE.Engine.SetOps
open Lean IQE IQE.Spec

namespace Driver.SQL

/-- C44-F1 (fixed by /repo 70263df: the planner lowered every VALUES list to an empty table).  The switch is no longer in the
    active set: `attrByProp` does not consult it, so a recurrence is reported as a violation. -/
def attrC44 : AttrFn := fun c o _ =>
  match o with
  | .ok out =>
    if Engine.Values.hasValues c.plan then
      match Spec.acceptable fo fns c.tables (Engine.Values.devPlan { valuesEmpty := true } c.plan) out with
      | .ok true => some "C44-F1"
      | _ => none
    else none
  | _ => none

/-- is `out` an acceptable answer of the plan as the set-operation model executes it under `dev`? -/
def setopsExplain (dev : Engine.SetOps.Dev) (c : Case) (out : Table) : Bool :=
  match Engine.SetOps.materialiseTop dev fo fns c.tables c.plan with
  | .ok q => (match Spec.acceptable fo fns c.tables q out with | .ok true => true | _ => false)
  | .error _ => false

/-- C24-F1 (NULL: join keys never match NULL; Distinct keeps every NULL row) and C24-F2 (ALL forms keep left multiplicities).
    Tried in the order F1 alone, F2 alone, both (reported as F1). -/
def attrC24 : AttrFn := fun c o _ =>
  match o with
  | .ok out =>
    if Engine.SetOps.hasTopSetop c.plan then
      if setopsExplain { nullNeverMatches := true, distinctNullOwnGroup := true } c out then some "C24-F1"
      else if setopsExplain { allIgnoresCount := true } c out then some "C24-F2"
      else if setopsExplain Engine.SetOps.today c out then some "C24-F1"
      else none
    else none
  | _ => none

def attrByProp : AttrFn := fun c o spec =>
  match c.prop with
  | "C24" => attrC24 c o spec
  | _ => none

def handler : Driver.Handler := handlerWith attrByProp

end Driver.SQL
