import Driver.Sql
def main (_args : List String) : IO UInt32 := do
  Driver.loop (← IO.getStdin) (← IO.getStdout) Driver.SQL.handler
  pure 0
