import IQE.Spec.Query
open IQE IQE.Spec

theorem t1 (fo fns cat rows ctes env) : run fo fns cat (.values rows) ctes env =
    rows.mapM (fun es => evalList { fo := fo, runSub := fun _ _ => .error (.bad "subquery in VALUES"), fn := fns } env es) := by
  simp [run]

theorem t2 (cx : EvalCtx) (env : Env) (vs : List Val) : evalList cx env (vs.map Expr.lit) = .ok vs := by
  induction vs with
  | nil => simp [evalList]
  | cons v vs ih => simp [evalList, eval, ih]; rfl

#print axioms t1
