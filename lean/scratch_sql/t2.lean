import IQE.Spec.Query
open IQE IQE.Spec

theorem count_removeFirst (x y : Row) (r : Table) :
    (removeFirst y r).count x = if x = y ∧ y ∈ r then r.count x - 1 else r.count x := by
  fun_induction removeFirst y r <;> grind [List.count_cons, List.count_pos_iff, List.count_eq_zero]

theorem count_intersectAll (x : Row) (l r : Table) :
    (intersectAll l r).count x = min (l.count x) (r.count x) := by
  fun_induction intersectAll l r <;> grind [List.count_cons, List.count_pos_iff, List.count_eq_zero, count_removeFirst, List.contains_iff_mem]

theorem count_exceptAll (x : Row) (l r : Table) :
    (exceptAll l r).count x = l.count x - r.count x := by
  fun_induction exceptAll l r <;> grind [List.count_cons, List.count_pos_iff, List.count_eq_zero, count_removeFirst, List.contains_iff_mem]

theorem mem_dedupRows (x : Row) (l : Table) : x ∈ dedupRows l ↔ x ∈ l := by
  fun_induction dedupRows l <;> grind [List.mem_filter]

theorem count_dedupRows (x : Row) (l : Table) : (dedupRows l).count x = if x ∈ l then 1 else 0 := by
  fun_induction dedupRows l <;> grind [List.count_cons, List.count_filter, List.count_eq_zero, mem_dedupRows, List.mem_filter]
#print axioms count_dedupRows
