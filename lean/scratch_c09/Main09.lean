import Driver.Util
import Driver.C09
def main (args : List String) : IO Unit := do
  let stdin ← IO.getStdin
  let stdout ← IO.getStdout
  match args with
  | ["C09"] => Driver.loop stdin stdout Driver.C09.handler
  | _ => IO.eprintln "family?"
