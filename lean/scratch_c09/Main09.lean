import Driver.Util
import Driver.C09
import Driver.C45
def main (args : List String) : IO Unit := do
  let stdin ← IO.getStdin
  let stdout ← IO.getStdout
  match args with
  | ["C09"] => Driver.loop stdin stdout Driver.C09.handler
  | ["C45"] => Driver.loop stdin stdout Driver.C45.handler
  | _ => IO.eprintln "family?"
