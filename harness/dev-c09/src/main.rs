#![allow(dead_code)]
#[path = "/verif/harness/src/common.rs"] mod common;
#[path = "/verif/harness/src/rng.rs"] mod rng;
mod fams {
    #[path = "/verif/harness/src/fam_sql.rs"] pub mod fam_sql;
    #[path = "/verif/harness/src/fam_c32.rs"] pub mod fam_c32;
    #[path = "/verif/harness/src/fam_c09.rs"] pub mod fam_c09;
    #[path = "/verif/harness/src/fam_c45.rs"] pub mod fam_c45;
}
fn main() {
    let args: Vec<String> = std::env::args().collect();
    let mut o = common::Opts { seed: 1, cases: 100, replay: None, kv: Default::default() };
    let mut i = 2;
    while i < args.len() {
        match args[i].as_str() {
            "--seed" => { o.seed = args[i + 1].parse().expect("seed"); i += 2; }
            "--cases" => { o.cases = args[i + 1].parse().expect("cases"); i += 2; }
            "--replay" => { o.replay = Some(args[i + 1].clone()); i += 2; }
            "--opt" => { let (k, v) = args[i + 1].split_once('=').expect("k=v"); o.kv.insert(k.into(), v.into()); i += 2; }
            x => { eprintln!("unknown arg {x}"); std::process::exit(2); }
        }
    }
    std::panic::set_hook(Box::new(|_| {}));
    match args[1].as_str() { "C09" => fams::fam_c09::main(&o), "C45" => fams::fam_c45::main(&o), "SQL" => fams::fam_sql::main(&o), _ => {} }
}
