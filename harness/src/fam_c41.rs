// FAMILY: C41
//! C41: `metastore::gravitino::dechunk` through the `verif_dechunk` hook, and the public
//! `GravitinoSource::catalog_type` (→ `http_get` → `dechunk`) against a scripted chunked HTTP server.
//!
//! Cases (bytes are arrays of 0..255):
//!   {"kind":"enc","raw":..,"body":..,"ext":bool,"chunks":n}      the harness's own chunk encoding of `body`; expected Some(body)
//!   {"kind":"bad","class":..,"raw":..}                            well-formed chunks followed by a framing error that is malformed
//!                                                                 BY CONSTRUCTION (whatever the data bytes are); expected None
//!   {"kind":"junk","raw":..}                                      lenient / arbitrary byte strings; expected: no panic (K decides the rest)
//!   {"kind":"sock","raw":..,"body":..,"ty":..,"expect":"some"|"none","ext":bool,"class":..}
//!                                                                 the same streams served over a real socket
//! Output: {"some":[..]} | {"none":true} | {"panic":msg} | {"sock":"ok:<type>"|"err:chunked"|"err:json"|"err:other"}
use crate::common::*;
use crate::rng::Rng;
use query_engine::metastore::gravitino::verif_dechunk;
use query_engine::metastore::GravitinoSource;
use serde_json::{json, Value};
use std::io::{Read, Write};

fn hex(r: &mut Rng, n: u64) -> Vec<u8> {
    let mut s = String::new();
    if r.chance(1, 5) { for _ in 0..1 + r.below(3) { s.push('0'); } }
    for c in format!("{:x}", n).chars() {
        s.push(if r.chance(1, 2) { c.to_ascii_uppercase() } else { c });
    }
    s.into_bytes()
}

/// chunk extensions: RFC 7230 §4.1.1 `*( BWS ";" BWS name [ "=" val ] )`, incl. quoted strings containing `;` and obs-text
fn ext(r: &mut Rng) -> Vec<u8> {
    let xs: [&[u8]; 8] = [b";ext=1", b";a", b";name=\"v;x\"", b" ;x", b";q=\"a\\\"b\"", b";\xff\xfe=\xc3", b";a=1;b=2", b";"];
    r.pick(&xs).to_vec()
}

fn body(r: &mut Rng) -> Vec<u8> {
    let n = match r.below(10) { 0 => 0, 1 => 1, 2..=7 => r.below(40), 8 => r.below(300), _ => 255 + r.below(4) * 256 } as usize;
    let mode = r.below(3);
    (0..n).map(|_| match mode {
        0 => r.below(256) as u8,
        1 => *r.pick(&[b'\r', b'\n', b'0', b'5', b';', b'a', b'\r', b'\n']),
        _ => b' ' + r.below(95) as u8,
    }).collect()
}

/// well-formed chunks for `b`; returns (bytes, number of chunks, used an extension)
fn chunks(r: &mut Rng, b: &[u8], allow_ext: bool) -> (Vec<u8>, usize, bool) {
    let mut out = vec![];
    let (mut i, mut n, mut used) = (0usize, 0usize, false);
    while i < b.len() {
        let cap = match r.below(3) { 0 => 3, 1 => 20, _ => 400 };
        let len = (1 + r.below(cap)) as usize;
        let len = len.min(b.len() - i);
        out.extend(hex(r, len as u64));
        if allow_ext && r.chance(1, 4) { out.extend(ext(r)); used = true; }
        out.extend(b"\r\n");
        out.extend(&b[i..i + len]);
        out.extend(b"\r\n");
        i += len; n += 1;
    }
    (out, n, used)
}

fn last_chunk(r: &mut Rng, allow_ext: bool) -> (Vec<u8>, bool) {
    let mut out = vec![];
    let mut used = false;
    for _ in 0..1 + if r.chance(1, 6) { r.below(3) } else { 0 } { out.push(b'0'); }
    if allow_ext && r.chance(1, 8) { out.extend(ext(r)); used = true; }
    out.extend(b"\r\n");
    if r.chance(1, 6) { out.extend(b"X-Trailer: 1\r\n"); }
    out.extend(b"\r\n");
    (out, used)
}

fn enc(r: &mut Rng) -> Value {
    let b = body(r);
    let allow_ext = r.chance(1, 2);
    let (mut raw, n, e1) = chunks(r, &b, allow_ext);
    let (l, e2) = last_chunk(r, allow_ext);
    raw.extend(l);
    json!({"kind":"enc","raw":bytes_json(&raw),"body":bytes_json(&b),"ext":e1||e2,"chunks":n})
}

/// well-formed chunks (no extensions: the framing error itself is what is tested), then a tail that is malformed by construction
fn bad_raw(r: &mut Rng) -> (Vec<u8>, &'static str) {
    let b = body(r);
    let (mut raw, _, _) = chunks(r, &b, false);
    let class = *r.pick(&["unterminated", "nonhex", "huge", "short", "nocrlf"]);
    match class {
        "unterminated" => {
            // a size line that is never terminated by CRLF (lone CR / lone LF / nothing)
            let v = 1 + r.below(20); raw.extend(hex(r, v));
            raw.extend(*r.pick(&[&b""[..], b"\r", b"\n", b"\n\r", b"\rabc"]));
        }
        "nonhex" => {
            let v = 1 + r.below(300); let mut l = hex(r, v);
            let badb = *r.pick(&[b'g', b'x', b'-', b'.', b'G', b'_', b'"', b'=', b'z', b'/', b':', b'@', b'`']);
            let at = r.below(l.len() as u64 + 1) as usize;
            l.insert(at, badb);
            raw.extend(l);
            if r.chance(1, 4) { raw.extend(b";e=1"); }
            raw.extend(b"\r\n");
            raw.extend(body(r));
            raw.extend(b"\r\n0\r\n\r\n");
        }
        "huge" => {
            raw.extend(*r.pick(&[&b"ffffffffffffffff"[..], b"FFFFFFFFFFFFFFFE", b"fffffffffffffffe", b"10000000000000000",
                                 b"00ffffffffffffffff", b"123456789abcdef0123"]));
            raw.extend(b"\r\n");
            raw.extend(body(r));
            if r.chance(1, 2) { raw.extend(b"\r\n0\r\n\r\n"); }
        }
        "short" => {
            let n = 1 + r.below(60);
            raw.extend(hex(r, n));
            raw.extend(b"\r\n");
            let have = r.below(n + 2); // 0 ..= n+1 bytes follow: fewer than n + 2
            for _ in 0..have { raw.push(*r.pick(&[b'a', b'\r', b'\n', b'0'])); }
        }
        _ => {
            let n = 1 + r.below(30);
            raw.extend(hex(r, n));
            raw.extend(b"\r\n");
            for _ in 0..n { raw.push(*r.pick(&[b'a', b'\r', b'\n', b'0', b'}'])); }
            raw.extend(*r.pick(&[&b"XY"[..], b"\n\r", b"\r\r", b"\n\n", b"\rX", b"X\n", b"0\r"]));
            raw.extend(b"0\r\n\r\n");
        }
    }
    (raw, class)
}

fn bad(r: &mut Rng) -> Value {
    let (raw, class) = bad_raw(r);
    json!({"kind":"bad","class":class,"raw":bytes_json(&raw)})
}

fn junk(r: &mut Rng) -> Value {
    let toks: [&[u8]; 40] = [b"ffffffffffffffff", b"7fffffffffffffff", b"fffffffffffffffe", b"fffffffffffffffd", b"10000000000000000",
        b"\r\n", b"\r\n", b"\r\n", b"\r", b"\n", b"0", b"0", b"5", b"3", b"a", b"hello", b";", b";x=1", b"+", b"+5", b"-5", b"0x5", b" ", b"\t",
        b" 5 ", "\u{a0}".as_bytes(), "\u{3000}2".as_bytes(), "\u{2003}".as_bytes(), "1\u{85}".as_bytes(), b"\xff", b"\xc3", b"\xe2\x80", b"\xed\xa0\x80",
        b"\xf4\x90\x80\x80", b"abc", b"00000000000000000000001", b"F", b"1f", "٣".as_bytes(), b"\x0b4\x0c"];
    let mut raw = vec![];
    if r.chance(1, 3) {
        // a lenient-but-accepted shape: sign / white space around the size, then the declared bytes
        let b = body(r);
        if !b.is_empty() {
            raw.extend(*r.pick(&[&b""[..], b"+", b" ", b"\t", "\u{a0}".as_bytes(), "\u{3000}".as_bytes()]));
            raw.extend(hex(r, b.len() as u64));
            raw.extend(*r.pick(&[&b""[..], b" ", "\u{2003}".as_bytes(), "\u{85}".as_bytes(), b"\x0b"]));
            raw.extend(b"\r\n"); raw.extend(&b); raw.extend(b"\r\n");
        }
        raw.extend(*r.pick(&[&b"0\r\n\r\n"[..], b"0\r\n", b" 0 \r\n", b"+0\r\n", b"-0\r\n"]));
    } else {
        for _ in 0..r.below(9) { raw.extend(*r.pick(&toks)); }
    }
    json!({"kind":"junk","raw":bytes_json(&raw)})
}

fn sock(r: &mut Rng) -> Value {
    let ty: String = (0..1 + r.below(12)).map(|_| (b'a' + r.below(26) as u8) as char).collect();
    let b = format!("{{\"code\":0,\"catalog\":{{\"type\":\"{}\",\"pad\":\"{}\"}}}}", ty, "p".repeat(r.below(60) as usize)).into_bytes();
    if r.chance(2, 3) {
        let allow_ext = r.chance(1, 2);
        let (mut raw, _, e1) = chunks(r, &b, allow_ext);
        let (l, e2) = last_chunk(r, allow_ext);
        raw.extend(l);
        json!({"kind":"sock","raw":bytes_json(&raw),"body":bytes_json(&b),"ty":ty,"expect":"some","ext":e1||e2,"class":"enc"})
    } else {
        // a proper prefix of the JSON body in well-formed chunks, then a framing error
        let cut = r.below(b.len() as u64) as usize;
        let (mut raw, _, _) = chunks(r, &b[..cut], false);
        let class = *r.pick(&["unterminated", "short", "nocrlf", "huge"]);
        match class {
            "unterminated" => { raw.extend(b"5"); }
            "short" => { raw.extend(b"40\r\nabc"); }
            "huge" => { raw.extend(b"ffffffffffffffff\r\nabc\r\n0\r\n\r\n"); }
            _ => { raw.extend(b"1\r\n"); raw.push(b[cut]); raw.extend(b"XY0\r\n\r\n"); }
        }
        json!({"kind":"sock","raw":bytes_json(&raw),"body":bytes_json(&b),"ty":ty,"expect":"none","ext":false,"class":class})
    }
}

/// One-shot scripted server: accepts one connection, reads the request head, sends a chunked 200 response, closes.
fn serve_once(payload: Vec<u8>) -> (String, std::thread::JoinHandle<()>) {
    let l = std::net::TcpListener::bind("127.0.0.1:0").expect("bind");
    let addr = l.local_addr().unwrap().to_string();
    let h = std::thread::spawn(move || {
        if let Ok((mut s, _)) = l.accept() {
            let _ = s.set_read_timeout(Some(std::time::Duration::from_secs(5)));
            let mut req: Vec<u8> = vec![];
            let mut buf = [0u8; 512];
            while !req.windows(4).any(|w: &[u8]| w == b"\r\n\r\n") {
                match s.read(&mut buf) { Ok(0) | Err(_) => break, Ok(n) => req.extend(&buf[..n]) }
            }
            let _ = s.write_all(b"HTTP/1.1 200 OK\r\nContent-Type: application/json\r\nTransfer-Encoding: chunked\r\n\r\n");
            let _ = s.write_all(&payload);
            let _ = s.flush();
            let _ = s.shutdown(std::net::Shutdown::Both);
        }
    });
    (addr, h)
}

pub fn run_case(c: &Value) -> Value {
    let raw = json_bytes(&c["raw"]);
    if c["kind"] == "sock" {
        let (addr, h) = serve_once(raw);
        let out = guarded(move || {
            let src = GravitinoSource { base_url: format!("http://{addr}"), metalake: "m".into(), catalog: "c".into(), schema: "s".into() };
            match src.catalog_type() {
                Ok(t) => json!({"sock": format!("ok:{t}")}),
                Err(e) => {
                    let m = e.to_string();
                    let k = if m.contains("malformed chunked response") { "err:chunked" } else if m.contains("non-JSON") { "err:json" } else { "err:other" };
                    json!({"sock": k})
                }
            }
        });
        let _ = h.join();
        return out;
    }
    guarded(move || match verif_dechunk(&raw) {
        Some(b) => json!({"some": bytes_json(&b)}),
        None => json!({"none": true}),
    })
}

pub fn main(o: &Opts) {
    if let Some(p) = &o.replay { for c in replay_cases(p) { let i = run_case(&c); emit(c, i); } return; }
    let mut r = Rng::new(o.seed ^ 0xC41);
    for n in 0..o.cases {
        let c = match n % 20 { 0..=7 => enc(&mut r), 8..=13 => bad(&mut r), 14..=18 => junk(&mut r), _ => sock(&mut r) };
        let i = run_case(&c);
        emit(c, i);
    }
}
