// FAMILY: C11
//! C11: `enumerate_parquet` / `SplitSet::digest` / `target_split_bytes` on REAL Parquet files.
//! Case {"kind":"enum","id":..,"table":[u8],"nodes":N,
//!       "files":[{"name":[u8],"rows":[r0,r1,..] (rows per row group, 0 allowed),"pad":w,"seed":s,"junk":bool,
//!                 "rgs":[[num_rows,total_byte_size],..] | null   (derived: read back from the file's footer with the parquet crate)}],
//!       "views":[[file index,..],..]}   each view: the files in that order, every file under its own fresh directory
//! Impl {"views":[{"ok":{"table","splits":[{"t","f","rg","off","rows","bytes"}],"total_bytes","total_rows","target","digest":"<dec>"}}|{"err":kind}]}
//! Case {"kind":"target","total":u64,"nodes":usize} → Impl {"out":u64}
use crate::common::*;
use crate::rng::Rng;
use arrow::array::{ArrayRef, Int64Array, StringArray};
use arrow::datatypes::{DataType, Field, Schema};
use arrow::record_batch::RecordBatch;
use parquet::arrow::ArrowWriter;
use parquet::file::properties::WriterProperties;
use parquet::file::reader::{FileReader, SerializedFileReader};
use query_engine::distributed::enumerate_parquet;
use query_engine::distributed::splits::{target_split_bytes, SplitSet};
use serde_json::{json, Value};
use std::path::{Path, PathBuf};
use std::sync::Arc;

pub fn scratch() -> PathBuf {
    let p = PathBuf::from(std::env::var("IQE_SCRATCH").unwrap_or_else(|_| "/verif/harness/scratch/manual".into()));
    let _ = std::fs::create_dir_all(&p);
    p
}

pub fn table_schema() -> Arc<Schema> {
    Arc::new(Schema::new(vec![
        Field::new("k", DataType::Int64, false),
        Field::new("v", DataType::Int64, true),
        Field::new("w", DataType::Int64, false),
        Field::new("s", DataType::Utf8, true),
    ]))
}

/// Third integer column: same physical type as `k` and `v`, value range disjoint from both (`k` < 10^5, `v` in -3..12).
pub fn w_of(k: i64) -> i64 { 1_000_000 + 3 * k }

/// Deterministic content of row `i` (global row id `base + i`) of a file with `seed`.
pub fn row_values(seed: u64, k: i64, pad: usize) -> (i64, Option<i64>, Option<String>) {
    let mut r = Rng::new(seed ^ (k as u64).wrapping_mul(0x9E37));
    let v = if r.chance(1, 7) { None } else { Some(r.range(-3, 12)) };
    let s = if r.chance(1, 9) { None } else {
        let w = if pad == 0 { r.below(4) as usize } else { pad };
        Some(std::iter::repeat((b'a' + (r.below(26) as u8)) as char).take(w).collect())
    };
    (k, v, s)
}

/// Write one Parquet file: one row group per entry of `rows` (0 → an empty row group if the writer accepts it;
/// returns the number of row groups actually present). Row keys are `first_k, first_k+1, …`.
pub fn write_file(path: &Path, rows: &[u64], pad: usize, seed: u64, first_k: i64) -> Result<(), String> {
    if let Some(d) = path.parent() { std::fs::create_dir_all(d).map_err(|e| e.to_string())?; }
    let schema = table_schema();
    let props = WriterProperties::builder().set_max_row_group_size(1 << 20).build();
    let file = std::fs::File::create(path).map_err(|e| e.to_string())?;
    let mut w = ArrowWriter::try_new(file, schema.clone(), Some(props)).map_err(|e| e.to_string())?;
    let mut k = first_k;
    for &n in rows {
        if n == 0 {
            // an empty row group: close the column writers without writing
            let cws = w.get_column_writers().map_err(|e| e.to_string())?;
            let chunks = cws.into_iter().map(|c| c.close()).collect::<Result<Vec<_>, _>>().map_err(|e| e.to_string())?;
            w.append_row_group(chunks).map_err(|e| e.to_string())?;
            continue;
        }
        let mut ks = vec![]; let mut vs = vec![]; let mut ws = vec![]; let mut ss = vec![];
        for _ in 0..n { let (a, b, c) = row_values(seed, k, pad); ks.push(a); vs.push(b); ws.push(w_of(a)); ss.push(c); k += 1; }
        let arrays: Vec<ArrayRef> = vec![Arc::new(Int64Array::from(ks)), Arc::new(Int64Array::from(vs)), Arc::new(Int64Array::from(ws)), Arc::new(StringArray::from(ss))];
        let b = RecordBatch::try_new(schema.clone(), arrays).map_err(|e| e.to_string())?;
        w.write(&b).map_err(|e| e.to_string())?;
        w.flush().map_err(|e| e.to_string())?;
    }
    w.close().map_err(|e| e.to_string())?;
    Ok(())
}

/// Independent footer read (parquet crate, not the engine's metadata cache): [[num_rows, total_byte_size], …]
pub fn read_footer(path: &Path) -> Option<Value> {
    let r = SerializedFileReader::new(std::fs::File::open(path).ok()?).ok()?;
    let md = r.metadata();
    Some(Value::Array((0..md.num_row_groups()).map(|i| json!([md.row_group(i).num_rows(), md.row_group(i).total_byte_size()])).collect()))
}

pub fn s_of(v: &Value) -> String { String::from_utf8_lossy(&json_bytes(v)).into_owned() }

/// Materialise the master copy of every file of the case; fills the derived "rgs". Returns master paths.
pub fn materialise(c: &mut Value, root: &Path) -> Vec<PathBuf> {
    let mut out = vec![];
    let mut first_k: i64 = 0;
    let n = c["files"].as_array().map(|a| a.len()).unwrap_or(0);
    for i in 0..n {
        let f = c["files"][i].clone();
        let p = root.join("master").join(format!("m{i}")).join(s_of(&f["name"]));
        let rows: Vec<u64> = f["rows"].as_array().map(|a| a.iter().map(|x| x.as_u64().unwrap_or(0)).collect()).unwrap_or_default();
        if f["junk"].as_bool().unwrap_or(false) {
            let _ = std::fs::create_dir_all(p.parent().unwrap());
            let _ = std::fs::write(&p, b"PAR1 this is not a parquet footer");
        } else if let Err(e) = write_file(&p, &rows, f["pad"].as_u64().unwrap_or(0) as usize, f["seed"].as_u64().unwrap_or(0), first_k) {
            c["files"][i]["write_error"] = json!(e);
        }
        first_k += rows.iter().sum::<u64>() as i64;
        c["files"][i]["rgs"] = read_footer(&p).unwrap_or(Value::Null);
        out.push(p);
    }
    out
}

pub fn splitset_json(s: &SplitSet) -> Value {
    json!({"table": bytes_json(s.table.as_bytes()),
           "splits": s.splits.iter().map(|x| json!({"t": bytes_json(x.table.as_bytes()), "f": bytes_json(x.file.as_bytes()), "rg": x.row_group,
                                                     "off": x.row_offset, "rows": x.num_rows, "bytes": x.bytes})).collect::<Vec<_>>(),
           "total_bytes": s.total_bytes, "total_rows": s.total_rows, "target": s.target_split_bytes, "digest": s.digest().to_string()})
}

/// Place the files of view `v` (a permutation of file indices) each under its own directory and return the paths in view order.
pub fn place_view(c: &Value, masters: &[PathBuf], root: &Path, v: usize, order: &[usize]) -> Vec<PathBuf> {
    let mut paths = vec![];
    for (pos, &fi) in order.iter().enumerate() {
        let name = s_of(&c["files"][fi]["name"]);
        // directory names deliberately sort differently from the file names and differ per view
        let dir = root.join(format!("v{v}")).join(format!("{}-{}", ["zz", "aa", "mm", "0"][(v + pos) % 4], fi));
        let _ = std::fs::create_dir_all(&dir);
        let p = dir.join(&name);
        if std::fs::hard_link(&masters[fi], &p).is_err() { let _ = std::fs::copy(&masters[fi], &p); }
        paths.push(p);
    }
    paths
}

pub fn err_kind(e: &str) -> &'static str {
    if e.contains("cannot read parquet footer") { "footer" }
    else if e.contains("duplicate") || e.contains("same file name") { "duplicate_name" }
    else { "other" }
}

fn run_enum(c: &mut Value) -> Value {
    let root = scratch().join(format!("c11-{}", c["id"].as_u64().unwrap_or(0)));
    let _ = std::fs::remove_dir_all(&root);
    let masters = materialise(c, &root);
    let table = s_of(&c["table"]);
    let nodes = c["nodes"].as_u64().unwrap_or(1) as usize;
    let views: Vec<Vec<usize>> = c["views"].as_array().map(|a| a.iter().map(|v| v.as_array().map(|x| x.iter().map(|i| i.as_u64().unwrap_or(0) as usize).collect()).unwrap_or_default()).collect()).unwrap_or_default();
    let mut outs = vec![];
    for (v, order) in views.iter().enumerate() {
        let paths = place_view(c, &masters, &root, v, order);
        let t = table.clone();
        outs.push(guarded(move || match enumerate_parquet(&t, &paths, nodes) {
            Ok(s) => json!({"ok": splitset_json(&s)}),
            Err(e) => json!({"err": err_kind(&e.to_string())}),
        }));
    }
    let _ = std::fs::remove_dir_all(&root);
    json!({"views": outs})
}

pub fn run_case(c: &mut Value) -> Value {
    match c["kind"].as_str().unwrap_or("") {
        "enum" => run_enum(c),
        "target" => {
            let (t, n) = (c["total"].as_u64().unwrap_or(0), c["nodes"].as_u64().unwrap_or(0) as usize);
            guarded(move || json!({"out": target_split_bytes(t, n)}))
        }
        _ => json!({"bad_case": true}),
    }
}

pub fn gen_name(r: &mut Rng) -> String {
    let pool = ["a.parquet", "b.parquet", "part-0.parquet", "part-00.parquet", "part-1.parquet", "A.parquet", "a", "é.parquet", "データ.parquet",
                "a.parquet.bak", "x", "y.parquet", "00000-0-data.parquet", "B.PARQUET", "aa.parquet", "ab.parquet"];
    if r.chance(1, 5) { format!("f{}.parquet", r.below(1000)) } else { (*r.pick(&pool)).to_string() }
}

pub fn gen_rows(r: &mut Rng) -> Vec<u64> {
    let nrg = match r.below(10) { 0 => 0, 1..=4 => 1, 5..=7 => 1 + r.below(3), _ => 1 + r.below(7) };
    (0..nrg).map(|_| match r.below(12) { 0 => 0, 1 => 1, 2 => 2, 3..=7 => 1 + r.below(40), 8..=10 => 1 + r.below(400), _ => 1 + r.below(3000) }).collect()
}

/// A table layout: files (distinct names unless `dups`), 2..4 views (first = given order, others shuffled).
pub fn gen_enum(r: &mut Rng, id: u64, dups: bool, junk: bool) -> Value {
    let nf = match r.below(8) { 0 => 0, 1 | 2 => 1, 3..=5 => 2 + r.below(2), _ => 2 + r.below(5) } as usize;
    let mut names: Vec<String> = vec![];
    while names.len() < nf {
        let n = gen_name(r);
        if !names.contains(&n) { names.push(n); }
    }
    if dups && nf >= 2 {
        let k = 1 + r.below(2) as usize;
        for _ in 0..k { let (i, j) = (r.below(nf as u64) as usize, r.below(nf as u64) as usize); if i != j { names[i] = names[j].clone(); } }
        if names.iter().collect::<std::collections::HashSet<_>>().len() == nf { names[1] = names[0].clone(); }
    }
    let same_layout = dups && r.chance(1, 4);
    let shared_rows = gen_rows(r);
    let files: Vec<Value> = names.iter().map(|n| {
        let rows = if same_layout { shared_rows.clone() } else { gen_rows(r) };
        let pad = *r.pick(&[0u64, 0, 0, 8, 64, 700]);
        json!({"name": bytes_json(n.as_bytes()), "rows": rows, "pad": pad, "seed": r.below(1 << 30), "junk": junk && r.chance(1, 3)})
    }).collect();
    let nodes = match r.below(10) { 0 => 0, 1 => 1, 2 => 64, 3..=6 => 2 + r.below(7), _ => 1 + r.below(64) };
    let ident: Vec<usize> = (0..nf).collect();
    let mut views = vec![ident.clone()];
    for _ in 0..(1 + r.below(3)) { let mut p = ident.clone(); r.shuffle(&mut p); views.push(p); }
    if nf >= 2 { let mut p = ident.clone(); p.reverse(); views.push(p); }
    let table = *r.pick(&["t", "lineitem", "T", "tä"]);
    json!({"kind": "enum", "id": id, "table": bytes_json(table.as_bytes()), "nodes": nodes, "files": files, "views": views})
}

fn gen_target(r: &mut Rng) -> Value {
    let b = [0u64, 1, 2, 31, 32, 33, 63, 64, 65, 4 << 20, (4 << 20) - 1, (4 << 20) + 1, 64 << 20, (64 << 20) + 1, 1 << 40, (1 << 40) + 1, u64::MAX / 2, u64::MAX - 1, u64::MAX];
    let total = match r.below(4) { 0 => *r.pick(&b), 1 => r.below(1 << 12), 2 => (*r.pick(&b)).wrapping_mul(r.below(70)).wrapping_add(r.below(3)), _ => r.next() >> r.below(64) };
    let nodes = match r.below(5) { 0 => *r.pick(&[0u64, 1, 2, 3, 64, 65, 1 << 20, 1 << 58, (1 << 59) - 1]), _ => r.below(66) };
    // the un-clamped region: ideal = total / (32·nodes) strictly between the 4 MiB floor and the 64 MiB cap
    let total = if r.chance(1, 3) && nodes >= 1 && nodes <= 64 { (32 * nodes).saturating_mul((4u64 << 20) + r.below(61 << 20)).saturating_add(r.below(32 * nodes)) } else { total };
    json!({"kind": "target", "total": total, "nodes": nodes})
}

pub fn main(o: &Opts) {
    if let Some(p) = &o.replay { for mut c in replay_cases(p) { let i = run_case(&mut c); emit(c, i); } return; }
    let mut r = Rng::new(o.seed ^ 0xC11);
    for n in 0..o.cases {
        let mut c = match n % 10 {
            0..=5 => gen_enum(&mut r, n as u64, false, false),
            6 => gen_enum(&mut r, n as u64, true, false),
            7 => gen_enum(&mut r, n as u64, false, true),
            _ => gen_target(&mut r),
        };
        let i = run_case(&mut c);
        emit(c, i);
    }
}
