// FAMILY: C38
//! C38: physical::vector::{distance_column, distance_columns} on FixedSizeList columns.
//! Case: {"fn":"column"|"columns","kind":"l2|cosine|cosine_similarity|dot","stream":"int"|"float",
//!        "a":COL, "query":[v..] | "b":COL}
//! COL = {"dim":d,"elem":"f32"|"f64"|"i32","list":bool,"rows":[[valid,[v..d]],..],"pre":n,"post":m}: the column is the slice
//! [pre, pre+rows) of a longer FixedSizeList array (padding rows hold junk, some NULL); the values of a NULL row are kept.
//! v: stream "int" → small integers (every f32 product / lane sum is exact); stream "float" → f32 bit patterns (u32).
//! Impl: {"ok":[[1,f64 bits]|[0,null],..]} | {"err":"dim|notvec|notfloat|short|other"} | {"panic":..}
use crate::common::*;
use crate::rng::Rng;
use arrow::array::*;
use arrow::buffer::NullBuffer;
use arrow::datatypes::{DataType, Field};
use query_engine::physical::vector::{distance_column, distance_columns, DistanceKind};
use serde_json::{json, Value};
use std::sync::Arc;

fn val_f32(stream: &str, v: &Value) -> f32 {
    if stream == "float" { f32::from_bits(v.as_u64().unwrap_or(0) as u32) } else { v.as_i64().unwrap_or(0) as f32 }
}

fn build(stream: &str, c: &Value) -> ArrayRef {
    let dim = c["dim"].as_u64().unwrap_or(1) as usize;
    let pre = c["pre"].as_u64().unwrap_or(0) as usize;
    let post = c["post"].as_u64().unwrap_or(0) as usize;
    let elem = c["elem"].as_str().unwrap_or("f32");
    let empty = vec![];
    let rows = c["rows"].as_array().unwrap_or(&empty);
    let mut flat: Vec<f32> = vec![];
    let mut valid: Vec<bool> = vec![];
    for k in 0..pre { valid.push(k % 2 == 0); flat.extend((0..dim).map(|j| ((k + j) % 5) as f32 + 7.0)); }
    for r in rows {
        valid.push(r[0].as_u64() == Some(1));
        let vs = r[1].as_array().unwrap_or(&empty);
        flat.extend((0..dim).map(|j| vs.get(j).map(|v| val_f32(stream, v)).unwrap_or(0.0)));
    }
    for k in 0..post { valid.push(k % 2 == 1); flat.extend((0..dim).map(|j| ((k * 3 + j) % 4) as f32 - 9.0)); }
    if c["list"].as_bool() == Some(false) {
        return Arc::new(Float32Array::from(flat));
    }
    let (child, dt): (ArrayRef, DataType) = match elem {
        "f64" => (Arc::new(Float64Array::from(flat.iter().map(|v| *v as f64).collect::<Vec<_>>())), DataType::Float64),
        "i32" => (Arc::new(Int32Array::from(flat.iter().map(|v| *v as i32).collect::<Vec<_>>())), DataType::Int32),
        _ => (Arc::new(Float32Array::from(flat)), DataType::Float32),
    };
    let nulls = if valid.iter().all(|v| *v) { None } else { Some(NullBuffer::from(valid)) };
    let full: ArrayRef = Arc::new(FixedSizeListArray::new(Arc::new(Field::new("item", dt, true)), dim as i32, child, nulls));
    full.slice(pre, rows.len())
}

fn err_kind(m: &str) -> &'static str {
    if m.contains("dimension mismatch") { "dim" }
    else if m.contains("requires a fixed-size vector column") || m.contains("requires Float32 vector columns") { "notvec" }
    else if m.contains("requires float elements") { "notfloat" }
    else if m.contains("buffer holds") { "short" } else { "other" }
}

pub fn run_case(c: &Value) -> Value {
    let c = c.clone();
    guarded(std::panic::AssertUnwindSafe(move || {
        let stream = c["stream"].as_str().unwrap_or("int");
        let kind = match c["kind"].as_str().unwrap_or("") {
            "l2" => DistanceKind::L2, "cosine" => DistanceKind::Cosine, "cosine_similarity" => DistanceKind::CosineSimilarity, _ => DistanceKind::Dot };
        let a = build(stream, &c["a"]);
        let res = if c["fn"].as_str() == Some("columns") {
            let b = build(stream, &c["b"]);
            distance_columns(&a, &b, kind)
        } else {
            let q: Vec<f32> = c["query"].as_array().map(|q| q.iter().map(|v| val_f32(stream, v)).collect()).unwrap_or_default();
            distance_column(&a, &q, kind, "v")
        };
        match res {
            Err(e) => json!({"err": err_kind(&e.to_string())}),
            Ok(arr) => match arr.as_any().downcast_ref::<Float64Array>() {
                None => json!({"unexpected_type": format!("{:?}", arr.data_type())}),
                Some(f) => json!({"ok": (0..f.len()).map(|i| if f.is_null(i) { json!([0, null]) } else { json!([1, f.value(i).to_bits()]) }).collect::<Vec<_>>()}),
            },
        }
    }))
}

// ---------------------------------------------------------------- generators
fn gen_dim(r: &mut Rng) -> usize {
    match r.below(10) {
        0 => 1, 1 => 1 + r.below(7) as usize, 2 => 8, 3 => 9 + r.below(7) as usize, 4 => 16, 5 => *r.pick(&[7usize, 15, 17, 24, 31, 32, 33]),
        6 => 64 + r.below(64) as usize, 7 => *r.pick(&[128usize, 256, 384, 512, 768, 1023, 1024]), _ => 1 + r.below(1024) as usize,
    }
}

fn gen_vec(r: &mut Rng, stream: &str, dim: usize, mode: u64) -> Vec<Value> {
    // mode: 0 zero vector, 1 unit-ish sparse, 2 small ints, 3 wider ints
    (0..dim).map(|_| {
        if stream == "float" {
            let x = match mode { 0 => 0.0f32, 1 => if r.chance(1, 6) { 1.0 } else { 0.0 }, _ => ((r.below(2_000_001) as f32) / 1_000_000.0 - 1.0) * if mode == 3 { 50.0 } else { 1.0 } };
            json!(x.to_bits())
        } else {
            json!(match mode { 0 => 0, 1 => if r.chance(1, 6) { 1 } else { 0 }, 2 => r.range(-3, 3), _ => r.range(-8, 8) })
        }
    }).collect()
}

fn gen_col(r: &mut Rng, stream: &str, dim: usize, nrows: usize, elem: &str) -> Value {
    let nullp = r.below(4); // 0,1: none; 2: sparse; 3: half
    let rows: Vec<Value> = (0..nrows).map(|_| {
        let valid = match nullp { 0 | 1 => true, 2 => !r.chance(1, 6), _ => r.chance(1, 2) };
        let mode = if r.chance(1, 10) { 0 } else { 1 + r.below(3) };
        json!([valid as u64, gen_vec(r, stream, dim, mode)])
    }).collect();
    let pre = if r.chance(1, 2) { 0 } else { 1 + r.below(4) };
    let post = if r.chance(1, 2) { 0 } else { r.below(3) };
    json!({"dim": dim, "elem": elem, "list": true, "rows": rows, "pre": pre, "post": post})
}

fn gen_case(r: &mut Rng, n: usize) -> Value {
    let stream = if n % 5 == 4 { "float" } else { "int" };
    let kind = *r.pick(&["l2", "cosine", "cosine_similarity", "dot"]);
    let dim = gen_dim(r);
    let nrows = if dim > 256 { r.below(4) as usize } else { r.below(9) as usize };
    let columns = r.chance(2, 5);
    let malformed = r.below(12);
    if columns {
        let mut a = gen_col(r, stream, dim, nrows, "f32");
        let nb = if r.chance(1, 10) { r.below(9) as usize } else { nrows };
        let dimb = if malformed == 0 { if dim > 1 && r.chance(1, 2) { dim - 1 } else { dim + 1 + r.below(8) as usize } } else { dim };
        let mut b = gen_col(r, stream, dimb, nb, "f32");
        if malformed == 1 { b["elem"] = json!("f64"); }
        if malformed == 2 { a["list"] = json!(false); }
        json!({"fn":"columns","kind":kind,"stream":stream,"a":a,"b":b})
    } else {
        let elem = if stream == "int" && r.chance(1, 8) { "f64" } else if malformed == 1 { "i32" } else { "f32" };
        let mut a = gen_col(r, if elem == "i32" { "int" } else { stream }, dim, nrows, elem);
        let stream = if elem == "i32" { "int" } else { stream };
        if malformed == 2 { a["list"] = json!(false); }
        let qdim = if malformed == 0 { if dim > 1 && r.chance(1, 2) { dim - 1 } else { dim + 1 + r.below(8) as usize } } else { dim };
        let qmode = if r.chance(1, 10) { 0 } else { 1 + r.below(3) };
        let q = gen_vec(r, stream, qdim, qmode);
        json!({"fn":"column","kind":kind,"stream":stream,"a":a,"query":q})
    }
}

pub fn main(o: &Opts) {
    if let Some(p) = &o.replay { for c in replay_cases(p) { let i = run_case(&c); emit(c, i); } return; }
    let mut r = Rng::new(o.seed ^ 0xC38);
    for n in 0..o.cases {
        let c = gen_case(&mut r, n);
        let i = run_case(&c);
        emit(c, i);
    }
}
