// FAMILY: C21
//! C21 — aggregates follow SQL NULL and empty-input rules on every path.
//! Focused generator (not the generic sqlgen one): one table t0(id0, k0, j0, x0, y0) with chosen key / value types and
//! NULL densities (0/10/50/100 %), planted all-NULL groups, empty inputs; statements
//!     SELECT [k0[, j0],] agg… FROM t0 [WHERE …] [GROUP BY k0[, j0]]      agg ∈ COUNT(*) COUNT SUM AVG MIN MAX COUNT(DISTINCT) SUM(DISTINCT)
//!     SELECT DISTINCT k0[, j0] FROM t0 / SELECT k0 FROM t0 GROUP BY k0   (empty aggregate list)
//! run through ExecutionContext::sql over single-batch / multi-batch memory tables, Parquet (1–3 files, small row groups:
//! MorselAggregateExec incl. dense-direct) and a tiny memory limit (SpillableHashAggregateExec).  The aggregation path of
//! every case is recorded from `ctx.physical_plan(sql)` (operator names) plus the operator's own run-time choice rule
//! (tags `path:*`, `op:*`).  Case / impl JSON are the sqlgen formats (mode spec), so the Lean side is Driver.SQL's
//! machinery plus the C21 engine model (lean/Driver/C21.lean).
use crate::common::*;
use crate::fams::fam_sql::sqlgen::ast::*;
use crate::fams::fam_sql::sqlgen::catalog::{small_value, Catalog, ColSpec, TableSpec};
use crate::fams::fam_sql::sqlgen::driver::{make_case, run_case};
use crate::fams::fam_sql::sqlgen::exec::{scratch_dir, ExecCfg, Layout};
use crate::fams::fam_sql::sqlgen::{ColTy, Ty, Val};
use crate::rng::Rng;
use query_engine::physical::PhysicalOperator;
use query_engine::physical::operators::{MemoryTable, TableProvider};
use query_engine::{ExecutionContext, ParquetTable};
use serde_json::{json, Value};
use std::sync::Arc;

thread_local! { static QUALIFY: std::cell::Cell<bool> = std::cell::Cell::new(false); }
/// column reference; spelled `t0.x0` only when the case asks for qualified names (that spelling trips C21-F10 over Parquet)
fn col(i: usize, name: &str) -> Expr { Expr::Col { i, sql: if QUALIFY.with(|q| q.get()) { format!("t0.{}", name) } else { name.to_string() } } }

/// operator names of the physical plan, pre-order (empty on any failure; never panics)
pub fn plan_ops(cat: &Catalog, sql: &str, cfg: &ExecCfg) -> Vec<String> {
    let cat2 = Catalog { tables: cat.tables.iter().map(|t| TableSpec { cluster: None, name: t.name.clone(), cols: t.cols.iter().map(|c| ColSpec { name: c.name.clone(), cty: c.cty, null_pct: c.null_pct, boundary: c.boundary, special: c.special, unique: c.unique }).collect(), rows: t.rows.clone(), cuts: t.cuts.clone() }).collect() };
    let sql = sql.to_string();
    let cfg = cfg.clone();
    let r = std::panic::catch_unwind(move || -> Vec<String> {
        let mut ctx = match cfg.mem_limit { Some(n) => ExecutionContext::with_memory_limit(n), None => ExecutionContext::new() };
        let mut dir: Option<std::path::PathBuf> = None;
        for t in &cat2.tables {
            let p: Arc<dyn TableProvider> = match &cfg.layout {
                Layout::MemSingle => Arc::new(MemoryTable::new(t.schema(), t.single_batch())),
                Layout::MemBatches => Arc::new(MemoryTable::new(t.schema(), t.batches())),
                Layout::MemClustered => Arc::new(MemoryTable::new(t.schema(), t.clustered_batches())),
                Layout::Parquet { files, rg } => {
                    if dir.is_none() { dir = Some(scratch_dir()); }
                    let d = dir.as_ref().unwrap().join(&t.name);
                    if std::fs::create_dir_all(&d).is_err() { return vec![]; }
                    let nf = (*files).max(1); let n = t.rows.len();
                    for f in 0..nf {
                        let lo = n * f / nf; let hi = n * (f + 1) / nf;
                        if lo == hi && f > 0 { continue; }
                        let batch = t.batch_of(&t.rows[lo..hi]);
                        let file = match std::fs::File::create(d.join(format!("part-{:03}.parquet", f))) { Ok(f) => f, Err(_) => return vec![] };
                        let props = parquet::file::properties::WriterProperties::builder().set_max_row_group_row_count(Some((*rg).max(1))).build();
                        let mut w = match parquet::arrow::ArrowWriter::try_new(file, t.schema(), Some(props)) { Ok(w) => w, Err(_) => return vec![] };
                        if w.write(&batch).is_err() { return vec![]; }
                        if w.close().is_err() { return vec![]; }
                    }
                    match ParquetTable::try_new(&d) { Ok(pt) => Arc::new(pt), Err(_) => return vec![] }
                }
            };
            ctx.register_table_provider(t.name.clone(), p);
        }
        let mut out = vec![];
        if let Ok(plan) = ctx.physical_plan(&sql) {
            fn walk(p: &Arc<dyn PhysicalOperator>, out: &mut Vec<String>, depth: usize) {
                if depth > 40 { return; }
                out.push(p.name().to_string());
                for c in p.children() { walk(&c, out, depth + 1); }
            }
            walk(&plan, &mut out, 0);
        }
        if let Some(d) = dir { let _ = std::fs::remove_dir_all(d); }
        out
    });
    r.unwrap_or_default()
}

/// what `rayon::current_num_threads()` is inside the engine's global pool (the harness itself does not link rayon)
fn rayon_threads() -> usize {
    std::env::var("RAYON_NUM_THREADS").ok().and_then(|s| s.parse::<usize>().ok()).filter(|n| *n > 0)
        .unwrap_or_else(|| std::thread::available_parallelism().map(|n| n.get()).unwrap_or(1))
}

struct Shape { nkeys: usize, aggs: Vec<(AggFn, bool)>, distinct_select: bool, where_kind: &'static str }

fn gen_table(r: &mut Rng, size_classes: &[String]) -> (TableSpec, String) {
    let kty = *r.pick(&[ColTy::I64, ColTy::I64, ColTy::I32, ColTy::Str, ColTy::Date]);
    let jty = *r.pick(&[ColTy::I64, ColTy::Str, ColTy::I32]);
    let xty = *r.pick(&[ColTy::I64, ColTy::I64, ColTy::F64, ColTy::F64, ColTy::Str, ColTy::Date, ColTy::I32]);
    let yty = *r.pick(&[ColTy::I64, ColTy::F64]);
    let knull = *r.pick(&[0u8, 0, 10, 50, 50, 100]);
    let jnull = *r.pick(&[0u8, 10, 50, 100]);
    let xnull = *r.pick(&[0u8, 10, 50, 50, 100]);
    let ynull = *r.pick(&[0u8, 10, 50]);
    let mk = |n: &str, cty, null_pct, unique| ColSpec { name: n.into(), cty, null_pct, boundary: false, special: false, unique };
    let cols = vec![mk("id0", ColTy::I64, 0, true), mk("k0", kty, knull, false), mk("j0", jty, jnull, false), mk("x0", xty, xnull, false), mk("y0", yty, ynull, false)];
    let class = r.pick(size_classes).clone();
    let n = match class.as_str() {
        "tiny" => if r.chance(1, 5) { 0 } else { 1 + r.below(8) as usize },
        "small" => 4 + r.below(57) as usize,
        "mid" => 60 + r.below(400) as usize,
        "big" => 1000 + r.below(2500) as usize,
        "huge" => 100_500 + r.below(3000) as usize,
        s => s.parse().unwrap_or(10),
    };
    let kdom = *r.pick(&[2u64, 3, 4, 6]); let jdom = *r.pick(&[2u64, 3]); let xdom = *r.pick(&[3u64, 6, 8]);
    let mut ids: Vec<i64> = (0..n as i64).collect(); r.shuffle(&mut ids);
    let mut rows: Vec<Vec<Val>> = Vec::with_capacity(n);
    let nv = |r: &mut Rng, pct: u8, cty: ColTy, dom: u64| if r.below(100) < pct as u64 { Val::Null } else { small_value(r, cty, dom) };
    for i in 0..n {
        rows.push(vec![Val::I(ids[i]), nv(r, knull, kty, kdom), nv(r, jnull, jty, jdom), nv(r, xnull, xty, xdom), nv(r, ynull, yty, 6)]);
    }
    // plant an all-NULL group: every row of one key value (or of the NULL key) gets x0 = NULL
    let mut planted = false;
    if n > 0 && r.chance(1, 3) {
        let victim = rows[r.below(n as u64) as usize][1].clone();
        for row in rows.iter_mut() { if row[1] == victim { row[3] = Val::Null; } }
        planted = true;
    }
    let cuts = if n == 0 { if r.chance(1, 2) { vec![] } else { vec![0] } }
        else if class == "big" || class == "huge" { let k = 2 + r.below(5) as usize; let base = n / k; let mut v = vec![base; k]; v[k - 1] += n - base * k; v }
        else { let k = 1 + r.below(4.min(n as u64)) as usize; let base = n / k; let mut v = vec![base; k]; v[k - 1] += n - base * k; v };
    let desc = format!("size:{} knull:{} jnull:{} xnull:{} kty:{} xty:{}{}", class, knull, jnull, xnull, kty.name(), xty.name(), if planted { " planted" } else { "" });
    (TableSpec { cluster: None, name: "t0".into(), cols, rows, cuts }, desc)
}

/// the PARALLEL partial-state stratum: an in-memory table cut into 5–12 batches whose aggregated column x0 is NULL in whole
/// batches (start / end / middle / alternating), so that `aggregate_batches_parallel` (hash_agg.rs 1187: > 4 batches, one
/// partial hash table per chunk of batches, `merge_accumulator_states`) meets partial states that saw no value at all
fn gen_table_par(r: &mut Rng, huge: bool) -> (TableSpec, String) {
    let kty = *r.pick(&[ColTy::I64, ColTy::Str, ColTy::Date]);
    let jty = *r.pick(&[ColTy::I64, ColTy::Str]);
    let xty = *r.pick(&[ColTy::I64, ColTy::I64, ColTy::Date, ColTy::F64, ColTy::Str]);
    let knull = *r.pick(&[0u8, 0, 10, 50]);
    let mk = |n: &str, cty, null_pct, unique| ColSpec { name: n.into(), cty, null_pct, boundary: false, special: false, unique };
    let cols = vec![mk("id0", ColTy::I64, 0, true), mk("k0", kty, knull, false), mk("j0", jty, 10, false), mk("x0", xty, 50, false), mk("y0", ColTy::I64, 0, false)];
    let k = if huge { 6 + r.below(4) as usize } else { 5 + r.below(8) as usize };          // number of batches
    let per = if huge { 8400 + r.below(300) as usize } else { 2 + r.below(12) as usize };   // rows per batch
    let n = k * per;
    let pattern = *r.pick(&["start", "end", "middle", "alt", "one_live", "none"]);
    let a = 1 + r.below((k - 1) as u64) as usize; // how many batches the pattern covers
    let null_batch = |b: usize| -> bool { match pattern {
        "start" => b < a, "end" => b >= k - a, "middle" => b >= (k - a) / 2 && b < (k - a) / 2 + a, "alt" => b % 2 == 0, "one_live" => b != a % k, _ => false } };
    let kdom = *r.pick(&[2u64, 3, 4]); let xdom = *r.pick(&[3u64, 6, 8]);
    let mut ids: Vec<i64> = (0..n as i64).collect(); r.shuffle(&mut ids);
    let mut rows: Vec<Vec<Val>> = Vec::with_capacity(n);
    for i in 0..n {
        let b = i / per;
        let kv = if r.below(100) < knull as u64 { Val::Null } else { small_value(r, kty, kdom) };
        let jv = if r.below(100) < 10 { Val::Null } else { small_value(r, jty, 2) };
        let xv = if null_batch(b) || r.below(100) < 15 { Val::Null } else { small_value(r, xty, xdom) };
        rows.push(vec![Val::I(ids[i]), kv, jv, xv, small_value(r, ColTy::I64, 6)]);
    }
    let desc = format!("size:{} par:{} knull:{} xnull:batches kty:{} xty:{}", if huge { "huge" } else { "par" }, pattern, knull, kty.name(), xty.name());
    (TableSpec { cluster: None, name: "t0".into(), cols, rows, cuts: vec![per; k] }, desc)
}

/// statements that HashAggregateExec cannot vectorize / stream: global aggregates, or GROUP BY carrying a DISTINCT aggregate
fn gen_shape_par(r: &mut Rng, xty: ColTy) -> Shape {
    let numeric = matches!(xty, ColTy::I64 | ColTy::I32 | ColTy::F64);
    let mut pool: Vec<(AggFn, bool)> = vec![(AggFn::CountStar, false), (AggFn::Count, false), (AggFn::Min, false), (AggFn::Min, false), (AggFn::Max, false), (AggFn::Max, false)];
    if numeric { pool.push((AggFn::Sum, false)); pool.push((AggFn::Avg, false)); }
    let nkeys = *r.pick(&[0usize, 0, 0, 1, 1, 2]);
    let mut aggs: Vec<(AggFn, bool)> = vec![];
    if nkeys > 0 { aggs.push((AggFn::Count, true)); }
    let na = 1 + r.below(3) as usize;
    for _ in 0..na { let a = *r.pick(&pool); if !aggs.contains(&a) { aggs.push(a); } }
    if nkeys == 0 && aggs.len() == 1 && r.chance(1, 2) { aggs.push((AggFn::CountStar, false)); aggs.dedup(); }
    Shape { nkeys, aggs, distinct_select: false, where_kind: *r.pick(&["none", "none", "none", "x_notnull", "keq"]) }
}

fn gen_shape(r: &mut Rng, xty: ColTy, allow_distinct: bool) -> Shape {
    let kind = r.below(10);
    if kind == 0 { return Shape { nkeys: 1 + r.below(2) as usize, aggs: vec![], distinct_select: true, where_kind: *r.pick(&["none", "none", "k_null"]) }; }
    if kind == 1 { return Shape { nkeys: 1 + r.below(2) as usize, aggs: vec![], distinct_select: false, where_kind: *r.pick(&["none", "none", "k_null"]) }; }
    let nkeys = *r.pick(&[0usize, 0, 1, 1, 1, 2, 2]);
    let numeric = matches!(xty, ColTy::I64 | ColTy::I32 | ColTy::F64);
    let mut pool: Vec<(AggFn, bool)> = vec![(AggFn::CountStar, false), (AggFn::Count, false), (AggFn::Min, false), (AggFn::Max, false)];
    if numeric { pool.push((AggFn::Sum, false)); pool.push((AggFn::Sum, false)); pool.push((AggFn::Avg, false)); }
    if allow_distinct { pool.push((AggFn::Count, true)); if matches!(xty, ColTy::I64 | ColTy::F64) { pool.push((AggFn::Sum, true)); } }
    let na = 1 + r.below(3) as usize;
    let mut aggs: Vec<(AggFn, bool)> = vec![];
    for _ in 0..na { let a = *r.pick(&pool); if !aggs.contains(&a) { aggs.push(a); } }
    Shape { nkeys, aggs, distinct_select: false, where_kind: *r.pick(&["none", "none", "none", "x_null", "k_null", "empty", "keq", "x_notnull"]) }
}

fn build_query(t: &TableSpec, sh: &Shape) -> QueryExpr {
    let from = Rel::Table { t: 0, name: "t0".into(), alias: "t0".into() };
    let where_ = match sh.where_kind {
        "x_null" => Some(Expr::Un(UnOp::IsNull, Box::new(col(3, "x0")))),
        "x_notnull" => Some(Expr::Un(UnOp::IsNotNull, Box::new(col(3, "x0")))),
        "k_null" => Some(Expr::Un(UnOp::IsNull, Box::new(col(1, "k0")))),
        "empty" => Some(Expr::Bin(BinOp::Lt, Box::new(col(0, "id0")), Box::new(Expr::Lit(Val::I(0), Ty::Int)))),
        "keq" => { let v = t.rows.iter().map(|r| r[1].clone()).find(|v| !v.is_null());
                   v.map(|v| Expr::Bin(BinOp::Eq, Box::new(col(1, "k0")), Box::new(Expr::Lit(v, t.cols[1].cty.ty())))) }
        _ => None,
    };
    let key_cols: Vec<(usize, &str)> = [(1usize, "k0"), (2usize, "j0")].iter().take(sh.nkeys).cloned().collect();
    if sh.distinct_select {
        let proj = key_cols.iter().enumerate().map(|(n, (i, nm))| (col(*i, nm), format!("o{}", n))).collect();
        return QueryExpr::of(Body::Select(Box::new(Select { from: Some(from), where_, group: None, having: None, proj, distinct: true })));
    }
    let keys: Vec<Expr> = key_cols.iter().map(|(i, nm)| col(*i, nm)).collect();
    let aggs: Vec<AggCall> = sh.aggs.iter().map(|(f, d)| match f {
        AggFn::CountStar => AggCall { f: AggFn::CountStar, arg: None, distinct: false },
        f => AggCall { f: *f, arg: Some(col(3, "x0")), distinct: *d },
    }).collect();
    // project every key and every aggregate, in order (output column spelling = the SQL of the key / call)
    let mut proj: Vec<(Expr, String)> = vec![];
    for (n, k) in keys.iter().enumerate() { proj.push((Expr::Col { i: n, sql: k.sql() }, format!("o{}", n))); }
    for (n, a) in aggs.iter().enumerate() { proj.push((Expr::Col { i: keys.len() + n, sql: a.sql() }, format!("o{}", keys.len() + n))); }
    QueryExpr::of(Body::Select(Box::new(Select { from: Some(from), where_, group: Some(Group { keys, aggs, sets: None }), having: None, proj, distinct: false })))
}

/// the operator's own run-time choice (hash_agg.rs `aggregate_batches_parallel` / `aggregate_batches`,
/// operators/morsel_agg.rs `try_execute_dense_direct`), replayed from the case shape
fn sub_path(top: &str, t: &TableSpec, sh: &Shape, cfg: &ExecCfg, nrows_after_where_unknown: bool) -> String {
    let has_distinct = sh.aggs.iter().any(|a| a.1);
    let nb = match cfg.layout { Layout::MemSingle => 1, Layout::MemBatches => t.cuts.len().max(1), _ => 1 };
    if top.contains("Morsel") {
        let kty = t.cols[1].cty;
        let dense_fns = sh.aggs.iter().all(|(f, d)| !*d && matches!(f, AggFn::CountStar | AggFn::Count | AggFn::Sum | AggFn::Avg))
            && sh.aggs.iter().all(|(f, _)| match f { AggFn::Sum => matches!(t.cols[3].cty, ColTy::I64 | ColTy::F64), AggFn::Avg => t.cols[3].cty == ColTy::F64, _ => true });
        if sh.nkeys == 1 && !sh.distinct_select && matches!(kty, ColTy::I64 | ColTy::I32 | ColTy::Date) && dense_fns { return "raw".into(); }
        return "morsel".into();
    }
    if top.contains("HashAggregate") || top.contains("Spillable") {
        // SpillableHashAggregateExec::fused_streaming_eligible: grouped, non-DISTINCT COUNT/SUM/MIN/MAX/AVG run on the morsel
        // AggregationState (perfect-hash / raw-key maps) even over memory tables
        if top.contains("Spillable") && sh.nkeys > 0 && !has_distinct && !sh.aggs.is_empty() && cfg.mem_limit.is_none() { return "morsel".into(); }
        let _ = nrows_after_where_unknown;
        // HashAggregateExec::execute: > 4 collected batches (or > 50 000 rows) -> aggregate_batches_parallel; not vectorizable
        // (global, or DISTINCT present) and >= 2 threads -> one partial hash table per chunk of batches, then merge
        let threads = rayon_threads();
        let vectorizable = sh.nkeys > 0 && !has_distinct;
        if !vectorizable && cfg.mem_limit.is_none() && threads >= 2 && !(sh.nkeys == 0 && nb == 1 && sh.aggs.len() == 1 && !has_distinct) {
            if nb > 4 && t.rows.len() <= 50_000 { return "parallel".into(); }
            if t.rows.len() > 50_000 { return "parallel_split".into(); }
        }
        if sh.nkeys == 0 && nb == 1 && sh.aggs.len() == 1 && !has_distinct { return "scalar".into(); }
        if sh.nkeys > 0 && !has_distinct && !sh.aggs.is_empty() { return if t.rows.len() > 100_000 { "morsel".into() } else { "vectorized".into() }; }
        return "hash".into();
    }
    "other".into()
}

fn gen_case(r: &mut Rng, n: usize, o: &Opts) -> (Value, Value) {
    let sizes: Vec<String> = o.get("sizes").unwrap_or("tiny,small,small,small,mid").split(',').map(|s| s.to_string()).collect();
    let cfg_names: Vec<&str> = o.get("cfgs").unwrap_or("mem1,memb,memb,pq1x16,pq2x7,pq3x50,memb+lim200000").split(',').collect();
    // one case in five belongs to the parallel partial-state stratum (`--opt par=0` switches it off, `par=1` makes it the only one)
    let par = match o.get_usize("par", 2) { 0 => false, 1 => true, _ => n % 5 == 3 };
    let huge_par = par && sizes.iter().any(|s| s == "huge") && r.chance(1, 40);
    let (t, desc) = if par { gen_table_par(r, huge_par) } else { gen_table(r, &sizes) };
    let allow_distinct = o.get_usize("distinct", 1) == 1;
    let sh = if par { gen_shape_par(r, t.cols[3].cty) } else { gen_shape(r, t.cols[3].cty, allow_distinct) };
    // GROUP BY two keys over Parquet: the optimizer's GroupKeyReduction (unique key inferred from an ndv estimate) is C03's
    // finding, not an aggregation-path defect — take that rule out
    let mut cfg_name = if par { "memb".to_string() } else { cfg_names[n % cfg_names.len()].to_string() };
    if cfg_name.starts_with("pq") && sh.nkeys >= 2 { cfg_name += "+without:GroupKeyReduction"; }
    let cfg = ExecCfg::parse(&cfg_name).unwrap_or_else(ExecCfg::mem_batches);
    let qualified = r.chance(1, 6);
    QUALIFY.with(|q| q.set(qualified));
    let q = build_query(&t, &sh);
    QUALIFY.with(|q| q.set(false));
    let cat = Catalog { tables: vec![t] };
    let t = &cat.tables[0];
    let sql = q.sql();
    let ops = plan_ops(&cat, &sql, &cfg);
    let top = ops.iter().find(|n| n.contains("Aggregate") || n.contains("Distinct")).cloned().unwrap_or_else(|| ops.first().cloned().unwrap_or_else(|| "none".into()));
    let path = sub_path(&top, t, &sh, &cfg, sh.where_kind != "none");
    let mut tags: Vec<String> = vec![];
    tags.push(format!("s:{}", if sh.distinct_select { "distinct" } else if sh.aggs.is_empty() { "group_noagg" } else if sh.nkeys == 0 { "global" } else if sh.nkeys == 1 { "group1" } else { "group2" }));
    tags.push(format!("where:{}", sh.where_kind));
    tags.push(format!("op:{}", top));
    tags.push(format!("path:{}", path));
    tags.push(format!("cfg:{}{}", if cfg.name.starts_with("pq") { "pq" } else if cfg.name.starts_with("mem1") { "mem1" } else { "memb" }, if cfg.mem_limit.is_some() { "+lim" } else { "" }));
    for (f, d) in &sh.aggs { tags.push(format!("agg:{}{}:{}", f.json(), if *d { "_distinct" } else { "" }, t.cols[3].cty.name())); }
    for w in desc.split(' ') { tags.push(w.to_string()); }
    if t.rows.is_empty() { tags.push("empty_table".into()); }
    if qualified { tags.push("f:qualified".into()); }
    let mut case = make_case("C21", &cat, &q, &tags, false, &[cfg], false);
    case["c21"] = json!({"path": path, "op": top, "ops": ops, "nkeys": sh.nkeys, "xty": t.cols[3].cty.name(), "threads": rayon_threads()});
    if par { case["tags"].as_array_mut().unwrap().push(json!("s2:par")); }
    // neutraliser of the NULL-grouping-key findings: the same statement over the table with every NULL key replaced by a
    // fresh non-NULL value must be answered correctly (DESIGN §3.4); run only when a key column holds a NULL
    let has_null_key = sh.nkeys > 0 && t.rows.iter().any(|r| r[1].is_null() || (sh.nkeys > 1 && r[2].is_null()));
    case["c21"]["neutral"] = json!(has_null_key);
    let imp = run_both(&case);
    (case, imp)
}

fn fresh(cty: ColTy) -> Val {
    match cty { ColTy::I64 | ColTy::I32 => Val::I(7777), ColTy::F64 => Val::f(7777.0), ColTy::Str => Val::S("zzz9".into()), ColTy::Date => Val::D(28261), ColTy::Bool => Val::B(true) }
}

/// run the case and, when asked for, its neutralised twin (outcome under impl["neutral"])
fn run_both(case: &Value) -> Value {
    let mut imp = run_case(case);
    if case["c21"]["neutral"].as_bool() == Some(true) {
        let mut cat = Catalog::from_case(case);
        let (c1, c2) = (cat.tables[0].cols[1].cty, cat.tables[0].cols[2].cty);
        for row in cat.tables[0].rows.iter_mut() {
            if row[1].is_null() { row[1] = fresh(c1); }
            if row[2].is_null() { row[2] = fresh(c2); }
        }
        let cfg = case["cfg"].as_str().and_then(ExecCfg::parse).unwrap_or_else(ExecCfg::mem_batches);
        let n = crate::fams::fam_sql::sqlgen::exec::run(&cat, case["sql"].as_str().unwrap_or(""), &cfg);
        if let Some(o) = imp.as_object_mut() { o.insert("neutral".into(), n); }
    }
    imp
}

/// hand-made minimal cases, one per listed finding (`--opt witness=1`): the corpus / known-finding witnesses are made from these
fn witness_cases() -> Vec<(Value, Value)> {
    let mk = |n: &str, cty, null_pct| ColSpec { name: n.into(), cty, null_pct, boundary: false, special: false, unique: n == "id0" };
    let table = |kty: ColTy, jty: ColTy, xty: ColTy, rows: Vec<Vec<Val>>, cuts: Vec<usize>| TableSpec {
        cluster: None, name: "t0".into(), cols: vec![mk("id0", ColTy::I64, 0), mk("k0", kty, 50), mk("j0", jty, 50), mk("x0", xty, 50), mk("y0", ColTy::I64, 0)], rows, cuts };
    let i = |v: i64| Val::I(v); let nl = || Val::Null;
    let sh = |nkeys: usize, aggs: Vec<(AggFn, bool)>, distinct_select: bool, where_kind: &'static str| Shape { nkeys, aggs, distinct_select, where_kind };
    let mut out = vec![];
    let mut push = |id: &str, t: TableSpec, s: Shape, cfg: &str| {
        QUALIFY.with(|q| q.set(id == "C21-F10"));
        let q = build_query(&t, &s);
        QUALIFY.with(|q| q.set(false));
        let cat = Catalog { tables: vec![t] };
        let cfg = ExecCfg::parse(cfg).unwrap();
        let sql = q.sql();
        let ops = plan_ops(&cat, &sql, &cfg);
        let top = ops.iter().find(|n| n.contains("Aggregate") || n.contains("Distinct")).cloned().unwrap_or_else(|| "none".into());
        let path = sub_path(&top, &cat.tables[0], &s, &cfg, false);
        let tags = vec![format!("witness:{}", id), format!("path:{}", path)];
        let mut case = make_case("C21", &cat, &q, &tags, false, &[cfg], false);
        let t = &cat.tables[0];
        let has_null_key = s.nkeys > 0 && t.rows.iter().any(|r| r[1].is_null() || (s.nkeys > 1 && r[2].is_null()));
        case["c21"] = json!({"path": path, "op": top, "ops": ops, "nkeys": s.nkeys, "xty": t.cols[3].cty.name(), "neutral": has_null_key, "witness": id});
        let imp = run_both(&case);
        out.push((case, imp));
    };
    // F1  SUM(DISTINCT x) over no non-NULL value is 0
    push("C21-F1", table(ColTy::I64, ColTy::I64, ColTy::I64, vec![vec![i(0), i(1), i(1), nl(), i(1)], vec![i(1), i(1), i(1), nl(), i(1)]], vec![2]), sh(0, vec![(AggFn::Sum, true)], false, "none"), "mem1");
    // F2  DISTINCT: every NULL row is its own group
    push("C21-F2", table(ColTy::I64, ColTy::I64, ColTy::I64, vec![vec![i(0), nl(), i(1), i(1), i(1)], vec![i(1), i(5), i(1), i(1), i(1)], vec![i(2), nl(), i(1), i(1), i(1)]], vec![3]), sh(1, vec![], true, "none"), "mem1");
    // F3  NULL-key group dropped when its accumulators stayed empty
    push("C21-F3", table(ColTy::I64, ColTy::I64, ColTy::I64, vec![vec![i(0), nl(), i(1), nl(), i(1)], vec![i(1), i(5), i(1), i(3), i(1)], vec![i(2), nl(), i(1), nl(), i(1)]], vec![3]), sh(1, vec![(AggFn::Count, false)], false, "none"), "mem1");
    // F4  composite key, all components NULL
    push("C21-F4", table(ColTy::I64, ColTy::I64, ColTy::I64,
        vec![vec![i(0), nl(), nl(), i(1), i(1)], vec![i(1), i(5), i(1), i(3), i(1)], vec![i(2), nl(), nl(), i(2), i(1)], vec![i(3), i(6), i(2), i(2), i(1)], vec![i(4), nl(), nl(), i(2), i(1)], vec![i(5), nl(), i(2), i(2), i(1)]], vec![6]),
        sh(2, vec![(AggFn::CountStar, false)], false, "none"), "mem1");
    // F5  dense-direct refuses NULL keys
    push("C21-F5", table(ColTy::I64, ColTy::I64, ColTy::I64, vec![vec![i(0), nl(), i(1), i(1), i(1)], vec![i(1), i(5), i(1), i(3), i(1)]], vec![2]), sh(1, vec![(AggFn::CountStar, false)], false, "none"), "pq1x16");
    // F6  dense-direct SUM over an all-NULL group is 0
    push("C21-F6", table(ColTy::I64, ColTy::I64, ColTy::F64, vec![vec![i(0), i(4), i(1), nl(), i(1)], vec![i(1), i(5), i(1), Val::f(1.5), i(1)]], vec![2]), sh(1, vec![(AggFn::Sum, false)], false, "none"), "pq1x16");
    // F10 dense-direct: SUM over BIGINT named with a qualified column fails "expected Float64"
    push("C21-F10", table(ColTy::I64, ColTy::I64, ColTy::I64, vec![vec![i(0), i(4), i(1), i(2), i(1)], vec![i(1), i(5), i(1), i(3), i(1)]], vec![2]), sh(1, vec![(AggFn::Sum, false)], false, "none"), "pq1x16");
    // F7  MIN over INTEGER is not implemented on the in-memory hash aggregate
    push("C21-F7", table(ColTy::I64, ColTy::I64, ColTy::I32, vec![vec![i(0), i(4), i(1), i(2), i(1)], vec![i(1), i(5), i(1), i(3), i(1)]], vec![1, 1]), sh(0, vec![(AggFn::Min, false), (AggFn::CountStar, false)], false, "none"), "memb");
    // F8  NULL key merged with key -1
    push("C21-F8", table(ColTy::I64, ColTy::I64, ColTy::I64, vec![vec![i(0), nl(), i(1), i(1), i(1)], vec![i(1), i(-1), i(1), i(3), i(1)], vec![i(2), i(2), i(1), i(3), i(1)]], vec![3]), sh(1, vec![(AggFn::CountStar, false)], false, "none"), "mem1");
    // F9  scalar path: MIN over no valid value is i64::MAX
    push("C21-F9", table(ColTy::I64, ColTy::I64, ColTy::I64, vec![vec![i(0), i(4), i(1), nl(), i(1)], vec![i(1), i(5), i(1), nl(), i(1)]], vec![2]), sh(0, vec![(AggFn::Min, false)], false, "none"), "mem1");
    out
}

pub fn main(o: &Opts) {
    if let Some(p) = &o.replay {
        for c in replay_cases(p) { let i = run_both(&c); emit(c, i); }
        return;
    }
    if o.get_usize("witness", 0) == 1 { for (c, i) in witness_cases() { emit(c, i); } return; }
    if let Some(sql) = o.get("probe") {
        // `--opt probe="SELECT … FROM t0"`: one generated table, the statement under every configuration, with plan operators
        let mut r = Rng::new(o.seed ^ 0xC21);
        let sizes: Vec<String> = o.get("sizes").unwrap_or("small").split(',').map(|s| s.to_string()).collect();
        let (t, desc) = gen_table(&mut r, &sizes);
        eprintln!("t0 {:?} rows={} cuts={:?} {}", t.cols.iter().map(|c| format!("{}:{}", c.name, c.cty.name())).collect::<Vec<_>>(), t.rows.len(), t.cuts, desc);
        if o.get_usize("show", 0) == 1 { for row in &t.rows { eprintln!("  {:?}", row); } }
        let cat = Catalog { tables: vec![t] };
        for name in o.get("cfgs").unwrap_or("mem1,memb,pq1x16,pq2x7,memb+lim200000").split(',') {
            if let Some(cfg) = ExecCfg::parse(name) {
                let ops = plan_ops(&cat, sql, &cfg);
                let out = crate::fams::fam_sql::sqlgen::exec::run(&cat, sql, &cfg);
                println!("{} {:?}\n    {}", cfg.name, ops, out);
            }
        }
        return;
    }
    let mut r = Rng::new(o.seed ^ 0xC21);
    for n in 0..o.cases {
        let mut cr = r.fork();
        let (case, imp) = gen_case(&mut cr, n, o);
        emit(case, imp);
    }
}
