// FAMILY: C23
//! C23 — subqueries follow SQL semantics, decorrelated or not.
//! Focused generator: outer table t0(id0, k0, x0, v0) and inner table t1(id1, k1, y1, w1); k0/k1 share a type and a small
//! domain (the correlation key, duplicates on both sides), x0/y1 share a type (the IN operand / the subquery's value
//! column), v0/w1 are BIGINT (non-equality correlation, scalar comparisons).  NULL densities 0/10/50/100 % per column,
//! empty tables, empty subquery results.  Statement forms (tag `form:*`):
//!     in            x0 [NOT] IN (SELECT y1 FROM t1 [WHERE corr… [AND local]])
//!     exists        [NOT] EXISTS (SELECT 1 FROM t1 [WHERE corr… [AND local]])
//!     scalar_agg    v0 <cmp> (SELECT agg(w1) FROM t1 [WHERE corr…])        agg ∈ COUNT(*) COUNT SUM MIN MAX
//!     scalar_row    x0 = (SELECT y1 FROM t1 [WHERE id1 = c | k1 = t0.k0])   (0 / 1 / more rows: more ⇒ must be an error)
//! placed as the whole WHERE, under AND, under OR (reaches the row-by-row evaluators), or in the SELECT list
//! (`place:where|and|or|select`); correlation `corr:none|eq|noneq|eq_noneq`.  Every statement is emitted twice, as two
//! spec-mode cases over the same tables: with the production rules and with SubqueryDecorrelation / FlattenDependentJoin
//! removed (`rules:default|nodecorr`).  Case / impl JSON are the sqlgen formats; the Lean side is lean/Driver/C23.lean.
use crate::common::*;
use crate::fams::fam_sql::sqlgen::ast::*;
use crate::fams::fam_sql::sqlgen::catalog::{small_value, Catalog, ColSpec, TableSpec};
use crate::fams::fam_sql::sqlgen::driver::{make_case, run_case};
use crate::fams::fam_sql::sqlgen::exec::ExecCfg;
use crate::fams::fam_sql::sqlgen::{ColTy, Val};
use crate::rng::Rng;
use serde_json::{json, Value};

const NODECORR: &str = "+without:SubqueryDecorrelation/FlattenDependentJoin";

#[derive(Clone, Debug)]
struct Form {
    kind: &'static str,          // in | exists | scalar_agg | scalar_row
    neg: bool,
    corr_eq: bool,               // k1 = t0.k0
    corr_noneq: Option<BinOp>,   // w1 <op> t0.v0
    flip: bool,                  // write the correlation predicates as `outer op' inner`
    local: &'static str,         // none | w_gt | y_notnull | y_null | empty
    place: &'static str,         // where | and | or | select
    agg: AggFn,                  // scalar_agg
    cmp: BinOp,                  // scalar_agg / scalar_row comparison
    zero_lhs: bool,              // scalar_agg: `0 <cmp> (SELECT COUNT…)` instead of `v0 <cmp> …`
    row_pick: &'static str,      // scalar_row: const | all | corr_id | corr_k
    unq: bool,                   // outer references spelled without the table qualifier
    narrow: bool,                // SELECT list holds id0 only (the correlated outer columns are not projected)
}

fn mkcol(n: &str, cty: ColTy, null_pct: u8, unique: bool) -> ColSpec { ColSpec { name: n.into(), cty, null_pct, boundary: false, special: false, unique } }

fn cut(r: &mut Rng, n: usize) -> Vec<usize> {
    if n == 0 { return if r.chance(1, 2) { vec![] } else { vec![0] }; }
    let k = 1 + r.below(3.min(n as u64)) as usize;
    let base = n / k; let mut v = vec![base; k]; v[k - 1] += n - base * k; v
}

fn gen_tables(r: &mut Rng, o: &Opts, no_date_x: bool, dup: bool) -> (Catalog, String) {
    let ktys: Vec<ColTy> = o.get("ktys").unwrap_or("i64,i64,i64,str,i32,date").split(',').filter_map(ColTy::parse).collect();
    let xtys: Vec<ColTy> = o.get("xtys").unwrap_or("i64,i64,i64,i64,str,str,f64,i32,date").split(',').filter_map(ColTy::parse).collect();
    // a DATE compared with the untyped NULL a scalar subquery yields fails "Cannot coerce Date32 and Null" (an untyped-NULL
    // defect, not a subquery defect): no DATE operand for the scalar_row form
    let xtys: Vec<ColTy> = if no_date_x { xtys.into_iter().filter(|t| *t != ColTy::Date).collect() } else { xtys };
    let kty = *r.pick(&ktys); let xty = *r.pick(&xtys);
    let nulls: Vec<u8> = o.get("nulls").unwrap_or("0,0,10,50,50,100").split(',').filter_map(|s| s.parse().ok()).collect();
    let (k0n, x0n, k1n, y1n) = (*r.pick(&nulls), *r.pick(&nulls), *r.pick(&nulls), *r.pick(&nulls));
    let v0n = *r.pick(&[0u8, 0, 10]); let w1n = *r.pick(&[0u8, 0, 10, 50]);
    let size = |r: &mut Rng, max: u64| -> usize { match r.below(10) { 0 => 0, 1 => 1, 2 | 3 => 2 + r.below(3) as usize, _ => 3 + r.below(max) as usize } };
    let n0 = o.get_usize("n0", usize::MAX); let n1 = o.get_usize("n1", usize::MAX);
    let n0 = if n0 == usize::MAX { size(r, 30) } else { n0 }; let n1 = if n1 == usize::MAX { size(r, 24) } else { n1 };
    let kdom = *r.pick(&[2u64, 3, 4, 6]); let xdom = *r.pick(&[2u64, 3, 5, 8]);
    let nv = |r: &mut Rng, pct: u8, cty: ColTy, dom: u64| if r.below(100) < pct as u64 { Val::Null } else { small_value(r, cty, dom) };
    let mut ids0: Vec<i64> = (0..n0 as i64).collect(); r.shuffle(&mut ids0);
    let mut ids1: Vec<i64> = (0..n1 as i64).collect(); r.shuffle(&mut ids1);
    let rows0: Vec<Vec<Val>> = (0..n0).map(|i| vec![Val::I(ids0[i]), nv(r, k0n, kty, kdom), nv(r, x0n, xty, xdom), nv(r, v0n, ColTy::I64, 6)]).collect();
    let rows1: Vec<Vec<Val>> = (0..n1).map(|i| vec![Val::I(ids1[i]), nv(r, k1n, kty, kdom), nv(r, y1n, xty, xdom), nv(r, w1n, ColTy::I64, 6)]).collect();
    // `outer:dup-rows` stratum: the outer table holds FULLY duplicate rows (2–4 copies of some rows, id0 included), shuffled so
    // that copies land in the same batch as well as in different batches — the row-by-row subquery paths answer through a cache
    // keyed by the whole outer row (subquery.rs set_correlated_cache / get_correlated_cache): only identical rows give a cache HIT
    let (rows0, n0) = if dup && !rows0.is_empty() {
        let mut out: Vec<Vec<Val>> = vec![];
        for (i, row) in rows0.iter().enumerate() {
            let copies = if i == 0 || r.chance(1, 2) { 2 + r.below(3) as usize } else { 1 };
            for _ in 0..copies { out.push(row.clone()); }
        }
        if r.chance(2, 3) { r.shuffle(&mut out); }          // otherwise the copies stay adjacent (same batch, consecutive rows)
        let n = out.len(); (out, n)
    } else { (rows0, n0) };
    let cuts0 = if dup && n0 >= 2 { let k = 1 + r.below(4.min(n0 as u64)) as usize; let base = n0 / k; let mut v = vec![base; k]; v[k - 1] += n0 - base * k; v } else { cut(r, n0) };
    let t0 = TableSpec { cluster: None, name: "t0".into(), cols: vec![mkcol("id0", ColTy::I64, 0, !dup), mkcol("k0", kty, k0n, false), mkcol("x0", xty, x0n, false), mkcol("v0", ColTy::I64, v0n, false)], cuts: cuts0, rows: rows0 };
    let t1 = TableSpec { cluster: None, name: "t1".into(), cols: vec![mkcol("id1", ColTy::I64, 0, true), mkcol("k1", kty, k1n, false), mkcol("y1", xty, y1n, false), mkcol("w1", ColTy::I64, w1n, false)], cuts: cut(r, n1), rows: rows1 };
    let desc = format!("kty:{} xty:{} k0null:{} x0null:{} k1null:{} y1null:{} n0:{} n1:{}{}", kty.name(), xty.name(), k0n, x0n, k1n, y1n,
                       if n0 == 0 { "0" } else if n0 < 5 { "1-4" } else { "5+" }, if n1 == 0 { "0" } else if n1 < 5 { "1-4" } else { "5+" },
                       if dup && n0 >= 2 { " outer:dup-rows" } else { "" });
    (Catalog { tables: vec![t0, t1] }, desc)
}

fn gen_form(r: &mut Rng, o: &Opts) -> Form {
    let kinds: Vec<&str> = o.get("kinds").unwrap_or("in,in,in,exists,exists,scalar_agg,scalar_agg,scalar_row").split(',').collect();
    let kind = match *r.pick(&kinds) { "in" => "in", "exists" => "exists", "scalar_agg" => "scalar_agg", _ => "scalar_row" };
    // non-equality correlation (`w1 <op> t0.v0`): on by default (`noneq=0`, `noneq_scalar=0`, `noneq_exists=0` switch the strata off)
    let allow_noneq = o.get_usize("noneq", 1) == 1;
    let allow_unq = o.get_usize("unq", 1) == 1;
    let places: Vec<&str> = o.get("places").unwrap_or("where,where,where,and,or,select").split(',').collect();
    let place = match *r.pick(&places) { "where" => "where", "and" => "and", "or" => "or", _ => "select" };
    let mut f = Form { kind, neg: r.chance(1, 2), corr_eq: false, corr_noneq: None, flip: r.chance(1, 3), local: "none", place, agg: AggFn::CountStar,
                       cmp: BinOp::Eq, zero_lhs: false, row_pick: "const", unq: allow_unq && r.chance(1, 3), narrow: r.chance(1, 4) };
    let corr = r.below(10);
    match kind {
        // a correlated IN that is not decorrelated always fails (C23-F11): keep its share small
        "in" => { f.corr_eq = corr < 2; f.local = *r.pick(&["none", "none", "w_gt", "y_notnull", "y_null", "empty"]); }
        "exists" => { f.corr_eq = corr < 7; f.local = *r.pick(&["none", "none", "w_gt", "y_notnull", "empty"]); }
        "scalar_agg" => {
            f.neg = false; f.corr_eq = corr < 6;
            f.agg = *r.pick(&[AggFn::CountStar, AggFn::CountStar, AggFn::Count, AggFn::Sum, AggFn::Min, AggFn::Max]);
            f.cmp = *r.pick(&[BinOp::Eq, BinOp::Lt, BinOp::Ge, BinOp::Ne]);
            f.zero_lhs = matches!(f.agg, AggFn::CountStar | AggFn::Count) && r.chance(1, 2);
            f.local = *r.pick(&["none", "none", "w_gt", "empty"]);
        }
        _ => { f.neg = false; f.row_pick = *r.pick(&["const", "const", "all", "corr_id", "corr_k"]); f.corr_eq = false; }
    }
    if allow_noneq && (kind == "in" || kind == "exists" || (kind == "scalar_agg" && o.get_usize("noneq_scalar", 1) == 1)) && r.chance(1, 4) {
        f.corr_noneq = Some(*r.pick(&[BinOp::Lt, BinOp::Gt, BinOp::Le, BinOp::Ge, BinOp::Ne]));
        if r.chance(1, 3) { f.corr_eq = false; }
    }
    f
}

fn flip_op(op: BinOp) -> BinOp { match op { BinOp::Lt => BinOp::Gt, BinOp::Gt => BinOp::Lt, BinOp::Le => BinOp::Ge, BinOp::Ge => BinOp::Le, o => o } }

fn build_query(cat: &Catalog, f: &Form, r: &mut Rng) -> QueryExpr {
    let t0 = &cat.tables[0]; let t1 = &cat.tables[1];
    let c0 = |i: usize| Expr::Col { i, sql: format!("t0.{}", t0.cols[i].name) };
    let c1 = |i: usize| Expr::Col { i, sql: format!("t1.{}", t1.cols[i].name) };
    let outer = |i: usize| Expr::Outer { d: 1, i, sql: if f.unq { t0.cols[i].name.clone() } else { format!("t0.{}", t0.cols[i].name) } };
    let lit = |v: Val, cty: ColTy| Expr::Lit(v, cty.ty());
    // ---- the subquery's WHERE
    let mut conj: Vec<Expr> = vec![];
    if f.corr_eq { conj.push(if f.flip { Expr::bin(BinOp::Eq, outer(1), c1(1)) } else { Expr::bin(BinOp::Eq, c1(1), outer(1)) }); }
    if let Some(op) = f.corr_noneq { conj.push(if f.flip { Expr::bin(flip_op(op), outer(3), c1(3)) } else { Expr::bin(op, c1(3), outer(3)) }); }
    match f.local {
        "w_gt" => conj.push(Expr::bin(BinOp::Gt, c1(3), Expr::lit_i(r.range(-1, 3)))),
        "y_notnull" => conj.push(Expr::Un(UnOp::IsNotNull, Box::new(c1(2)))),
        "y_null" => conj.push(Expr::Un(UnOp::IsNull, Box::new(c1(2)))),
        "empty" => conj.push(Expr::bin(BinOp::Lt, c1(0), Expr::lit_i(0))),
        _ => {}
    }
    if f.kind == "scalar_row" {
        match f.row_pick {
            "const" => conj.push(Expr::bin(BinOp::Eq, c1(0), Expr::lit_i(r.range(0, (t1.rows.len() as i64).max(1))))),
            "corr_id" => conj.push(Expr::bin(BinOp::Eq, c1(0), outer(3))),
            "corr_k" => conj.push(Expr::bin(BinOp::Eq, c1(1), outer(1))),
            _ => {}
        }
    }
    let sub_where = conj.into_iter().reduce(Expr::and);
    let from1 = Rel::Table { t: 1, name: "t1".into(), alias: "t1".into() };
    let sub = |proj: Vec<(Expr, String)>, group: Option<Group>| QueryExpr::of(Body::Select(Box::new(Select { from: Some(from1.clone()), where_: sub_where.clone(), group, having: None, proj, distinct: false })));
    // ---- the subquery expression
    let s: Expr = match f.kind {
        "in" => Expr::InSub(Box::new(c0(2)), Box::new(sub(vec![(c1(2), "s0".into())], None)), f.neg),
        "exists" => Expr::Exists(Box::new(sub(vec![(Expr::lit_i(1), "s0".into())], None)), f.neg),
        "scalar_agg" => {
            let call = match f.agg { AggFn::CountStar => AggCall { f: AggFn::CountStar, arg: None, distinct: false }, a => AggCall { f: a, arg: Some(c1(3)), distinct: false } };
            let q = sub(vec![(Expr::Col { i: 0, sql: call.sql() }, "s0".into())], Some(Group { keys: vec![], aggs: vec![call], sets: None }));
            let sc = Expr::Scalar(Box::new(q));
            if f.place == "select" { sc } else {
                let lhs = if f.zero_lhs { Expr::lit_i(r.range(0, 2)) } else { c0(3) };
                if f.flip { Expr::bin(flip_op(f.cmp), sc, lhs) } else { Expr::bin(f.cmp, lhs, sc) }
            }
        }
        _ => {
            let sc = Expr::Scalar(Box::new(sub(vec![(c1(2), "s0".into())], None)));
            if f.place == "select" { sc } else { Expr::bin(BinOp::Eq, c0(2), sc) }
        }
    };
    // ---- the outer statement
    let side = { let v = t0.rows.first().map(|row| row[3].clone()).filter(|v| !v.is_null()).unwrap_or(Val::I(1)); Expr::bin(BinOp::Eq, c0(3), lit(v, ColTy::I64)) };
    let from0 = Rel::Table { t: 0, name: "t0".into(), alias: "t0".into() };
    let mut proj: Vec<(Expr, String)> = vec![(c0(0), "o0".into())];
    if !f.narrow { proj.push((c0(1), "o1".into())); proj.push((c0(2), "o2".into())); proj.push((c0(3), "o3".into())); }
    let where_ = match f.place {
        "where" => Some(s),
        "and" => Some(Expr::and(s, Expr::bin(BinOp::Ge, c0(3), Expr::lit_i(0)))),
        "or" => Some(Expr::bin(BinOp::Or, s, side)),
        _ => { let n = proj.len(); proj.push((s, format!("o{}", n))); None }
    };
    QueryExpr::of(Body::Select(Box::new(Select { from: Some(from0), where_, group: None, having: None, proj, distinct: false })))
}

fn form_json(f: &Form, rules: &str) -> Value {
    let corr = match (f.corr_eq || f.row_pick == "corr_id" || f.row_pick == "corr_k", f.corr_noneq.is_some()) { (false, false) => "none", (true, false) => "eq", (false, true) => "noneq", (true, true) => "eq_noneq" };
    json!({"kind": f.kind, "neg": f.neg, "corr": corr, "noneq_op": f.corr_noneq.map(|o| o.json()), "flip": f.flip, "local": f.local, "place": f.place,
           "agg": f.agg.json(), "cmp": f.cmp.json(), "zero_lhs": f.zero_lhs, "row_pick": f.row_pick, "unq": f.unq, "narrow": f.narrow, "rules": rules})
}

fn tags_of(f: &Form, rules: &str, desc: &str, cfg: &str) -> Vec<String> {
    let fj = form_json(f, rules);
    let mut t = vec![format!("form:{}{}", f.kind, if f.neg { "_not" } else { "" }), format!("place:{}", f.place), format!("corr:{}", fj["corr"].as_str().unwrap_or("")),
                     format!("rules:{}", rules), format!("local:{}", f.local), format!("cfg:{}", cfg.split('+').next().unwrap_or("")),
                     format!("s:{}{}:{}:{}", f.kind, if f.neg { "_not" } else { "" }, if f.place == "where" || f.place == "and" { "top" } else { f.place }, rules)];
    if f.kind == "scalar_agg" { t.push(format!("agg:{}", f.agg.json())); }
    if f.kind == "scalar_row" { t.push(format!("row_pick:{}", f.row_pick)); }
    if f.unq { t.push("f:unqualified_outer".into()); }
    if f.narrow { t.push("f:narrow".into()); }
    for w in desc.split(' ') { t.push(w.to_string()); }
    t
}

/// the two cases (production rules / decorrelation rules removed) of one statement
fn cases_of(cat: &Catalog, f: &Form, q: &QueryExpr, base_cfg: &str, desc: &str, extra_tags: &[String], noneq_exists: bool) -> Vec<(Value, Value)> {
    let mut out = vec![];
    for rules in ["default", "nodecorr"] {
        // EXISTS with an equality AND a non-equality correlation, production rules: the rule hands the non-equality to the
        // Semi/Anti hash join as a filter (that operator's filtered probe was C22's finding, repaired by /repo fe1666e)
        if rules == "default" && f.kind == "exists" && f.corr_eq && f.corr_noneq.is_some() && (f.place == "where" || f.place == "and") && !noneq_exists { continue; }
        let name = if rules == "default" { base_cfg.to_string() } else { format!("{}{}", base_cfg, NODECORR) };
        let cfg = match ExecCfg::parse(&name) { Some(c) => c, None => continue };
        let mut tags = tags_of(f, rules, desc, base_cfg);
        tags.extend(extra_tags.iter().cloned());
        // the path the engine takes: with the production rules the physical plan holds a join iff the subquery was decorrelated
        let ops = if rules == "default" { crate::fams::fam_c21::plan_ops(cat, &q.sql(), &cfg) } else { vec![] };
        let path = if ops.iter().any(|n| n.contains("Join")) { "join" } else { "rowbyrow" };
        tags.push(format!("path:{}:{}{}", path, f.kind, if f.neg { "_not" } else { "" }));
        let mut case = make_case("C23", cat, q, &tags, false, &[cfg], false);
        case["c23"] = form_json(f, rules);
        case["c23"]["path"] = json!(path);
        case["c23"]["ops"] = json!(ops);
        case["c23"]["layout"] = json!(if base_cfg.starts_with("mem1") { "mem1" } else if base_cfg.starts_with("memb") { "memb" } else { "pq" });
        case["strict_err"] = json!(true);
        let imp = run_case(&case);
        out.push((case, imp));
    }
    out
}

fn ival(v: i64) -> Val { Val::I(v) }

/// hand-made minimal cases, one per listed finding (`--opt witness=1`); corpus/C23/known-F*.jsonl are made from these
fn witness_cases() -> Vec<(Value, Value)> {
    let nl = || Val::Null;
    let i = ival;
    let table = |t: usize, xty: ColTy, rows: Vec<Vec<Val>>, cuts: Vec<usize>| {
        let (n, k, x, v) = if t == 0 { ("id0", "k0", "x0", "v0") } else { ("id1", "k1", "y1", "w1") };
        TableSpec { cluster: None, name: format!("t{}", t), cols: vec![mkcol(n, ColTy::I64, 0, true), mkcol(k, ColTy::I64, 50, false), mkcol(x, xty, 50, false), mkcol(v, ColTy::I64, 0, false)], cuts, rows }
    };
    let base = Form { kind: "in", neg: false, corr_eq: false, corr_noneq: None, flip: false, local: "none", place: "where", agg: AggFn::CountStar, cmp: BinOp::Eq,
                      zero_lhs: false, row_pick: "const", unq: false, narrow: false };
    let mut out = vec![];
    let mut push = |id: &str, rules: &str, cfg: &str, t0: TableSpec, t1: TableSpec, f: Form| {
        let cat = Catalog { tables: vec![t0, t1] };
        let mut r = Rng::new(1);
        let q = build_query(&cat, &f, &mut r);
        for (c, im) in cases_of(&cat, &f, &q, cfg, "witness", &[format!("witness:{}", id)], true) {
            if c["c23"]["rules"].as_str() == Some(rules) { out.push((c, im)); }
        }
    };
    // t = u = {1, 2, NULL} (A.14)
    let t = || table(0, ColTy::I64, vec![vec![i(0), i(1), i(1), i(1)], vec![i(1), i(2), i(2), i(2)], vec![i(2), nl(), nl(), i(3)]], vec![3]);
    let u = || table(1, ColTy::I64, vec![vec![i(0), i(1), i(1), i(1)], vec![i(1), i(2), i(2), i(2)], vec![i(2), nl(), nl(), i(3)]], vec![3]);
    // F1  decorrelated NOT IN = plain anti join: keeps the NULL row (must return nothing)
    push("C23-F1", "default", "mem1", t(), u(), Form { neg: true, ..base.clone() });
    // F2  row-by-row NOT IN in the SELECT list: FALSE / TRUE where the answer is NULL
    push("C23-F2", "default", "mem1", t(), u(), Form { neg: true, place: "select", ..base.clone() });
    // F3  A.26: correlated scalar subquery in the SELECT list, outer column written unqualified and not otherwise selected
    push("C23-F3", "default", "mem1", t(), u(), Form { kind: "scalar_agg", agg: AggFn::Max, corr_eq: true, place: "select", unq: true, narrow: true, ..base.clone() });
    // F4  EXISTS with an equality and a non-equality correlation: the join filter used to test the mirrored operator (7 > 5 holds)
    push("C23-F4", "default", "mem1", table(0, ColTy::I64, vec![vec![i(0), i(1), i(1), i(5)]], vec![1]), table(1, ColTy::I64, vec![vec![i(0), i(1), i(1), i(7)]], vec![1]),
         Form { kind: "exists", corr_eq: true, corr_noneq: Some(BinOp::Gt), ..base.clone() });
    // F5  IN with a non-equality correlation only: the predicate is removed from the subquery and lost
    push("C23-F5", "default", "mem1", table(0, ColTy::I64, vec![vec![i(0), i(1), i(1), i(5)]], vec![1]), table(1, ColTy::I64, vec![vec![i(0), i(1), i(1), i(7)]], vec![1]),
         Form { corr_noneq: Some(BinOp::Lt), ..base.clone() });
    // F6  IN with an equality correlation on a column the subquery does not output: the correlation is lost
    push("C23-F6", "default", "mem1", table(0, ColTy::I64, vec![vec![i(0), i(1), i(7), i(1)]], vec![1]), table(1, ColTy::I64, vec![vec![i(0), i(2), i(7), i(1)]], vec![1]),
         Form { corr_eq: true, ..base.clone() });
    // F7  count bug: 0 = (SELECT COUNT(*) … correlated) over an outer row without partner
    push("C23-F7", "default", "mem1", table(0, ColTy::I64, vec![vec![i(0), i(1), i(1), i(0)], vec![i(1), i(2), i(1), i(0)]], vec![2]), table(1, ColTy::I64, vec![vec![i(0), i(1), i(1), i(1)]], vec![1]),
         Form { kind: "scalar_agg", agg: AggFn::CountStar, cmp: BinOp::Eq, corr_eq: true, ..base.clone() });
    // F8  correlated scalar subquery with two rows: NULL instead of the cardinality error
    push("C23-F8", "nodecorr", "mem1", table(0, ColTy::I64, vec![vec![i(0), i(1), i(1), i(0)]], vec![1]), table(1, ColTy::I64, vec![vec![i(0), i(1), i(1), i(1)], vec![i(1), i(1), i(2), i(1)]], vec![2]),
         Form { kind: "scalar_row", row_pick: "corr_k", place: "select", ..base.clone() });
    // F9  only batches[0] of the subquery result is read: first batch empty, the row sits in the second
    push("C23-F9", "default", "memb", table(0, ColTy::I64, vec![vec![i(0), i(1), i(5), i(0)]], vec![1]), table(1, ColTy::I64, vec![vec![i(0), i(1), i(4), i(1)], vec![i(1), i(1), i(5), i(1)]], vec![1, 1]),
         Form { kind: "scalar_row", row_pick: "const", place: "select", ..base.clone() });
    // F10 result column typed from the first outer row: first row has no partner (NULL) ⇒ the whole batch is NULL
    push("C23-F10", "nodecorr", "mem1", table(0, ColTy::I64, vec![vec![i(0), i(1), i(1), i(9)], vec![i(1), i(1), i(1), i(0)]], vec![2]), table(1, ColTy::I64, vec![vec![i(0), i(1), i(5), i(1)]], vec![1]),
         Form { kind: "scalar_row", row_pick: "corr_id", place: "select", ..base.clone() });
    // F11 correlated IN evaluated row by row (under OR): "Column not found"
    push("C23-F11", "default", "mem1", t(), u(), Form { corr_eq: true, place: "or", ..base.clone() });
    // F12 semi-join reduction multiplies COUNT by the number of outer rows with the same key
    push("C23-F12", "default", "mem1", table(0, ColTy::I64, vec![vec![i(0), i(1), i(1), i(2)], vec![i(1), i(1), i(1), i(2)]], vec![2]), table(1, ColTy::I64, vec![vec![i(0), i(1), i(1), i(1)]], vec![1]),
         Form { kind: "scalar_agg", agg: AggFn::CountStar, cmp: BinOp::Eq, corr_eq: true, place: "and", ..base.clone() });
    // F13 row-by-row IN refuses DATE operands
    push("C23-F13", "default", "mem1", table(0, ColTy::Date, vec![vec![i(0), i(1), Val::D(18262), i(1)]], vec![1]), table(1, ColTy::Date, vec![vec![i(0), i(1), Val::D(18262), i(1)]], vec![1]),
         Form { place: "select", ..base.clone() });
    out
}

pub fn main(o: &Opts) {
    if let Some(p) = &o.replay {
        for c in replay_cases(p) { let i = run_case(&c); emit(c, i); }
        return;
    }
    if o.get_usize("witness", 0) == 1 { for (c, i) in witness_cases() { emit(c, i); } return; }
    if let Some(sql) = o.get("probe") {
        // `--opt probe="SELECT … FROM t0 …"`: the generated tables of this seed, the statement under each configuration
        let mut r = Rng::new(o.seed ^ 0xC23);
        let (cat, desc) = gen_tables(&mut r, o, false, o.get_usize("dup", 0) == 1);
        for t in &cat.tables {
            eprintln!("{} {:?} rows={} cuts={:?}", t.name, t.cols.iter().map(|c| format!("{}:{}", c.name, c.cty.name())).collect::<Vec<_>>(), t.rows.len(), t.cuts);
            if o.get_usize("show", 0) == 1 { for row in &t.rows { eprintln!("  {:?}", row); } }
        }
        eprintln!("{}", desc);
        let nd = format!("mem1,memb,mem1{},memb{}", NODECORR, NODECORR);
        for name in o.get("cfgs").unwrap_or(&nd).split(',') {
            if let Some(cfg) = ExecCfg::parse(name) {
                let out = crate::fams::fam_sql::sqlgen::exec::run(&cat, sql, &cfg);
                println!("{}\n    {}", cfg.name, out);
            }
        }
        return;
    }
    let cfg_names: Vec<String> = o.get("cfgs").unwrap_or("mem1,memb,memb,mem1,pq1x8").split(',').map(|s| s.to_string()).collect();
    let mut r = Rng::new(o.seed ^ 0xC23);
    let mut n = 0usize; let mut k = 0usize;
    while n < o.cases {
        let mut cr = r.fork();
        let f = gen_form(&mut cr, o);
        // one statement in three runs over an outer table with fully duplicate rows (`--opt dup=0|1` forces it off / on)
        let dup = match o.get_usize("dup", 2) { 0 => false, 1 => true, _ => k % 3 == 1 };
        let (cat, desc) = gen_tables(&mut cr, o, f.kind == "scalar_row", dup);
        let q = build_query(&cat, &f, &mut cr);
        let mut base = cfg_names[k % cfg_names.len()].clone(); k += 1;
        // Parquet only for the IN / EXISTS forms: over Parquet the decorrelated scalar path trips a scan-schema defect
        // ("number of columns must match number of fields") that is not a subquery defect
        if base.starts_with("pq") && f.kind.starts_with("scalar") { base = "memb".into(); }
        let base = &base;
        for (case, imp) in cases_of(&cat, &f, &q, base, &desc, &[], o.get_usize("noneq_exists", 1) == 1) {
            if n < o.cases { emit(case, imp); n += 1; }
        }
    }
}
