// FAMILY: C35
//! C35: the SQL front door decides and encodes consistently — real nodes spawned in-process
//! (`distributed::spawn` on 127.0.0.1:0), real HTTP through `http_client`.
//!
//! Case: {"data":D, "node":NODE, "path":"/sql"|"/fragment", "q":query string, "body":BODY, "fault":FAULT?}
//!   NODE  = "S" single node | "N0".."N2" three-node cluster | "D" node whose only peer is down |
//!           "I" node whose only peer is the harness's fault-injected peer | "L0" node whose loader has not finished |
//!           "L1" node whose loader finished late | "X" node whose loader failed |
//!           "U" node whose membership VIEW is set by the case: "view":[PEER..], PEER = "unknown-absent" (configured, never probed,
//!           nothing listens) | "unknown-alive" (configured, never probed, a live node) | "up" (a live node seen Up) | "down" (seen Down)
//!   BODY  = {"k":"stmt","sql":..} | {"k":"empty"} | {"k":"spaces"} | {"k":"nonutf8"} | {"k":"huge"} | {"k":"raw","text":..}
//!   FAULT = what the fault peer does on POST /fragment: "healthy" | {"http":status} | "garbage" | "close" |
//!           {"cut":"declared"|"consistent","at":[msg,delta]}   (body cut; Content-Length = full | = cut length)
//! Impl: {"status","distributed","skipped","rows_hdr","ctype","got":[rows]|null,"got_header","decode_error",
//!        "expect":[rows]|null,"expect_header","local":"ok|notimpl|error","dist":"ok|notimpl|error","plan_ok","members_up",
//!        "ready","peer_active","error":message}
use crate::common::*;
use crate::fams::fam_c10::dist::*;
use crate::rng::Rng;
use serde_json::{json, Value};

pub mod net {
    //! In-process clusters and the fault-injected peer (shared with C34).
    use crate::fams::fam_c10::dist::*;
    use query_engine::distributed::coordinator::encode_ipc;
    use query_engine::distributed::{execute_fragment, http_client, spawn, FragmentRequest, ServeOptions, ServerHandle, TableLoader};
    use query_engine::ExecutionContext;
    use serde_json::{json, Value};
    use std::path::{Path, PathBuf};
    use std::sync::atomic::{AtomicBool, Ordering};
    use std::sync::{Arc, Mutex};
    use std::time::{Duration, Instant};
    use tokio::io::{AsyncReadExt, AsyncWriteExt};

    pub const HTTP_TIMEOUT: Duration = Duration::from_secs(120);

    pub fn isolate_env() {
        static ONCE: std::sync::OnceLock<()> = std::sync::OnceLock::new();
        ONCE.get_or_init(|| {
            std::env::remove_var("QE_ADVERTISE_ADDR");
            std::env::remove_var("QE_NODE_ID");
            std::env::remove_var("POD_IP");
        });
    }

    pub fn options(node_id: u64, flight: bool) -> ServeOptions {
        ServeOptions {
            bind: "127.0.0.1:0".into(),
            node_id: Some(node_id),
            discovery_interval: Duration::from_millis(100),
            probe_timeout: Duration::from_millis(3000),
            flight_bind: if flight { None } else { Some("none".into()) },
            ..Default::default()
        }
    }

    /// What the loader of a node does: load now, wait for the gate, or fail.
    pub enum Load { Now, Gated(Arc<AtomicBool>), Fail }

    pub fn loader(root: PathBuf, load: Load) -> TableLoader {
        Box::new(move || {
            match load {
                Load::Fail => return Err(query_engine::error::QueryError::Execution("injected: the data directory is unreadable".into())),
                Load::Gated(g) => { while !g.load(Ordering::Relaxed) { std::thread::sleep(Duration::from_millis(5)); } }
                Load::Now => {}
            }
            context_over(&root).map_err(query_engine::error::QueryError::Execution)
        })
    }

    pub async fn spawn_node(node_id: u64, root: &Path, flight: bool, load: Load) -> Result<ServerHandle, String> {
        isolate_env();
        spawn(options(node_id, flight), loader(root.to_path_buf(), load)).await.map_err(|e| e.to_string())
    }

    /// a node whose discovery loop runs once at start and then sleeps for an hour: its membership view stays exactly
    /// what the harness writes into it (`set_discovery` + `set_members` = what `resolve_once` does, minus the probe)
    pub async fn spawn_quiet_node(node_id: u64, root: &Path, flight: bool) -> Result<ServerHandle, String> {
        isolate_env();
        let mut o = options(node_id, flight);
        o.discovery_interval = Duration::from_secs(3600);
        spawn(o, loader(root.to_path_buf(), Load::Now)).await.map_err(|e| e.to_string())
    }

    pub async fn wait_for<F: FnMut() -> bool>(deadline: Duration, mut f: F) -> bool {
        let start = Instant::now();
        loop {
            if f() { return true; }
            if start.elapsed() > deadline { return false; }
            tokio::time::sleep(Duration::from_millis(10)).await;
        }
    }

    pub async fn cluster_view(addr: &str) -> Option<Value> {
        let r = http_client::get(addr, "/cluster", HTTP_TIMEOUT).await.ok()?;
        serde_json::from_slice(&r.body).ok()
    }

    /// members this node would send fragments to: itself + peers it has seen Up
    pub fn members_up(view: &Value) -> usize {
        view["members"].as_array().map(|a| a.iter().filter(|m| m["is_self"] == true || m["status"] == "up").count()).unwrap_or(0)
    }

    /// wait until `addr` sees exactly `total` members of which `up` are usable
    pub async fn converge(addr: &str, total: usize, up: usize, deadline: Duration) -> bool {
        let start = Instant::now();
        loop {
            if let Some(v) = cluster_view(addr).await {
                let settled = v["members"].as_array().map(|a| a.iter().all(|m| m["is_self"] == true || m["status"] == "up" || m["status"] == "down")).unwrap_or(false);
                if v["member_count"].as_u64() == Some(total as u64) && members_up(&v) == up && settled { return true; }
            }
            if start.elapsed() > deadline { return false; }
            tokio::time::sleep(Duration::from_millis(20)).await;
        }
    }

    /// The fault-injected peer: answers `/healthz` like a node, and `/fragment` according to `mode`.
    pub struct FaultPeer { pub addr: String, pub mode: Arc<Mutex<Value>>, pub hits: Arc<Mutex<Vec<String>>> }

    async fn read_request(s: &mut tokio::net::TcpStream) -> Option<(String, String, Vec<u8>)> {
        let mut buf = Vec::new();
        let mut tmp = [0u8; 4096];
        let head_end = loop {
            if let Some(p) = buf.windows(4).position(|w| w == b"\r\n\r\n") { break p; }
            let n = s.read(&mut tmp).await.ok()?;
            if n == 0 { return None; }
            buf.extend_from_slice(&tmp[..n]);
            if buf.len() > (4 << 20) { return None; }
        };
        let head = String::from_utf8_lossy(&buf[..head_end]).to_string();
        let mut lines = head.lines();
        let first = lines.next()?.to_string();
        let mut it = first.split_whitespace();
        let method = it.next()?.to_string();
        let path = it.next()?.to_string();
        let mut cl = 0usize;
        for l in lines { if let Some((k, v)) = l.split_once(':') { if k.trim().eq_ignore_ascii_case("content-length") { cl = v.trim().parse().unwrap_or(0); } } }
        let mut body = buf[head_end + 4..].to_vec();
        while body.len() < cl {
            let n = s.read(&mut tmp).await.ok()?;
            if n == 0 { break; }
            body.extend_from_slice(&tmp[..n]);
        }
        Some((method, path, body))
    }

    async fn write_response(s: &mut tokio::net::TcpStream, status: u16, ctype: &str, extra: &[(String, String)], declared_len: usize, body: &[u8]) {
        let mut head = format!("HTTP/1.1 {status} X\r\ncontent-type: {ctype}\r\ncontent-length: {declared_len}\r\nconnection: close\r\n");
        for (k, v) in extra { head.push_str(&format!("{k}: {v}\r\n")); }
        head.push_str("\r\n");
        let _ = s.write_all(head.as_bytes()).await;
        let _ = s.write_all(body).await;
        let _ = s.flush().await;
        let _ = s.shutdown().await;
    }

    pub async fn spawn_fault_peer(node_id: u64, ctx: Arc<ExecutionContext>) -> Result<FaultPeer, String> {
        let listener = tokio::net::TcpListener::bind("127.0.0.1:0").await.map_err(|e| e.to_string())?;
        let addr = listener.local_addr().map_err(|e| e.to_string())?.to_string();
        let mode = Arc::new(Mutex::new(json!("healthy")));
        let hits = Arc::new(Mutex::new(vec![]));
        let (m2, h2, a2) = (mode.clone(), hits.clone(), addr.clone());
        tokio::spawn(async move {
            loop {
                let Ok((mut s, _)) = listener.accept().await else { continue };
                let (mode, hits, addr, ctx) = (m2.clone(), h2.clone(), a2.clone(), ctx.clone());
                tokio::spawn(async move {
                    let Some((method, path, body)) = read_request(&mut s).await else { return };
                    if method == "GET" && path == "/healthz" {
                        let b = json!({"status": "ok", "node_id": node_id, "address": addr, "uptime_ms": 1}).to_string();
                        write_response(&mut s, 200, "application/json", &[], b.len(), b.as_bytes()).await;
                        return;
                    }
                    if method == "POST" && path == "/fragment" {
                        let m = mode.lock().unwrap().clone();
                        hits.lock().unwrap().push(m.to_string());
                        if m == "close" { return; }
                        if let Some(st) = m.get("http").and_then(|x| x.as_u64()) {
                            let b = json!({"error": "injected peer failure", "status": st}).to_string();
                            write_response(&mut s, st as u16, "application/json", &[], b.len(), b.as_bytes()).await;
                            return;
                        }
                        let req: FragmentRequest = match serde_json::from_slice(&body) { Ok(r) => r, Err(_) => { write_response(&mut s, 400, "application/json", &[], 2, b"{}").await; return; } };
                        let (r, _) = match execute_fragment(&ctx, &req).await {
                            Ok(x) => x,
                            Err(e) => { let b = json!({"error": e.to_string(), "status": 400}).to_string(); write_response(&mut s, 400, "application/json", &[], b.len(), b.as_bytes()).await; return; }
                        };
                        let bytes = match encode_ipc(&r.schema, &r.batches) { Ok(b) => b, Err(_) => return };
                        let hdr = vec![("x-qe-rows".to_string(), r.row_count.to_string()), ("x-qe-elapsed-ms".to_string(), "1.000".to_string())];
                        if m == "garbage" {
                            // first four bytes = a NEGATIVE little-endian length: rejected at once (ASCII text there would make arrow zero-fill ~2 GB first)
                            let g = b"\xf0\xff\xff\xffthis is not an arrow stream".to_vec();
                            write_response(&mut s, 200, "application/vnd.apache.arrow.stream", &hdr, g.len(), &g).await;
                            return;
                        }
                        if let Some(kind) = m.get("cut").and_then(|x| x.as_str()) {
                            let b = message_bounds(&bytes);
                            let at = m["at"].as_array().cloned().unwrap_or_default();
                            let j = at.first().and_then(|x| x.as_u64()).unwrap_or(0) as usize;
                            let d = at.get(1).and_then(|x| x.as_i64()).unwrap_or(0);
                            let base = if b.is_empty() { 0 } else { b[j.min(b.len() - 1)].1 as i64 };
                            let cut = (base + d).clamp(0, bytes.len() as i64 - 1) as usize;
                            let declared = if kind == "declared" { bytes.len() } else { cut };
                            write_response(&mut s, 200, "application/vnd.apache.arrow.stream", &hdr, declared, &bytes[..cut]).await;
                            return;
                        }
                        write_response(&mut s, 200, "application/vnd.apache.arrow.stream", &hdr, bytes.len(), &bytes).await;
                        return;
                    }
                    write_response(&mut s, 404, "application/json", &[], 2, b"{}").await;
                });
            }
        });
        Ok(FaultPeer { addr, mode, hits })
    }

    /// every participant answers from the same in-process context (what a healthy cluster does)
    pub struct InProc { pub peer: Arc<ExecutionContext> }
    #[async_trait::async_trait]
    impl query_engine::distributed::FragmentTransport for InProc {
        async fn send(&self, _address: &str, req: &FragmentRequest) -> query_engine::error::Result<(Vec<u8>, usize, f64)> {
            let (r, _) = execute_fragment(&self.peer, req).await?;
            let bytes = encode_ipc(&r.schema, &r.batches)?;
            Ok((bytes, r.row_count, 0.0))
        }
    }

    /// POST that keeps going when the server answers and closes before the body is fully sent (413 / 503 on a huge body):
    /// write errors are ignored and whatever response arrived is parsed. `None` = no status line was received.
    pub async fn tolerant_post(addr: &str, path_q: &str, body: &[u8]) -> Option<query_engine::distributed::HttpResponse> {
        let mut s = tokio::net::TcpStream::connect(addr).await.ok()?;
        let head = format!("POST {path_q} HTTP/1.1\r\nHost: {addr}\r\nConnection: close\r\nContent-Length: {}\r\nContent-Type: text/plain\r\n\r\n", body.len());
        let _ = s.write_all(head.as_bytes()).await;
        for chunk in body.chunks(16 * 1024) { if s.write_all(chunk).await.is_err() { break; } }
        let _ = s.flush().await;
        let mut raw = Vec::new();
        let mut tmp = [0u8; 4096];
        loop { match tokio::time::timeout(Duration::from_secs(20), s.read(&mut tmp)).await { Ok(Ok(0)) | Ok(Err(_)) | Err(_) => break, Ok(Ok(n)) => raw.extend_from_slice(&tmp[..n]) } }
        http_client::verif_parse_response(&raw).ok()
    }

    /// an address nothing listens on (bound once, then released)
    pub fn dead_address() -> String {
        let l = std::net::TcpListener::bind("127.0.0.1:0").expect("bind");
        let a = l.local_addr().expect("addr").to_string();
        drop(l);
        a
    }
}

use net::*;
use query_engine::distributed::{http_client, plan_distributed, plan_gather, splits_of, assign_lpt, ServerHandle};
use query_engine::error::QueryError;
use std::sync::atomic::{AtomicBool, Ordering};
use std::sync::{Arc, Mutex};
use std::time::Duration;

pub struct World {
    pub key: String,
    pub root: std::path::PathBuf,
    pub single: ServerHandle,
    pub trio: Vec<ServerHandle>,
    pub down: ServerHandle,
    pub init: ServerHandle,
    pub broken: ServerHandle,
    pub quiet: ServerHandle,
    pub fault: FaultPeer,
    pub reference: Arc<query_engine::ExecutionContext>,
}

pub async fn build_world(data: &Value, flight: bool) -> Result<World, String> {
    let root = fresh_dir("c35");
    write_tables(&root, data, 0);
    let reference = Arc::new(context_over(&root)?);
    let single = spawn_node(10, &root, flight, Load::Now).await?;
    let mut trio = vec![];
    for i in 0..3 { trio.push(spawn_node(20 + i, &root, flight, Load::Now).await?); }
    let addrs: Vec<String> = trio.iter().map(|h| h.address().to_string()).collect();
    for h in &trio { h.set_peers(addrs.clone()); }
    let down = spawn_node(30, &root, flight, Load::Now).await?;
    down.set_peers(vec![down.address().to_string(), dead_address()]);
    let fault = spawn_fault_peer(41, Arc::new(context_over(&root)?)).await?;
    let init = spawn_node(40, &root, flight, Load::Now).await?;
    init.set_peers(vec![init.address().to_string(), fault.addr.clone()]);
    let broken = spawn_node(50, &root, flight, Load::Fail).await?;
    let quiet = spawn_quiet_node(70, &root, flight).await?;
    // wait for tables and membership
    let dl = Duration::from_secs(60);
    for h in [&single, &down, &init, &quiet].into_iter().chain(trio.iter()) {
        if !wait_for(dl, || h.state().tables_loaded()).await { return Err(format!("node {} never loaded: {:?}", h.node_id(), h.state().load_error())); }
    }
    if !wait_for(dl, || broken.state().load_error().is_some()).await { return Err("broken node never reported its load error".into()); }
    for h in &trio { if !converge(&h.local_addr().to_string(), 3, 3, dl).await { return Err("trio did not converge".into()); } }
    if !converge(&down.local_addr().to_string(), 2, 1, dl).await { return Err("down-peer node did not settle".into()); }
    if !converge(&init.local_addr().to_string(), 2, 2, dl).await { return Err("initiator did not see the fault peer up".into()); }
    Ok(World { key: data.to_string(), root, single, trio, down, init, broken, quiet, fault, reference })
}

impl World {
    pub fn node(&self, name: &str) -> Option<&ServerHandle> {
        match name { "S" => Some(&self.single), "N0" => self.trio.first(), "N1" => self.trio.get(1), "N2" => self.trio.get(2), "D" => Some(&self.down), "I" => Some(&self.init), "X" => Some(&self.broken), "U" => Some(&self.quiet), _ => None }
    }
}

/// a small RFC 4180 reader: records of fields; quoted fields may contain commas, quotes ("" escape) and line breaks
pub fn parse_csv(text: &str) -> Result<Vec<Vec<String>>, String> {
    let mut rows = vec![]; let mut row = vec![]; let mut field = String::new();
    let mut chars = text.chars().peekable();
    let mut in_q = false; let mut any = false; let mut was_quoted = false;
    while let Some(c) = chars.next() {
        any = true;
        if in_q {
            if c == '"' { if chars.peek() == Some(&'"') { chars.next(); field.push('"'); } else { in_q = false; } } else { field.push(c); }
        } else {
            match c {
                '"' if field.is_empty() && !was_quoted => { in_q = true; was_quoted = true; }
                '"' => return Err("quote inside an unquoted field".into()),
                ',' => { row.push(std::mem::take(&mut field)); was_quoted = false; }
                '\r' if chars.peek() == Some(&'\n') => { chars.next(); row.push(std::mem::take(&mut field)); rows.push(std::mem::take(&mut row)); was_quoted = false; any = false; }
                '\n' => { row.push(std::mem::take(&mut field)); rows.push(std::mem::take(&mut row)); was_quoted = false; any = false; }
                _ => field.push(c),
            }
        }
    }
    if in_q { return Err("unterminated quoted field".into()); }
    if any { row.push(field); rows.push(row); }
    Ok(rows)
}

/// cells of a result, typed loosely: None = NULL
fn cells_of(batches: &[arrow::record_batch::RecordBatch]) -> Vec<Vec<Option<String>>> {
    use arrow::util::display::{ArrayFormatter, FormatOptions};
    let opts = FormatOptions::default();
    let mut out = vec![];
    for b in batches {
        let fs: Vec<ArrayFormatter> = b.columns().iter().map(|c| ArrayFormatter::try_new(c.as_ref(), &opts).expect("fmt")).collect();
        for i in 0..b.num_rows() {
            out.push(b.columns().iter().zip(&fs).map(|(c, f)| if c.is_null(i) { None } else { Some(f.value(i).to_string()) }).collect());
        }
    }
    out
}
const SEP: &str = "\u{1f}";
fn canon(rows: Vec<Vec<Option<String>>>, null: &str) -> Vec<String> {
    let mut v: Vec<String> = rows.into_iter().map(|r| r.into_iter().map(|c| c.unwrap_or_else(|| null.to_string())).collect::<Vec<_>>().join(SEP)).collect();
    v.sort();
    v
}

fn format_of(q: &str) -> &'static str {
    for pair in q.split('&') { if let Some((k, v)) = pair.split_once('=') { if k == "format" { return match v { "arrow" | "ipc" => "arrow", "json" => "json", "csv" => "csv", _ => "bad" }; } } }
    "arrow"
}

fn body_bytes(b: &Value) -> Vec<u8> {
    match b["k"].as_str().unwrap_or("") {
        "stmt" => b["sql"].as_str().unwrap_or("").as_bytes().to_vec(),
        "raw" => b["text"].as_str().unwrap_or("").as_bytes().to_vec(),
        "empty" => vec![],
        "spaces" => b"  \n\t ".to_vec(),
        "nonutf8" => vec![b'S', b'E', 0xff, 0xfe, b'L'],
        "huge" => { let mut v = b"SELECT 1 -- ".to_vec(); v.resize(1024 * 1024 + 1, b'x'); v }
        _ => vec![],
    }
}

fn exec_class(e: &QueryError) -> &'static str { if matches!(e, QueryError::NotImplemented(_)) { "notimpl" } else { "error" } }

async fn run_on(world: &World, c: &Value, h: &ServerHandle, ready: bool) -> Value {
    let path = c["path"].as_str().unwrap_or("/sql");
    let q = c["q"].as_str().unwrap_or("");
    let body = body_bytes(&c["body"]);
    let addr = h.local_addr().to_string();
    let fmt = format_of(q);
    let is_stmt = c["body"]["k"] == "stmt";
    let sql = c["body"]["sql"].as_str().unwrap_or("").trim().to_string();
    let ctx = world.reference.clone();

    // facts the decision depends on, from the real planner / membership
    let view = cluster_view(&addr).await.unwrap_or(json!({}));
    let up = members_up(&view);
    let total = view["member_count"].as_u64().unwrap_or(0) as usize;
    let (mut plan_ok, mut dist, mut tables): (bool, &str, Vec<String>) = (false, "error", vec![]);
    let mut local = "error";
    let mut expect: Option<(Vec<String>, Vec<Vec<Option<String>>>)> = None;
    if is_stmt && path == "/sql" {
        match plan_distributed(&ctx, &sql) {
            Ok(p) => { plan_ok = true; dist = "ok"; tables = vec![p.table]; }
            Err(QueryError::NotImplemented(_)) => match plan_gather(&ctx, &sql) {
                Ok(g) => { dist = "ok"; tables = g.tables.iter().map(|t| t.name.clone()).collect(); }
                Err(e) => dist = exec_class(&e),
            },
            Err(e) => dist = exec_class(&e),
        }
        match ctx.sql(&sql).await {
            Ok(r) => {
                local = "ok";
                let schema = r.batches.first().map(|b| b.schema()).unwrap_or(r.schema.clone());
                expect = Some((schema.fields().iter().map(|f| f.name().clone()).collect(), cells_of(&r.batches)));
            }
            Err(e) => local = exec_class(&e),
        }
    }
    // the participants this node would use, in the order its membership renders them (self + peers seen Up)
    let ups: Vec<(String, bool)> = view["members"].as_array().map(|a| a.iter().filter(|m| m["is_self"] == true || m["status"] == "up")
        .map(|m| (m["address"].as_str().unwrap_or("").to_string(), m["is_self"] == true)).collect()).unwrap_or_default();
    // does the fault peer hold an active shard of this statement?
    let mut peer_active = false;
    if c["node"] == "I" && !tables.is_empty() {
        if let Some(peer_ix) = ups.iter().position(|(a, _)| *a == world.fault.addr) {
            for t in &tables { if let Ok(set) = splits_of(&ctx, t, ups.len()) { if assign_lpt(&set, ups.len()).node_splits[peer_ix] > 0 { peer_active = true; } } }
        }
    }
    // what a distributed execution over these participants yields when every peer is healthy (the REAL coordinator, in-process peers)
    if is_stmt && path == "/sql" && dist == "ok" && !ups.is_empty() {
        let parts: Vec<query_engine::distributed::Participant> = ups.iter().enumerate()
            .map(|(i, (a, me))| query_engine::distributed::Participant { node_id: i as u64, address: a.clone(), is_self: *me }).collect();
        match query_engine::distributed::execute_any_distributed(&ctx, &sql, &parts, &InProc { peer: ctx.clone() }).await {
            Ok(_) => {}
            Err(e) => dist = exec_class(&e),
        }
    }
    let fault_active = c["node"] == "I" && peer_active && c.get("fault").map(|f| !f.is_null() && f != "healthy").unwrap_or(false);
    if fault_active && dist == "ok" { dist = "error"; }

    let view_status: Vec<String> = view["members"].as_array().map(|a| a.iter().filter(|m| m["is_self"] != true).map(|m| m["status"].as_str().unwrap_or("?").to_string()).collect()).unwrap_or_default();
    let resp = if c["body"]["k"] == "huge" {
        match tolerant_post(&addr, &format!("{path}?{q}"), &body).await { Some(r) => r, None => return json!({"transport_error": "no response to an oversized request"}) }
    } else {
        // one retry when the whole exchange timed out (the sandbox is shared; requests here are idempotent reads)
        let mut attempt = http_client::request(&addr, "POST", &format!("{path}?{q}"), Some("text/plain; charset=utf-8"), Some(&body), HTTP_TIMEOUT).await;
        if matches!(&attempt, Err(e) if e.kind() == std::io::ErrorKind::TimedOut) {
            attempt = http_client::request(&addr, "POST", &format!("{path}?{q}"), Some("text/plain; charset=utf-8"), Some(&body), HTTP_TIMEOUT).await;
        }
        match attempt { Ok(r) => r, Err(e) => return json!({"transport_error": e.to_string()}) }
    };
    let mut out = json!({"status": resp.status, "distributed": resp.header("x-qe-distributed"), "skipped": resp.header("x-qe-distributed-skipped"),
        "rows_hdr": resp.header("x-qe-rows"), "ctype": resp.header("content-type"), "shards": resp.header("x-qe-shards"),
        "local": local, "dist": dist, "plan_ok": plan_ok, "members_up": up, "members_total": total, "ready": ready, "peer_active": peer_active, "fault_active": fault_active, "format": fmt, "peer_status": view_status});
    if resp.status != 200 {
        out["error"] = json!(serde_json::from_slice::<Value>(&resp.body).ok().and_then(|v| v["error"].as_str().map(|s| s.chars().take(200).collect::<String>())));
        return out;
    }
    if path != "/sql" { return out; }
    // decode the body by an independent reader and put it next to the in-process answer, both in one canonical form per format
    let (eh, erows) = expect.clone().unwrap_or_default();
    match fmt {
        "arrow" => match query_engine::distributed::coordinator::decode_ipc(&resp.body) {
            Ok(bs) => {
                let nonempty: Vec<_> = bs.iter().filter(|b| b.num_rows() > 0).cloned().collect();
                out["got"] = json!(canon(cells_of(&nonempty), "\u{0}NULL"));
                out["got_header"] = json!(bs.first().map(|b| b.schema().fields().iter().map(|f| f.name().clone()).collect::<Vec<_>>()));
                out["expect"] = json!(canon(erows, "\u{0}NULL"));
                out["expect_header"] = json!(eh);
            }
            Err(e) => out["decode_error"] = json!(e.to_string()),
        },
        "csv" => match String::from_utf8(resp.body.clone()).map_err(|e| e.to_string()).and_then(|t| parse_csv(&t)) {
            Ok(mut recs) => {
                let header = if recs.is_empty() { None } else { Some(recs.remove(0)) };
                out["got"] = json!(canon(recs.into_iter().map(|r| r.into_iter().map(Some).collect()).collect(), ""));
                out["got_header"] = json!(header);
                out["expect"] = json!(canon(erows.clone(), ""));
                out["expect_header"] = if erows.is_empty() { Value::Null } else { json!(eh) };   // arrow's CSV writer emits the header with the first batch
            }
            Err(e) => out["decode_error"] = json!(e),
        },
        "json" => match serde_json::from_slice::<Value>(&resp.body) {
            Ok(Value::Array(objs)) => {
                let mut rows = vec![];
                let mut bad = None;
                for o in &objs {
                    let Some(m) = o.as_object() else { bad = Some("row is not an object"); break };
                    if m.keys().any(|k| !eh.contains(k)) { bad = Some("unknown key"); break; }
                    rows.push(eh.iter().map(|k| match m.get(k) { None | Some(Value::Null) => None, Some(Value::String(s)) => Some(s.clone()), Some(v) => Some(v.to_string()) }).collect::<Vec<_>>());
                }
                if let Some(b) = bad { out["decode_error"] = json!(b); } else {
                    out["got"] = json!(canon(rows, "\u{0}NULL"));
                    out["expect"] = json!(canon(erows, "\u{0}NULL"));
                }
            }
            Ok(_) => out["decode_error"] = json!("JSON body is not an array"),
            Err(e) => out["decode_error"] = json!(e.to_string()),
        },
        _ => {}
    }
    out
}

async fn run_case_async(world: &World, c: &Value) -> Value {
    let node = c["node"].as_str().unwrap_or("S");
    if node == "L0" || node == "L1" {
        // a fresh node whose loader waits for the gate
        let gate = Arc::new(AtomicBool::new(false));
        let h = match spawn_node(60, &world.root, false, Load::Gated(gate.clone())).await { Ok(h) => h, Err(e) => return json!({"setup_error": e}) };
        let out = if node == "L0" {
            let o = run_on(world, c, &h, false).await;
            gate.store(true, Ordering::Relaxed);
            o
        } else {
            // not ready first, then opened: the same request must now be answered
            let before = http_client::request(&h.local_addr().to_string(), "POST", "/sql?format=csv", Some("text/plain"), Some(b"SELECT 1 AS x"), HTTP_TIMEOUT).await.map(|r| r.status).unwrap_or(0);
            gate.store(true, Ordering::Relaxed);
            if !wait_for(Duration::from_secs(60), || h.state().tables_loaded()).await { return json!({"setup_error": "late node never loaded"}); }
            let mut o = run_on(world, c, &h, true).await;
            o["status_before_load"] = json!(before);
            o
        };
        h.shutdown().await;
        return out;
    }
    let Some(h) = world.node(node) else { return json!({"bad_case": true}) };
    if node == "I" { *world.fault.mode.lock().unwrap() = c.get("fault").cloned().unwrap_or(json!("healthy")); }
    if node == "U" {
        // write the case's membership view into the quiet node: configured peers start Unknown; only "up"/"down" get a probe result
        let m = &h.state().membership;
        let mut live = world.trio.iter();
        let mut peers: Vec<(String, &str, u64)> = vec![];
        for k in c["view"].as_array().cloned().unwrap_or_default() {
            let kind = k.as_str().unwrap_or("");
            match kind {
                "up" | "unknown-alive" => { if let Some(n) = live.next() { peers.push((n.address().to_string(), if kind == "up" { "up" } else { "unknown" }, n.node_id())); } }
                "down" => peers.push((dead_address(), "down", 0)),
                _ => peers.push((dead_address(), "unknown", 0)),
            }
        }
        let addrs: Vec<String> = peers.iter().map(|p| p.0.clone()).collect();
        m.set_discovery(query_engine::distributed::Discovery::Static(addrs.clone()));
        m.set_members(vec![]);
        m.set_members(addrs);
        for (a, st, id) in &peers {
            match *st { "up" => m.record_up(a, Some(*id), None), "down" => m.record_down(a, "connection refused (injected view)"), _ => {} }
        }
    }
    let ready = node != "X";
    let out = run_on(world, c, h, ready).await;
    if node == "I" { *world.fault.mode.lock().unwrap() = json!("healthy"); }
    out
}

static WORLD: Mutex<Option<Arc<World>>> = Mutex::new(None);

pub fn run_case(c: &Value) -> Value {
    let c2 = c.clone();
    guarded(std::panic::AssertUnwindSafe(move || {
        let rt = runtime();
        let key = c2["data"].to_string();
        let world = {
            let mut g = WORLD.lock().unwrap_or_else(|e| e.into_inner());
            let stale = g.as_ref().map(|w| w.key != key).unwrap_or(true);
            if stale {
                match rt.block_on(build_world(&c2["data"], false)) { Ok(w) => *g = Some(Arc::new(w)), Err(e) => return json!({"setup_error": e}) }
            }
            g.as_ref().unwrap().clone()
        };
        rt.block_on(run_case_async(&world, &c2))
    }))
}

pub const STMTS: &[&str] = &[
    "SELECT id, k, v FROM f WHERE v > 10",
    "SELECT id, s FROM f",
    "SELECT COUNT(*) AS n, SUM(v) AS sv, MIN(v) AS lo, MAX(v) AS hi FROM f",
    "SELECT k, COUNT(*) AS n, SUM(v) AS sv FROM f GROUP BY k",
    "SELECT id, v FROM f ORDER BY id DESC LIMIT 7",
    "SELECT COUNT(DISTINCT k) AS dk FROM f",
    "SELECT f.id, g.w, g.name FROM f JOIN g ON f.k = g.k WHERE g.w > 0",
    "SELECT id FROM f WHERE v > 1000",
    "SELECT s, COUNT(*) AS n FROM f GROUP BY s",
    "SELECT 1 AS one",
    "SELECT nope FROM f",
    "SELECT * FROM missing_table",
    "SELEC id FROM f",
];
const MODES: &[&str] = &["", "distributed=auto", "distributed=1", "distributed=true", "distributed=yes", "distributed=force", "distributed=0", "distributed=false", "distributed=no", "distributed=local",
    "distributed=off", "distributed=maybe", "distributed=AUTO", "distributed=", "distributed", "distributed=0&distributed=1", "x=1&distributed=1"];
const FORMATS: &[&str] = &["", "format=arrow", "format=ipc", "format=json", "format=csv", "format=jsonl", "format=CSV", "format=csv&format=json"];

fn query_string(r: &mut Rng, valid_bias: bool) -> String {
    let m = if valid_bias { if r.chance(1, 3) { *r.pick(&MODES[..2]) } else { *r.pick(&MODES[..10]) } } else { *r.pick(MODES) };
    let f = if valid_bias { *r.pick(&FORMATS[..5]) } else { *r.pick(FORMATS) };
    let mut parts: Vec<&str> = vec![];
    if !f.is_empty() { parts.push(f); }
    if !m.is_empty() { parts.push(m); }
    if r.chance(1, 2) { parts.reverse(); }
    parts.join("&")
}

pub fn main(o: &Opts) {
    if let Some(p) = &o.replay { for c in replay_cases(p) { let i = run_case(&c); emit(c, i); } return; }
    let mut r = Rng::new(o.seed ^ 0xC35);
    let mut data = gen_data_spec(&mut r);
    data["f_rows"] = json!(*r.pick(&[60u64, 150, 400]));
    data["g_rows"] = json!(*r.pick(&[6u64, 20]));
    data["spicy"] = json!(true);
    let faults = [json!({"http": 500}), json!({"http": 503}), json!("garbage"), json!("close"), json!({"cut": "declared", "at": [0, 0]}), json!({"cut": "declared", "at": [1, 5]}),
        json!({"cut": "consistent", "at": [0, 0]}), json!({"cut": "consistent", "at": [1, 0]}), json!({"cut": "consistent", "at": [99, -8]}), json!("healthy")];
    for n in 0..o.cases {
        let stmt = json!({"k": "stmt", "sql": *r.pick(STMTS)});
        let c = match n % 10 {
            // not-ready nodes: every mode/format/body, /sql and /fragment
            0 => {
                let node = *r.pick(&["X", "X", "L0"]);
                let body = match r.below(6) { 0 => json!({"k": "huge"}), 1 => json!({"k": "empty"}), 2 => json!({"k": "nonutf8"}), _ => stmt.clone() };
                if r.chance(1, 3) { json!({"data": data, "node": node, "path": "/fragment", "q": "", "body": {"k": "raw", "text": *r.pick(&["{}", "junk", "{\"sql\":\"SELECT 1\",\"table\":\"f\",\"shard_index\":0,\"shard_count\":1,\"splits_digest\":0}"])}}) }
                else { let vb = r.chance(2, 3); json!({"data": data, "node": node, "path": "/sql", "q": query_string(&mut r, vb), "body": body}) }
            }
            1 if n % 50 == 1 => json!({"data": data, "node": "L1", "path": "/sql", "q": query_string(&mut r, true), "body": stmt}),
            // malformed requests on a ready node
            1 => {
                let body = match r.below(5) { 0 => json!({"k": "huge"}), 1 => json!({"k": "empty"}), 2 => json!({"k": "nonutf8"}), 3 => json!({"k": "spaces"}), _ => stmt.clone() };
                let node = *r.pick(&["S", "N1"]);
                if r.chance(1, 4) { json!({"data": data, "node": node, "path": "/fragment", "q": "", "body": {"k": "raw", "text": *r.pick(&["{}", "junk", ""])}}) }
                else { json!({"data": data, "node": node, "path": "/sql", "q": query_string(&mut r, false), "body": body}) }
            }
            // the no-fallback rule: the initiator's only peer fails its fragment
            2 | 3 => json!({"data": data, "node": "I", "path": "/sql", "q": query_string(&mut r, true), "body": stmt, "fault": r.pick(&faults).clone()}),
            // view:unknown-peer — the node's view holds 1–3 configured peers that were NEVER probed (absent or alive), alone or
            // mixed with Up / Down peers; auto must count only members that are UP, and fragments go only to those
            4 | 5 => {
                let mut view: Vec<&str> = vec![];
                for _ in 0..1 + r.below(3) { view.push(*r.pick(&["unknown-absent", "unknown-alive", "unknown-absent"])); }
                match r.below(4) { 0 => view.push("up"), 1 => view.push("down"), 2 => { view.push("up"); view.push("down"); } _ => {} }
                while view.iter().filter(|k| **k == "up" || **k == "unknown-alive").count() > 3 { let p = view.iter().position(|k| *k == "unknown-alive").unwrap(); view.remove(p); }
                r.shuffle(&mut view);
                let q = if r.chance(3, 5) { (*r.pick(&["", "distributed=auto", "format=csv", "format=json&distributed=auto"])).to_string() } else { query_string(&mut r, true) };
                json!({"data": data, "node": "U", "view": view, "path": "/sql", "q": q, "body": stmt})
            }
            // membership states × modes × formats × statements
            _ => json!({"data": data, "node": *r.pick(&["S", "N0", "N1", "N2", "N0", "D"]), "path": "/sql", "q": query_string(&mut r, true), "body": stmt}),
        };
        let i = run_case(&c);
        emit(c, i);
    }
}
