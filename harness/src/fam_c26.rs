// FAMILY: C26
//! C26: window functions through ExecutionContext::sql.  One generated table; 1–2 window calls per statement:
//! every supported function × PARTITION BY (0–2 keys) × ORDER BY (0–2 keys, DESC / NULLS FIRST, unique tie-breaker in 2/3 of the
//! order-sensitive calls) × frame (absent, ROWS / RANGE × every pair of bound kinds, numeric RANGE offsets over int / double / date keys),
//! plus a stream of specifications the engine must refuse by name (GROUPS, IGNORE NULLS, FILTER, DISTINCT, RANGE offsets over a string
//! key or two keys, non-literal offsets, NTILE(0), negative LAG offset, NTH_VALUE(.., 0)) and boundary offsets (0, 2^64-1).
use crate::common::*;
use crate::fams::fam_sql::sqlgen::catalog::{gen_catalog, CatOpts, Catalog, TableSpec};
use crate::fams::fam_sql::sqlgen::exec::{run, ExecCfg};
use crate::fams::fam_sql::sqlgen::ColTy;
use crate::rng::Rng;
use serde_json::{json, Value};

#[derive(Clone)]
struct Key { col: usize, desc: bool, nf: Option<bool> }

fn cols_of(t: &TableSpec, pred: impl Fn(ColTy) -> bool) -> Vec<usize> {
    (1..t.cols.len()).filter(|&i| pred(t.cols[i].cty)).collect()
}

fn bound_sql(b: &(u8, u64)) -> String {
    match b.0 { 0 => "UNBOUNDED PRECEDING".into(), 1 => format!("{} PRECEDING", b.1), 2 => "CURRENT ROW".into(), 3 => format!("{} FOLLOWING", b.1), _ => "UNBOUNDED FOLLOWING".into() }
}
fn bound_json(b: &(u8, u64)) -> Value {
    match b.0 { 0 => json!("up"), 1 => json!({"p": b.1}), 2 => json!("cr"), 3 => json!({"f": b.1}), _ => json!("uf") }
}

struct Call { sql: String, plan: Value, tags: Vec<String>, refuse: bool }

fn gen_call(r: &mut Rng, t: &TableSpec, invalid: bool) -> Call {
    let fns = ["row_number", "rank", "dense_rank", "percent_rank", "cume_dist", "ntile", "lag", "lead", "first_value", "last_value", "nth_value",
               "count_star", "count", "sum", "avg", "min", "max"];
    let f = *r.pick(&fns);
    let numeric = cols_of(t, |c| matches!(c, ColTy::I64 | ColTy::I32 | ColTy::F64));
    let any: Vec<usize> = (1..t.cols.len()).collect();
    let mut tags: Vec<String> = vec![];
    // --- partition / order
    let mut part: Vec<usize> = vec![];
    if !any.is_empty() { for _ in 0..*r.pick(&[0usize, 0, 1, 1, 2]) { let c = *r.pick(&any); if !part.contains(&c) { part.push(c); } } }
    let sensitive = matches!(f, "row_number" | "ntile" | "lag" | "lead" | "first_value" | "last_value" | "nth_value");
    let mut order: Vec<Key> = vec![];
    let nord = if matches!(f, "row_number" | "rank" | "dense_rank" | "percent_rank" | "cume_dist" | "ntile" | "lag" | "lead") { 1 + r.below(2) as usize } else { r.below(3) as usize };
    if !any.is_empty() { for _ in 0..nord { let c = *r.pick(&any); if !order.iter().any(|k| k.col == c) { order.push(Key { col: c, desc: r.chance(1, 3), nf: *r.pick(&[None, Some(true), Some(false)]) }); } } }
    // --- frame
    let mut frame: Option<(bool, (u8, u64), (u8, u64))> = None; // (range?, start, end)
    let framed = matches!(f, "first_value" | "last_value" | "nth_value" | "count_star" | "count" | "sum" | "avg" | "min" | "max");
    let mut range_off_key: Option<usize> = None;
    if framed && r.chance(3, 4) {
        let range = r.chance(2, 5);
        let off = |r: &mut Rng| *r.pick(&[0u64, 1, 1, 2, 3, 7]);
        let kinds_s = [0u8, 1, 2, 3];
        let kinds_e = [1u8, 2, 3, 4];
        let mut s = (*r.pick(&kinds_s), off(r));
        let mut e = (*r.pick(&kinds_e), off(r));
        // mostly well-ordered bound kinds; the inverted ones (an empty frame in the engine and in the reference) in 1/8
        if s.0 > e.0 && !r.chance(1, 8) { std::mem::swap(&mut s, &mut e); if s.0 == 4 { s.0 = 0; } if e.0 == 0 { e.0 = 4; } }
        if range && (matches!(s.0, 1 | 3) || matches!(e.0, 1 | 3)) {
            // numeric offsets need exactly one numeric / date order key
            let ok_keys = cols_of(t, |c| matches!(c, ColTy::I64 | ColTy::I32 | ColTy::F64 | ColTy::Date));
            if let Some(&k) = if ok_keys.is_empty() { None } else { Some(r.pick(&ok_keys)) } {
                order = vec![Key { col: k, desc: r.chance(1, 3), nf: *r.pick(&[None, Some(true), Some(false)]) }];
                range_off_key = Some(k);
            } else { if matches!(s.0, 1 | 3) { s.0 = 2; } if matches!(e.0, 1 | 3) { e.0 = 2; } }
        }
        if range && order.is_empty() && !any.is_empty() { order.push(Key { col: *r.pick(&any), desc: false, nf: None }); }
        frame = Some((range, s, e));
    }
    // unique tie-breaker for calls whose value depends on the order of peers
    let rows_frame = matches!(frame, Some((false, _, _)));
    if (sensitive || rows_frame) && range_off_key.is_none() && r.chance(2, 3) { order.push(Key { col: 0, desc: r.chance(1, 4), nf: None }); tags.push("tiebreak".into()); }
    // --- arguments
    let mut args_sql = String::new();
    let mut args: Vec<Value> = vec![];
    let lit = |i: i64| json!({"lit": {"i": i}});
    let pick_arg = |r: &mut Rng, pool: &Vec<usize>| -> usize { if pool.is_empty() { 0 } else { *r.pick(pool) } };
    match f {
        "ntile" => { let b = *r.pick(&[1i64, 2, 3, 4, 7, 100]); args_sql = b.to_string(); args = vec![lit(b)]; }
        "lag" | "lead" => {
            let a = pick_arg(r, &any);
            args_sql = t.cols[a].name.clone(); args = vec![json!({"col": a})];
            if r.chance(2, 3) {
                let o = *r.pick(&[0i64, 1, 1, 2, 3, 50]);
                args_sql.push_str(&format!(", {}", o)); args.push(lit(o));
                if r.chance(1, 2) && matches!(t.cols[a].cty, ColTy::I64) { args_sql.push_str(", -7"); args.push(json!({"un": ["neg", lit(7)]})); }
            }
        }
        "first_value" | "last_value" => { let a = pick_arg(r, &any); args_sql = t.cols[a].name.clone(); args = vec![json!({"col": a})]; }
        "nth_value" => { let a = pick_arg(r, &any); let k = *r.pick(&[1i64, 2, 3, 9]); args_sql = format!("{}, {}", t.cols[a].name, k); args = vec![json!({"col": a}), lit(k)]; }
        "count_star" => { args_sql = "*".into(); }
        "count" | "min" | "max" => { let a = pick_arg(r, &any); args_sql = t.cols[a].name.clone(); args = vec![json!({"col": a})]; }
        "sum" | "avg" => { let a = pick_arg(r, &numeric); args_sql = t.cols[a].name.clone(); args = vec![json!({"col": a})]; }
        _ => {}
    }
    let mut name = match f { "count_star" => "COUNT".to_string(), x => x.to_uppercase() };
    let mut refuse = false;
    let mut modifier = String::new();
    let mut frame_units_sql: Option<String> = None;
    // --- the invalid / unsupported stream
    if invalid {
        match r.below(11) {
            0 => { if framed { frame_units_sql = Some("GROUPS".into()); if frame.is_none() { frame = Some((false, (1, 1), (2, 0))); } if order.is_empty() { order.push(Key { col: 0, desc: false, nf: None }); } refuse = true; tags.push("inv:groups".into()); } }
            1 => { if matches!(f, "lag" | "lead" | "first_value" | "last_value" | "nth_value") { modifier = " IGNORE NULLS".into(); refuse = true; tags.push("inv:ignore_nulls".into()); } }
            2 => { if matches!(f, "count_star" | "count" | "sum" | "avg" | "min" | "max") { modifier = format!(" FILTER (WHERE {} > 0)", t.cols[0].name); refuse = true; tags.push("inv:filter".into()); } }
            3 => { if matches!(f, "count" | "sum" | "avg") { args_sql = format!("DISTINCT {}", args_sql); refuse = true; tags.push("inv:distinct".into()); } }
            4 => { // RANGE offset over a string key
                let strs = cols_of(t, |c| matches!(c, ColTy::Str | ColTy::Bool));
                if framed && !strs.is_empty() { order = vec![Key { col: *r.pick(&strs), desc: false, nf: None }]; frame = Some((true, (1, 1), (2, 0))); refuse = true; tags.push("inv:range_str".into()); }
            }
            5 => { if framed && any.len() >= 1 { order = vec![Key { col: any[0], desc: false, nf: None }, Key { col: 0, desc: false, nf: None }]; frame = Some((true, (1, 1), (3, 1))); tags.push("inv:range_two_keys".into()); } }
            6 => { if f == "ntile" { let b = *r.pick(&[0i64, -3]); args_sql = b.to_string(); args = vec![if b < 0 { json!({"un": ["neg", lit(-b)]}) } else { lit(b) }]; tags.push("inv:ntile_nonpos".into()); } }
            7 => { if matches!(f, "lag" | "lead") { let a = pick_arg(r, &any); args_sql = format!("{}, {}", t.cols[a].name, t.cols[0].name); args = vec![json!({"col": a}), json!({"col": 0})]; tags.push("inv:nonliteral_offset".into()); } }
            8 => { if f == "nth_value" { let a = pick_arg(r, &any); args_sql = format!("{}, 0", t.cols[a].name); args = vec![json!({"col": a}), lit(0)]; tags.push("inv:nth_zero".into()); } }
            9 => { if framed { // boundary offsets
                let big = *r.pick(&[18446744073709551615u64, 9223372036854775807, 4294967296]);
                if order.is_empty() { order.push(Key { col: 0, desc: false, nf: None }); }
                frame = Some((false, (*r.pick(&[0u8, 2, 3]), big), (3, big))); tags.push("inv:huge_offset".into()); } }
            _ => { if framed { if order.is_empty() { order.push(Key { col: 0, desc: false, nf: None }); } frame = Some((false, (4, 0), (4, 0))); tags.push("inv:start_uf".into()); } }
        }
    }
    if f == "count_star" { name = "COUNT".into(); }
    // --- text and plan
    let mut over: Vec<String> = vec![];
    if !part.is_empty() { over.push(format!("PARTITION BY {}", part.iter().map(|&c| t.cols[c].name.clone()).collect::<Vec<_>>().join(", "))); }
    if !order.is_empty() {
        over.push(format!("ORDER BY {}", order.iter().map(|k| format!("{}{}{}", t.cols[k.col].name, if k.desc { " DESC" } else { "" },
            match k.nf { Some(true) => " NULLS FIRST", Some(false) => " NULLS LAST", None => "" })).collect::<Vec<_>>().join(", ")));
    }
    let mut frame_json = Value::Null;
    if let Some((range, s, e)) = &frame {
        let units = frame_units_sql.clone().unwrap_or_else(|| if *range { "RANGE".into() } else { "ROWS".into() });
        over.push(format!("{} BETWEEN {} AND {}", units, bound_sql(s), bound_sql(e)));
        frame_json = json!({"units": if *range { "range" } else { "rows" }, "start": bound_json(s), "stop": bound_json(e)});
        tags.push(if *range && (matches!(s.0, 1 | 3) || matches!(e.0, 1 | 3)) { "range_offset".into() } else if *range { "range_frame".into() } else { "rows_frame".into() });
    }
    let sql = format!("{}({}){} OVER ({})", name, args_sql, modifier, over.join(" "));
    let fnj = match f { "count_star" | "count" | "sum" | "avg" | "min" | "max" => json!({"agg": f}), x => json!(x) };
    let plan = json!({"fn": fnj, "args": args, "partition": part.iter().map(|&c| json!({"col": c})).collect::<Vec<_>>(),
        "order": order.iter().map(|k| json!({"e": {"col": k.col}, "desc": k.desc, "nf": k.nf.unwrap_or(false)})).collect::<Vec<_>>(), "frame": frame_json});
    Call { sql, plan, tags, refuse }
}

fn gen_case(r: &mut Rng, cat: &Catalog, n: usize, cfg: &ExecCfg) -> Value {
    let t = &cat.tables[0];
    let invalid = n % 8 == 7;
    let ncalls = if invalid { 1 } else { 1 + r.below(2) as usize };
    let calls: Vec<Call> = (0..ncalls).map(|_| gen_call(r, t, invalid)).collect();
    let cols: Vec<String> = t.cols.iter().map(|c| c.name.clone()).collect();
    let sql = format!("SELECT {}, {} FROM {}", cols.join(", "), calls.iter().enumerate().map(|(i, c)| format!("{} AS w{}", c.sql, i)).collect::<Vec<_>>().join(", "), t.name);
    let plan = json!({"window": {"calls": calls.iter().map(|c| c.plan.clone()).collect::<Vec<_>>(), "q": {"scan": 0}}});
    let mut tags: Vec<String> = calls.iter().flat_map(|c| c.tags.clone()).collect();
    tags.push(if invalid { "stream:invalid".into() } else { "stream:valid".into() });
    let refuse = calls.iter().any(|c| c.refuse);
    json!({"kind": "window", "prop": "C26", "mode": "spec", "sql": sql, "plan": plan, "tables": cat.tables_json(), "cat": cat.meta_json(),
           "tags": tags, "engine_defined": false, "strict_err": true, "cfg": cfg.name, "expect": if refuse { "refuse" } else { "rows" }})
}

pub fn run_case(c: &Value) -> Value {
    let cat = Catalog::from_case(c);
    let cfg = c["cfg"].as_str().and_then(ExecCfg::parse).unwrap_or_else(ExecCfg::mem_batches);
    run(&cat, c["sql"].as_str().unwrap_or(""), &cfg)
}

pub fn main(o: &Opts) {
    if let Some(p) = &o.replay { for c in replay_cases(p) { let i = run_case(&c); emit(c, i); } return; }
    let mut r = Rng::new(o.seed ^ 0xC26);
    let mut copts = CatOpts::default();
    copts.max_tables = 1; copts.max_cols = 5;
    copts.sizes = vec!["tiny".into(), "tiny".into(), "small".into(), "small".into(), "15".into()];
    copts.types = vec![ColTy::I64, ColTy::I64, ColTy::I32, ColTy::F64, ColTy::Str, ColTy::Date, ColTy::Bool];
    let cfgs = [ExecCfg::mem_batches(), ExecCfg::mem_single()];
    let mut cat = gen_catalog(&mut r, &copts);
    for n in 0..o.cases {
        if n % 6 == 0 { cat = gen_catalog(&mut r, &copts); }
        let c = gen_case(&mut r, &cat, n, &cfgs[n % 2]);
        let i = run_case(&c);
        emit(c, i);
    }
}
