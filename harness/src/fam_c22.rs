// FAMILY: C22
//! C22 — joins follow SQL join semantics.
//! Focused generator: two tables t0(id0, a0, b0, c0, v0) / t1(id1, a1, b1, c1, v1) whose key columns a/b/c have the same
//! type on both sides (BIGINT / INTEGER / VARCHAR / DATE), NULL densities 0/10/50/100 %, small domains (duplicates), and a
//! BIGINT payload v used by residual ON predicates.  Two kinds of cases (tag `kind:sql` / `kind:op`):
//!   sql  SELECT … FROM t0 x0 <INNER|LEFT|RIGHT|FULL OUTER|LEFT SEMI|LEFT ANTI|CROSS JOIN> t1 x1 ON keys [AND residual],
//!        and SELECT … FROM t0 x0 WHERE [NOT] EXISTS (SELECT 1 FROM t1 x1 WHERE keys [AND residual]),
//!        through ExecutionContext::sql over single-batch / multi-batch memory tables and Parquet (StreamingParquetScanExec,
//!        SharedRuntimeFilter); sizes straddle the 1 000- and 10 000-probe-row gates of `probe_hash_table`;
//!   op   `HashJoinExec::with_filter(..).with_build_right(..)` driven directly over inputs with chosen partitions × batches.
//! Case / impl JSON are the sqlgen formats (mode spec): the Lean side is Driver.SQL's machinery (O = Spec.acceptable) plus
//! the hash-join model (lean/Driver/C22.lean, K = IQE.Engine.HashJoin.hashJoin).
use crate::common::*;
use crate::fams::fam_c21::plan_ops;
use crate::fams::fam_sql::sqlgen::ast::*;
use crate::fams::fam_sql::sqlgen::catalog::{small_value, Catalog, ColSpec, TableSpec};
use crate::fams::fam_sql::sqlgen::driver::{make_case, run_case};
use crate::fams::fam_sql::sqlgen::exec::{batch_rows, err_kind, runtime, ExecCfg};
use crate::fams::fam_sql::sqlgen::{rows_json, ColTy, Val};
use crate::rng::Rng;
use arrow::datatypes::SchemaRef;
use arrow::record_batch::RecordBatch;
use async_trait::async_trait;
use futures::TryStreamExt;
use query_engine::physical::operators::HashJoinExec;
use query_engine::physical::{PhysicalOperator, RecordBatchStream};
use query_engine::planner::{BinaryOp, Expr as PExpr, JoinType as PJoin};
use serde_json::{json, Value};
use std::sync::Arc;

const KEYS: [&str; 3] = ["a", "b", "c"];

#[derive(Clone, Copy, PartialEq, Debug)]
enum Form { Join, Exists, Count }

/// residual ON predicate over (x0.v0, x1.v1)
#[derive(Clone, Copy, PartialEq, Debug)]
enum Resid { None, Lt, Ne, Never, LeftOnly, RightOnly, Le }
impl Resid {
    fn name(self) -> &'static str { match self { Resid::None => "none", Resid::Lt => "lt", Resid::Ne => "ne", Resid::Never => "never", Resid::LeftOnly => "left_only", Resid::RightOnly => "right_only", Resid::Le => "le" } }
    fn parse(s: &str) -> Resid { match s { "lt" => Resid::Lt, "ne" => Resid::Ne, "never" => Resid::Never, "left_only" => Resid::LeftOnly, "right_only" => Resid::RightOnly, "le" => Resid::Le, _ => Resid::None } }
}

/// `nested`: the right input is itself a join `t1 x1 <nested> t1 x2 ON x1.id1 = x2.id1` (the probe side of the top join is then a
/// join OUTPUT: its build-side VARCHAR columns are gathered dictionary-encoded)
/// `nested_left`: the nested join is the LEFT input instead (`(t0 x0 <nested> t0 x9 ON x0.id0 = x9.id0) <jt> t1 x1`, a left-deep chain)
struct Shape { jt: JoinType, form: Form, nkeys: usize, resid: Resid, mixed: bool, nested: Option<JoinType>, nested_left: bool }

fn jt_parse(s: &str) -> JoinType { match s { "left" => JoinType::Left, "right" => JoinType::Right, "full" => JoinType::Full, "semi" => JoinType::Semi, "anti" => JoinType::Anti, "cross" => JoinType::Cross, _ => JoinType::Inner } }

fn rows_of(r: &mut Rng, class: &str) -> usize {
    match class {
        "tiny" => if r.chance(1, 5) { 0 } else { 1 + r.below(8) as usize },
        "small" => 4 + r.below(57) as usize,
        "mid" => 60 + r.below(241) as usize,
        // straddle the `total_probe_rows > 1000` gate
        "k1" => *r.pick(&[990usize, 999, 1000, 1001, 1002, 1100, 1500]),
        // straddle the `total_probe_rows > 10_000` gate
        "k10" => *r.pick(&[9_999usize, 10_000, 10_001, 10_400]),
        s => s.parse().unwrap_or(10),
    }
}

fn cut(r: &mut Rng, n: usize, max_batches: usize) -> Vec<usize> {
    if n == 0 { return if r.chance(1, 2) { vec![] } else { vec![0] }; }
    let k = 1 + r.below(max_batches.min(n) as u64) as usize;
    let base = n / k; let mut v = vec![base; k]; v[k - 1] += n - base * k; v
}

/// the two tables; `ktys[i]` is the type of key column i on both sides (`mixed`: a0 INTEGER against a1 BIGINT)
fn gen_tables(r: &mut Rng, lclass: &str, rclass: &str, mixed: bool, kty0: Option<ColTy>) -> (Catalog, String) {
    let big = |c: &str| c == "k1" || c == "k10";
    let anybig = big(lclass) || big(rclass);
    let pool: &[ColTy] = if anybig { &[ColTy::I64, ColTy::I64, ColTy::I32, ColTy::Date] } else { &[ColTy::I64, ColTy::I64, ColTy::I32, ColTy::Str, ColTy::Date] };
    let mut ktys = [*r.pick(pool), *r.pick(&[ColTy::I64, ColTy::Str, ColTy::I32, ColTy::Date]), *r.pick(&[ColTy::Date, ColTy::I64, ColTy::Str])];
    if let Some(k) = kty0 { ktys[0] = k; }
    // `mixed`: one side's first key is INTEGER, the other side's BIGINT (which side: a coin)
    let narrow_side = if mixed { ktys[0] = ColTy::I64; Some(r.below(2) as usize) } else { None };
    let (nl, nr) = (rows_of(r, lclass), rows_of(r, rclass));
    // key domains: small (duplicates) for small tables; for big ones wide enough to keep the output linear in the input
    let dom0: u64 = if anybig { (nl.max(nr) as u64 / *r.pick(&[2u64, 3, 8])).max(4) } else { *r.pick(&[2u64, 3, 4, 6, 8]) };
    let doms = [dom0, *r.pick(&[2u64, 3]), *r.pick(&[2u64, 3])];
    let mk = |n: String, cty, null_pct, unique| ColSpec { name: n, cty, null_pct, boundary: false, special: false, unique };
    let mut tables = vec![];
    let mut desc = String::new();
    for (t, n) in [(0usize, nl), (1usize, nr)] {
        let knull: Vec<u8> = (0..3).map(|_| *r.pick(&[0u8, 0, 0, 10, 10, 50, 100])).collect();
        let mut cols = vec![mk(format!("id{}", t), ColTy::I64, 0, true)];
        for (i, k) in KEYS.iter().enumerate() {
            let cty = if i == 0 && narrow_side == Some(t) { ColTy::I32 } else { ktys[i] };
            cols.push(mk(format!("{}{}", k, t), cty, knull[i], false));
        }
        cols.push(mk(format!("v{}", t), ColTy::I64, 10, false));
        let mut ids: Vec<i64> = (0..n as i64).collect(); r.shuffle(&mut ids);
        let mut rows: Vec<Vec<Val>> = Vec::with_capacity(n);
        for i in 0..n {
            let mut row = vec![Val::I(ids[i])];
            for k in 0..3 { row.push(if r.below(100) < knull[k] as u64 { Val::Null } else { small_value(r, cols[1 + k].cty, doms[k]) }); }
            row.push(if r.below(100) < 10 { Val::Null } else { Val::I(r.below(6) as i64) });
            rows.push(row);
        }
        let cuts = cut(r, n, if n >= 900 { 6 } else { 4 });
        desc += &format!("knull{}:{} ", t, knull[0]);
        tables.push(TableSpec { cluster: None, name: format!("t{}", t), cols, rows, cuts });
    }
    desc += &format!("kty:{}", ktys[0].name());
    (Catalog { tables }, desc)
}

/// number of (left, right) pairs with equal non-NULL keys (the residual ignored): an upper bound of the matched pairs
fn key_pairs(cat: &Catalog, nkeys: usize) -> usize {
    if nkeys == 0 { return cat.tables[0].rows.len() * cat.tables[1].rows.len(); }
    let mut m: std::collections::HashMap<Vec<Val>, usize> = std::collections::HashMap::new();
    let widen = |v: &Val| v.clone();
    for r in &cat.tables[1].rows { let k: Vec<Val> = (0..nkeys).map(|i| widen(&r[1 + i])).collect(); if k.iter().any(|v| v.is_null()) { continue; } *m.entry(k).or_insert(0) += 1; }
    let mut n = 0usize;
    for r in &cat.tables[0].rows { let k: Vec<Val> = (0..nkeys).map(|i| widen(&r[1 + i])).collect(); if let Some(c) = m.get(&k) { n += c; } }
    n
}

/// keep the answer small enough for the quadratic bag comparison of the reference side: halve the larger table until
/// at most `cap` key-equal pairs remain
fn cap_output(r: &mut Rng, cat: &mut Catalog, nkeys: usize, cap: usize) {
    while key_pairs(cat, nkeys) > cap {
        let t = if cat.tables[0].rows.len() >= cat.tables[1].rows.len() { 0 } else { 1 };
        let n = cat.tables[t].rows.len() / 2;
        cat.tables[t].rows.truncate(n);
        cat.tables[t].cuts = cut(r, n, 4);
    }
}

fn colref(side: usize, idx: usize, name: &str, lw: usize, outer: bool) -> Expr {
    let sql = format!("x{}.{}", side, name);
    if outer { Expr::Outer { d: 1, i: idx, sql } } else { Expr::Col { i: if side == 1 { lw + idx } else { idx }, sql } }
}

/// ON / correlation condition.  `exists`: the expression stands inside the subquery over x1 (x1 columns are `Col`, x0 columns `Outer`)
fn condition(cat: &Catalog, sh: &Shape, exists: bool) -> Option<Expr> {
    let lw = cat.tables[0].cols.len() * if sh.nested_left { 2 } else { 1 };
    let l = |idx: usize| -> Expr { let n = &cat.tables[0].cols[idx].name; if exists { colref(0, idx, n, lw, true) } else { colref(0, idx, n, lw, false) } };
    let rr = |idx: usize| -> Expr { let n = &cat.tables[1].cols[idx].name; if exists { Expr::Col { i: idx, sql: format!("x1.{}", n) } } else { colref(1, idx, n, lw, false) } };
    let mut conj: Vec<Expr> = vec![];
    for k in 0..sh.nkeys { conj.push(Expr::bin(BinOp::Eq, l(1 + k), rr(1 + k))); }
    let v = 4usize;
    match sh.resid {
        Resid::None => {}
        Resid::Lt => conj.push(Expr::bin(BinOp::Lt, l(v), rr(v))),
        Resid::Le => conj.push(Expr::bin(BinOp::Le, l(v), rr(v))),
        Resid::Ne => conj.push(Expr::bin(BinOp::Ne, l(v), rr(v))),
        Resid::Never => conj.push(Expr::bin(BinOp::Lt, Expr::bin(BinOp::Add, rr(v), l(v)), Expr::bin(BinOp::Add, l(v), rr(v)))),
        Resid::LeftOnly => conj.push(Expr::bin(BinOp::Gt, l(v), Expr::lit_i(1))),
        Resid::RightOnly => conj.push(Expr::bin(BinOp::Gt, rr(v), Expr::lit_i(1))),
    }
    conj.into_iter().reduce(Expr::and)
}

/// `all_cols`: project every column (operator-level cases compare the operator's full output)
fn build_query(cat: &Catalog, sh: &Shape, all_cols: bool) -> QueryExpr {
    let lw0 = cat.tables[0].cols.len();
    // width of the top join's left input
    let lw = lw0 * if sh.nested_left { 2 } else { 1 }; let rw = cat.tables[1].cols.len();
    let t0 = Rel::Table { t: 0, name: "t0".into(), alias: "x0".into() };
    let t1 = Rel::Table { t: 1, name: "t1".into(), alias: "x1".into() };
    let left_only = matches!(sh.jt, JoinType::Semi | JoinType::Anti);
    let mut proj: Vec<(Expr, String)> = vec![];
    let lcols: Vec<usize> = if all_cols { (0..lw0).collect() } else { vec![0, 1, 4] };
    let rcols: Vec<usize> = if all_cols { (0..rw).collect() } else { vec![0, 1, 4] };
    for &i in &lcols { proj.push((colref(0, i, &cat.tables[0].cols[i].name, lw, false), format!("o{}", proj.len()))); }
    if !left_only { for &i in &rcols { proj.push((colref(1, i, &cat.tables[1].cols[i].name, lw, false), format!("o{}", proj.len()))); } }
    if sh.form == Form::Exists {
        let w = condition(cat, sh, true);
        let sub = QueryExpr::of(Body::Select(Box::new(Select { from: Some(t1), where_: w, group: None, having: None, proj: vec![(Expr::lit_i(1), "e0".into())], distinct: false })));
        let where_ = Some(Expr::Exists(Box::new(sub), sh.jt == JoinType::Anti));
        return QueryExpr::of(Body::Select(Box::new(Select { from: Some(t0), where_, group: None, having: None, proj, distinct: false })));
    }
    let on = if sh.jt == JoinType::Cross { None } else { condition(cat, sh, false) };
    if let (Some(jt2), true) = (sh.nested, sh.nested_left) {
        let t9 = Rel::Table { t: 0, name: "t0".into(), alias: "x9".into() };
        let id = &cat.tables[0].cols[0].name;
        let on2 = Expr::bin(BinOp::Eq, Expr::Col { i: 0, sql: format!("x0.{}", id) }, Expr::Col { i: lw0, sql: format!("x9.{}", id) });
        let left = Rel::Join { jt: jt2, l: Box::new(t0), r: Box::new(t9), lw: lw0, rw: lw0, on: Some(on2) };
        proj.push((Expr::Col { i: lw0, sql: format!("x9.{}", id) }, format!("o{}", proj.len())));
        let from = Rel::Join { jt: sh.jt, l: Box::new(left), r: Box::new(t1), lw, rw, on };
        return QueryExpr::of(Body::Select(Box::new(Select { from: Some(from), where_: None, group: None, having: None, proj, distinct: false })));
    }
    if let Some(jt2) = sh.nested {
        let t2 = Rel::Table { t: 1, name: "t1".into(), alias: "x2".into() };
        let id = &cat.tables[1].cols[0].name;
        let on2 = Expr::bin(BinOp::Eq, Expr::Col { i: 0, sql: format!("x1.{}", id) }, Expr::Col { i: rw, sql: format!("x2.{}", id) });
        let right = Rel::Join { jt: jt2, l: Box::new(t1), r: Box::new(t2), lw: rw, rw, on: Some(on2) };
        if !left_only { proj.push((Expr::Col { i: lw + rw, sql: format!("x2.{}", id) }, format!("o{}", proj.len()))); }
        let from = Rel::Join { jt: sh.jt, l: Box::new(t0), r: Box::new(right), lw, rw: 2 * rw, on };
        return QueryExpr::of(Body::Select(Box::new(Select { from: Some(from), where_: None, group: None, having: None, proj, distinct: false })));
    }
    let from = Rel::Join { jt: sh.jt, l: Box::new(t0), r: Box::new(t1), lw, rw, on };
    if sh.form == Form::Count {
        let mut aggs = vec![AggCall { f: AggFn::CountStar, arg: None, distinct: false }];
        for (side, i) in [(0usize, 1usize), (1, 1), (0, 4), (1, 4), (0, 3), (1, 3)] {
            aggs.push(AggCall { f: AggFn::Count, arg: Some(colref(side, i, &cat.tables[side].cols[i].name, lw, false)), distinct: false });
        }
        let proj: Vec<(Expr, String)> = aggs.iter().enumerate().map(|(n, a)| (Expr::Col { i: n, sql: a.sql() }, format!("o{}", n))).collect();
        return QueryExpr::of(Body::Select(Box::new(Select { from: Some(from), where_: None, group: Some(Group { keys: vec![], aggs, sets: None }), having: None, proj, distinct: false })));
    }
    QueryExpr::of(Body::Select(Box::new(Select { from: Some(from), where_: None, group: None, having: None, proj, distinct: false })))
}

fn gen_shape(r: &mut Rng, n: usize, o: &Opts) -> Shape {
    let jts = [JoinType::Inner, JoinType::Left, JoinType::Right, JoinType::Full, JoinType::Semi, JoinType::Anti, JoinType::Cross];
    let jt = match o.get("jt") { Some(s) => jt_parse(s), None => if n % 9 == 8 { *r.pick(&jts) } else { jts[n % 9 % 7] } };
    let form = if matches!(jt, JoinType::Semi | JoinType::Anti) && r.chance(1, 3) && o.get_usize("exists", 1) == 1 { Form::Exists }
        // `SELECT COUNT(*), COUNT(col)… FROM <join>`: the NULLs a join emits (and passes through) must be real NULLs downstream
        else if !matches!(jt, JoinType::Semi | JoinType::Anti) && o.get_usize("count", 1) >= 1 && (o.get_usize("count", 1) == 2 || r.chance(1, 8)) { Form::Count }
        else { Form::Join };
    let nkeys = if jt == JoinType::Cross { 0 } else { *r.pick(&[1usize, 1, 1, 2, 2, 3]) };
    let resid = if jt == JoinType::Cross { Resid::None } else { match o.get("resid") { Some(s) => Resid::parse(s), None => *r.pick(&[Resid::None, Resid::None, Resid::None, Resid::Lt, Resid::Ne, Resid::Never, Resid::LeftOnly, Resid::RightOnly, Resid::Le]) } };
    // EXISTS forms: equality correlation plus, optionally, a two-sided column comparison (a one-sided residual is an ordinary
    // subquery filter; a correlated ARITHMETIC predicate is left inside the subquery by the decorrelation rule and fails
    // with "Column not found" — C23's territory, not the join operator's)
    let resid = if form == Form::Exists && matches!(resid, Resid::LeftOnly | Resid::RightOnly | Resid::Never) { Resid::Ne } else { resid };
    // `mixed=0` never, `mixed=2` always, default 1 case in 40
    let mixed = jt != JoinType::Cross && match o.get_usize("mixed", 1) { 0 => false, 2 => true, _ => r.chance(1, 40) };
    let nested = if form == Form::Join && jt != JoinType::Cross && !mixed && o.get_usize("nested", 1) >= 1 && (o.get_usize("nested", 1) == 2 || r.chance(1, 8)) {
        Some(*r.pick(&[JoinType::Inner, JoinType::Left, JoinType::Right])) } else { None };
    let nested_left = nested.is_some() && r.chance(1, 2);
    Shape { jt, form, nkeys, resid, mixed, nested, nested_left }
}

fn size_classes(r: &mut Rng, n: usize, o: &Opts, op: bool) -> (String, String) {
    if let Some(s) = o.get("sizes") { let v: Vec<&str> = s.split(',').collect(); return (r.pick(&v).to_string(), r.pick(&v).to_string()); }
    let big_every = o.get_usize("big_every", 25).max(1);
    let huge_every = o.get_usize("huge_every", 200).max(1);
    if !op && n % huge_every == huge_every - 1 { return if r.chance(1, 2) { ("k10".into(), "small".into()) } else { ("small".into(), "k10".into()) }; }
    if n % big_every == big_every - 1 {
        return match r.below(4) { 0 => ("k1".into(), "small".into()), 1 => ("small".into(), "k1".into()), 2 => ("k1".into(), "mid".into()), _ => ("mid".into(), "k1".into()) };
    }
    let pool = ["tiny", "small", "small", "small", "mid"];
    (r.pick(&pool).to_string(), r.pick(&pool).to_string())
}

fn cfg_class(name: &str) -> String { name.split('+').next().unwrap_or("").trim_end_matches(char::is_numeric).trim_end_matches('x').trim_end_matches(char::is_numeric).to_string() }

fn size_tags(cat: &Catalog) -> Vec<String> {
    cat.tables.iter().enumerate().map(|(t, tb)| { let n = tb.rows.len();
        format!("n{}:{}", t, if n == 0 { "0" } else if n <= 8 { "tiny" } else if n < 60 { "small" } else if n < 900 { "mid" } else if n <= 1000 { "le1000" } else if n <= 10_000 { "gt1000" } else { "gt10000" }) }).collect()
}

fn common_tags(sh: &Shape, desc: &str) -> Vec<String> {
    let mut tags = vec![format!("jt:{}", sh.jt.json()), format!("form:{}", if sh.form == Form::Exists { "exists" } else if sh.form == Form::Count { "count" } else if sh.nested.is_some() { "nested" } else { "join" }), format!("nkeys:{}", sh.nkeys), format!("resid:{}", sh.resid.name())];
    if sh.mixed { tags.push("f:mixed_width".into()); }
    for w in desc.split(' ') { if !w.is_empty() { tags.push(w.to_string()); } }
    tags
}

// ---------------------------------------------------------------------------------------------------------- kind:sql
fn gen_sql_case(r: &mut Rng, n: usize, o: &Opts) -> (Value, Value) {
    let sh = gen_shape(r, n, o);
    let (lc, rc) = size_classes(r, n, o, false);
    let (mut cat, desc) = {
        // nested cases aim at VARCHAR keys (dictionary-gathered join outputs)
        let kty0 = if sh.nested.is_some() && !(lc == "k1" || rc == "k1" || lc == "k10" || rc == "k10") && r.chance(2, 3) { Some(ColTy::Str) } else { None };
        gen_tables(r, &lc, &rc, sh.mixed, kty0)
    };
    cap_output(r, &mut cat, sh.nkeys, o.get_usize("cap", 3000));
    let cfg_names: Vec<&str> = o.get("cfgs").unwrap_or("mem1,memb,memb,pq1x64,pq2x7,pq2x500").split(',').collect();
    let mut cfg_name = cfg_names[(n / 7) % cfg_names.len()].to_string();
    // multi-key joins over Parquet: the optimizer's PackedJoinKeys rewrite is C03's finding, not a join-operator defect
    if cfg_name.starts_with("pq") && sh.nkeys >= 2 { cfg_name += "+without:PackedJoinKeys"; }
    let cfg = ExecCfg::parse(&cfg_name).unwrap_or_else(ExecCfg::mem_batches);
    let q = build_query(&cat, &sh, false);
    let sql = q.sql();
    let ops = plan_ops(&cat, &sql, &cfg);
    let mut tags = common_tags(&sh, &desc);
    tags.extend(size_tags(&cat));
    tags.push("kind:sql".into());
    tags.push(format!("cfg:{}", cfg_class(&cfg.name)));
    for opn in ["HashJoin", "SpillableHashJoin", "NestedLoop", "CrossJoin", "StreamingParquetScan", "ParquetScan", "Filter", "DelimJoin"] { if ops.iter().any(|x| x == opn) { tags.push(format!("op:{}", opn)); } }
    let mut case = make_case("C22", &cat, &q, &tags, false, &[cfg], false);
    case["strict_err"] = json!(true);
    case["c22"] = json!({"kind": "sql", "jt": sh.jt.json(), "form": if sh.form == Form::Exists { "exists" } else if sh.form == Form::Count { "count" } else { "join" }, "nkeys": sh.nkeys, "resid": sh.resid.name(), "mixed": sh.mixed, "ops": ops});
    let imp = run_any(&case);
    (case, imp)
}

// ----------------------------------------------------------------------------------------------------------- kind:op
/// an input operator with exactly the partitions × batches it is given
#[derive(Debug)]
struct PartsExec { schema: SchemaRef, parts: Vec<Vec<RecordBatch>> }
#[async_trait]
impl PhysicalOperator for PartsExec {
    fn schema(&self) -> SchemaRef { self.schema.clone() }
    fn children(&self) -> Vec<Arc<dyn PhysicalOperator>> { vec![] }
    async fn execute(&self, partition: usize) -> query_engine::Result<RecordBatchStream> {
        let bs = self.parts.get(partition).cloned().unwrap_or_default();
        Ok(Box::pin(futures::stream::iter(bs.into_iter().map(Ok))))
    }
    fn output_partitions(&self) -> usize { self.parts.len().max(1) }
    fn name(&self) -> &str { "PartsExec" }
}

/// partitions × batch lengths covering `n` rows (empty batches and empty partitions included)
fn gen_parts(r: &mut Rng, n: usize) -> Vec<Vec<usize>> {
    let nparts = *r.pick(&[1usize, 1, 2, 3, 4]);
    let mut parts: Vec<Vec<usize>> = vec![vec![]; nparts];
    let mut left = n;
    while left > 0 {
        let take = if left <= 2 || r.chance(1, 4) { left } else { 1 + r.below(left as u64) as usize };
        let take = take.min(left);
        let p = r.below(nparts as u64) as usize;
        parts[p].push(take);
        if r.chance(1, 8) { let p2 = r.below(nparts as u64) as usize; parts[p2].push(0); }
        left -= take;
    }
    // ≥ 32 probe batches switches `probe_vectorized` to its batch-parallel path: reach it now and then
    if n >= 40 && r.chance(1, 6) {
        let mut fine: Vec<Vec<usize>> = vec![vec![]; nparts];
        let mut at = 0; let mut p = 0;
        while at < n { fine[p % nparts].push(1); at += 1; if at % 40 == 0 { p += 1; } }
        return fine;
    }
    parts
}

fn parts_json(p: &[Vec<usize>]) -> Value { json!(p) }
fn parts_from(v: &Value) -> Vec<Vec<usize>> { v.as_array().map(|a| a.iter().map(|p| p.as_array().map(|b| b.iter().map(|x| x.as_u64().unwrap_or(0) as usize).collect()).unwrap_or_default()).collect()).unwrap_or_default() }

fn cut_parts(t: &TableSpec, parts: &[Vec<usize>]) -> Vec<Vec<RecordBatch>> {
    let mut at = 0usize;
    parts.iter().map(|p| p.iter().map(|&l| { let hi = (at + l).min(t.rows.len()); let b = t.batch_of(&t.rows[at.min(hi)..hi]); at = hi; b }).collect()).collect()
}

fn pjoin(jt: &str) -> PJoin { match jt { "left" => PJoin::Left, "right" => PJoin::Right, "full" => PJoin::Full, "semi" => PJoin::Semi, "anti" => PJoin::Anti, "cross" => PJoin::Cross, _ => PJoin::Inner } }

fn presid(resid: Resid) -> Option<PExpr> {
    let b = |l: PExpr, op: BinaryOp, r: PExpr| PExpr::BinaryExpr { left: Box::new(l), op, right: Box::new(r) };
    let (l, r) = (PExpr::column("v0"), PExpr::column("v1"));
    let one = PExpr::Literal(query_engine::planner::ScalarValue::Int64(1));
    match resid {
        Resid::None => None,
        Resid::Lt => Some(b(l, BinaryOp::Lt, r)),
        Resid::Le => Some(b(l, BinaryOp::LtEq, r)),
        Resid::Ne => Some(b(l, BinaryOp::NotEq, r)),
        Resid::Never => Some(b(b(r.clone(), BinaryOp::Add, l.clone()), BinaryOp::Lt, b(l, BinaryOp::Add, r))),
        Resid::LeftOnly => Some(b(l, BinaryOp::Gt, one)),
        Resid::RightOnly => Some(b(r, BinaryOp::Gt, one)),
    }
}

fn run_op(case: &Value) -> Value {
    let cat = Catalog::from_case(case);
    let m = &case["c22"];
    let jt = pjoin(m["jt"].as_str().unwrap_or("inner"));
    let nkeys = m["nkeys"].as_u64().unwrap_or(1) as usize;
    let resid = Resid::parse(m["resid"].as_str().unwrap_or("none"));
    let build_right = m["build_right"].as_bool().unwrap_or(false);
    let lparts = cut_parts(&cat.tables[0], &parts_from(&m["lparts"]));
    let rparts = cut_parts(&cat.tables[1], &parts_from(&m["rparts"]));
    let left: Arc<dyn PhysicalOperator> = Arc::new(PartsExec { schema: cat.tables[0].schema(), parts: lparts });
    let right: Arc<dyn PhysicalOperator> = Arc::new(PartsExec { schema: cat.tables[1].schema(), parts: rparts });
    let on: Vec<(PExpr, PExpr)> = (0..nkeys).map(|k| (PExpr::column(format!("{}0", KEYS[k])), PExpr::column(format!("{}1", KEYS[k])))).collect();
    let res = std::panic::catch_unwind(std::panic::AssertUnwindSafe(|| {
        runtime().block_on(async {
            let op = HashJoinExec::with_filter(left, right, on, jt, presid(resid)).with_build_right(build_right);
            let np = op.output_partitions().max(1);
            let mut all: Vec<RecordBatch> = vec![];
            // the partitions in the order the case asks for (the shared tracker must not care)
            let mut order: Vec<usize> = (0..np).collect();
            if m["rev"].as_bool() == Some(true) { order.reverse(); }
            for p in order {
                let s = op.execute(p).await?;
                let bs: Vec<RecordBatch> = s.try_collect().await?;
                all.extend(bs);
            }
            Ok::<_, query_engine::QueryError>(all)
        })
    }));
    match res {
        Ok(Ok(bs)) => { let mut rows = vec![]; for b in &bs { batch_rows(b, &mut rows); } json!({"ok": rows_json(&rows)}) }
        Ok(Err(e)) => json!({"err": err_kind(&e), "msg": e.to_string().chars().take(300).collect::<String>()}),
        Err(p) => {
            let msg = if let Some(s) = p.downcast_ref::<&str>() { s.to_string() } else if let Some(s) = p.downcast_ref::<String>() { s.clone() } else { "panic".into() };
            json!({"panic": msg.chars().take(300).collect::<String>()})
        }
    }
}

fn gen_op_case(r: &mut Rng, n: usize, o: &Opts) -> (Value, Value) {
    let mut sh = gen_shape(r, n, o);
    sh.form = Form::Join; sh.mixed = false; sh.nested = None; sh.nested_left = false;
    if sh.jt == JoinType::Cross { sh.resid = Resid::None; }
    let (lc, rc) = size_classes(r, n, o, true);
    let (mut cat, desc) = gen_tables(r, &lc, &rc, false, None);
    cap_output(r, &mut cat, sh.nkeys, o.get_usize("cap", 3000));
    let q = build_query(&cat, &sh, true);
    let build_right = match sh.jt { JoinType::Right => true, _ => r.chance(1, 2) };
    let lparts = gen_parts(r, cat.tables[0].rows.len());
    let rparts = gen_parts(r, cat.tables[1].rows.len());
    let mut tags = common_tags(&sh, &desc);
    tags.extend(size_tags(&cat));
    tags.push("kind:op".into());
    tags.push("cfg:op".into());
    tags.push(format!("build:{}", if build_right { "right" } else { "left" }));
    let probe = if build_right { &lparts } else { &rparts };
    tags.push(format!("probe_parts:{}", if probe.len() > 1 { "multi" } else { "one" }));
    if probe.iter().map(|p| p.len()).sum::<usize>() >= 32 { tags.push("probe_batches:32+".into()); }
    let cfg = ExecCfg::mem_batches();
    let mut case = make_case("C22", &cat, &q, &tags, false, &[cfg], false);
    case["cfg"] = json!("op");
    case["strict_err"] = json!(true);
    case["c22"] = json!({"kind": "op", "jt": sh.jt.json(), "form": "join", "nkeys": sh.nkeys, "resid": sh.resid.name(), "mixed": false,
                         "build_right": build_right, "lparts": parts_json(&lparts), "rparts": parts_json(&rparts), "rev": r.chance(1, 3)});
    let imp = run_any(&case);
    (case, imp)
}

fn run_any(case: &Value) -> Value {
    if case["c22"]["kind"].as_str() == Some("op") { return run_op(case); }
    let mut imp = run_case(case);
    // neutraliser of the mixed-width finding (DESIGN §3.4): the same statement over the same rows with the INTEGER key
    // column declared BIGINT must be answered correctly
    if case["c22"]["mixed"].as_bool() == Some(true) {
        let mut cat = Catalog::from_case(case);
        for t in cat.tables.iter_mut() { if t.cols[1].cty == ColTy::I32 { t.cols[1].cty = ColTy::I64; } }
        let cfg = case["cfg"].as_str().and_then(ExecCfg::parse).unwrap_or_else(ExecCfg::mem_batches);
        let n = crate::fams::fam_sql::sqlgen::exec::run(&cat, case["sql"].as_str().unwrap_or(""), &cfg);
        if let Some(o) = imp.as_object_mut() { o.insert("neutral".into(), n); }
    }
    imp
}

// ------------------------------------------------------------------------------------------------------- witnesses
/// hand-made minimal cases, one per listed finding (`--opt witness=1`)
fn witness_cases() -> Vec<(Value, Value)> {
    let mk = |n: &str, cty| ColSpec { name: n.into(), cty, null_pct: 0, boundary: false, special: false, unique: n.starts_with("id") };
    let table = |t: usize, aty: ColTy, rows: Vec<Vec<Val>>| { let n = rows.len(); TableSpec { cluster: None, name: format!("t{}", t),
        cols: vec![mk(&format!("id{}", t), ColTy::I64), mk(&format!("a{}", t), aty), mk(&format!("b{}", t), ColTy::I64), mk(&format!("c{}", t), ColTy::I64), mk(&format!("v{}", t), ColTy::I64)], rows, cuts: if n == 0 { vec![] } else { vec![n] } } };
    let i = |v: i64| Val::I(v);
    let row = |id: i64, a: i64, v: i64| vec![i(id), i(a), i(0), i(0), i(v)];
    let mut out = vec![];
    let nl = || Val::Null;
    let mut push = |id: &str, cat: Catalog, sh: Shape, cfg: &str| {
        let q = build_query(&cat, &sh, false);
        let cfg = ExecCfg::parse(cfg).unwrap();
        let ops = plan_ops(&cat, &q.sql(), &cfg);
        let mut tags = common_tags(&sh, "");
        tags.push("kind:sql".into()); tags.push(format!("witness:{}", id));
        let mut case = make_case("C22", &cat, &q, &tags, false, &[cfg], false);
        case["strict_err"] = json!(true);
        case["c22"] = json!({"kind": "sql", "jt": sh.jt.json(), "form": if sh.form == Form::Exists { "exists" } else { "join" }, "nkeys": sh.nkeys, "resid": sh.resid.name(), "mixed": sh.mixed, "ops": ops, "witness": id});
        let imp = run_any(&case);
        out.push((case, imp));
    };
    // F1  filtered Semi/Anti, ≤ 1000 probe rows: the generic loop probes an empty table → SEMI returns nothing
    push("C22-F1", Catalog { tables: vec![table(0, ColTy::I64, vec![row(0, 1, 1), row(1, 2, 1)]), table(1, ColTy::I64, vec![row(0, 1, 2), row(1, 3, 2)])] },
         Shape { jt: JoinType::Semi, form: Form::Join, nkeys: 1, resid: Resid::Lt, mixed: false, nested: None, nested_left: false }, "mem1");
    // F2  filtered Semi, > 1000 probe rows, build = left: only the first qualifying build row of a key is marked
    let l2: Vec<Vec<Val>> = (0..6).map(|k| row(k, k / 2, 1)).collect();
    let r2: Vec<Vec<Val>> = (0..1001).map(|k| row(k, k % 3, 2)).collect();
    push("C22-F2", Catalog { tables: vec![table(0, ColTy::I64, l2), table(1, ColTy::I64, r2)] },
         Shape { jt: JoinType::Semi, form: Form::Join, nkeys: 1, resid: Resid::Lt, mixed: false, nested: None, nested_left: false }, "mem1");
    // F3  BIGINT build key (dense: direct-address table) probed with an INTEGER key
    push("C22-F3", Catalog { tables: vec![table(0, ColTy::I64, vec![row(0, 1, 1), row(1, 2, 1)]), table(1, ColTy::I32, vec![row(0, 1, 2), row(1, 3, 2)])] },
         Shape { jt: JoinType::Left, form: Form::Join, nkeys: 1, resid: Resid::None, mixed: true, nested: None, nested_left: false }, "mem1");
    // F4  LEFT JOIN whose build (right) input yields no batch at all: the NULL-extended rows cannot be assembled
    let mut empty = table(1, ColTy::I64, vec![]); empty.cuts = vec![];
    push("C22-F4", Catalog { tables: vec![table(0, ColTy::I64, vec![row(0, 1, 1), row(1, 2, 1)]), empty] },
         Shape { jt: JoinType::Left, form: Form::Join, nkeys: 1, resid: Resid::None, mixed: false, nested: None, nested_left: false }, "memb");
    // F5  filtered Semi, > 1000 probe rows (build = right): the compiled residual reads the NULL v0 of row 0 as 0, and 0 <> 2
    let l5: Vec<Vec<Val>> = (0..1001).map(|k| vec![i(k), i(k % 3), i(0), i(0), if k == 0 { nl() } else { i(2) }]).collect();
    let r5: Vec<Vec<Val>> = (0..3).map(|k| row(k, k, 2)).collect();
    push("C22-F5", Catalog { tables: vec![table(0, ColTy::I64, l5), table(1, ColTy::I64, r5)] },
         Shape { jt: JoinType::Semi, form: Form::Join, nkeys: 1, resid: Resid::Ne, mixed: false, nested: None, nested_left: false }, "mem1");
    // F6  VARCHAR key, probe input = a join output (its build-side strings arrive dictionary-encoded): no match
    let srow = |id: i64, a: &str, v: i64| vec![i(id), Val::S(a.into()), i(0), i(0), i(v)];
    push("C22-F6", Catalog { tables: vec![table(0, ColTy::Str, vec![srow(0, "a", 1)]), table(1, ColTy::Str, vec![srow(0, "a", 2), srow(1, "b", 2)])] },
         Shape { jt: JoinType::Inner, form: Form::Join, nkeys: 1, resid: Resid::None, mixed: false, nested: Some(JoinType::Left), nested_left: false }, "mem1");
    // F7  COUNT(col) over a join counts the NULL of a build-side VARCHAR column (dictionary with a NULL value, no NULL key)
    let nsrow = |id: i64, v: i64| vec![i(id), nl(), i(0), i(0), i(v)];
    push("C22-F7", Catalog { tables: vec![table(0, ColTy::Str, vec![srow(0, "a", 1), nsrow(1, 1)]), table(1, ColTy::Str, vec![srow(0, "a", 2), srow(1, "b", 2)])] },
         Shape { jt: JoinType::Cross, form: Form::Count, nkeys: 0, resid: Resid::None, mixed: false, nested: None, nested_left: false }, "mem1");
    // F8  Semi join over a join output with a VARCHAR column: the probe rows are emitted under the declared Utf8 schema
    push("C22-F8", Catalog { tables: vec![table(0, ColTy::Str, vec![srow(0, "a", 1), srow(1, "b", 1), srow(2, "a", 1)]), table(1, ColTy::Str, vec![srow(0, "a", 2)])] },
         Shape { jt: JoinType::Semi, form: Form::Join, nkeys: 1, resid: Resid::None, mixed: false, nested: Some(JoinType::Left), nested_left: true }, "memb");
    out
}

pub fn main(o: &Opts) {
    if let Some(p) = &o.replay {
        for c in replay_cases(p) { let i = run_any(&c); emit(c, i); }
        return;
    }
    if o.get_usize("witness", 0) == 1 { for (c, i) in witness_cases() { emit(c, i); } return; }
    if let Some(sql) = o.get("probe") {
        // `--opt probe="SELECT … FROM t0 x0 JOIN t1 x1 ON …" [--opt sizes=small] [--opt cfgs=mem1,pq1x64]`
        let mut r = Rng::new(o.seed ^ 0xC22);
        let (lc, rc) = size_classes(&mut r, 0, o, false);
        let (cat, desc) = gen_tables(&mut r, &lc, &rc, o.get_usize("mixed", 0) == 1, o.get("kty").and_then(ColTy::parse));
        for t in &cat.tables { eprintln!("{} {:?} rows={} cuts={:?}", t.name, t.cols.iter().map(|c| format!("{}:{}", c.name, c.cty.name())).collect::<Vec<_>>(), t.rows.len(), t.cuts); }
        eprintln!("{}", desc);
        if o.get_usize("show", 0) == 1 { for t in &cat.tables { for row in &t.rows { eprintln!("  {} {:?}", t.name, row); } } }
        for name in o.get("cfgs").unwrap_or("mem1,memb,pq1x64,pq2x7").split(',') {
            if let Some(cfg) = ExecCfg::parse(name) {
                let ops = plan_ops(&cat, sql, &cfg);
                let out = crate::fams::fam_sql::sqlgen::exec::run(&cat, sql, &cfg);
                let s = out.to_string();
                println!("{} {:?}\n    {}", cfg.name, ops, if o.get_usize("full", 0) == 1 { s } else { s.chars().take(400).collect() });
            }
        }
        return;
    }
    let op_every = o.get_usize("op_every", 3);
    let mut r = Rng::new(o.seed ^ 0xC22);
    for n in 0..o.cases {
        let mut cr = r.fork();
        let kind_op = match o.get("kind") { Some("op") => true, Some("sql") => false, _ => op_every > 0 && n % op_every == op_every - 1 };
        let (case, imp) = if kind_op { gen_op_case(&mut cr, n / op_every.max(1), o) } else { gen_sql_case(&mut cr, n, o) };
        emit(case, imp);
    }
}
