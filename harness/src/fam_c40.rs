// FAMILY: C40
//! C40: the CLI's CSV / JSON writers (`cli::output::OutputFormatter`, src/cli/output.rs — part of the binary crate,
//! compiled into the harness from /repo's working tree with `#[path]`).
//!
//! Case: {"fmt":"csv"|"json","names":[[codepoints]..],"types":["utf8"|"large"|"i64"|"i32"|"u64"|"bool"|"f64"..],
//!        "rows":[[cell..]..],"batches":[n1,n2,..]}          rows are cut into record batches of the given sizes ([] = no batch at all)
//!   cell: {"n":1} NULL | {"s":[codepoints]} | {"i":"-12"} | {"b":true} | {"f":"1.5"} (Rust Display text of the float)
//! Output: {"out":[codepoints]} | {"panic":msg}
use crate::common::*;
use crate::rng::Rng;
use arrow::array::*;
use arrow::datatypes::{DataType, Field, Schema};
use arrow::record_batch::RecordBatch;
use serde_json::{json, Value};
use std::sync::Arc;

#[allow(dead_code)]
// relative on purpose: the file must come from the same checkout as the `query_engine` path dependency
// (/verif/harness/src/../../../repo = /repo; a copy of /verif next to a worktree named `repo` picks up that worktree)
#[path = "../../../repo/src/cli/output.rs"]
mod cli_output;
use cli_output::{OutputFormat, OutputFormatter};

fn cps(s: &str) -> Value { Value::Array(s.chars().map(|c| json!(c as u32)).collect()) }
fn from_cps(v: &Value) -> String { v.as_array().map(|a| a.iter().filter_map(|x| x.as_u64().and_then(|n| char::from_u32(n as u32))).collect()).unwrap_or_default() }

// strings: character classes interleaved at random (plain ASCII | needs CSV quoting / JSON escaping | C0 controls | 2-, 3-, 4-byte UTF-8)
const PLAIN: &[char] = &['a', 'b', 'z', 'A', 'N', '0', '1', '9', ' ', '-', '_', '.', '/', ':', ';', '{', '}', '[', ']', '\'', '(', ')', '=', '+', '~', '\u{7f}'];
const ESC: &[char] = &['"', '"', ',', ',', '\n', '\r', '\n', '\r', '\\', '\t'];
const CTRL: &[char] = &['\u{0}', '\u{1}', '\u{8}', '\u{b}', '\u{c}', '\u{1b}', '\u{1f}'];
const UTF2: &[char] = &['é', 'ß', 'ñ', '\u{a0}', '\u{80}', '\u{7ff}', 'Ω'];
const UTF3: &[char] = &['漢', '€', '\u{2028}', '\u{feff}', '\u{800}', '\u{fffd}', '\u{d7ff}', '\u{e000}', '\u{ffff}'];
const UTF4: &[char] = &['😀', '𝄞', '\u{10000}', '\u{10ffff}'];

fn one(r: &mut Rng, class: u64) -> char {
    match class { 0 => *r.pick(PLAIN), 1 => *r.pick(ESC), 2 => *r.pick(CTRL), 3 => *r.pick(UTF2), 4 => *r.pick(UTF3), _ => *r.pick(UTF4) }
}

/// profile 0: plain ASCII; 1: ASCII + escapes/controls; 2: ASCII + non-ASCII; 3 (60 %): every class interleaved, and for
/// length >= 2 at least one character needing an escape/quote AND one non-ASCII character are forced in.
fn text(r: &mut Rng) -> String {
    let n = match r.below(8) { 0 => 0, 1 => 1, 2..=5 => 2 + r.below(6), _ => 2 + r.below(24) } as usize;
    let profile = match r.below(10) { 0 => 0, 1 | 2 => 1, 3 => 2, _ => 3 };
    let mut cs: Vec<char> = Vec::with_capacity(n);
    for _ in 0..n {
        let class = match profile {
            0 => 0,
            1 => { let k = r.below(4); if k < 2 { 0 } else { k - 1 } }          // plain, plain, esc, ctrl
            2 => { let k = r.below(5); if k < 2 { 0 } else { k + 1 } }          // plain, plain, utf2, utf3, utf4
            _ => r.below(6),
        };
        let c = one(r, class);
        cs.push(c);
    }
    if profile == 3 && n >= 2 {
        let i = r.below(n as u64) as usize;
        let mut j = r.below(n as u64 - 1) as usize;
        if j >= i { j += 1; }
        let ec = if r.chance(1, 8) { 2 } else { 1 };
        let uc = r.below(3) + 3;
        cs[i] = one(r, ec);
        cs[j] = one(r, uc);
    }
    cs.into_iter().collect()
}

fn name(r: &mut Rng) -> String {
    match r.below(10) {
        0 => "COALESCE(a, b)".into(), 1 => "r\u{e9}sum\u{e9} \"x\"".into(), 2 => "x\\y".into(), 3 => "col\r".into(), 4 => "l1\nl2\u{6f22}".into(),
        5 | 6 | 7 => text(r),
        _ => { let k = r.below(50); format!("c{k}") }
    }
}

fn cell(r: &mut Rng, ty: &str) -> Value {
    if r.chance(1, 6) { return json!({"n": 1}); }
    match ty {
        "utf8" | "large" => json!({"s": cps(&text(r))}),
        "i64" => { let x = r.range(-1000, 1000); json!({"i": (*r.pick(&[0i64, 1, -1, 42, i64::MAX, i64::MIN, 1 << 53, -(1 << 53) - 1, x])).to_string()}) }
        "i32" => { let x = r.range(-99, 99) as i32; json!({"i": (*r.pick(&[0i32, -7, i32::MAX, i32::MIN, x])).to_string()}) }
        "u64" => { let x = r.below(100000); json!({"i": (*r.pick(&[0u64, 9, u64::MAX, 1 << 63, x])).to_string()}) }
        "bool" => json!({"b": r.chance(1, 2)}),
        _ => json!({"f": (*r.pick(&[0.0f64, -0.0, 1.0, 1.5, -2.25, 1e21, 1e-7, 123456.789, f64::NAN, f64::INFINITY, f64::NEG_INFINITY, f64::MAX, f64::MIN_POSITIVE, 0.1])).to_string()}),
    }
}

fn gen(r: &mut Rng) -> Value {
    let fmt = if r.chance(1, 2) { "csv" } else { "json" };
    let ncols = 1 + r.below(4) as usize;
    let types: Vec<&str> = (0..ncols).map(|_| *r.pick(&["utf8", "utf8", "utf8", "large", "i64", "i32", "u64", "bool", "f64"])).collect();
    let names: Vec<String> = (0..ncols).map(|_| name(r)).collect();
    let nrows = match r.below(6) { 0 => 0, 1 => 1, _ => r.below(6) } as usize;
    let rows: Vec<Vec<Value>> = (0..nrows).map(|_| types.iter().map(|t| cell(r, t)).collect()).collect();
    // batch sizes: a partition of the rows, possibly with empty batches; no batch at all only when there are no rows
    let mut batches: Vec<usize> = vec![];
    let mut left = nrows;
    while left > 0 { let k = 1 + r.below(left as u64) as usize; if r.chance(1, 5) { batches.push(0); } batches.push(k); left -= k; }
    if nrows == 0 && r.chance(1, 2) { batches.push(0); }
    if r.chance(1, 6) && !batches.is_empty() { batches.push(0); }
    json!({"fmt": fmt, "names": names.iter().map(|n| cps(n)).collect::<Vec<_>>(), "types": types, "rows": rows, "batches": batches})
}

fn column(ty: &str, cells: &[&Value]) -> ArrayRef {
    let s = |c: &Value| if c.get("n").is_some() { None } else { Some(from_cps(&c["s"])) };
    let i = |c: &Value| c.get("i").and_then(|x| x.as_str()).map(|x| x.to_string());
    match ty {
        "utf8" => Arc::new(StringArray::from(cells.iter().map(|c| s(c)).collect::<Vec<_>>())),
        "large" => Arc::new(LargeStringArray::from(cells.iter().map(|c| s(c)).collect::<Vec<_>>())),
        "i64" => Arc::new(Int64Array::from(cells.iter().map(|c| i(c).map(|x| x.parse::<i64>().unwrap())).collect::<Vec<_>>())),
        "i32" => Arc::new(Int32Array::from(cells.iter().map(|c| i(c).map(|x| x.parse::<i32>().unwrap())).collect::<Vec<_>>())),
        "u64" => Arc::new(UInt64Array::from(cells.iter().map(|c| i(c).map(|x| x.parse::<u64>().unwrap())).collect::<Vec<_>>())),
        "bool" => Arc::new(BooleanArray::from(cells.iter().map(|c| c.get("b").and_then(|x| x.as_bool())).collect::<Vec<_>>())),
        _ => Arc::new(Float64Array::from(cells.iter().map(|c| c.get("f").and_then(|x| x.as_str()).map(|x| x.parse::<f64>().unwrap())).collect::<Vec<_>>())),
    }
}

pub fn run_case(c: &Value) -> Value {
    let c = c.clone();
    guarded(move || {
        let names: Vec<String> = c["names"].as_array().unwrap().iter().map(from_cps).collect();
        let types: Vec<String> = c["types"].as_array().unwrap().iter().map(|t| t.as_str().unwrap().to_string()).collect();
        let rows = c["rows"].as_array().unwrap();
        let fields: Vec<Field> = names.iter().zip(&types).map(|(n, t)| Field::new(n, match t.as_str() {
            "utf8" => DataType::Utf8, "large" => DataType::LargeUtf8, "i64" => DataType::Int64, "i32" => DataType::Int32, "u64" => DataType::UInt64,
            "bool" => DataType::Boolean, _ => DataType::Float64 }, true)).collect();
        let schema = Arc::new(Schema::new(fields));
        let mut batches = vec![];
        let mut at = 0usize;
        for k in c["batches"].as_array().unwrap() {
            let k = k.as_u64().unwrap() as usize;
            let cols: Vec<ArrayRef> = (0..names.len()).map(|j| {
                let cells: Vec<&Value> = rows[at..at + k].iter().map(|row| &row[j]).collect();
                column(&types[j], &cells)
            }).collect();
            batches.push(RecordBatch::try_new(schema.clone(), cols).expect("batch"));
            at += k;
        }
        let fmt = if c["fmt"] == "csv" { OutputFormat::Csv } else { OutputFormat::Json };
        let out = OutputFormatter::new(fmt).format_to_string(&batches);
        json!({"out": cps(&out)})
    })
}

pub fn main(o: &Opts) {
    if let Some(p) = &o.replay { for c in replay_cases(p) { let i = run_case(&c); emit(c, i); } return; }
    let mut r = Rng::new(o.seed ^ 0xC40);
    for _ in 0..o.cases {
        let c = gen(&mut r);
        let i = run_case(&c);
        emit(c, i);
    }
}
