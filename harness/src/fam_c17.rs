// FAMILY: C17
//! C17: `open_iceberg_table` / `register_iceberg` on REAL Iceberg tables (JSON metadata, Avro manifest list + manifests,
//! Parquet data files) written by the harness for generated histories.
//! Case (spec): {"ops":[{"op":"append","files":[id..]} | {"op":"remove","files":[..]} | {"op":"rewrite"} | {"op":"meta"}],
//!   "uri": {"<id>": "triple"|"single"|"abs"|"rel"}, "ml_uri": form for manifest-list / manifest paths,
//!   "hint": null | {"v": N, "text": "N" | "vN"}   (HadoopCatalog layout: vN.metadata.json + version-hint.text),
//!   "ms": [last-updated-ms per metadata file], "names": [file-name rank per metadata file], "snapshot": null | snapshot id,
//!   "ml_counts": bool — manifest-list records carry the spec's v2 fields (sequence numbers, added/existing/deleted_files_count, *_rows_count,
//!   consistent with the manifest's entries); false = v1-style list (manifest_path, manifest_length, partition_spec_id, added_snapshot_id only),
//!   "inject": null | {"kind": "delete"|"delete_dead"|"format"|"format_lower"|"remote"|"dup", "snap": k}, "v1": bool, "deflate": bool}
//! Derived (shipped for the model): "metas": [{"name","version","ms","current","snaps":[{"id","ts","manifests":[[{"st","ct","pq","uri","file"}]]}]}]
//! Impl: {"ok":{"snapshot":id,"files":[ids],"n":rows,"s":sum}} | {"err": kind}
use crate::common::*;
use crate::rng::Rng;
use apache_avro::types::Value as Av;
use arrow::array::{ArrayRef, Int64Array};
use arrow::datatypes::{DataType, Field, Schema};
use arrow::record_batch::RecordBatch;
use parquet::arrow::ArrowWriter;
use query_engine::physical::operators::TableProvider;
use serde_json::{json, Value};
use std::path::{Path, PathBuf};
use std::sync::Arc;

fn scratch() -> PathBuf {
    let p = PathBuf::from(std::env::var("IQE_SCRATCH").unwrap_or_else(|_| "/verif/harness/scratch/manual".into()));
    let _ = std::fs::create_dir_all(&p);
    p
}

#[derive(Clone, Debug)]
struct Entry { st: i32, ct: i32, fmt: String, uri: String, file: u64 }
type Manifest = Vec<Entry>;

fn data_rel(id: u64) -> String { format!("data/d{:05}.parquet", id) }
fn uri_of(form: &str, dir: &Path, rel: &str) -> String {
    let abs = dir.join(rel).display().to_string();
    match form { "triple" => format!("file://{}", abs), "single" => format!("file:{}", abs), "abs" => abs, _ => rel.to_string() }
}

fn write_data_file(dir: &Path, id: u64) -> Result<(), String> {
    let p = dir.join(data_rel(id));
    if p.exists() { return Ok(()); }
    let schema = Arc::new(Schema::new(vec![Field::new("k", DataType::Int64, false)]));
    let vals: Vec<i64> = (0..(1 + id % 3)).map(|j| (id * 1000 + j) as i64).collect();
    let a: ArrayRef = Arc::new(Int64Array::from(vals));
    let f = std::fs::File::create(&p).map_err(|e| e.to_string())?;
    let mut w = ArrowWriter::try_new(f, schema.clone(), None).map_err(|e| e.to_string())?;
    w.write(&RecordBatch::try_new(schema, vec![a]).map_err(|e| e.to_string())?).map_err(|e| e.to_string())?;
    w.close().map_err(|e| e.to_string())?;
    Ok(())
}

fn avro_write(path: &Path, schema_json: &str, recs: Vec<Av>, deflate: bool) -> Result<(), String> {
    let schema = apache_avro::Schema::parse_str(schema_json).map_err(|e| e.to_string())?;
    let f = std::fs::File::create(path).map_err(|e| e.to_string())?;
    let codec = if deflate { apache_avro::Codec::Deflate(Default::default()) } else { apache_avro::Codec::Null };
    let mut w = apache_avro::Writer::with_codec(&schema, f, codec).map_err(|e| e.to_string())?;
    for r in recs { w.append(r).map_err(|e| e.to_string())?; }
    w.flush().map_err(|e| e.to_string())?;
    Ok(())
}

/// v2 manifest list (`manifest_file`, Iceberg spec field names; the counts are required in v2)
const ML_SCHEMA: &str = r#"{"type":"record","name":"manifest_file","fields":[
 {"name":"manifest_path","type":"string"},{"name":"manifest_length","type":"long"},{"name":"partition_spec_id","type":"int"},
 {"name":"content","type":"int"},{"name":"sequence_number","type":"long"},{"name":"min_sequence_number","type":"long"},
 {"name":"added_snapshot_id","type":"long"},
 {"name":"added_files_count","type":"int"},{"name":"existing_files_count","type":"int"},{"name":"deleted_files_count","type":"int"},
 {"name":"added_rows_count","type":"long"},{"name":"existing_rows_count","type":"long"},{"name":"deleted_rows_count","type":"long"}]}"#;
/// v1-style manifest list: no counts
const ML_SCHEMA_V1: &str = r#"{"type":"record","name":"manifest_file","fields":[
 {"name":"manifest_path","type":"string"},{"name":"manifest_length","type":"long"},{"name":"partition_spec_id","type":"int"},
 {"name":"added_snapshot_id","type":["null","long"]}]}"#;

fn rows_of_file(id: u64) -> i64 { if id >= 99990 { 1 } else { 1 + (id % 3) as i64 } }
const M_SCHEMA_V2: &str = r#"{"type":"record","name":"manifest_entry","fields":[
 {"name":"status","type":"int"},{"name":"snapshot_id","type":["null","long"]},
 {"name":"data_file","type":{"type":"record","name":"r2","fields":[
   {"name":"content","type":"int"},{"name":"file_path","type":"string"},{"name":"file_format","type":"string"},{"name":"record_count","type":"long"}]}}]}"#;
const M_SCHEMA_V1: &str = r#"{"type":"record","name":"manifest_entry","fields":[
 {"name":"status","type":"int"},{"name":"snapshot_id","type":["null","long"]},
 {"name":"data_file","type":{"type":"record","name":"r2","fields":[
   {"name":"file_path","type":"string"},{"name":"file_format","type":["null","string"]},{"name":"record_count","type":"long"}]}}]}"#;

fn write_manifest(path: &Path, m: &Manifest, v1: bool, deflate: bool) -> Result<(), String> {
    let recs = m.iter().map(|e| {
        let df = if v1 {
            Av::Record(vec![("file_path".into(), Av::String(e.uri.clone())), ("file_format".into(), Av::Union(1, Box::new(Av::String(e.fmt.clone())))), ("record_count".into(), Av::Long(rows_of_file(e.file)))])
        } else {
            Av::Record(vec![("content".into(), Av::Int(e.ct)), ("file_path".into(), Av::String(e.uri.clone())), ("file_format".into(), Av::String(e.fmt.clone())), ("record_count".into(), Av::Long(rows_of_file(e.file)))])
        };
        Av::Record(vec![("status".into(), Av::Int(e.st)), ("snapshot_id".into(), Av::Union(1, Box::new(Av::Long(7)))), ("data_file".into(), df)])
    }).collect();
    avro_write(path, if v1 { M_SCHEMA_V1 } else { M_SCHEMA_V2 }, recs, deflate)
}

fn err_kind(msg: &str) -> String {
    let m = msg;
    if m.contains("delete files") { "deleteFiles" } else if m.contains("is not supported (PARQUET is)") { "notParquet" }
    else if m.contains("only file:// and local paths") { "remoteUri" } else if m.contains("does not exist in") || m.contains("is not in the snapshot list") { "unknownSnapshot" }
    else if m.contains("has no current snapshot") { "noCurrentSnapshot" } else if m.contains("lists no data files") { "emptySnapshot" }
    else if m.contains("version-hint.text says") { "hintMissing" } else if m.contains("contains no *.metadata.json") || m.contains("no metadata/ directory") { "noMetadata" }
    else { return format!("other:{}", m.chars().take(90).collect::<String>()); }.to_string()
}

/// Builds the table of the case on disk (Iceberg writer semantics), fills the derived "metas", runs the real reader.
pub fn run_case(c: &mut Value, uniq: &str, rt: &tokio::runtime::Runtime) -> Value {
    let root = scratch().join(format!("c17-{}-{}", std::process::id(), uniq));
    let _ = std::fs::remove_dir_all(&root);
    let dir = root.join("tbl");
    if std::fs::create_dir_all(dir.join("metadata")).is_err() || std::fs::create_dir_all(dir.join("data")).is_err() { return json!({"harness_error": "mkdir"}); }
    let v1 = c["v1"].as_bool().unwrap_or(false);
    let deflate = c["deflate"].as_bool().unwrap_or(false);
    let ml_form = c["ml_uri"].as_str().unwrap_or("triple").to_string();
    let ml_counts = c["ml_counts"].as_bool().unwrap_or(true);
    let form_of = |id: u64| -> String { c["uri"][id.to_string()].as_str().unwrap_or("triple").to_string() };
    let ops = c["ops"].as_array().cloned().unwrap_or_default();
    let inject = c["inject"].clone();
    let mut ms: Vec<Manifest> = vec![];                 // manifests of the newest snapshot
    let mut snaps: Vec<(u64, u64, Vec<Manifest>)> = vec![]; // (id, ts, manifests)
    let mut metas: Vec<Value> = vec![];
    let mut manifest_no = 0usize;
    let res: Result<(), String> = (|| {
        for (i, op) in ops.iter().enumerate() {
            let mut new_snapshot = true;
            match op["op"].as_str().unwrap_or("") {
                "append" => {
                    let m: Manifest = op["files"].as_array().cloned().unwrap_or_default().iter().map(|f| { let id = f.as_u64().unwrap_or(0);
                        Entry { st: 1, ct: 0, fmt: "PARQUET".into(), uri: uri_of(&form_of(id), &dir, &data_rel(id)), file: id } }).collect();
                    for e in &m { write_data_file(&dir, e.file)?; }
                    ms.insert(0, m);
                }
                "remove" => {
                    let fs: Vec<u64> = op["files"].as_array().cloned().unwrap_or_default().iter().map(|f| f.as_u64().unwrap_or(0)).collect();
                    ms = ms.iter().map(|m| {
                        if m.iter().any(|e| e.st != 2 && fs.contains(&e.file)) {
                            m.iter().filter(|e| e.st != 2).map(|e| { let mut e2 = e.clone(); e2.st = if fs.contains(&e.file) { 2 } else { 0 }; e2 }).collect()
                        } else { m.clone() }
                    }).collect();
                }
                "rewrite" => {
                    let all: Manifest = ms.iter().flatten().filter(|e| e.st != 2).map(|e| { let mut e2 = e.clone(); e2.st = 0; e2 }).collect();
                    ms = vec![all];
                }
                _ => { new_snapshot = false; }
            }
            if new_snapshot {
                let sid = 1000 + i as u64 * 7;
                let mut this = ms.clone();
                // injections into the snapshot written by op `snap` (do not propagate: the injected entry is added to this snapshot's copy only)
                if inject["snap"].as_u64() == Some(i as u64) {
                    let mut extra = |st: i32, ct: i32, fmt: &str, uri: String, file: u64| { if this.is_empty() { this.push(vec![]); } this[0].push(Entry { st, ct, fmt: fmt.into(), uri, file }); };
                    match inject["kind"].as_str().unwrap_or("") {
                        "delete" => extra(1, 1, "PARQUET", uri_of("triple", &dir, "data/del-1.parquet"), 99990),
                        "delete_dead" => extra(2, 2, "PARQUET", uri_of("triple", &dir, "data/del-2.parquet"), 99991),
                        "format" => extra(1, 0, "AVRO", uri_of("triple", &dir, "data/x.avro"), 99992),
                        "format_dead" => extra(2, 0, "ORC", uri_of("triple", &dir, "data/x.orc"), 99993),
                        "remote" => extra(0, 0, "PARQUET", "s3://bucket/tbl/data/r.parquet".into(), 99994),
                        "format_lower" => { for m in this.iter_mut() { for e in m.iter_mut() { e.fmt = "parquet".into(); } } }
                        "dup" => { if let Some(e) = this.iter().flatten().find(|e| e.st != 2).cloned() { let mut e2 = e; e2.st = 0; this.push(vec![e2]); } }
                        _ => {}
                    }
                }
                // write manifests + manifest list of this snapshot
                let mut recs = vec![];
                for m in &this {
                    manifest_no += 1;
                    let rel = format!("metadata/m{:04}.avro", manifest_no);
                    write_manifest(&dir.join(&rel), m, v1, deflate)?;
                    let mlen = std::fs::metadata(dir.join(&rel)).map(|x| x.len() as i64).unwrap_or(1);
                    if ml_counts {
                        let cnt = |st: i32| m.iter().filter(|e| e.st == st).count() as i32;
                        let rws = |st: i32| m.iter().filter(|e| e.st == st).map(|e| rows_of_file(e.file)).sum::<i64>();
                        let has_deletes = m.iter().any(|e| e.ct != 0);
                        recs.push(Av::Record(vec![("manifest_path".into(), Av::String(uri_of(&ml_form, &dir, &rel))), ("manifest_length".into(), Av::Long(mlen)),
                            ("partition_spec_id".into(), Av::Int(0)), ("content".into(), Av::Int(if has_deletes { 1 } else { 0 })),
                            ("sequence_number".into(), Av::Long(i as i64 + 1)), ("min_sequence_number".into(), Av::Long(1)),
                            ("added_snapshot_id".into(), Av::Long(sid as i64)),
                            ("added_files_count".into(), Av::Int(cnt(1))), ("existing_files_count".into(), Av::Int(cnt(0))), ("deleted_files_count".into(), Av::Int(cnt(2))),
                            ("added_rows_count".into(), Av::Long(rws(1))), ("existing_rows_count".into(), Av::Long(rws(0))), ("deleted_rows_count".into(), Av::Long(rws(2)))]));
                    } else {
                        recs.push(Av::Record(vec![("manifest_path".into(), Av::String(uri_of(&ml_form, &dir, &rel))), ("manifest_length".into(), Av::Long(mlen)),
                            ("partition_spec_id".into(), Av::Int(0)), ("added_snapshot_id".into(), Av::Union(1, Box::new(Av::Long(sid as i64))))]));
                    }
                }
                let ml_rel = format!("metadata/snap-{}.avro", sid);
                avro_write(&dir.join(&ml_rel), if ml_counts { ML_SCHEMA } else { ML_SCHEMA_V1 }, recs, deflate)?;
                snaps.push((sid, 5000 + i as u64, this));
            }
            // one metadata file per op
            let ms_val = c["ms"][i].as_u64().unwrap_or(i as u64);
            let rank = c["names"][i].as_u64().unwrap_or(i as u64);
            let hinted = !c["hint"].is_null();
            let fname = if hinted { format!("v{}.metadata.json", i + 1) } else { format!("{:05}-a.metadata.json", rank) };
            let cur = snaps.last().map(|s| s.0);
            let snaps_json: Vec<Value> = snaps.iter().map(|(id, ts, _)| json!({"snapshot-id": id, "timestamp-ms": ts,
                "manifest-list": uri_of(&ml_form, &dir, &format!("metadata/snap-{}.avro", id)), "summary": {"operation": "append"}})).collect();
            let mut meta = json!({"format-version": if v1 { 1 } else { 2 }, "table-uuid": "00000000-0000-0000-0000-000000000000", "location": dir.display().to_string(),
                "last-updated-ms": ms_val, "snapshots": snaps_json});
            if let Some(cur) = cur { meta["current-snapshot-id"] = json!(cur); }
            std::fs::write(dir.join("metadata").join(&fname), serde_json::to_vec(&meta).unwrap()).map_err(|e| e.to_string())?;
            metas.push(json!({"name": rank, "version": if hinted { json!(i + 1) } else { Value::Null }, "ms": ms_val, "current": cur,
                "snaps": snaps.iter().map(|(id, ts, mfs)| json!({"id": id, "ts": ts, "manifests": mfs.iter().map(|m| m.iter().map(|e| json!({
                    "st": e.st, "ct": if v1 { 0 } else { e.ct }, "pq": e.fmt.eq_ignore_ascii_case("parquet"), "uri": if e.uri.contains("://") && !e.uri.starts_with("file:") { "remote" } else { "local" }, "file": e.file})).collect::<Vec<_>>()).collect::<Vec<_>>()})).collect::<Vec<_>>()}));
        }
        if let Some(t) = c["hint"]["text"].as_str() { std::fs::write(dir.join("metadata/version-hint.text"), format!("{}\n", t)).map_err(|e| e.to_string())?; }
        Ok(())
    })();
    if let Err(e) = res { let _ = std::fs::remove_dir_all(&root); return json!({"harness_error": e}); }
    c["metas"] = json!(metas);
    let snap = c["snapshot"].as_i64();
    let d2 = dir.clone();
    let rt = std::panic::AssertUnwindSafe(rt);
    let out = guarded(move || {
        match query_engine::storage::open_iceberg_table(&d2, snap) {
            Err(e) => json!({"err": err_kind(&format!("{e}"))}),
            Ok(t) => {
                let files: Vec<u64> = t.table.parquet_files().unwrap_or_default().iter().map(|p| {
                    let s = p.file_name().and_then(|n| n.to_str()).unwrap_or("");
                    s.trim_start_matches('d').trim_end_matches(".parquet").parse::<u64>().unwrap_or(u64::MAX) }).collect();
                let sid = t.snapshot_id;
                // the observable of the property: register_iceberg then SELECT
                let mut ctx = query_engine::ExecutionContext::new();
                let (n, s) = match ctx.register_iceberg("t", &d2, snap) {
                    Err(e) => return json!({"err": format!("register:{}", err_kind(&format!("{e}")))}),
                    Ok(()) => match rt.block_on(ctx.sql("SELECT COUNT(*) AS n, SUM(k) AS s FROM t")) {
                        Err(e) => return json!({"err": format!("sql:{}", format!("{e}").chars().take(80).collect::<String>())}),
                        Ok(r) => {
                            let mut n = 0i64; let mut s = 0i64;
                            for b in &r.batches { if b.num_rows() == 0 { continue; }
                                if let Ok(c0) = arrow::compute::cast(b.column(0), &DataType::Int64) { n = c0.as_any().downcast_ref::<Int64Array>().unwrap().value(0); }
                                if let Ok(c1) = arrow::compute::cast(b.column(1), &DataType::Int64) { let a = c1.as_any().downcast_ref::<Int64Array>().unwrap(); if arrow::array::Array::is_valid(a, 0) { s = a.value(0); } } }
                            (n, s)
                        }
                    },
                };
                json!({"ok": {"snapshot": sid, "files": files, "n": n, "s": s}})
            }
        }
    });
    let _ = std::fs::remove_dir_all(&root);
    out
}

// ---------------------------------------------------------------- generator
pub fn gen_case(r: &mut Rng) -> Value {
    let nops = 1 + r.below(8) as usize;
    let mut ops = vec![];
    let mut next_id = 1u64;
    let mut live: Vec<u64> = vec![];
    let mut snap_ops: Vec<usize> = vec![];
    // 1/3 of the histories start with: append >= 2 files in ONE manifest, remove some but not all of them (the manifest is rewritten
    // to EXISTING survivors + DELETED entries, no ADDED), append again
    let forced = r.chance(1, 3);
    if forced {
        let k = 2 + r.below(3);
        let fs: Vec<u64> = (0..k).map(|_| { let id = next_id + r.below(3); next_id = id + 1; id }).collect();
        live.extend(fs.iter().copied());
        ops.push(json!({"op": "append", "files": fs.clone()})); snap_ops.push(0);
        let nrm = 1 + r.below(k - 1) as usize;
        let rm: Vec<u64> = fs.iter().take(nrm).copied().collect();
        live.retain(|f| !rm.contains(f));
        ops.push(json!({"op": "remove", "files": rm})); snap_ops.push(1);
        let id = next_id + r.below(3); next_id = id + 1;
        live.push(id);
        ops.push(json!({"op": "append", "files": [id]})); snap_ops.push(2);
    }
    let base = ops.len();
    for i in base..base + nops {
        let x = r.below(10);
        if x < 5 || live.is_empty() && x < 8 {
            let k = 1 + r.below(4);
            let mut fs: Vec<u64> = (0..k).map(|_| { let id = next_id + r.below(3); next_id = id + 1; id }).collect();
            r.shuffle(&mut fs);
            live.extend(fs.iter().copied());
            ops.push(json!({"op": "append", "files": fs})); snap_ops.push(i);
        } else if x < 8 {
            let mut fs = vec![];
            let all = r.chance(1, 6);
            for f in &live { if all || r.chance(1, 3) { fs.push(*f); } }
            if r.chance(1, 5) { fs.push(777); }   // removing a file that is not in the table is a no-op
            live.retain(|f| !fs.contains(f));
            ops.push(json!({"op": "remove", "files": fs})); snap_ops.push(i);
        } else if x < 9 { ops.push(json!({"op": "rewrite"})); snap_ops.push(i); }
        else { ops.push(json!({"op": "meta"})); }
    }
    let mut uri = serde_json::Map::new();
    let table_form = *r.pick(&["triple", "single", "abs", "rel", "mixed"]);
    for id in 0..next_id + 3 { uri.insert(id.to_string(), json!(if table_form == "mixed" { *r.pick(&["triple", "single", "abs", "rel"]) } else { table_form })); }
    // metadata ordering
    let n = ops.len();
    let mode = r.below(4);
    let ms: Vec<u64> = (0..n).map(|i| match mode { 0 | 1 => 1_700_000_000_000 + i as u64 * 10, 2 => 1_700_000_000_000, _ => 1_700_000_000_000 + r.below(3) * 5 }).collect();
    let mut names: Vec<u64> = (0..n as u64).collect();
    if mode != 0 { r.shuffle(&mut names); }
    let hint = if r.chance(1, 4) {
        let v = if r.chance(1, 6) { n as u64 + 3 } else if r.chance(1, 3) { 1 + r.below(n as u64) } else { n as u64 };
        json!({"v": v, "text": if r.chance(1, 2) { format!("{}", v) } else { format!("v{}", v) }})
    } else { Value::Null };
    let snapshot = if !snap_ops.is_empty() && r.chance(1, 3) { json!(1000 + *r.pick(&snap_ops) as u64 * 7) } else if r.chance(1, 15) { json!(424242) } else { Value::Null };
    let v1 = r.chance(1, 6);
    let inject = if !snap_ops.is_empty() && r.chance(1, 3) {
        // a v1 manifest has no `content` field: delete files cannot be expressed there
        let kinds: &[&str] = if v1 { &["format", "format_dead", "remote", "format_lower", "dup"] } else { &["delete", "delete_dead", "format", "format_dead", "remote", "format_lower", "dup"] };
        json!({"kind": *r.pick(kinds), "snap": *r.pick(&snap_ops)})
    } else { Value::Null };
    json!({"ops": ops, "uri": uri, "ml_uri": *r.pick(&["triple", "single", "abs", "rel"]), "hint": hint, "ms": ms, "names": names,
           "snapshot": snapshot, "inject": inject, "v1": v1, "deflate": r.chance(1, 2), "ml_counts": !r.chance(1, 6), "forced_remove_append": forced})
}

pub fn main(o: &Opts) {
    let rt = tokio::runtime::Builder::new_multi_thread().worker_threads(2).enable_all().build().unwrap();
    if let Some(p) = &o.replay {
        for (i, mut c) in replay_cases(p).into_iter().enumerate() { let imp = run_case(&mut c, &format!("r{}", i), &rt); emit(c, imp); }
        return;
    }
    let mut r = Rng::new(o.seed ^ 0xC17);
    for n in 0..o.cases {
        let mut c = gen_case(&mut r);
        let imp = run_case(&mut c, &format!("g{}", n), &rt);
        emit(c, imp);
    }
}
