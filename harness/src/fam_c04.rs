// FAMILY: C04
//! C04: storage layout and fast-path choice never change an answer.
//!
//! One generated statement (sqlgen) over one generated catalog is run on the same rows registered
//!   * in memory     : `mem1` (one batch per table), `memb` (the generated batches)
//!   * as Parquet    : `pq<files>x<rg>` — `files` ∈ 1..4 files per table, max row-group size `rg` ∈ {1, 7, 64, 1024} — and `pq1x1024`
//! and, for the Parquet layouts, under every planner-path variant.  The path hooks are environment variables read by /repo at
//! planning time (`QE_VERIF_FORCE_STREAMING_SCAN`, `QE_VERIF_NO_PRESCAN`, feature verif-hooks), so each variant is a CHILD
//! process (this binary re-executed with `--opt child=1`; guards as in C07: 4 GB address space, time limit per request):
//!   `d` default (small files: eager filtered scans, streaming unfiltered scans, shared prescan of tables used twice)
//!   `s` QE_VERIF_FORCE_STREAMING_SCAN=1 (filtered scans stream, predicate applied by the Parquet decoder)
//!   `n` QE_VERIF_NO_PRESCAN=1 (tables used twice are scanned twice)
//!   `sn` both.  `QE_IPC_CACHE=0` everywhere (C20 owns the sidecars).
//! Case = sqlgen case (mode meta) + {"kind":"sql","files":f,"rg":g}.  Impl {"runs":{"<layout>@<variant>": outcome},
//! "ops":{"<variant>":[operator names of the physical plan over the pq<f>x<g> layout]}} (memory layouts only under `d`: they
//! never touch the hooks).  `ops` is evidence only (which path the planner really chose: StreamingParquetScan, MorselAggregate, …).
use crate::common::*;
use crate::fams::fam_c07::{spawn_kid_with, Kid};
use crate::fams::fam_sql::sqlgen::catalog::{gen_catalog, CatOpts, Catalog};
use crate::fams::fam_sql::sqlgen::driver::make_case;
use crate::fams::fam_sql::sqlgen::exec::{run, ExecCfg};
use crate::fams::fam_sql::sqlgen::gen::{Gen, GenOpts};
use crate::fams::fam_sql::sqlgen::{rows_from_json, rows_json};
use crate::rng::Rng;
use serde_json::{json, Value};
use std::io::{BufRead, Write};

const VARIANTS: [(&str, &[(&str, &str)]); 4] = [
    ("d", &[]),
    ("s", &[("QE_VERIF_FORCE_STREAMING_SCAN", "1")]),
    ("n", &[("QE_VERIF_NO_PRESCAN", "1")]),
    ("sn", &[("QE_VERIF_FORCE_STREAMING_SCAN", "1"), ("QE_VERIF_NO_PRESCAN", "1")]),
];
const MAX_ROWS_OUT: usize = 1500;

/// rows in canonical order when the statement fixes none (equal bags then travel as equal lists)
fn canon(v: Value, ordered: bool) -> Value {
    if ordered { return v; }
    match v.get("ok") {
        Some(rows) => { let mut r = rows_from_json(rows); r.sort(); json!({"ok": rows_json(&r)}) }
        None => v,
    }
}

/// operator names of the physical plan of `sql` over the Parquet layout (evidence of the path taken; never judged)
fn plan_ops(cat: &Catalog, sql: &str, files: usize, rg: usize) -> Vec<String> {
    use query_engine::physical::PhysicalOperator;
    let dir = crate::fams::fam_sql::sqlgen::exec::scratch_dir();
    let res = std::panic::catch_unwind(std::panic::AssertUnwindSafe(|| -> Option<Vec<String>> {
        let mut ctx = query_engine::ExecutionContext::new();
        for t in &cat.tables {
            let d = dir.join(&t.name);
            std::fs::create_dir_all(&d).ok()?;
            let nf = files.max(1); let n = t.rows.len();
            for f in 0..nf {
                let lo = n * f / nf; let hi = n * (f + 1) / nf;
                if lo == hi && f > 0 { continue; }
                let batch = t.batch_of(&t.rows[lo..hi]);
                let file = std::fs::File::create(d.join(format!("part-{:03}.parquet", f))).ok()?;
                let props = parquet::file::properties::WriterProperties::builder().set_max_row_group_row_count(Some(rg.max(1))).build();
                let mut w = parquet::arrow::ArrowWriter::try_new(file, t.schema(), Some(props)).ok()?;
                w.write(&batch).ok()?;
                w.close().ok()?;
            }
            let pt = query_engine::ParquetTable::try_new(&d).ok()?;
            ctx.register_table_provider(t.name.clone(), std::sync::Arc::new(pt));
        }
        let plan = ctx.physical_plan(sql).ok()?;
        fn walk(p: &dyn PhysicalOperator, out: &mut std::collections::BTreeSet<String>) { out.insert(p.name().to_string()); for c in p.children() { walk(c.as_ref(), out); } }
        let mut names = std::collections::BTreeSet::new();
        walk(plan.as_ref(), &mut names);
        Some(names.into_iter().collect())
    }));
    let _ = std::fs::remove_dir_all(&dir);
    res.ok().flatten().unwrap_or_default()
}

fn child_main() {
    let variant = std::env::var("IQE_C04_VARIANT").unwrap_or_else(|_| "d".into());
    let stdin = std::io::stdin();
    let out = std::io::stdout();
    for line in stdin.lock().lines() {
        let line = match line { Ok(l) => l, Err(_) => break };
        if line.trim().is_empty() { continue; }
        let c: Value = serde_json::from_str(&line).unwrap_or(Value::Null);
        let cat = Catalog::from_case(&c);
        let sql = c["sql"].as_str().unwrap_or("");
        let ordered = c["plan"].get("sort").is_some() || c["plan"].get("limit").is_some();
        let files = c["files"].as_u64().unwrap_or(1) as usize;
        let rg = c["rg"].as_u64().unwrap_or(1024) as usize;
        let mut cfgs: Vec<ExecCfg> = vec![];
        if variant == "d" { cfgs.push(ExecCfg::mem_single()); cfgs.push(ExecCfg::mem_batches()); }
        cfgs.push(ExecCfg::parquet(files, rg));
        if !(files == 1 && rg == 1024) { cfgs.push(ExecCfg::parquet(1, 1024)); }
        let mut runs = serde_json::Map::new();
        for cfg in &cfgs { runs.insert(format!("{}@{}", cfg.name, variant), canon(run(&cat, sql, cfg), ordered)); }
        let mut l = out.lock();
        let ops = plan_ops(&cat, sql, files, rg);
        let _ = writeln!(l, "{}", json!({"runs": Value::Object(runs), "ops": {variant.clone(): ops}}));
        let _ = l.flush();
    }
}

/// Hand-written aggregate templates over an UNALIASED table: `Aggregate(Project?(Filter?(Scan)))` is the only logical shape
/// `PhysicalPlanner::try_extract_parquet_source` accepts, i.e. the only way into `MorselAggregateExec` (generic morsel path and
/// its dense direct-address variant); sqlgen aliases every table (`t0 AS x1`), which plans the generic hash aggregate instead.
/// Returns (sql, plan JSON in the Driver/SqlJson format, tags).
fn gen_morsel_template(r: &mut Rng, cat: &Catalog) -> Option<(String, Value, Vec<String>)> {
    let ti = r.below(cat.tables.len() as u64) as usize;
    let t = &cat.tables[ti];
    let ints: Vec<usize> = t.cols.iter().enumerate().filter(|(_, c)| matches!(c.cty.name(), "i64" | "i32") && !c.boundary).map(|(i, _)| i).collect();
    if ints.is_empty() { return None; }
    let col = |i: usize| t.cols[i].name.clone();
    let shape = r.below(4);
    let nkeys = match shape { 0 | 1 => 1, 2 => 0, _ => 2 };
    let mut keys: Vec<usize> = vec![];
    while keys.len() < nkeys.min(t.cols.len()) { let k = r.below(t.cols.len() as u64) as usize; if !keys.contains(&k) { keys.push(k); } }
    // a single integer key is what the dense path serves: prefer it half of the time
    if nkeys == 1 && r.chance(1, 2) { keys = vec![*r.pick(&ints)]; }
    let mut sel: Vec<String> = keys.iter().map(|k| col(*k)).collect();
    let mut aggs: Vec<Value> = vec![json!({"fn": "count_star", "arg": {"lit": null}, "distinct": false})];
    sel.push("COUNT(*)".into());
    if shape != 0 {
        let a = *r.pick(&ints);
        for f in ["sum", "min", "max", "count"] {
            if r.chance(1, 2) { continue; }
            sel.push(format!("{}({})", f.to_uppercase(), col(a)));
            aggs.push(json!({"fn": f, "arg": {"col": a}, "distinct": false}));
        }
    }
    let mut q = json!({"scan": ti});
    let mut sql = format!("SELECT {} FROM {}", sel.join(", "), t.name);
    if r.chance(1, 2) {
        let w = *r.pick(&ints);
        let (op, sym) = *r.pick(&[("le", "<="), ("gt", ">"), ("eq", "="), ("ne", "<>")]);
        let lit = r.range(-1, 3);
        sql.push_str(&format!(" WHERE {} {} {}", col(w), sym, if lit < 0 { format!("({})", lit) } else { lit.to_string() }));
        q = json!({"filter": {"subs": [], "p": {"bin": [op, {"col": w}, {"lit": {"i": lit}}]}, "q": q}});
    }
    if !keys.is_empty() { sql.push_str(&format!(" GROUP BY {}", keys.iter().map(|k| col(*k)).collect::<Vec<_>>().join(", "))); }
    let plan = json!({"agg": {"keys": keys.iter().map(|k| json!({"col": k})).collect::<Vec<_>>(), "aggs": aggs, "q": q}});
    let tags = vec!["s:morsel_tpl".to_string(), format!("tpl:keys{}", keys.len())];
    Some((sql, plan, tags))
}

/// Stratum `shape:clustered-range-agg`: one table t0(k, v, g) whose integer column `k` is SORTED and NULL-free (k = base + i), written
/// with small row groups (3-8 per file, 1-3 files) so that the footer min/max of `k` cluster; an aggregate over the unaliased
/// table (-> MorselAggregateExec / ParallelParquetSource) under a two-sided range, BETWEEN or a one-sided range on `k` whose bounds
/// sit on row-group boundaries, boundary +-1 or inside a row group: earlier row groups are pruned, some are proved all-true (the
/// decoder filter is dropped for them), the rest only partly match.  Returns the whole case (own catalog, files, rg).
fn gen_clustered_range(r: &mut Rng) -> Value {
    use crate::fams::fam_sql::sqlgen::catalog::{ColSpec, TableSpec};
    use crate::fams::fam_sql::sqlgen::{ColTy, Val};
    let files = 1 + r.below(3) as usize;
    let nrg = 3 + r.below(6) as usize;                    // row groups per file
    let rg = *r.pick(&[3usize, 4, 5, 7, 10, 16]);         // rows per row group
    let n = files * nrg * rg;
    let base = *r.pick(&[0i64, 0, 1, -7, 100]);
    let rows: Vec<Vec<Val>> = (0..n).map(|i| {
        let v = if r.chance(1, 8) { Val::Null } else { Val::I(r.range(-2, 9)) };
        vec![Val::I(base + i as i64), v, Val::I((i % 3) as i64)]
    }).collect();
    let col = |name: &str, null_pct: u8, unique: bool| ColSpec { name: name.into(), cty: ColTy::I64, null_pct, boundary: false, special: false, unique };
    let nb = 1 + r.below(3) as usize;
    let cuts: Vec<usize> = (0..nb).map(|i| n * (i + 1) / nb - n * i / nb).collect();
    let cat = Catalog { tables: vec![TableSpec { cluster: None, name: "t0".into(), cols: vec![col("k", 0, true), col("v", 10, false), col("g", 0, false)], rows, cuts }] };
    // a bound: a row-group boundary (first key of a row group), boundary +- 1, or a key inside a row group
    let bound = |r: &mut Rng| -> i64 {
        let b = base + (r.below((files * nrg) as u64 + 1) as usize * rg) as i64;
        match r.below(4) { 0 => b, 1 => b - 1, 2 => b + 1, _ => b + r.below(rg as u64) as i64 }
    };
    let (mut lo, mut hi) = (bound(r), bound(r));
    if lo > hi { std::mem::swap(&mut lo, &mut hi); }
    let lit = |x: i64| json!({"lit": {"i": x}});
    let sq = |x: i64| if x < 0 { format!("({})", x) } else { x.to_string() };
    let k = json!({"col": 0});
    let (wsql, wplan, wtag) = match r.below(5) {
        0 | 1 => { let (a, b) = if r.chance(1, 2) { ("ge", ">=") } else { ("gt", ">") }; let (c, d) = if r.chance(1, 2) { ("le", "<=") } else { ("lt", "<") };
              (format!("k {} {} AND k {} {}", b, sq(lo), d, sq(hi)), json!({"bin": ["and", {"bin": [a, k, lit(lo)]}, {"bin": [c, k, lit(hi)]}]}), "two_sided") }
        2 => (format!("k BETWEEN {} AND {}", sq(lo), sq(hi)), json!({"between": [k, lit(lo), lit(hi), false]}), "between"),
        3 => { let (a, b) = *r.pick(&[("ge", ">="), ("gt", ">")]); (format!("k {} {}", b, sq(lo)), json!({"bin": [a, k, lit(lo)]}), "lower") }
        _ => { let (a, b) = *r.pick(&[("le", "<="), ("lt", "<")]); (format!("k {} {}", b, sq(hi)), json!({"bin": [a, k, lit(hi)]}), "upper") }
    };
    let grouped = r.chance(1, 3);
    let mut sel: Vec<String> = vec![]; let mut keys: Vec<Value> = vec![];
    if grouped { sel.push("g".into()); keys.push(json!({"col": 2})); }
    let mut aggs: Vec<Value> = vec![json!({"fn": "count_star", "arg": {"lit": null}, "distinct": false})];
    sel.push("COUNT(*)".into());
    for (f, c, name) in [("sum", 1, "v"), ("max", 0, "k"), ("min", 0, "k"), ("count", 1, "v"), ("sum", 0, "k")] {
        if r.chance(1, 2) { sel.push(format!("{}({})", f.to_uppercase(), name)); aggs.push(json!({"fn": f, "arg": {"col": c}, "distinct": false})); }
    }
    let mut sql = format!("SELECT {} FROM t0 WHERE {}", sel.join(", "), wsql);
    if grouped { sql.push_str(" GROUP BY g"); }
    let plan = json!({"agg": {"keys": keys, "aggs": aggs, "q": {"filter": {"subs": [], "p": wplan, "q": {"scan": 0}}}}});
    json!({"kind": "sql", "prop": "C04", "mode": "meta", "sql": sql, "plan": plan, "tables": cat.tables_json(), "cat": cat.meta_json(),
           "tags": ["shape:clustered-range-agg", format!("range:{}", wtag), if grouped { "range:grouped" } else { "range:global" }],
           "engine_defined": false, "cfgs": ["mem1"], "files": files, "rg": rg})
}

fn spawn_all() -> Vec<Kid> {
    VARIANTS.iter().map(|(name, envs)| {
        let mut e: Vec<(String, String)> = envs.iter().map(|(k, v)| (k.to_string(), v.to_string())).collect();
        e.push(("IQE_C04_VARIANT".into(), name.to_string()));
        spawn_kid_with("C04", 4, 4, e)
    }).collect()
}

/// all variants of one case; `None` when an observation was lost (child died / too slow)
fn run_case(kids: &mut Vec<Kid>, c: &Value, pre: Option<Value>) -> Option<Value> {
    let mut runs = serde_json::Map::new();
    let mut ops = serde_json::Map::new();
    let mut pre = pre;
    for (i, k) in kids.iter_mut().enumerate() {
        let v = if i == 0 && pre.is_some() { pre.take().unwrap() } else { k.ask(c, 60) };
        if v.get("lost").is_some() { return None; }
        if let Some(m) = v["runs"].as_object() { for (a, b) in m { runs.insert(a.clone(), b.clone()); } }
        if let Some(m) = v["ops"].as_object() { for (a, b) in m { ops.insert(a.clone(), b.clone()); } }
    }
    Some(json!({"runs": Value::Object(runs), "ops": Value::Object(ops)}))
}

pub fn main(o: &Opts) {
    if o.get_usize("child", 0) == 1 { child_main(); return; }
    let mut kids = spawn_all();
    if let Some(p) = &o.replay {
        for c in replay_cases(p) { if let Some(i) = run_case(&mut kids, &c, None) { emit(c, i); } }
    } else {
        let mut r = Rng::new(o.seed ^ 0xC04);
        let mut kv = o.kv.clone();
        kv.entry("sizes".into()).or_insert("tiny,small,small,mid".into());
        kv.entry("deny".into()).or_insert("cross_join".into());
        let o2 = Opts { seed: o.seed, cases: o.cases, replay: None, kv };
        let gopts = GenOpts::from_opts(&o2, "filter,join,agg,distinct,setop,sort_limit,cte,subquery");
        let copts = CatOpts::from_opts(&o2);
        let mut cat = gen_catalog(&mut r, &copts);
        let mut n = 0usize; let mut attempts = 0usize;
        while n < o.cases && attempts < o.cases * 6 + 16 {
            if attempts % 5 == 0 { cat = gen_catalog(&mut r, &copts); }
            attempts += 1;
            // three cases in ten: the clustered-range aggregate stratum (own table, own files x row groups)
            let clustered = attempts % 10 < 3;
            let case = if clustered { gen_clustered_range(&mut r) } else {
                let mut qr = r.fork();
                let g = Gen::new(&mut qr, &cat, &gopts).generate(attempts);
                if g.engine_defined { continue; }
                let mut case = make_case("C04", &cat, &g.q, &g.tags, g.engine_defined, &[ExecCfg::mem_single()], true);
                // three more in ten: an aggregate template that reaches MorselAggregateExec
                if attempts % 10 < 6 {
                    match gen_morsel_template(&mut r, &cat) {
                        Some((sql, plan, tags)) => { case["sql"] = json!(sql); case["plan"] = plan; case["tags"] = json!(tags); }
                        None => continue,
                    }
                }
                case["kind"] = json!("sql");
                case["files"] = json!(*r.pick(&[1u64, 1, 2, 3, 4]));
                case["rg"] = json!(*r.pick(&[1u64, 7, 64, 1024]));
                case
            };
            // pre-flight in the default child (10 s): statements whose in-memory single-batch run fails or is huge are not used
            let pre = kids[0].ask(&case, 20);
            let ok_rows = pre["runs"].as_object().and_then(|m| m.iter().find(|(k, _)| k.starts_with("mem1@"))).and_then(|(_, v)| v["ok"].as_array().map(|a| a.len()));
            match ok_rows { Some(rows) if rows <= MAX_ROWS_OUT => {} _ => continue }
            if let Some(i) = run_case(&mut kids, &case, Some(pre)) { emit(case, i); n += 1; }
        }
    }
    for k in kids.iter_mut() { k.stop(); }
}
