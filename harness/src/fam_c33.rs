// FAMILY: C33
//! C33: scheduled replay of real threads on the real `MemoryPool` atomics.
//!
//! case: {"max":u64,"threads":[[op..]..],"schedule":[tid..]}
//!   op = {"op":"try","n":u64} | {"op":"alloc","n":u64} | {"op":"resize","slot":k,"to":u64} | {"op":"drop","slot":k}
//!   slot k of a thread = the reservation (if any) produced by the k-th try/alloc op of that thread;
//!   resize/drop of an empty slot (failed try, already dropped) is skipped without touching the pool.
//! impl: {"outcome":"ok"|"timeout"|"panic","events":[{"t","op","id","used","done"}],"leftover_used","final_used"}
//!   one event per GRANTED atomic step: thread t was blocked in `verif::yield_point(id)` inside its op number `op`,
//!   was granted the step, ran alone until it blocked again / finished; then `pool.used()` was read; `done` is the
//!   result of the op if it completed in this step ("some"/"none" for try_allocate, "ok" otherwise), else null.
//!   After all threads finished the surviving reservations are dropped on the main thread (`final_used`).
//!
//! The scheduler: a process-wide controller (installed once) looks up a thread-local (tid, scheduler) pair; worker
//! threads block in it until the main thread grants them the next step; unregistered threads pass through.
use crate::common::*;
use crate::rng::Rng;
use query_engine::execution::{MemoryPool, MemoryReservation};
use serde_json::{json, Value};
use std::cell::RefCell;
use std::sync::{Arc, Condvar, Mutex, Once};
use std::time::{Duration, Instant};

#[derive(Clone, Debug)]
pub enum Op { Try(usize), Alloc(usize), Resize(usize, usize), Drop(usize) }

struct St {
    at: Vec<Option<(u32, usize)>>, // blocked at yield id, inside op index
    cur_op: Vec<usize>,
    finished: Vec<bool>,
    panicked: bool,
    grant: Option<usize>,
    running: bool,
    done: Option<&'static str>,
    abort: bool,
}
struct Sched { m: Mutex<St>, cv: Condvar /* wakes the scheduler */, cvt: Vec<Condvar> /* one per worker */ }
impl Sched { fn wake_workers(&self) { for c in &self.cvt { c.notify_all(); } } }

thread_local! { static CTX: RefCell<Option<(usize, Arc<Sched>)>> = const { RefCell::new(None) }; }
static INSTALL: Once = Once::new();

fn install_controller() {
    INSTALL.call_once(|| {
        query_engine::verif::set_controller(Some(Arc::new(|id: u32| {
            let ctx = CTX.with(|c| c.borrow().clone());
            if let Some((t, s)) = ctx { s.yield_at(t, id); }
        })));
    });
}

impl Sched {
    fn yield_at(&self, t: usize, id: u32) {
        let mut st = self.m.lock().unwrap();
        if st.abort { return; }
        let op = st.cur_op[t];
        st.at[t] = Some((id, op));
        st.running = false;
        self.cv.notify_all();
        loop {
            if st.abort { break; }
            if st.grant == Some(t) { st.grant = None; break; }
            st = self.cvt[t].wait(st).unwrap();
        }
        st.at[t] = None;
    }
    fn set_op(&self, t: usize, i: usize) { self.m.lock().unwrap().cur_op[t] = i; }
    fn done(&self, r: &'static str) { self.m.lock().unwrap().done = Some(r); }
}

/// Marks the thread finished (also when it unwinds), which releases the baton.
struct Finish { t: usize, s: Arc<Sched> }
impl Drop for Finish {
    fn drop(&mut self) {
        let mut st = self.s.m.lock().unwrap_or_else(|e| e.into_inner());
        st.finished[self.t] = true;
        if std::thread::panicking() { st.panicked = true; }
        st.running = false;
        self.s.cv.notify_all();
        CTX.with(|c| *c.borrow_mut() = None);
    }
}

fn worker<'p>(t: usize, prog: &[Op], pool: &'p MemoryPool, s: Arc<Sched>) -> Vec<MemoryReservation<'p>> {
    CTX.with(|c| *c.borrow_mut() = Some((t, s.clone())));
    let _fin = Finish { t, s: s.clone() };
    let mut slots: Vec<Option<MemoryReservation<'p>>> = vec![];
    for (i, op) in prog.iter().enumerate() {
        s.set_op(t, i);
        match op {
            Op::Try(n) => { let r = pool.try_allocate(*n); s.done(if r.is_some() { "some" } else { "none" }); slots.push(r); }
            Op::Alloc(n) => { let r = pool.allocate(*n); s.done("ok"); slots.push(Some(r)); }
            Op::Resize(k, to) => { if let Some(Some(r)) = slots.get_mut(*k) { r.resize(*to); s.done("ok"); } }
            Op::Drop(k) => { if let Some(slot) = slots.get_mut(*k) { if let Some(r) = slot.take() { drop(r); s.done("ok"); } } }
        }
    }
    slots.into_iter().flatten().collect()
}

pub struct Trace { pub events: Vec<Value>, pub tids: Vec<usize>, pub enabled: Vec<Vec<usize>>, pub outcome: &'static str, pub leftover: usize, pub fin: usize }

fn parse_ops(v: &Value) -> Vec<Op> {
    v.as_array().map(|a| a.iter().filter_map(|o| {
        let u = |k: &str| o[k].as_u64().unwrap_or(0) as usize;
        match o["op"].as_str()? { "try" => Some(Op::Try(u("n"))), "alloc" => Some(Op::Alloc(u("n"))),
            "resize" => Some(Op::Resize(u("slot"), u("to"))), "drop" => Some(Op::Drop(u("slot"))), _ => None }
    }).collect()).unwrap_or_default()
}

/// Runs the programs on real threads under the given schedule (entries naming a thread that cannot move are
/// skipped; when the schedule is exhausted the lowest enabled thread moves).
pub fn run_sched(max: usize, progs: &[Vec<Op>], schedule: &[usize]) -> Trace {
    install_controller();
    let n = progs.len();
    let pool = MemoryPool::new(max);
    let s = Arc::new(Sched { m: Mutex::new(St { at: vec![None; n], cur_op: vec![0; n], finished: vec![false; n], panicked: false,
        grant: None, running: false, done: None, abort: false }), cv: Condvar::new(), cvt: (0..n).map(|_| Condvar::new()).collect() });
    let mut tr = Trace { events: vec![], tids: vec![], enabled: vec![], outcome: "ok", leftover: 0, fin: 0 };
    let mut sched_pos = 0usize;
    let leftovers: Vec<MemoryReservation> = std::thread::scope(|sc| {
        let handles: Vec<_> = (0..n).map(|t| { let s2 = s.clone(); let p = &progs[t]; let pool = &pool; sc.spawn(move || worker(t, p, pool, s2)) }).collect();
        let mut pending: Option<(usize, u32, usize)> = None; // the step granted last: (t, id, op)
        loop {
            // wait until nobody runs: every thread is blocked at a yield point or finished
            let deadline = Instant::now() + Duration::from_secs(60);
            let mut st = s.m.lock().unwrap();
            loop {
                let quiet = !st.running && st.grant.is_none() && (0..n).all(|t| st.finished[t] || st.at[t].is_some());
                if quiet { break; }
                let now = Instant::now();
                if now >= deadline { st.abort = true; s.wake_workers(); tr.outcome = "timeout"; break; }
                st = s.cv.wait_timeout(st, deadline - now).unwrap().0;
            }
            if tr.outcome == "timeout" { drop(st); break; }
            if let Some((t, id, op)) = pending.take() {
                let done = st.done.take();
                tr.events.push(json!({"t": t, "op": op, "id": id, "used": pool.used() as u64, "done": done}));
            }
            if st.panicked { st.abort = true; s.wake_workers(); tr.outcome = "panic"; drop(st); break; }
            let enabled: Vec<usize> = (0..n).filter(|&t| !st.finished[t] && st.at[t].is_some()).collect();
            if enabled.is_empty() { drop(st); break; }
            let mut pick = None;
            while sched_pos < schedule.len() {
                let c = schedule[sched_pos]; sched_pos += 1;
                if enabled.contains(&c) { pick = Some(c); break; }
            }
            let t = pick.unwrap_or(enabled[0]);
            let (id, op) = st.at[t].unwrap();
            pending = Some((t, id, op));
            tr.tids.push(t);
            tr.enabled.push(enabled);
            st.grant = Some(t);
            st.running = true;
            st.done = None;
            s.cvt[t].notify_all();
            drop(st);
        }
        let mut left = vec![];
        for h in handles { match h.join() { Ok(v) => left.extend(v), Err(_) => { if tr.outcome == "ok" { tr.outcome = "panic"; } } } }
        left
    });
    tr.leftover = pool.used();
    drop(leftovers); // main thread: no scheduler context, the yield points pass through
    tr.fin = pool.used();
    tr
}

fn impl_json(tr: &Trace) -> Value {
    json!({"outcome": tr.outcome, "events": tr.events, "leftover_used": tr.leftover as u64, "final_used": tr.fin as u64})
}

pub fn run_case(c: &Value) -> Value {
    let max = c["max"].as_u64().unwrap_or(0) as usize;
    let progs: Vec<Vec<Op>> = c["threads"].as_array().map(|a| a.iter().map(parse_ops).collect()).unwrap_or_default();
    let schedule: Vec<usize> = c["schedule"].as_array().map(|a| a.iter().map(|x| x.as_u64().unwrap_or(0) as usize).collect()).unwrap_or_default();
    if progs.is_empty() || progs.len() > 8 { return json!({"outcome": "bad_case"}); }
    let tr = run_sched(max, &progs, &schedule);
    impl_json(&tr)
}

fn op_json(o: &Op) -> Value {
    match o { Op::Try(n) => json!({"op":"try","n":*n as u64}), Op::Alloc(n) => json!({"op":"alloc","n":*n as u64}),
        Op::Resize(k, to) => json!({"op":"resize","slot":k,"to":*to as u64}), Op::Drop(k) => json!({"op":"drop","slot":k}) }
}
fn case_json(max: usize, progs: &[Vec<Op>], schedule: &[usize]) -> Value {
    json!({"max": max as u64, "threads": progs.iter().map(|p| p.iter().map(op_json).collect::<Vec<_>>()).collect::<Vec<_>>(), "schedule": schedule})
}

/// style 0: contended try_allocate around a small limit; 1: mixed with forced allocate / grow; 2: boundary values (overflow, wrap)
fn gen_programs(r: &mut Rng, nthreads: usize, max_ops: usize, style: u64) -> (usize, Vec<Vec<Op>>) {
    let max: usize = match style {
        2 => *r.pick(&[usize::MAX, usize::MAX - 1, 1usize << 63, 0, 10]),
        _ => *r.pick(&[0usize, 1, 8, 10, 16, 100, 10, 16, 100, 7]),
    };
    let size = |r: &mut Rng| -> usize {
        if style == 2 {
            *r.pick(&[0usize, 1, 5, usize::MAX, usize::MAX - 1, usize::MAX - 5, 1usize << 63, (1usize << 63) - 1, (1usize << 63) + 1])
        } else {
            let m = max.max(2) as u64;
            match r.below(12) { 0 => 0, 1 | 2 => max, 3 | 4 => (m / 2) as usize, 5 | 6 => (m / 2 + 1) as usize, 7 => max.wrapping_add(1), 8 => 1, 9 => (m / 3) as usize, _ => r.below(m + 2) as usize }
        }
    };
    let mut progs = vec![];
    for _ in 0..nthreads {
        let k = 1 + r.below(max_ops as u64) as usize;
        let mut p = vec![];
        let mut slots = 0usize;
        for _ in 0..k {
            let roll = r.below(100);
            if slots == 0 || roll < 45 { p.push(Op::Try(size(r))); slots += 1; }
            else if roll < 55 && style != 0 { p.push(Op::Alloc(size(r))); slots += 1; }
            else if roll < 75 {
                let to = if style == 0 { r.below(max.max(1) as u64 / 2 + 1) as usize } else { size(r) };
                p.push(Op::Resize(r.below(slots as u64) as usize, to));
            }
            else { p.push(Op::Drop(r.below(slots as u64) as usize)); }
        }
        // most programs release what they hold before they end (so that the pool gets reused by the others)
        if r.chance(2, 3) { for s in 0..slots { if r.chance(3, 4) { p.push(Op::Drop(s)); } } }
        progs.push(p);
    }
    (max, progs)
}

/// All interleavings of the programs (stateless DFS over schedule prefixes), at most `cap` runs.
fn explore(max: usize, progs: &[Vec<Op>], cap: usize, mut sink: impl FnMut(Value, Value)) -> usize {
    let mut stack: Vec<Vec<usize>> = vec![vec![]];
    let mut runs = 0;
    while let Some(prefix) = stack.pop() {
        if runs >= cap { break; }
        let tr = run_sched(max, progs, &prefix);
        runs += 1;
        if tr.outcome == "ok" {
            for k in (prefix.len()..tr.tids.len()).rev() {
                for &u in &tr.enabled[k] {
                    if u != tr.tids[k] { let mut p = tr.tids[..k].to_vec(); p.push(u); stack.push(p); }
                }
            }
        }
        sink(case_json(max, progs, &tr.tids), impl_json(&tr));
    }
    runs
}

pub fn main(o: &Opts) {
    if let Some(p) = &o.replay { for c in replay_cases(p) { let i = run_case(&c); emit(c, i); } return; }
    let mut r = Rng::new(o.seed ^ 0xC33);
    let mut left = o.cases;
    // (a) exhaustive: every interleaving of small programs (a third of the budget, `--opt exhaustive=<percent>`)
    let pct = o.get_usize("exhaustive", 34).min(100);
    let mut ex_budget = o.cases * pct / 100;
    while ex_budget > 0 && left > 0 {
        let nt = if r.chance(1, 3) { 3 } else { 2 };
        let style = if r.chance(3, 5) { 0 } else if r.chance(2, 3) { 1 } else { 2 };
        let (max, progs) = gen_programs(&mut r, nt, if nt == 3 { 2 } else { 3 }, style);
        let cap = ex_budget.min(left).min(o.get_usize("explore_cap", 400));
        let n = explore(max, &progs, cap, |c, i| emit(c, i));
        ex_budget -= n.min(ex_budget); left -= n.min(left);
    }
    // (b) random schedules of larger programs
    while left > 0 {
        let nt = 2 + r.below(3) as usize;
        let style = match r.below(10) { 0..=4 => 0, 5..=7 => 1, _ => 2 };
        let (max, progs) = gen_programs(&mut r, nt, 5, style);
        // bursty random schedule: a thread keeps the baton for a random number of steps
        let mut schedule = vec![];
        while schedule.len() < 60 { let t = r.below(nt as u64) as usize; let burst = if r.chance(1, 2) { 1 } else { 4 }; for _ in 0..1 + r.below(burst) { schedule.push(t); } }
        let c = case_json(max, &progs, &schedule);
        let i = run_case(&c);
        emit(c, i);
        left -= 1;
    }
}
