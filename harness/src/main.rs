mod common;
mod rng;
mod fams;

fn main() {
    let args: Vec<String> = std::env::args().collect();
    if args.len() < 2 { eprintln!("usage: iqe-harness <family> [--seed N] [--cases M] [--replay file] [--opt k=v]"); std::process::exit(2); }
    let mut o = common::Opts { seed: 1, cases: 100, replay: None, kv: Default::default() };
    let mut i = 2;
    while i < args.len() {
        match args[i].as_str() {
            "--seed" => { o.seed = args[i + 1].parse().expect("seed"); i += 2; }
            "--cases" => { o.cases = args[i + 1].parse().expect("cases"); i += 2; }
            "--replay" => { o.replay = Some(args[i + 1].clone()); i += 2; }
            "--opt" => { let (k, v) = args[i + 1].split_once('=').expect("k=v"); o.kv.insert(k.into(), v.into()); i += 2; }
            x => { eprintln!("unknown arg {x}"); std::process::exit(2); }
        }
    }
    // panics are reported per case through catch_unwind; keep stderr quiet
    std::panic::set_hook(Box::new(|_| {}));
    if !fams::dispatch(args[1].as_str(), &o) { eprintln!("unknown family {}", args[1]); std::process::exit(2); }
}
