// FAMILY: SQLC28
//! C28 — each CTE reference yields that CTE's rows.  Generated WITH statements (sqlgen stratum `cte`, features
//! `cte_shadow` / `dup_derived_names` as the registry asks) run through `ExecutionContext::sql`; same case / impl format as the
//! generic family `SQL`, judged by `lean/Driver/SqlC28.lean`.
//!
//! Addition over `family_main`: cases tagged `f:dup_derived_names` (two derived relations with equal column names in one FROM —
//! the same CTE referenced twice) also carry `neutral_sql`, the SAME statement with every CTE reference `w AS x` wrapped in a
//! derived table that renames the CTE's columns apart (`(SELECT xi.q AS q_x, … FROM w AS xi) AS x`, references `x.q` → `x.q_x`);
//! its outcome is shipped as `impl.neutral_rename` and used by the driver only to attribute a failing case to the known
//! finding C28-F2 (DESIGN §3.4: signature + neutraliser).  A CTE name defined twice in the statement is left unwrapped.
//!
//! Every statement whose WITH names are unique also carries `inline_sql`, the CTE-free rendering (each reference `w AS x`
//! replaced by `(<definition>) AS x`, WITH clause dropped); outcome in `impl.neutral_inline`.  The driver attributes a failing
//! case to C28-F3 (operator defects inherited from C21/C22/C23 inside the definitions) only if the engine returns the SAME rows
//! for both renderings — then every reference did yield what the engine computes for the definition.
//!
//! References inside subquery expressions: sqlgen's `cte` stratum places references in FROM clauses only, so every third
//! statement gets one more conjunct in the WHERE clause of its body — `[NOT] EXISTS (SELECT 1 FROM w AS xs…)` or
//! `(SELECT COUNT(*) FROM w AS xs…) >= n` over one of its top-level CTEs (tag `f:cte_in_subquery`).
//!
//! Shadow statements (`cte_shadow`): sqlgen gives every select item a fresh alias, so a reference bound to the wrong definition
//! fails with "column not found" instead of returning rows.  Every second shadow case is therefore re-spelled so that the inner
//! definition's columns carry the OUTER definition's column names (positions — and with them the plan — unchanged), as in A.16.
use crate::common::*;
use crate::fams::fam_sql::sqlgen::ast::*;
use crate::fams::fam_sql::sqlgen::catalog::{gen_catalog, CatOpts};
use crate::fams::fam_sql::sqlgen::driver::{cfgs_from_opts, make_case, run_case};
use crate::fams::fam_sql::sqlgen::gen::{Gen, GenOpts};
use crate::rng::Rng;
use serde_json::{json, Value};
use std::collections::BTreeMap;

type Defs = BTreeMap<String, Vec<Vec<String>>>;

fn cols_of(b: &Body) -> Vec<String> {
    match b { Body::Select(s) => s.proj.iter().map(|(_, a)| a.clone()).collect(), Body::SetOp { l, .. } => cols_of(l), Body::Values(_) => vec![] }
}
fn collect_e(e: &Expr, out: &mut Defs) {
    e.visit(&mut |x| match x { Expr::Exists(q, _) | Expr::Scalar(q) | Expr::InSub(_, q, _) => collect_q(q, out), _ => {} });
}
fn collect_rel(r: &Rel, out: &mut Defs) {
    match r {
        Rel::Derived { q, .. } => collect_q(q, out),
        Rel::Join { l, r, on, .. } => { collect_rel(l, out); collect_rel(r, out); if let Some(e) = on { collect_e(e, out); } }
        _ => {}
    }
}
fn collect_body(b: &Body, out: &mut Defs) {
    match b {
        Body::Select(s) => {
            if let Some(f) = &s.from { collect_rel(f, out); }
            if let Some(w) = &s.where_ { collect_e(w, out); }
            if let Some(h) = &s.having { collect_e(h, out); }
            for (e, _) in &s.proj { collect_e(e, out); }
        }
        Body::SetOp { l, r, .. } => { collect_body(l, out); collect_body(r, out); }
        Body::Values(_) => {}
    }
}
/// every WITH definition of the statement: name → output column names (one entry per definition of that name)
fn collect_q(q: &QueryExpr, out: &mut Defs) {
    for (n, d) in &q.with { out.entry(n.clone()).or_default().push(cols_of(&d.body)); collect_q(d, out); }
    collect_body(&q.body, out);
}

fn is_ident(c: u8) -> bool { c.is_ascii_alphanumeric() || c == b'_' }

/// the statement with every reference to a once-defined CTE wrapped in a column-renaming derived table
fn neutral_sql(sql: &str, defs: &Defs) -> Option<String> {
    let b = sql.as_bytes();
    // pass 1: wrap `name AS alias`
    let mut out = String::new();
    let mut renamed: BTreeMap<String, Vec<String>> = BTreeMap::new();   // alias → columns
    let mut i = 0;
    while i < b.len() {
        if is_ident(b[i]) && (i == 0 || !is_ident(b[i - 1])) {
            let mut j = i; while j < b.len() && is_ident(b[j]) { j += 1; }
            let word = &sql[i..j];
            if let Some(v) = defs.get(word) {
                if v.len() == 1 && !v[0].is_empty() && sql[j..].starts_with(" AS ") {
                    let k0 = j + 4; let mut k = k0; while k < b.len() && is_ident(b[k]) { k += 1; }
                    if k > k0 && b[k0].is_ascii_alphabetic() {
                        let alias = &sql[k0..k];
                        let items: Vec<String> = v[0].iter().map(|c| format!("{a}i.{c} AS {c}_{a}", a = alias, c = c)).collect();
                        out += &format!("(SELECT {} FROM {} AS {}i) AS {}", items.join(", "), word, alias, alias);
                        renamed.insert(alias.to_string(), v[0].clone());
                        i = k; continue;
                    }
                }
            }
            out += word; i = j;
        } else { out.push(b[i] as char); i += 1; }
    }
    if renamed.is_empty() { return None; }
    // pass 2: `alias.col` → `alias.col_alias`
    let s = out; let b = s.as_bytes(); let mut out = String::new(); let mut i = 0;
    while i < b.len() {
        if is_ident(b[i]) && (i == 0 || !is_ident(b[i - 1])) {
            let mut j = i; while j < b.len() && is_ident(b[j]) { j += 1; }
            let word = &s[i..j];
            if let Some(cols) = renamed.get(word) {
                if j < b.len() && b[j] == b'.' {
                    let k0 = j + 1; let mut k = k0; while k < b.len() && is_ident(b[k]) { k += 1; }
                    let col = &s[k0..k];
                    if cols.iter().any(|c| c == col) { out += &format!("{}.{}_{}", word, col, word); i = k; continue; }
                }
            }
            out += word; i = j;
        } else { out.push(b[i] as char); i += 1; }
    }
    Some(out)
}

/// `name AS alias` → `(<text of name>) AS alias` for every name of `inl`
fn replace_refs(sql: &str, inl: &BTreeMap<String, String>) -> String {
    let b = sql.as_bytes(); let mut out = String::new(); let mut i = 0;
    while i < b.len() {
        if is_ident(b[i]) && (i == 0 || !is_ident(b[i - 1])) {
            let mut j = i; while j < b.len() && is_ident(b[j]) { j += 1; }
            let word = &sql[i..j];
            if let Some(d) = inl.get(word) {
                if sql[j..].starts_with(" AS ") && j + 4 < b.len() && b[j + 4].is_ascii_alphabetic() { out += &format!("({})", d); i = j; continue; }
            }
            out += word; i = j;
        } else { out.push(b[i] as char); i += 1; }
    }
    out
}

/// the CTE-free rendering of a statement with one top-level WITH whose names are unique in the statement
fn inline_sql(q: &QueryExpr, defs: &Defs) -> Option<String> {
    if q.with.is_empty() || defs.values().any(|v| v.len() != 1) || q.with.iter().any(|(_, d)| !d.with.is_empty()) { return None; }
    let mut inl: BTreeMap<String, String> = BTreeMap::new();
    for (n, d) in &q.with { let t = replace_refs(&d.sql(), &inl); inl.insert(n.clone(), t); }
    let body = QueryExpr { with: vec![], body: q.body.clone(), order: q.order.clone(), limit: q.limit.clone() };
    Some(replace_refs(&body.sql(), &inl))
}

/// rename whole identifier tokens
fn rename_tokens(sql: &str, ren: &BTreeMap<String, String>) -> String {
    let b = sql.as_bytes(); let mut out = String::new(); let mut i = 0;
    while i < b.len() {
        if is_ident(b[i]) && (i == 0 || !is_ident(b[i - 1])) {
            let mut j = i; while j < b.len() && is_ident(b[j]) { j += 1; }
            let word = &sql[i..j];
            out += ren.get(word).map(|s| s.as_str()).unwrap_or(word); i = j;
        } else { out.push(b[i] as char); i += 1; }
    }
    out
}

/// the pieces of a shadow block `… FROM w AS a CROSS JOIN (WITH w AS (inner) SELECT … FROM w AS b) AS d`
fn shadow_parts(q: &QueryExpr) -> Option<&QueryExpr> {
    let Body::Select(s) = &q.body else { return None };
    let Some(Rel::Join { r, .. }) = &s.from else { return None };
    let Rel::Derived { q: iq, .. } = &**r else { return None };
    if iq.with.len() != 1 || iq.with[0].0 != q.with.last()?.0 { return None; }
    Some(iq)
}

/// inner column names := outer column names (token renaming to apply to the statement text)
fn align_shadow(q: &QueryExpr) -> Option<BTreeMap<String, String>> {
    let outer = cols_of(&q.with.last()?.1.body);
    let iq = shadow_parts(q)?;
    let inner = cols_of(&iq.with[0].1.body);
    let ren: BTreeMap<String, String> = inner.iter().zip(outer.iter()).map(|(i, o)| (i.clone(), o.clone())).collect();
    if ren.is_empty() { None } else { Some(ren) }
}

/// the CTE-free rendering of a shadow statement, every reference resolved LEXICALLY
fn inline_shadow(q: &QueryExpr) -> Option<String> {
    let iq = shadow_parts(q)?;
    let mut names: Vec<&String> = q.with.iter().map(|(n, _)| n).collect(); names.sort(); names.dedup();
    if names.len() != q.with.len() || q.with.iter().any(|(_, d)| !d.with.is_empty()) || !iq.with[0].1.with.is_empty() { return None; }
    let mut inl: BTreeMap<String, String> = BTreeMap::new();
    for (n, d) in &q.with { let t = replace_refs(&d.sql(), &inl); inl.insert(n.clone(), t); }
    // inside the derived table the name means the inner definition (whose own text still sees the outer one)
    let mut inner = inl.clone();
    inner.insert(iq.with[0].0.clone(), replace_refs(&iq.with[0].1.sql(), &inl));
    let inner_body = QueryExpr { with: vec![], body: iq.body.clone(), order: iq.order.clone(), limit: iq.limit.clone() };
    let new_derived = replace_refs(&inner_body.sql(), &inner);
    let body = QueryExpr { with: vec![], body: q.body.clone(), order: q.order.clone(), limit: q.limit.clone() };
    let text = body.sql();
    let old_derived = iq.sql();
    let at = text.find(&old_derived)?;
    let head = replace_refs(&text[..at], &inl);
    let tail = replace_refs(&text[at + old_derived.len()..], &inl);
    Some(format!("{}{}{}", head, new_derived, tail))
}

/// one more WHERE conjunct that reads a top-level CTE inside a subquery expression
fn add_cte_subquery(r: &mut Rng, q: &mut QueryExpr, n: usize) -> bool {
    if q.with.is_empty() { return false; }
    let k = r.below(q.with.len() as u64) as usize;
    let name = q.with[k].0.clone();
    let Body::Select(s) = &mut q.body else { return false };
    if s.from.is_none() { return false; }
    let rel = Rel::Cte { idx: k, name, alias: format!("xs{}", n) };
    let e = match r.below(3) {
        0 | 1 => {
            let sub = Select { from: Some(rel), where_: None, group: None, having: None, proj: vec![(Expr::lit_i(1), format!("qs{}", n))], distinct: false };
            Expr::Exists(Box::new(QueryExpr::of(Body::Select(Box::new(sub)))), r.chance(1, 3))
        }
        _ => {
            let call = AggCall { f: AggFn::CountStar, arg: None, distinct: false };
            let sub = Select { from: Some(rel), where_: None, group: Some(Group { keys: vec![], aggs: vec![call.clone()], sets: None }), having: None,
                               proj: vec![(Expr::Col { i: 0, sql: call.sql() }, format!("qs{}", n))], distinct: false };
            let bound = *r.pick(&[0i64, 1, 2, 5, 20]);
            Expr::bin(*r.pick(&[BinOp::Ge, BinOp::Lt]), Expr::Scalar(Box::new(QueryExpr::of(Body::Select(Box::new(sub))))), Expr::lit_i(bound))
        }
    };
    s.where_ = Some(match s.where_.take() { Some(w) => Expr::and(w, e), None => e });
    true
}

fn run_one(case: &Value) -> Value {
    let mut out = run_case(case);
    if let Some(ns) = case["inline_sql"].as_str() {
        let mut c2 = case.clone();
        c2["sql"] = json!(ns); c2["neutral"] = json!([]);
        let i2 = run_case(&c2);
        if let Some(o) = out.as_object_mut() { o.insert("neutral_inline".into(), json!({"impl": i2})); }
    }
    if let Some(ns) = case["neutral_sql"].as_str() {
        let mut c2 = case.clone();
        c2["sql"] = json!(ns); c2["neutral"] = json!([]);
        let i2 = run_case(&c2);
        if let Some(o) = out.as_object_mut() { o.insert("neutral_rename".into(), json!({"impl": i2})); }
    }
    out
}

pub fn main(o: &Opts) {
    if let Some(p) = &o.replay {
        let cases = replay_cases(p);
        if o.get_usize("shrink", 0) == 1 { for c in cases { let m = crate::fams::fam_sql::sqlgen::shrink::shrink(&c); println!("{}", json!({"case": m.0, "impl": m.1})); } return; }
        for c in cases { let i = run_one(&c); emit(c, i); }
        return;
    }
    let gopts = GenOpts::from_opts(o, "cte");
    let copts = CatOpts::from_opts(o);
    let cfgs = cfgs_from_opts(o, "memb,mem1");
    let per_cat = o.get_usize("per_cat", 8).max(1);
    let prop = o.get("prop").unwrap_or("C28").to_string();
    let max_rows = o.get_usize("max_rows", 3000);
    let nojoin = o.get_usize("nojoin", 0) == 1;
    let mut r = Rng::new(o.seed ^ 0xC28);
    let mut cat = gen_catalog(&mut r, &copts);
    let mut n = 0usize; let mut attempts = 0usize;
    while n < o.cases && attempts < o.cases * 8 + 16 {
        if attempts % per_cat == 0 { cat = gen_catalog(&mut r, &copts); }
        attempts += 1;
        let mut qr = r.fork();
        let mut g = Gen::new(&mut qr, &cat, &gopts).generate(n);
        // (not over the big multi-partition table: the engine re-runs an uncorrelated subquery for every batch it filters)
        if n % 3 == 2 && cat.total_rows() <= 400 && add_cte_subquery(&mut r, &mut g.q, n) { g.tags.push("f:cte_in_subquery".into()); }
        // `--opt nojoin=1` (the multi-partition stream): a join over the 1000+-row table on a low-cardinality key produces millions
        // of rows before `max_rows` can reject the case; sqlgen cannot switch joins off, so such statements are dropped unexecuted
        if nojoin && g.q.sql().contains(" JOIN ") { continue; }
        let one = [cfgs[n % cfgs.len()].clone()];
        let mut case = make_case(&prop, &cat, &g.q, &g.tags, g.engine_defined, &one, false);
        let mut defs = Defs::new();
        collect_q(&g.q, &mut defs);
        if g.tags.iter().any(|t| t == "f:cte_shadow") {
            let ren = if n % 2 == 0 { align_shadow(&g.q) } else { None };
            let inl = inline_shadow(&g.q);
            if let Some(ren) = &ren {
                case["sql"] = json!(rename_tokens(case["sql"].as_str().unwrap_or(""), ren));
                case["tags"].as_array_mut().map(|a| a.push(json!("f:shadow_same_columns")));
            }
            if let Some(t) = inl { case["inline_sql"] = json!(match &ren { Some(r) => rename_tokens(&t, r), None => t }); }
        } else if let Some(t) = inline_sql(&g.q, &defs) { case["inline_sql"] = json!(t); }
        if g.tags.iter().any(|t| t == "f:dup_derived_names") {
            if let Some(ns) = neutral_sql(case["sql"].as_str().unwrap_or(""), &defs) { case["neutral_sql"] = json!(ns); }
        }
        let imp = run_one(&case);
        // a result of more than `max_rows` rows (products of joins over CTEs) is not worth judging row by row in the reference semantics
        if imp["ok"].as_array().map(|a| a.len() > max_rows).unwrap_or(false) { continue; }
        emit(case, imp);
        n += 1;
    }
}
