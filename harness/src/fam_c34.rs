// FAMILY: C34
//! C34: Flight and HTTP return the same answer — real nodes with the Arrow Flight endpoint enabled, an
//! arrow-flight client (GetFlightInfo → DoGet) and `http_client` POST /sql on the same node.
//!
//! Case: {"data":D,"node":"S"|"N0"|"N1"|"N2"|"X","kind":"query","cmd":CMD}   CMD = {"form":"raw","sql":..} | {"form":"json","sql":..,"mode":..} |
//!                                                                       {"form":"badjson"} | {"form":"empty"} | {"form":"nonutf8"} | {"form":"huge"}
//!       {"data":D,"node":..,"kind":"ticket","ticket":T}   T = {"form":"json","v":n,"sql":..,"mode":..} | {"form":"nomode","sql":..} | {"form":"raw","text":..} | {"form":"huge"}
//! Impl (query):  {"info": "ok"|{"code":..}, "doget": "ok"|{"code":..}, "info_schema":[[name,type]..], "schema":[..], "msgs":[rows per record-batch message],
//!                 "meta_at":[message indexes carrying app_metadata], "meta":{..trailer json..}, "rows":[sorted canonical rows],
//!                 "http":{"status","distributed","skipped","rows_hdr","batches":[rows per batch],"rows":[..],"schema":[..]}, "ticket":{..parsed ticket..}}
//! Impl (ticket): {"doget": "ok"|{"code":..}, "rows_total":n}
use crate::common::*;
use crate::fams::fam_c10::dist::*;
use crate::fams::fam_c35::net::*;
use crate::rng::Rng;
use arrow_flight::client::FlightClient;
use arrow_flight::decode::DecodedPayload;
use arrow_flight::{FlightDescriptor, Ticket};
use futures::TryStreamExt;
use query_engine::distributed::{http_client, ServerHandle};
use serde_json::{json, Value};
use std::sync::{Arc, Mutex};
use std::time::Duration;

pub struct World { key: String, _root: std::path::PathBuf, single: ServerHandle, trio: Vec<ServerHandle>, broken: ServerHandle }

async fn build_world(data: &Value) -> Result<World, String> {
    let root = fresh_dir("c34");
    write_tables(&root, data, 0);
    let single = spawn_node(110, &root, true, Load::Now).await?;
    let mut trio = vec![];
    for i in 0..3 { trio.push(spawn_node(120 + i, &root, true, Load::Now).await?); }
    let addrs: Vec<String> = trio.iter().map(|h| h.address().to_string()).collect();
    for h in &trio { h.set_peers(addrs.clone()); }
    let broken = spawn_node(150, &root, true, Load::Fail).await?;
    let dl = Duration::from_secs(60);
    for h in std::iter::once(&single).chain(trio.iter()) {
        if !wait_for(dl, || h.state().tables_loaded()).await { return Err(format!("node {} never loaded", h.node_id())); }
    }
    if !wait_for(dl, || broken.state().load_error().is_some()).await { return Err("broken node never reported".into()); }
    for h in &trio { if !converge(&h.local_addr().to_string(), 3, 3, dl).await { return Err("trio did not converge".into()); } }
    Ok(World { key: data.to_string(), _root: root, single, trio, broken })
}

impl World {
    fn node(&self, n: &str) -> Option<&ServerHandle> {
        match n { "S" => Some(&self.single), "N0" => self.trio.first(), "N1" => self.trio.get(1), "N2" => self.trio.get(2), "X" => Some(&self.broken), _ => None }
    }
}

async fn client_for(h: &ServerHandle) -> Result<FlightClient, String> {
    let addr = h.flight_addr().ok_or("flight disabled")?;
    let ch = tonic::transport::Endpoint::from_shared(format!("http://{addr}")).map_err(|e| e.to_string())?.connect().await.map_err(|e| e.to_string())?;
    Ok(FlightClient::new(ch))
}

fn code_of(e: arrow_flight::error::FlightError) -> Value {
    match e {
        arrow_flight::error::FlightError::Tonic(s) => json!({"code": format!("{:?}", s.code()), "msg": s.message().chars().take(160).collect::<String>()}),
        other => json!({"code": "ClientSide", "msg": other.to_string().chars().take(160).collect::<String>()}),
    }
}

fn cmd_bytes(c: &Value) -> Vec<u8> {
    match c["form"].as_str().unwrap_or("") {
        "raw" => c["sql"].as_str().unwrap_or("").as_bytes().to_vec(),
        "json" => { let mut o = json!({"sql": c["sql"]}); if !c["mode"].is_null() { o["mode"] = c["mode"].clone(); } o.to_string().into_bytes() }
        "badjson" => b"{\"sql\": \"SELECT 1\"".to_vec(),
        "nosql" => b"{\"mode\": \"auto\"}".to_vec(),
        "empty" => b"   ".to_vec(),
        "nonutf8" => vec![b'S', 0xff, 0xfe],
        "huge" => { let mut v = b"SELECT 1 -- ".to_vec(); v.resize(1024 * 1024 + 1, b'x'); v }
        _ => vec![],
    }
}

fn ticket_bytes(t: &Value) -> Vec<u8> {
    match t["form"].as_str().unwrap_or("") {
        "json" => json!({"v": t["v"], "sql": t["sql"], "mode": t["mode"]}).to_string().into_bytes(),
        "nomode" => json!({"v": 1, "sql": t["sql"]}).to_string().into_bytes(),
        "raw" => t["text"].as_str().unwrap_or("").as_bytes().to_vec(),
        "huge" => { let mut v = format!("{{\"v\":1,\"mode\":\"auto\",\"sql\":\"SELECT 1 -- ").into_bytes(); v.resize(1024 * 1024 + 1, b'x'); v.extend_from_slice(b"\"}"); v }
        _ => vec![],
    }
}

/// DoGet, keeping the message structure: rows per record-batch message, where the metadata rides, the decoded rows
async fn do_get(client: &mut FlightClient, ticket: Vec<u8>) -> Result<Value, Value> {
    let stream = client.do_get(Ticket::new(ticket)).await.map_err(code_of)?;
    let mut dec = stream.into_inner();
    let mut msgs = vec![]; let mut meta_at = vec![]; let mut meta = Value::Null; let mut batches = vec![]; let mut schema = Value::Null;
    let mut other_meta = 0usize;
    loop {
        match dec.try_next().await {
            Ok(None) => break,
            Err(e) => return Err(code_of(e)),
            Ok(Some(d)) => {
                let has_meta = !d.inner.app_metadata.is_empty();
                match d.payload {
                    DecodedPayload::RecordBatch(b) => {
                        if has_meta { meta_at.push(msgs.len()); meta = serde_json::from_slice(&d.inner.app_metadata).unwrap_or(json!({"unparseable": true})); }
                        msgs.push(b.num_rows());
                        batches.push(b);
                    }
                    DecodedPayload::Schema(s) => { schema = schema_json(&s); if has_meta { other_meta += 1; } }
                    DecodedPayload::None => { if has_meta { other_meta += 1; } }
                }
            }
        }
    }
    let nonempty: Vec<_> = batches.iter().filter(|b| b.num_rows() > 0).cloned().collect();
    Ok(json!({"msgs": msgs, "meta_at": meta_at, "meta_elsewhere": other_meta, "meta": meta, "schema": schema, "rows": rows_sorted(&nonempty)}))
}

async fn http_side(addr: &str, sql: &str, mode: Option<&str>) -> Value {
    let q = match mode { Some(m) => format!("format=arrow&distributed={m}"), None => "format=arrow".to_string() };
    match http_client::post_text(addr, &format!("/sql?{q}"), sql, HTTP_TIMEOUT).await {
        Err(e) => json!({"transport_error": e.to_string()}),
        Ok(r) => {
            let mut o = json!({"status": r.status, "distributed": r.header("x-qe-distributed"), "skipped": r.header("x-qe-distributed-skipped"), "rows_hdr": r.header("x-qe-rows")});
            if r.status == 200 {
                match query_engine::distributed::coordinator::decode_ipc(&r.body) {
                    Ok(bs) => {
                        // a schema-only stream decodes to one zero-row placeholder: the engine returned no batch
                        let real: Vec<_> = if bs.len() == 1 && bs[0].num_rows() == 0 { vec![] } else { bs.clone() };
                        o["batches"] = json!(real.iter().map(|b| b.num_rows()).collect::<Vec<_>>());
                        o["schema"] = bs.first().map(|b| schema_json(&b.schema())).unwrap_or(Value::Null);
                        let nonempty: Vec<_> = bs.iter().filter(|b| b.num_rows() > 0).cloned().collect();
                        o["rows"] = json!(rows_sorted(&nonempty));
                    }
                    Err(e) => o["decode_error"] = json!(e.to_string()),
                }
            } else {
                o["error"] = json!(serde_json::from_slice::<Value>(&r.body).ok().and_then(|v| v["error"].as_str().map(|s| s.chars().take(160).collect::<String>())));
            }
            o
        }
    }
}

async fn run_async(w: &World, c: &Value) -> Value {
    let Some(h) = w.node(c["node"].as_str().unwrap_or("S")) else { return json!({"bad_case": true}) };
    let mut client = match client_for(h).await { Ok(c) => c, Err(e) => return json!({"setup_error": e}) };
    let addr = h.local_addr().to_string();
    let view = cluster_view(&addr).await.unwrap_or(json!({}));
    let mut out = json!({"members_up": members_up(&view), "ready": h.state().tables_loaded()});
    if c["kind"] == "ticket" {
        let t = &c["ticket"];
        if (t["form"] == "json" || t["form"] == "nomode") && t["sql"].is_string() {
            let mode = t["mode"].as_str().map(|m| if m == "off" { "0" } else { m });
            out["http"] = http_side(&addr, t["sql"].as_str().unwrap_or(""), mode).await;
            if let Some(h) = out["http"].as_object_mut() { h.remove("rows"); }
        }
        match do_get(&mut client, ticket_bytes(&c["ticket"])).await {
            Ok(d) => { out["doget"] = json!("ok"); out["rows_total"] = json!(d["msgs"].as_array().map(|a| a.iter().filter_map(|x| x.as_u64()).sum::<u64>())); out["meta"] = d["meta"].clone(); }
            Err(e) => out["doget"] = e,
        }
        return out;
    }
    let cmd = &c["cmd"];
    let info = client.get_flight_info(FlightDescriptor::new_cmd(cmd_bytes(cmd))).await;
    // the HTTP door, same node, same statement, same mode (HTTP has no spelling "off": the theorem pairs it with "0")
    let form = cmd["form"].as_str().unwrap_or("");
    if form == "raw" || form == "json" {
        let mode = cmd["mode"].as_str().map(|m| if m == "off" { "0" } else { m });
        out["http"] = http_side(&addr, cmd["sql"].as_str().unwrap_or(""), if form == "json" { mode } else { None }).await;
    }
    match info {
        Err(e) => { out["info"] = code_of(e); out }
        Ok(info) => {
            out["info"] = json!("ok");
            out["info_schema"] = arrow::datatypes::Schema::try_from(arrow_flight::IpcMessage(info.schema.clone())).map(|s| schema_json(&s)).unwrap_or(Value::Null);
            out["endpoints"] = json!(info.endpoint.len());
            let Some(t) = info.endpoint.first().and_then(|e| e.ticket.clone()) else { out["doget"] = json!({"code": "NoTicket"}); return out };
            out["ticket"] = serde_json::from_slice(&t.ticket).unwrap_or(Value::Null);
            match do_get(&mut client, t.ticket.to_vec()).await {
                Ok(d) => { out["doget"] = json!("ok"); for k in ["msgs", "meta_at", "meta_elsewhere", "meta", "schema", "rows"] { out[k] = d[k].clone(); } }
                Err(e) => out["doget"] = e,
            }
            out
        }
    }
}

static WORLD: Mutex<Option<Arc<World>>> = Mutex::new(None);

pub fn run_case(c: &Value) -> Value {
    let c2 = c.clone();
    guarded(std::panic::AssertUnwindSafe(move || {
        let rt = runtime();
        let key = c2["data"].to_string();
        let world = {
            let mut g = WORLD.lock().unwrap_or_else(|e| e.into_inner());
            if g.as_ref().map(|w| w.key != key).unwrap_or(true) {
                match rt.block_on(build_world(&c2["data"])) { Ok(w) => *g = Some(Arc::new(w)), Err(e) => return json!({"setup_error": e}) }
            }
            g.as_ref().unwrap().clone()
        };
        rt.block_on(run_async(&world, &c2))
    }))
}

fn statement(r: &mut Rng) -> String {
    let k = *r.pick(&[0u64, 1, 4096, 4097, 10_000, 10_000, 5000, 8192, 8193]);
    match r.below(12) {
        0..=4 => format!("SELECT id, k, v FROM f WHERE id <= {k}"),
        5 => format!("SELECT id, s FROM f WHERE id <= {k} ORDER BY id"),
        6 => "SELECT COUNT(*) AS n, SUM(v) AS sv FROM f".into(),
        7 => "SELECT k, COUNT(*) AS n FROM f GROUP BY k".into(),
        8 => "SELECT f.id, g.w FROM f JOIN g ON f.k = g.k WHERE f.id <= 50".into(),
        9 => r.pick(&["SELEC 1", "SELECT nope FROM f", "SELECT * FROM missing_table", "SELECT 1 AS one"]).to_string(),
        10 => "SELECT COUNT(DISTINCT k) AS dk FROM f".into(),
        _ => format!("SELECT id FROM f WHERE id <= {k} ORDER BY id DESC LIMIT 4100"),
    }
}

pub fn main(o: &Opts) {
    if let Some(p) = &o.replay { for c in replay_cases(p) { let i = run_case(&c); emit(c, i); } return; }
    let mut r = Rng::new(o.seed ^ 0xC34);
    let mut data = gen_data_spec(&mut r);
    data["f_rows"] = json!(10_000);
    data["f_files"] = json!(1 + r.below(2));
    data["f_rg"] = json!(*r.pick(&[10_000u64, 3000, 5000]));
    data["g_rows"] = json!(12);
    data["nulls"] = json!(*r.pick(&[0u64, 10]));
    let modes = ["auto", "force", "off", "1", "0", "true", "yes", "no", "false", "local", "maybe", "", "OFF"];
    for n in 0..o.cases {
        let node = *r.pick(&["S", "N0", "N1", "N2", "N0", "S"]);
        let c = match n % 8 {
            0 => {   // ticket validation
                let t = match r.below(9) {
                    0 => json!({"form": "raw", "text": "not json"}), 1 => json!({"form": "huge"}), 2 => json!({"form": "json", "v": 2, "sql": "SELECT id FROM f WHERE id <= 3", "mode": "auto"}),
                    3 => json!({"form": "json", "v": 0, "sql": "SELECT id FROM f WHERE id <= 3", "mode": "auto"}), 4 => json!({"form": "json", "v": 1, "sql": "SELECT id FROM f WHERE id <= 3", "mode": *r.pick(&modes)}),
                    5 => json!({"form": "nomode", "sql": "SELECT id FROM f WHERE id <= 3"}), 6 => json!({"form": "raw", "text": "{\"v\":1}"}), 7 => json!({"form": "raw", "text": ""}),
                    _ => json!({"form": "json", "v": 1, "sql": statement(&mut r), "mode": *r.pick(&modes[..10])}),
                };
                json!({"data": data, "node": if r.chance(1, 8) { "X" } else { node }, "kind": "ticket", "ticket": t})
            }
            1 => {   // command validation
                let cmd = match r.below(7) { 0 => json!({"form": "badjson"}), 1 => json!({"form": "empty"}), 2 => json!({"form": "nonutf8"}), 3 => json!({"form": "huge"}), 4 => json!({"form": "nosql"}),
                    5 => json!({"form": "json", "sql": "  ", "mode": "auto"}), _ => json!({"form": "json", "sql": statement(&mut r), "mode": *r.pick(&modes)}) };
                json!({"data": data, "node": if r.chance(1, 6) { "X" } else { node }, "kind": "query", "cmd": cmd})
            }
            2 | 3 => json!({"data": data, "node": node, "kind": "query", "cmd": {"form": "raw", "sql": statement(&mut r)}}),
            _ => json!({"data": data, "node": node, "kind": "query", "cmd": {"form": "json", "sql": statement(&mut r), "mode": *r.pick(&modes[..10])}}),
        };
        let i = run_case(&c);
        emit(c, i);
    }
}
