// FAMILY: C43
//! C43: exact vector search is the literal ORDER BY … LIMIT.
//!
//! Case kind "sql":
//!   {"kind":"sql","dim":d,"dim2":d2|null,"rows":[[id,g|null,emb|null,e2|null]…] (vectors: integer components),"cuts":[batch lengths],
//!    "q":{"sel":[{"c":"id"|"g"|"emb"|"e2"|"dist","as":alias|null}…],"where":null|{"c","op":"ge"|"lt"|"isnull"|"notnull","v":int},
//!         "derived":bool (the WHERE sits in a derived table below the ORDER BY),
//!         "order":[{"k":"dist","fn":"l2"|"cos"|"sim"|"dot","col":"emb"|"e2","lit":[ints],"flip":bool,"wrap":null|"neg"|"plus"|"times","desc":bool,"nulls":null|"first"|"last"}
//!                  |{"k":"col","c":"id"|"g","desc":bool,"nulls":…}…],
//!         "limit":null|n,"offset":null|n,"outer":null|{"c","op","v"} (a filter ABOVE the limit)},
//!    "sql":text,"mode":"exact"|"indexed","provider":"mem"|"noindex"|"wrongindex","shape":class,"tags":[…]}
//! Impl: {"bound":Plan|{"err"},"steps":[{"iter":i,"before":Plan,"after":Plan|"same"|{"err"}}…]  — every application of VectorSearchPushdown inside the
//!          production fixpoint (replayed rule by rule exactly as Optimizer::optimize_with_rules does), "final":Plan|{"err"},"trace_agrees":bool,
//!        "prod":{"ok":[[cell…]…]}|{"err":kind,"msg"}|{"panic"}   — ExecutionContext::with_config(mode).sql(sql), rows in the order returned
//!        "base": the same statement through the public pipeline with VectorSearchPushdown removed from the rule list
//!        "knn_calls":n — calls of TableProvider::scan_knn made while answering "prod"}
//!   cell: null | {"i":n} | {"f":bits} | {"v":[ints]} | {"s":text}
//! Case kind "exec" (operator level, VectorSearchExec::new over a fallback operator with chosen partitions and a mock provider):
//!   {"kind":"exec","mode","provider":"none"|"noindex"|"index","k","skip","fallback":[[[id…]…]…] (partitions × batches × rows),
//!    "index":[{"ids":[…],"cols":"plain"|"dist"|"upper"|"missing"|"wrongtype"}…] (the batches scan_knn returns)}
//! Impl: {"rows":[id…]|{"err"…},"calls":n,"opened":[fallback partitions executed, in order]}
use crate::common::*;
use crate::fams::fam_c32::optlab::{self, apply_rule_once, bind, err_json, optimize, optimize_production, production_rules, stats_of, Provs, V};
use crate::fams::fam_c32::planexport;
use crate::rng::Rng;
use arrow::array::*;
use arrow::datatypes::{DataType, Field, Schema, SchemaRef};
use arrow::record_batch::RecordBatch;
use async_trait::async_trait;
use futures::TryStreamExt;
use query_engine::execution::{create_memory_pool, ExecutionConfig, ExecutionContext, VectorSearchMode};
use query_engine::physical::operators::{MemoryTable, TableProvider, TableStatistics, VectorSearchExec};
use query_engine::physical::vector::{VectorMetric, VectorQuery};
use query_engine::physical::{PhysicalOperator, PhysicalPlanner, RecordBatchStream};
use query_engine::planner::{LogicalPlan, SchemaField};
use query_engine::QueryError;
use serde_json::{json, Value};
use std::sync::atomic::{AtomicUsize, Ordering};
use std::sync::{Arc, Mutex};

// ------------------------------------------------------------------------------------------------ tables

fn vec_type(n: usize) -> DataType { DataType::FixedSizeList(Arc::new(Field::new("item", DataType::Float32, true)), n as i32) }

fn table_schema(dim: usize, dim2: Option<usize>) -> SchemaRef {
    let mut f = vec![Field::new("id", DataType::Int64, true), Field::new("g", DataType::Int64, true), Field::new("emb", vec_type(dim), true)];
    if let Some(d2) = dim2 { f.push(Field::new("e2", vec_type(d2), true)); }
    Arc::new(Schema::new(f))
}

fn vec_array(rows: &[&Value], ci: usize, n: usize) -> ArrayRef {
    let mut b = FixedSizeListBuilder::new(Float32Builder::new(), n as i32);
    for r in rows {
        match r[ci].as_array() {
            Some(v) => { for j in 0..n { b.values().append_value(v.get(j).and_then(|x| x.as_i64()).unwrap_or(0) as f32); } b.append(true); }
            None => { for _ in 0..n { b.values().append_null(); } b.append(false); }
        }
    }
    let (_, _, values, nulls) = b.finish().into_parts();
    Arc::new(FixedSizeListArray::new(Arc::new(Field::new("item", DataType::Float32, true)), n as i32, values, nulls))
}

fn batch_of(schema: &SchemaRef, dim: usize, dim2: Option<usize>, rows: &[&Value]) -> RecordBatch {
    let mut cols: Vec<ArrayRef> = vec![
        Arc::new(Int64Array::from(rows.iter().map(|r| r[0].as_i64()).collect::<Vec<_>>())),
        Arc::new(Int64Array::from(rows.iter().map(|r| r[1].as_i64()).collect::<Vec<_>>())),
        vec_array(rows, 2, dim),
    ];
    if let Some(d2) = dim2 { cols.push(vec_array(rows, 3, d2)); }
    RecordBatch::try_new(schema.clone(), cols).expect("batch")
}

fn table_batches(c: &Value) -> (SchemaRef, Vec<RecordBatch>) {
    let dim = c["dim"].as_u64().unwrap_or(1) as usize;
    let dim2 = c["dim2"].as_u64().map(|x| x as usize);
    let schema = table_schema(dim, dim2);
    let e = vec![];
    let rows: Vec<&Value> = c["rows"].as_array().unwrap_or(&e).iter().collect();
    let cuts: Vec<usize> = c["cuts"].as_array().map(|a| a.iter().map(|x| x.as_u64().unwrap_or(0) as usize).collect()).unwrap_or_default();
    let mut out = vec![];
    let mut at = 0usize;
    for n in cuts { let hi = (at + n).min(rows.len()); out.push(batch_of(&schema, dim, dim2, &rows[at..hi])); at = hi; }
    if at < rows.len() || out.is_empty() { out.push(batch_of(&schema, dim, dim2, &rows[at..])); }
    (schema, out)
}

/// A provider that delegates to a MemoryTable and answers `scan_knn` as configured: "noindex" declines (Ok(None)), "wrongindex"
/// returns the FIRST `k` rows of the table in table order (ignoring metric, query vector and prefilter — a deliberately wrong
/// neighbour set), cut into two batches, columns reversed and a `_distance` column appended.
#[derive(Debug)]
struct MockProvider { inner: MemoryTable, all: Vec<RecordBatch>, wrong: bool, calls: Arc<AtomicUsize> }
impl TableProvider for MockProvider {
    fn schema(&self) -> SchemaRef { self.inner.schema() }
    fn scan(&self, projection: Option<&[usize]>) -> query_engine::Result<Vec<RecordBatch>> { self.inner.scan(projection) }
    fn statistics(&self) -> Option<TableStatistics> { self.inner.statistics() }
    fn scan_knn(&self, projection: Option<&[usize]>, q: &VectorQuery) -> query_engine::Result<Option<Vec<RecordBatch>>> {
        self.calls.fetch_add(1, Ordering::SeqCst);
        if !self.wrong { return Ok(None); }
        let schema = self.inner.schema();
        let whole = arrow::compute::concat_batches(&schema, &self.all).map_err(|e| QueryError::Internal(e.to_string()))?;
        let n = q.k.min(whole.num_rows());
        let idx: Vec<usize> = match projection { Some(p) => p.to_vec(), None => (0..schema.fields().len()).collect() };
        let mut fields: Vec<Field> = idx.iter().rev().map(|&i| schema.field(i).clone()).collect();
        fields.push(Field::new("_distance", DataType::Float32, true));
        let out_schema = Arc::new(Schema::new(fields));
        let cut = (n + 1) / 2;
        let mut out = vec![];
        for (lo, len) in [(0usize, cut), (cut, n - cut)] {
            let mut cols: Vec<ArrayRef> = idx.iter().rev().map(|&i| whole.column(i).slice(lo, len)).collect();
            cols.push(Arc::new(Float32Array::from(vec![0.5f32; len])));
            out.push(RecordBatch::try_new(out_schema.clone(), cols).map_err(|e| QueryError::Internal(e.to_string()))?);
        }
        Ok(Some(out))
    }
}

fn providers(c: &Value, calls: &Arc<AtomicUsize>) -> Provs {
    let (schema, batches) = table_batches(c);
    let p: Arc<dyn TableProvider> = match c["provider"].as_str().unwrap_or("mem") {
        "mem" => Arc::new(MemoryTable::new(schema, batches)),
        kind => Arc::new(MockProvider { inner: MemoryTable::new(schema, batches.clone()), all: batches, wrong: kind == "wrongindex", calls: calls.clone() }),
    };
    vec![("vt".to_string(), p)]
}

fn config_of(c: &Value) -> ExecutionConfig {
    let mode = if c["mode"].as_str() == Some("indexed") { VectorSearchMode::Indexed } else { VectorSearchMode::Exact };
    ExecutionConfig { vector_search_mode: mode, ..ExecutionConfig::default() }
}

// ------------------------------------------------------------------------------------------------ answers

fn cell(v: &V) -> Value {
    match v {
        V::Null => Value::Null, V::I(i) => json!({"i": i}), V::F(x) => json!({"f": x.to_bits()}), V::S(s) => json!({"s": s}), V::B(b) => json!({"b": b}),
        V::Vecf(xs) => if xs.iter().all(|x| x.fract() == 0.0 && x.abs() < 1e9) { json!({"v": xs.iter().map(|x| *x as i64).collect::<Vec<_>>()}) }
                       else { json!({"vf": xs.iter().map(|x| (*x as f64).to_bits()).collect::<Vec<_>>()}) },
    }
}
fn rows_json(bs: &[RecordBatch]) -> Value {
    let mut rows: Vec<Vec<V>> = vec![];
    for b in bs { optlab::batch_rows(b, &mut rows); }
    json!({"ok": rows.iter().map(|r| Value::Array(r.iter().map(cell).collect())).collect::<Vec<_>>()})
}
fn panic_msg(e: Box<dyn std::any::Any + Send>) -> String {
    let m = if let Some(s) = e.downcast_ref::<&str>() { s.to_string() } else if let Some(s) = e.downcast_ref::<String>() { s.clone() } else { "panic".into() };
    m.chars().take(300).collect()
}
fn outcome(f: impl std::future::Future<Output = Result<Vec<RecordBatch>, QueryError>>) -> Value {
    let res = std::panic::catch_unwind(std::panic::AssertUnwindSafe(|| {
        optlab::runtime().block_on(async {
            match tokio::time::timeout(std::time::Duration::from_secs(60), f).await {
                Ok(Ok(bs)) => rows_json(&bs),
                Ok(Err(e)) => err_json(&e),
                Err(_) => json!({"err": "timeout", "msg": "no answer within 60 s"}),
            }
        })
    }));
    match res { Ok(v) => v, Err(e) => json!({"panic": panic_msg(e)}) }
}

/// the production entry point
fn run_prod(provs: &Provs, cfg: &ExecutionConfig, sql: &str) -> Value {
    outcome(async {
        let mut ctx = ExecutionContext::with_config(cfg.clone());
        for (n, p) in provs { ctx.register_table_provider(n.clone(), p.clone()); }
        ctx.sql(sql).await.map(|r| r.batches)
    })
}

/// the same public pipeline by hand with a chosen optimized plan
fn run_plan(provs: &Provs, cfg: &ExecutionConfig, plan: &LogicalPlan) -> Value {
    outcome(async {
        let pool = create_memory_pool(cfg.memory_limit);
        let mut planner = PhysicalPlanner::with_config(pool, cfg.clone());
        for (n, p) in provs { planner.register_table(n.clone(), p.clone()); }
        planner.enable_subquery_execution();
        let physical = planner.create_physical_plan(plan)?;
        let parts = physical.output_partitions().max(1);
        let mut all = vec![];
        for p in 0..parts {
            let stream = physical.execute(p).await?;
            let bs: Vec<RecordBatch> = stream.try_collect().await?;
            all.extend(bs);
        }
        Ok(all)
    })
}

fn caught(f: &dyn Fn() -> Result<LogicalPlan, QueryError>) -> Result<LogicalPlan, QueryError> {
    match std::panic::catch_unwind(std::panic::AssertUnwindSafe(|| f())) { Ok(r) => r, Err(e) => Err(QueryError::Internal(format!("panic: {}", panic_msg(e)))) }
}
fn plan_or_err(p: &Result<LogicalPlan, QueryError>) -> Value { match p { Ok(x) => planexport::plan_json(x), Err(e) => err_json(e) } }
fn dbg(p: &LogicalPlan) -> String { format!("{:?}", p) }

const VSP: &str = "VectorSearchPushdown";

fn observe_sql(c: &Value) -> Value {
    let sql = c["sql"].as_str().unwrap_or("").to_string();
    let calls = Arc::new(AtomicUsize::new(0));
    let provs = providers(c, &calls);
    let cfg = config_of(c);
    let bound = caught(&|| bind(&provs, &sql));
    let b = match &bound {
        Ok(b) => b.clone(),
        Err(e) => { let prod = run_prod(&provs, &cfg, &sql); return json!({"bound": err_json(e), "steps": [], "final": err_json(e), "trace_agrees": true, "prod": prod, "base": err_json(e), "knn_calls": calls.load(Ordering::SeqCst)}); }
    };
    let stats = stats_of(&provs);
    // the production fixpoint, rule by rule (Optimizer::optimize_with_rules: loop the rules but PackedJoinKeys until no change, at most 10 rounds; PackedJoinKeys once after)
    let order: Vec<String> = production_rules().iter().map(|r| r.name().to_string()).collect();
    let mut steps = vec![];
    let mut cur = b.clone();
    let mut broken: Option<QueryError> = None;
    'outer: for iter in 0..10 {
        let mut changed = false;
        for name in order.iter().filter(|n| n.as_str() != "PackedJoinKeys") {
            let r = caught(&|| apply_rule_once(name, &stats, &cur).unwrap());
            match r {
                Ok(p) => {
                    let ch = dbg(&p) != dbg(&cur);
                    if name == VSP { steps.push(json!({"iter": iter, "before": planexport::plan_json(&cur), "after": if ch { planexport::plan_json(&p) } else { json!("same") }})); }
                    if ch { changed = true; cur = p; }
                }
                Err(e) => { if name == VSP { steps.push(json!({"iter": iter, "before": planexport::plan_json(&cur), "after": err_json(&e)})); } broken = Some(e); break 'outer; }
            }
        }
        if !changed { break; }
    }
    if broken.is_none() {
        match caught(&|| apply_rule_once("PackedJoinKeys", &stats, &cur).unwrap()) { Ok(p) => { cur = p; } Err(e) => { broken = Some(e); } }
    }
    let fin = caught(&|| optimize_production(&stats, b.clone()));
    let trace_agrees = match &fin { Ok(p) => broken.is_none() && dbg(p) == dbg(&cur), Err(_) => broken.is_some() };
    let prod = run_prod(&provs, &cfg, &sql);
    let knn_calls = calls.load(Ordering::SeqCst);
    let base_rules = production_rules().into_iter().filter(|r| r.name() != VSP).collect::<Vec<_>>();
    let base_plan = caught(&|| optimize(base_rules.clone(), &stats, b.clone()));
    let base = match &base_plan { Ok(p) => run_plan(&provs, &cfg, p), Err(e) => err_json(e) };
    json!({"bound": planexport::plan_json(&b), "steps": steps, "final": plan_or_err(&fin), "trace_agrees": trace_agrees, "prod": prod, "base": base,
           "base_has_vs": base_plan.as_ref().map(|p| dbg(p).contains("VectorSearch(")).unwrap_or(false), "knn_calls": knn_calls})
}

// ------------------------------------------------------------------------------------------------ operator level

#[derive(Debug)]
struct PartsExec { schema: SchemaRef, parts: Vec<Vec<RecordBatch>>, opened: Arc<Mutex<Vec<usize>>> }
#[async_trait]
impl PhysicalOperator for PartsExec {
    fn schema(&self) -> SchemaRef { self.schema.clone() }
    fn children(&self) -> Vec<Arc<dyn PhysicalOperator>> { vec![] }
    async fn execute(&self, partition: usize) -> query_engine::Result<RecordBatchStream> {
        query_engine::physical::check_partition(self, partition)?;
        self.opened.lock().unwrap().push(partition);
        let bs: Vec<query_engine::Result<RecordBatch>> = self.parts[partition].iter().cloned().map(Ok).collect();
        Ok(Box::pin(futures::stream::iter(bs)))
    }
    fn output_partitions(&self) -> usize { self.parts.len() }
    fn name(&self) -> &str { "PartsExec" }
}

fn exec_schema() -> SchemaRef { Arc::new(Schema::new(vec![Field::new("id", DataType::Int64, true), Field::new("tag", DataType::Utf8, true)])) }
fn ids_of(v: &Value) -> Vec<i64> { v.as_array().map(|a| a.iter().map(|x| x.as_i64().unwrap_or(0)).collect()).unwrap_or_default() }
fn exec_batch(ids: &[i64]) -> RecordBatch {
    RecordBatch::try_new(exec_schema(), vec![Arc::new(Int64Array::from(ids.to_vec())) as ArrayRef,
        Arc::new(StringArray::from(ids.iter().map(|i| format!("t{}", i)).collect::<Vec<_>>())) as ArrayRef]).expect("batch")
}
/// one batch of the mock index's answer in the chosen column layout
fn index_batch(ids: &[i64], cols: &str) -> RecordBatch {
    let idc: ArrayRef = Arc::new(Int64Array::from(ids.to_vec()));
    let tag: ArrayRef = Arc::new(StringArray::from(ids.iter().map(|i| format!("t{}", i)).collect::<Vec<_>>()));
    let dist: ArrayRef = Arc::new(Float32Array::from(vec![0.25f32; ids.len()]));
    let (fields, arrays): (Vec<Field>, Vec<ArrayRef>) = match cols {
        "dist" => (vec![Field::new("tag", DataType::Utf8, true), Field::new("id", DataType::Int64, true), Field::new("_distance", DataType::Float32, true)], vec![tag, idc, dist]),
        "upper" => (vec![Field::new("ID", DataType::Int64, true), Field::new("TAG", DataType::Utf8, true)], vec![idc, tag]),
        "missing" => (vec![Field::new("id", DataType::Int64, true)], vec![idc]),
        "wrongtype" => (vec![Field::new("id", DataType::Int32, true), Field::new("tag", DataType::Utf8, true)],
                        vec![Arc::new(Int32Array::from(ids.iter().map(|i| *i as i32).collect::<Vec<_>>())) as ArrayRef, tag]),
        _ => (vec![Field::new("id", DataType::Int64, true), Field::new("tag", DataType::Utf8, true)], vec![idc, tag]),
    };
    RecordBatch::try_new(Arc::new(Schema::new(fields)), arrays).expect("index batch")
}

#[derive(Debug)]
struct ExecProvider { answer: Option<Vec<RecordBatch>>, calls: Arc<AtomicUsize>, wanted: Arc<Mutex<Vec<usize>>> }
impl TableProvider for ExecProvider {
    fn schema(&self) -> SchemaRef { exec_schema() }
    fn scan(&self, _projection: Option<&[usize]>) -> query_engine::Result<Vec<RecordBatch>> { Ok(vec![]) }
    fn scan_knn(&self, _projection: Option<&[usize]>, q: &VectorQuery) -> query_engine::Result<Option<Vec<RecordBatch>>> {
        self.calls.fetch_add(1, Ordering::SeqCst);
        self.wanted.lock().unwrap().push(q.k);
        Ok(self.answer.clone())
    }
}

fn observe_exec(c: &Value) -> Value {
    let e = vec![];
    let parts: Vec<Vec<RecordBatch>> = c["fallback"].as_array().unwrap_or(&e).iter()
        .map(|p| p.as_array().unwrap_or(&e).iter().map(|b| exec_batch(&ids_of(b))).collect()).collect();
    let opened = Arc::new(Mutex::new(vec![]));
    let fallback: Arc<dyn PhysicalOperator> = Arc::new(PartsExec { schema: exec_schema(), parts, opened: opened.clone() });
    let calls = Arc::new(AtomicUsize::new(0));
    let wanted = Arc::new(Mutex::new(vec![]));
    let provider: Option<Arc<dyn TableProvider>> = match c["provider"].as_str().unwrap_or("none") {
        "none" => None,
        "noindex" => Some(Arc::new(ExecProvider { answer: None, calls: calls.clone(), wanted: wanted.clone() })),
        _ => Some(Arc::new(ExecProvider { answer: Some(c["index"].as_array().unwrap_or(&e).iter().map(|b| index_batch(&ids_of(&b["ids"]), b["cols"].as_str().unwrap_or("plain"))).collect()),
                                          calls: calls.clone(), wanted: wanted.clone() })),
    };
    let k = c["k"].as_u64().unwrap_or(0) as usize;
    let skip = c["skip"].as_u64().unwrap_or(0) as usize;
    let cfg = config_of(c);
    let op = VectorSearchExec::new(fallback, provider, vec![0, 1], vec![SchemaField::new("id", DataType::Int64), SchemaField::new("tag", DataType::Utf8)],
        "emb".into(), vec![1.0, 0.0], k, skip, VectorMetric::L2, None, exec_schema(), cfg);
    let res = std::panic::catch_unwind(std::panic::AssertUnwindSafe(|| {
        optlab::runtime().block_on(async {
            let parts = op.output_partitions().max(1);
            let mut all: Vec<RecordBatch> = vec![];
            for p in 0..parts {
                let stream = op.execute(p).await?;
                let bs: Vec<RecordBatch> = stream.try_collect().await?;
                all.extend(bs);
            }
            Ok::<Vec<RecordBatch>, QueryError>(all)
        })
    }));
    let rows = match res {
        Ok(Ok(bs)) => {
            let mut ids = vec![]; let mut consistent = true;
            for b in &bs {
                let i = b.column(0).as_any().downcast_ref::<Int64Array>(); let t = b.column(1).as_any().downcast_ref::<StringArray>();
                match (i, t) { (Some(i), Some(t)) => for r in 0..b.num_rows() { ids.push(i.value(r)); if t.value(r) != format!("t{}", i.value(r)) { consistent = false; } }, _ => { consistent = false; } }
            }
            json!({"ids": ids, "consistent": consistent, "batches": bs.iter().map(|b| b.num_rows()).collect::<Vec<_>>()})
        }
        Ok(Err(e)) => err_json(&e),
        Err(e) => json!({"panic": panic_msg(e)}),
    };
    let opened_v = opened.lock().unwrap().clone();
    let wanted_v = wanted.lock().unwrap().clone();
    json!({"rows": rows, "calls": calls.load(Ordering::SeqCst), "wanted": wanted_v, "opened": opened_v})
}

pub fn run_case(c: &Value) -> Value {
    let c = c.clone();
    guarded(move || if c["kind"].as_str() == Some("exec") { observe_exec(&c) } else { observe_sql(&c) })
}

// ------------------------------------------------------------------------------------------------ generators

fn gen_vec(r: &mut Rng, dim: usize) -> Vec<i64> { (0..dim).map(|_| r.range(-4, 4)).collect() }

fn gen_table(r: &mut Rng) -> Value {
    let dim = match r.below(10) { 0 => 1, 1 => 2, 2 => 3, 3 => 8, 4 => 9, 5 => 16, _ => r.range(1, 16) as usize };
    let dim2 = if r.chance(1, 2) { Some(if r.chance(1, 4) { dim } else { r.range(1, 16) as usize }) } else { None };
    let n = match r.below(14) { 0 => 0, 1 => 1, 2 => 2, 3 => r.range(1000, 1300) as usize, 4 | 5 => r.range(13, 40) as usize, _ => r.range(3, 12) as usize };
    let pool: Vec<Vec<i64>> = (0..1 + r.below(5)).map(|_| gen_vec(r, dim)).collect();
    let null_den = *r.pick(&[0u64, 0, 10, 50]);
    let mut ids: Vec<i64> = (0..n as i64).map(|i| i * 3 + 1).collect();
    r.shuffle(&mut ids);
    let mut rows = vec![];
    for i in 0..n {
        let emb = if r.below(100) < null_den { Value::Null } else {
            let v: Vec<i64> = match r.below(10) {
                0 => vec![0; dim],
                1 | 2 => { let s = *r.pick(&[2i64, -1, 3]); r.pick(&pool).iter().map(|x| x * s).collect() }   // parallel vectors: cosine ties
                3 | 4 | 5 | 6 => r.pick(&pool).clone(),                                                       // duplicates: ties under every metric
                _ => gen_vec(r, dim),
            };
            json!(v)
        };
        let g = if r.chance(1, 7) { Value::Null } else { json!(r.range(0, 3)) };
        let e2 = match dim2 { Some(d2) => if r.chance(1, 8) { Value::Null } else { json!(gen_vec(r, d2)) }, None => Value::Null };
        rows.push(json!([ids[i], g, emb, e2]));
    }
    let cuts: Vec<usize> = if n >= 1000 { let k = r.range(2, 4) as usize; let mut c = vec![n / k; k]; c[k - 1] = n - (n / k) * (k - 1); c }
        else if n == 0 { if r.chance(1, 2) { vec![] } else { vec![0] } }
        else { let mut c = vec![]; let mut left = n; while left > 0 { let t = (1 + r.below(left as u64)) as usize; let t = if r.chance(1, 2) { left } else { t }; c.push(t); left -= t; } c };
    json!({"dim": dim, "dim2": dim2, "rows": rows, "cuts": cuts})
}

fn lit_sql(v: &[i64], style: u64) -> String {
    let items: Vec<String> = v.iter().map(|x| if style % 2 == 0 { format!("{}.0", x) } else { format!("{}", x) }).collect();
    if style / 2 % 2 == 0 { format!("ARRAY[{}]", items.join(", ")) } else { format!("[{}]", items.join(", ")) }
}
fn fn_sql(f: &str) -> &'static str { match f { "l2" => "l2_distance", "cos" => "cosine_distance", "sim" => "cosine_similarity", _ => "dot_product" } }
fn pred_sql(p: &Value) -> String {
    let c = p["c"].as_str().unwrap_or("g");
    match p["op"].as_str().unwrap_or("ge") { "ge" => format!("{} >= {}", c, p["v"]), "lt" => format!("{} < {}", c, p["v"]), "isnull" => format!("{} IS NULL", c), _ => format!("{} IS NOT NULL", c) }
}
fn key_expr_sql(k: &Value, style: u64) -> String {
    if k["k"].as_str() == Some("col") { return k["c"].as_str().unwrap_or("id").to_string(); }
    let lit: Vec<i64> = k["lit"].as_array().map(|a| a.iter().map(|x| x.as_i64().unwrap_or(0)).collect()).unwrap_or_default();
    let l = lit_sql(&lit, style);
    let col = k["col"].as_str().unwrap_or("emb");
    let call = if k["flip"].as_bool().unwrap_or(false) { format!("{}({}, {})", fn_sql(k["fn"].as_str().unwrap_or("l2")), l, col) } else { format!("{}({}, {})", fn_sql(k["fn"].as_str().unwrap_or("l2")), col, l) };
    match k["wrap"].as_str() { Some("neg") => format!("-{}", call), Some("plus") => format!("{} + 1", call), Some("times") => format!("{} * 2", call), _ => call }
}
fn render_sql(q: &Value, style: u64) -> String {
    let e = vec![];
    let order = q["order"].as_array().unwrap_or(&e);
    let sel: Vec<String> = q["sel"].as_array().unwrap_or(&e).iter().map(|s| {
        let c = s["c"].as_str().unwrap_or("id");
        let ex = if c == "dist" { order.iter().find(|k| k["k"].as_str() == Some("dist")).map(|k| key_expr_sql(k, style)).unwrap_or("id".into()) } else { c.to_string() };
        match s["as"].as_str() { Some(a) => format!("{} AS {}", ex, a), None => ex }
    }).collect();
    let derived = q["derived"].as_bool().unwrap_or(false);
    let from = if derived && !q["where"].is_null() { format!("(SELECT * FROM vt WHERE {}) AS d", pred_sql(&q["where"])) } else { "vt".to_string() };
    let mut s = format!("SELECT {} FROM {}", sel.join(", "), from);
    if !derived && !q["where"].is_null() { s += &format!(" WHERE {}", pred_sql(&q["where"])); }
    if !order.is_empty() {
        let ks: Vec<String> = order.iter().map(|k| {
            let mut t = key_expr_sql(k, style);
            if k["desc"].as_bool().unwrap_or(false) { t += " DESC"; } else if style / 4 % 2 == 1 { t += " ASC"; }
            match k["nulls"].as_str() { Some("first") => t += " NULLS FIRST", Some("last") => t += " NULLS LAST", _ => {} }
            t
        }).collect();
        s += &format!(" ORDER BY {}", ks.join(", "));
    }
    if let Some(l) = q["limit"].as_u64() { s += &format!(" LIMIT {}", l); }
    if let Some(o) = q["offset"].as_u64() { s += &format!(" OFFSET {}", o); }
    if !q["outer"].is_null() {
        // outer filter over the output columns: referenced by their output names
        s = format!("SELECT * FROM ({}) AS o WHERE {}", s, pred_sql(&q["outer"]));
    }
    s
}

fn pick_n(r: &mut Rng, n: usize) -> u64 {
    let n = n as u64;
    match r.below(9) { 0 => 1, 1 => 2, 2 => n.saturating_sub(1).max(1), 3 => n.max(1), 4 => n + 1, 5 => 2 * n + 3, 6 => (n / 2).max(1), _ => 1 + r.below(n + 2) }
}

const SHAPES: &[&str] = &["canonical", "canonical", "canonical", "canonical", "canonical_where", "canonical_alias", "wrong_dir", "extra_key", "nulls_first", "no_limit",
    "limit0", "computed_proj", "wrapped", "dim_mismatch", "outer_filter", "derived_filter", "plain_topn", "wrong_dir"];

fn gen_sql_case(r: &mut Rng, n: usize) -> Value {
    let t = gen_table(r);
    let dim = t["dim"].as_u64().unwrap() as usize;
    let dim2 = t["dim2"].as_u64().map(|x| x as usize);
    let nrows = t["rows"].as_array().unwrap().len();
    let shape = SHAPES[n % SHAPES.len()];
    let f = *r.pick(&["l2", "cos", "sim", "dot"]);
    let want_desc = f == "sim" || f == "dot";
    let use_e2 = dim2.is_some() && r.chance(1, 5);
    let (col, cdim) = if use_e2 { ("e2", dim2.unwrap()) } else { ("emb", dim) };
    let mut lit = if r.chance(1, 10) { vec![0i64; cdim] } else { gen_vec(r, cdim) };
    let mut key = json!({"k": "dist", "fn": f, "col": col, "lit": lit, "flip": r.chance(1, 5), "wrap": null, "desc": want_desc, "nulls": if r.chance(1, 4) { json!("last") } else { Value::Null }});
    let mut order = vec![];
    // select list: bare columns; `id` always present (the oracle identifies rows by it)
    let mut cols = vec!["id"];
    for c in ["g", "emb"] { if r.chance(1, 2) { cols.push(c); } }
    if dim2.is_some() && r.chance(1, 3) { cols.push("e2"); }
    r.shuffle(&mut cols);
    let mut sel: Vec<Value> = cols.iter().map(|c| json!({"c": c, "as": null})).collect();
    let mut where_ = Value::Null;
    let mut derived = false;
    let mut outer = Value::Null;
    let mut limit = Some(pick_n(r, nrows));
    let mut offset = match r.below(8) { 0 => Some(0), 1 => Some(1), 2 => Some(nrows as u64), 3 => Some(nrows as u64 + 1), 4 => Some(nrows.saturating_sub(1) as u64), 5 => Some(r.below(nrows as u64 + 2)), _ => None };
    let gen_pred = |r: &mut Rng| -> Value { match r.below(5) { 0 => json!({"c": "g", "op": "isnull", "v": 0}), 1 => json!({"c": "g", "op": "notnull", "v": 0}), 2 => json!({"c": "id", "op": "lt", "v": r.range(0, 3 * nrows as i64 + 2)}), 3 => json!({"c": "g", "op": "lt", "v": r.range(0, 4)}), _ => json!({"c": "g", "op": "ge", "v": r.range(0, 3)}) } };
    match shape {
        "canonical" => { if r.chance(1, 4) { where_ = gen_pred(r); } }
        "canonical_where" => { where_ = gen_pred(r); }
        "canonical_alias" => {
            // renamed / swapped output names: the rule has to map them back to scan columns
            let names = ["x", "y", "z", "w"];
            for (i, s) in sel.iter_mut().enumerate() { if r.chance(2, 3) { s["as"] = json!(names[i % 4]); } }
            // swapped names — but never a name that shadows the key's vector column: `ORDER BY f(emb, …)` would then read the alias (dialect, not C43)
            let ig: Vec<usize> = sel.iter().enumerate().filter(|(_, s)| s["c"] == "id" || s["c"] == "g").map(|(i, _)| i).collect();
            if ig.len() == 2 && r.chance(1, 2) { let a = sel[ig[0]]["c"].clone(); let b = sel[ig[1]]["c"].clone(); sel[ig[0]]["as"] = b; sel[ig[1]]["as"] = a; }
        }
        "wrong_dir" => { key["desc"] = json!(!want_desc); }
        "extra_key" => {}
        "nulls_first" => { key["nulls"] = json!("first"); }
        "no_limit" => { limit = None; if r.chance(1, 2) { offset = None; } }
        "limit0" => { limit = Some(0); }
        "computed_proj" => { sel.push(json!({"c": "dist", "as": "dd"})); }
        "wrapped" => { let w = *r.pick(&["neg", "plus", "times"]); key["wrap"] = json!(w); if w == "neg" { key["desc"] = json!(!want_desc); } }
        "dim_mismatch" => {
            let bad = if cdim > 1 && r.chance(1, 2) { cdim - 1 } else { cdim + 1 + r.below(2) as usize };
            lit = gen_vec(r, bad); key["lit"] = json!(lit);
            if r.chance(1, 3) { key["desc"] = json!(!want_desc); }
        }
        "outer_filter" => { outer = gen_pred(r); if !sel.iter().any(|s| s["c"] == "g") { sel.push(json!({"c": "g", "as": null})); } offset = if r.chance(1, 2) { None } else { offset }; }
        "derived_filter" => { where_ = gen_pred(r); derived = true; }
        "plain_topn" => { key = json!({"k": "col", "c": *r.pick(&["id", "g"]), "desc": r.chance(1, 2), "nulls": null}); }
        _ => {}
    }
    if shape == "extra_key" {
        let extra = json!({"k": "col", "c": *r.pick(&["id", "g"]), "desc": r.chance(1, 3), "nulls": null});
        // a key AFTER the distance is only decided by exact ties: l2 / dot are exact on integer-valued vectors, the two cosine functions
        // round (mathematically equal similarities of parallel vectors may differ in the last bit), so they only appear as the LAST key
        let exact_fn = f == "l2" || f == "dot";
        if !exact_fn || r.chance(1, 4) { order.push(extra); order.push(key.clone()); } else { order.push(key.clone()); order.push(extra); }
    } else { order.push(key.clone()); }
    let q = json!({"sel": sel, "where": where_, "derived": derived, "order": order, "limit": limit, "offset": offset, "outer": outer});
    let style = r.below(8);
    let sql = render_sql(&q, style);
    let (mode, provider) = match r.below(10) { 0 => ("exact", "wrongindex"), 1 => ("indexed", "noindex"), 2 => ("indexed", "wrongindex"), 3 => ("exact", "noindex"), _ => ("exact", "mem") };
    json!({"kind": "sql", "dim": t["dim"], "dim2": t["dim2"], "rows": t["rows"], "cuts": t["cuts"], "q": q, "sql": sql, "mode": mode, "provider": provider, "shape": shape})
}

fn gen_exec_case(r: &mut Rng) -> Value {
    let mut next = 0i64;
    let np = 1 + r.below(4);
    let mut fallback = vec![];
    for _ in 0..np {
        let nb = r.below(4);
        let mut part = vec![];
        for _ in 0..nb { let len = r.below(5); let ids: Vec<i64> = (0..len).map(|_| { next += 1; next }).collect(); part.push(json!(ids)); }
        fallback.push(Value::Array(part));
    }
    let total = next as u64;
    let mut index = vec![];
    let nb = r.below(4);
    let bad_at = if r.chance(1, 4) { Some(r.below(nb.max(1))) } else { None };
    let mut inext = 100i64;
    for b in 0..nb {
        let len = r.below(5);
        let ids: Vec<i64> = (0..len).map(|_| { inext += 1; inext }).collect();
        let cols = if Some(b) == bad_at { *r.pick(&["missing", "wrongtype"]) } else { *r.pick(&["plain", "dist", "upper", "dist"]) };
        index.push(json!({"ids": ids, "cols": cols}));
    }
    let itotal = (inext - 100) as u64;
    let m = total.max(itotal);
    let k = match r.below(7) { 0 => 0, 1 => 1, 2 => m, 3 => m + 1, 4 => usize::MAX as u64, _ => r.below(m + 2) };
    let skip = match r.below(7) { 0 | 1 => 0, 2 => 1, 3 => m, 4 => usize::MAX as u64, _ => r.below(m + 2) };
    let mode = if r.chance(1, 2) { "exact" } else { "indexed" };
    let provider = *r.pick(&["none", "noindex", "index", "index"]);
    json!({"kind": "exec", "mode": mode, "provider": provider, "k": k, "skip": skip, "fallback": fallback, "index": index})
}

fn probe(o: &Opts, sql: &str) {
    let mut r = Rng::new(o.seed ^ 0xC43);
    let mut c = gen_sql_case(&mut r, 0);
    c["sql"] = json!(sql);
    if o.get("fixed").is_some() {
        c["dim"] = json!(2); c["dim2"] = json!(3); c["cuts"] = json!([2, 3]);
        c["rows"] = json!([[1, 0, [1, 0], [1, 0, 0]], [2, 1, [0, 2], [0, 1, 0]], [3, null, null, [0, 0, 1]], [4, 2, [2, 0], null], [5, 1, [0, 0], [1, 1, 1]]]);
    }
    if let Some(m) = o.get("mode") { c["mode"] = json!(m); }
    if let Some(p) = o.get("provider") { c["provider"] = json!(p); }
    let i = run_case(&c);
    eprintln!("table: dim={} dim2={} rows={}", c["dim"], c["dim2"], c["rows"].as_array().map(|a| a.len()).unwrap_or(0));
    eprintln!("bound: {}", i["bound"]);
    for s in i["steps"].as_array().unwrap_or(&vec![]) { eprintln!("step iter={} after={}", s["iter"], s["after"]); }
    eprintln!("prod: {}", i["prod"]);
    eprintln!("base: {}", i["base"]);
    eprintln!("trace_agrees={} knn_calls={}", i["trace_agrees"], i["knn_calls"]);
}

pub fn main(o: &Opts) {
    if let Some(p) = &o.replay { for c in replay_cases(p) { let i = run_case(&c); emit(c, i); } return; }
    if let Some(sql) = o.get("probe") { probe(o, sql); return; }
    let mut r = Rng::new(o.seed ^ 0xC43);
    for n in 0..o.cases {
        let c = if n % 5 == 4 { gen_exec_case(&mut r) } else { gen_sql_case(&mut r, n - n / 5) };
        let i = run_case(&c);
        emit(c, i);
    }
}
