// FAMILY: C39
//! C39: tpch::TpchGenerator is deterministic and self-consistent.
//! Cases: {"kind":"counts","sf_bits":u64}                      → {"counts":{..}}   (TpchRowCounts::for_scale_factor only)
//!        {"kind":"gen","sf_bits":u64,"seed":n,"parquet":bool} → {"counts":{table: rows}, "deterministic":{"twice","threads","parquet"},
//!              "cols":{key columns as integer arrays}} — generated in memory twice, on 8 threads concurrently, and (parquet=true) by a
//!              child process through generate_to_parquet + read-back; all compared byte for byte (Arrow IPC encoding of every table).
//!              History independence: in ONE process (sf,seedA), (sf,seedB), (sf,seedA) again, and threads interleaving both seeds; each must equal
//!              what a FRESH child process generates for that (sf, seed) alone; seedA and seedB must differ in every RNG-dependent table.
use crate::common::*;
use crate::rng::Rng;
use arrow::array::{Array, Int32Array, Int64Array};
use arrow::record_batch::RecordBatch;
use query_engine::tpch::{TpchGenerator, TpchRowCounts};
use query_engine::ExecutionContext;
use serde_json::{json, Map, Value};

const TABLES: [&str; 8] = ["nation", "region", "part", "supplier", "partsupp", "customer", "orders", "lineitem"];

fn generate(sf: f64, seed: u64) -> Vec<(String, Vec<RecordBatch>)> {
    let mut ctx = ExecutionContext::new();
    TpchGenerator::with_seed(sf, seed).generate_all(&mut ctx);
    TABLES.iter().map(|t| (t.to_string(), ctx.table_provider(t).expect("table registered").scan(None).expect("scan"))).collect()
}

/// Arrow IPC stream encoding of every table, concatenated: equal bytes ⇔ byte-identical batches.
fn encode(tables: &[(String, Vec<RecordBatch>)]) -> Vec<u8> {
    let mut out = vec![];
    for (name, batches) in tables {
        out.extend_from_slice(name.as_bytes());
        if let Some(b0) = batches.first() {
            let mut w = arrow::ipc::writer::StreamWriter::try_new(&mut out, &b0.schema()).expect("ipc writer");
            for b in batches { w.write(b).expect("ipc write"); }
            w.finish().expect("ipc finish");
        }
    }
    out
}

fn int_col(tables: &[(String, Vec<RecordBatch>)], table: &str, col: &str) -> Value {
    let mut v: Vec<i64> = vec![];
    for (t, batches) in tables {
        if t != table { continue; }
        for b in batches {
            let c = b.column_by_name(col).expect("column");
            if let Some(a) = c.as_any().downcast_ref::<Int64Array>() { v.extend((0..a.len()).map(|i| a.value(i))); }
            else if let Some(a) = c.as_any().downcast_ref::<Int32Array>() { v.extend((0..a.len()).map(|i| a.value(i) as i64)); }
        }
    }
    json!(v)
}

fn read_parquet_dir(dir: &std::path::Path) -> Vec<(String, Vec<RecordBatch>)> {
    TABLES.iter().map(|t| {
        let f = std::fs::File::open(dir.join(format!("{t}.parquet"))).expect("parquet file");
        let rd = parquet::arrow::arrow_reader::ParquetRecordBatchReaderBuilder::try_new(f).expect("reader").with_batch_size(1 << 22).build().expect("build");
        (t.to_string(), rd.map(|b| b.expect("batch")).collect())
    }).collect()
}

fn counts_json(sf: f64) -> Value {
    let c = TpchRowCounts::for_scale_factor(sf);
    json!({"nation": c.nation, "region": c.region, "part": c.part, "supplier": c.supplier, "partsupp": c.partsupp,
           "customer": c.customer, "orders": c.orders, "lineitem": c.lineitem})
}

pub fn run_case(c: &Value) -> Value {
    let c = c.clone();
    guarded(std::panic::AssertUnwindSafe(move || {
        let sf = f64::from_bits(c["sf_bits"].as_u64().unwrap_or(0));
        if c["kind"].as_str() == Some("counts") { return json!({"counts": counts_json(sf)}); }
        let seed = c["seed"].as_u64().unwrap_or(0);
        let seed_b = c["seed_b"].as_u64().unwrap_or((seed ^ 0x5bd1_e995) + 1);
        let scratch = std::path::PathBuf::from(std::env::var("IQE_SCRATCH").unwrap_or_else(|_| "/verif/harness/scratch".into()));
        // what a fresh process generates for (sf, s) alone: the reference for history independence
        let fresh = |s: u64| -> Option<Vec<u8>> {
            let out = scratch.join(format!("c39-fresh-{}-{}.ipc", std::process::id(), s));
            let st = std::process::Command::new(std::env::current_exe().ok()?)
                .args(["C39", "--opt", "child=bytes", "--opt", &format!("out={}", out.display()), "--opt", &format!("sf_bits={}", sf.to_bits()), "--seed", &s.to_string()])
                .stdout(std::process::Stdio::null()).stderr(std::process::Stdio::null()).status().ok()?;
            let b = if st.success() { std::fs::read(&out).ok() } else { None };
            let _ = std::fs::remove_file(&out);
            b
        };
        let first = generate(sf, seed);
        let bytes = encode(&first);
        let second = generate(sf, seed_b);
        let bytes_b = encode(&second);
        let twice = encode(&generate(sf, seed)) == bytes;           // (sf, A) again after (sf, B)
        let (fresh_a, fresh_b) = (fresh(seed), fresh(seed_b));
        let hist: Value = match (&fresh_a, &fresh_b) {
            (Some(fa), Some(fb)) => json!(*fa == bytes && *fb == bytes_b),
            _ => Value::Null,                                        // child could not run: nothing to compare
        };
        // threads interleave the two seeds; each must reproduce its own seed's data
        let (ref_a, ref_b) = (fresh_a.clone().unwrap_or_else(|| bytes.clone()), fresh_b.clone().unwrap_or_else(|| bytes_b.clone()));
        let handles: Vec<_> = (0..8).map(|t| { let (s, r) = if t % 2 == 0 { (seed, ref_a.clone()) } else { (seed_b, ref_b.clone()) };
            std::thread::spawn(move || encode(&generate(sf, s)) == r) }).collect();
        let threads = handles.into_iter().all(|h| h.join().unwrap_or(false));
        // different seeds must give different data in every table that has RNG-dependent columns (>= 100 rows)
        let same_ab: Vec<String> = if seed == seed_b { vec![] } else {
            first.iter().zip(second.iter()).filter(|((t, a), (_, b))| t != "nation" && t != "region"
                && a.iter().map(|x| x.num_rows()).sum::<usize>() >= 100 && encode(&[(t.clone(), a.clone())]) == encode(&[(t.clone(), b.clone())]))
                .map(|((t, _), _)| t.clone()).collect() };
        let mut pq_diff: Vec<String> = vec![];
        let parquet = if c["parquet"].as_bool() == Some(true) {
            let dir = std::path::PathBuf::from(std::env::var("IQE_SCRATCH").unwrap_or_else(|_| "/verif/harness/scratch".into()))
                .join(format!("c39-{}-{}", std::process::id(), seed));
            // generate_to_parquet prints to stdout: run it in a child with stdout closed
            let st = std::process::Command::new(std::env::current_exe().expect("exe"))
                .args(["C39", "--opt", "child=parquet", "--opt", &format!("dir={}", dir.display()), "--opt", &format!("sf_bits={}", sf.to_bits()), "--seed", &seed.to_string()])
                .stdout(std::process::Stdio::null()).stderr(std::process::Stdio::null()).status();
            let ok: Option<bool> = match st {
                Ok(s) if s.success() => {
                    let back = read_parquet_dir(&dir);
                    // same rows, same values, same types (Parquet does not preserve Arrow's buffer layout, so compare re-encoded)
                    let mut diff: Vec<String> = vec![];
                    for ((t, b), (_, a)) in back.iter().zip(first.iter()) {
                        let ca = arrow::compute::concat_batches(&a[0].schema(), a.iter()).ok();
                        let cb = b.first().and_then(|b0| arrow::compute::concat_batches(&b0.schema(), b.iter()).ok());
                        match (ca, cb) {
                            (Some(x), Some(y)) => {
                                if x.num_rows() != y.num_rows() { diff.push(format!("{t}:rows")); }
                                for (k, f) in x.schema().fields().iter().enumerate() {
                                    if y.num_columns() <= k || x.column(k) != y.column(k) { diff.push(format!("{t}.{}", f.name())); }
                                }
                            }
                            _ => diff.push(format!("{t}:unreadable")),
                        }
                    }
                    pq_diff = diff;
                    Some(pq_diff.is_empty())
                }
                // the child could not write its files (I/O error, killed): nothing to compare, not a determinism failure
                _ => { pq_diff.push("child-failed".into()); None }
            };
            let _ = std::fs::remove_dir_all(&dir);
            json!(ok)
        } else { Value::Null };
        let mut counts = Map::new();
        for (t, b) in &first { counts.insert(t.clone(), json!(b.iter().map(|x| x.num_rows()).sum::<usize>())); }
        let cols: Vec<(&str, &str)> = vec![("nation", "n_nationkey"), ("nation", "n_regionkey"), ("region", "r_regionkey"), ("part", "p_partkey"),
            ("supplier", "s_suppkey"), ("supplier", "s_nationkey"), ("partsupp", "ps_partkey"), ("partsupp", "ps_suppkey"), ("customer", "c_custkey"),
            ("customer", "c_nationkey"), ("orders", "o_orderkey"), ("orders", "o_custkey"), ("lineitem", "l_orderkey"), ("lineitem", "l_partkey"),
            ("lineitem", "l_suppkey"), ("lineitem", "l_linenumber")];
        let mut cj = Map::new();
        for (t, col) in cols { cj.insert(col.to_string(), int_col(&first, t, col)); }
        json!({"counts": counts, "declared": counts_json(sf), "deterministic": {"twice": twice, "threads": threads, "parquet": parquet, "parquet_diff": pq_diff, "hist": hist, "same_ab": same_ab, "seeds_differ": seed != seed_b}, "cols": cj})
    }))
}

fn gen_sf(r: &mut Rng, max_k: u64) -> f64 {
    // sf = k / 100000 for k in [100, max_k]  (0.001 … max_k/100000), or a "round" one (multiple of 0.001), or a dyadic one
    match r.below(4) {
        0 => (1 + r.below(max_k / 100)) as f64 * 0.001,
        1 => (100 + r.below(max_k - 99)) as f64 / 100000.0,
        2 => (66 + r.below(max_k * 65536 / 100000 - 65)) as f64 / 65536.0,
        _ => *r.pick(&[0.001, 0.00125, 0.0015, 0.002, 0.0025, 0.003, 0.0033, 0.004, 0.005]),
    }
}

pub fn main(o: &Opts) {
    if o.get("child") == Some("parquet") {
        let sf = f64::from_bits(o.get("sf_bits").and_then(|s| s.parse().ok()).unwrap_or(0));
        let dir = std::path::PathBuf::from(o.get("dir").unwrap_or("/verif/harness/scratch/c39-child"));
        let r = TpchGenerator::with_seed(sf, o.seed).generate_to_parquet(&dir);
        std::process::exit(if r.is_ok() { 0 } else { 1 });
    }
    if o.get("child") == Some("bytes") {
        let sf = f64::from_bits(o.get("sf_bits").and_then(|s| s.parse().ok()).unwrap_or(0));
        let ok = std::fs::write(o.get("out").unwrap_or("/verif/harness/scratch/c39-fresh.ipc"), encode(&generate(sf, o.seed))).is_ok();
        std::process::exit(if ok { 0 } else { 1 });
    }
    if let Some(p) = &o.replay { for c in replay_cases(p) { let i = run_case(&c); emit(c, i); } return; }
    let mut r = Rng::new(o.seed ^ 0xC39);
    let max_gen_k = o.get_usize("max_gen_k", 400) as u64;   // full generations up to sf = max_gen_k/100000
    let gens = o.get_usize("gens", 24);
    // the whole range [0.001, 0.05] is swept for the row counts (cheap); data is generated for `gens` scale factors
    for n in 0..o.cases {
        let c = if n < gens {
            { let a = r.below(1 << 20); json!({"kind":"gen","sf_bits":gen_sf(&mut r, max_gen_k).to_bits(),"seed":a,"seed_b":(a + 1 + r.below(1 << 20)) % (1 << 21),"parquet": n % 4 == 0}) }
        } else {
            json!({"kind":"counts","sf_bits":gen_sf(&mut r, 5000).to_bits()})
        };
        let i = run_case(&c);
        emit(c, i);
    }
}
