// FAMILY: C14
//! C14: `execute_fragment` — digest interlock and shard-index range, on REAL Parquet copies.
//! Case {"kind":"frag","id","table":"t","count":N,"index":i,"mutation":m,
//!       "init":[file recipe + derived "rgs"], "work":[file recipe + derived "rgs"] | null (table not registered on the worker)}
//!   file recipe = {"name":[u8] (distinct, *.parquet),"rows":[..],"pad":w,"seed":s,"junk":false}
//! Impl {"init_digest":"<dec>"|null, "out":{"ran":{"bytes","rows","splits","keys":[sorted k]}} | {"err":kind}}
use crate::common::*;
use crate::fams::fam_c11::{gen_rows, materialise, s_of, scratch};
use crate::rng::Rng;
use arrow::array::{Array, Int64Array};
use query_engine::distributed::{enumerate_parquet, execute_fragment, FragmentRequest};
use query_engine::ExecutionContext;
use serde_json::{json, Value};
use std::path::{Path, PathBuf};

pub fn rt() -> tokio::runtime::Runtime {
    tokio::runtime::Builder::new_multi_thread().worker_threads(2).enable_all().build().expect("tokio")
}

/// Write the files of one copy into `dir` (flat, as a ParquetTable directory); fills "rgs". Returns the paths.
pub fn write_copy(files: &mut Value, dir: &Path) -> Vec<PathBuf> {
    let mut wrapper = json!({"files": files.clone()});
    let masters = materialise(&mut wrapper, &dir.with_extension("masters"));
    let _ = std::fs::create_dir_all(dir);
    let mut out = vec![];
    for (i, m) in masters.iter().enumerate() {
        let p = dir.join(s_of(&wrapper["files"][i]["name"]));
        if std::fs::hard_link(m, &p).is_err() { let _ = std::fs::copy(m, &p); }
        out.push(p);
    }
    *files = wrapper["files"].clone();
    out
}

pub fn err_kind(e: &str) -> &'static str {
    if e.contains("split digest mismatch") { "digest_mismatch" }
    else if e.contains("shard index") && e.contains("out of range") { "shard_index" }
    else if e.contains("cannot read parquet footer") { "footer" }
    else if e.to_lowercase().contains("not found") { "table_not_found" }
    else if e.contains("same file name") { "duplicate_name" }
    else { "other" }
}

pub fn keys_of(batches: &[arrow::record_batch::RecordBatch]) -> Vec<i64> {
    let mut ks = vec![];
    for b in batches {
        if b.num_columns() == 0 { continue; }
        if let Some(a) = b.column(0).as_any().downcast_ref::<Int64Array>() {
            for i in 0..a.len() { if a.is_valid(i) { ks.push(a.value(i)); } }
        }
    }
    ks.sort_unstable();
    ks
}

fn run_frag(c: &mut Value) -> Value {
    let root = scratch().join(format!("c14-{}", c["id"].as_u64().unwrap_or(0)));
    let _ = std::fs::remove_dir_all(&root);
    let table = c["table"].as_str().unwrap_or("t").to_string();
    let count = c["count"].as_u64().unwrap_or(1) as usize;
    let index = c["index"].as_u64().unwrap_or(0) as usize;
    let mut init = c["init"].clone();
    let init_paths = write_copy(&mut init, &root.join("init"));
    c["init"] = init;
    let init_digest = {
        let (t, p) = (table.clone(), init_paths.clone());
        guarded(move || match enumerate_parquet(&t, &p, count) { Ok(s) => json!(s.digest().to_string()), Err(_) => Value::Null })
    };
    let digest: u64 = init_digest.as_str().and_then(|s| s.parse().ok()).unwrap_or(0);
    let digest = if c["mutation"] == "flip_digest" { digest ^ (1u64 << (c["id"].as_u64().unwrap_or(0) % 64)) } else { digest };
    let work_dir = root.join("work");
    let has_work = !c["work"].is_null();
    if has_work {
        let mut work = c["work"].clone();
        let _ = write_copy(&mut work, &work_dir);
        c["work"] = work;
    }
    let t2 = table.clone();
    let out = guarded(move || {
        let mut ctx = ExecutionContext::new();
        if has_work {
            if let Err(e) = ctx.register_parquet(&t2, &work_dir) { return json!({"err": "register", "detail": err_kind(&e.to_string())}); }
        }
        let req = FragmentRequest { sql: format!("SELECT k FROM {t2}"), table: t2.clone(), shard_index: index, shard_count: count, splits_digest: digest };
        match rt().block_on(execute_fragment(&ctx, &req)) {
            Ok((r, st)) => json!({"ran": {"bytes": st.bytes, "rows": st.rows, "splits": st.splits, "keys": keys_of(&r.batches)}}),
            Err(e) => json!({"err": err_kind(&e.to_string())}),
        }
    });
    let _ = std::fs::remove_dir_all(&root);
    json!({"init_digest": init_digest, "sent_digest": digest.to_string(), "out": out})
}

pub fn run_case(c: &mut Value) -> Value {
    match c["kind"].as_str().unwrap_or("") { "frag" => run_frag(c), _ => json!({"bad_case": true}) }
}

fn gen_files(r: &mut Rng) -> Vec<Value> {
    let nf = 1 + match r.below(6) { 0 | 1 => 0, 2 | 3 => 1, _ => 1 + r.below(3) } as usize;
    let mut names: Vec<String> = vec![];
    let pool = ["a.parquet", "b.parquet", "part-0.parquet", "part-00.parquet", "part-1.parquet", "A.parquet", "aa.parquet", "ab.parquet", "z9.parquet"];
    while names.len() < nf { let n = (*r.pick(&pool)).to_string(); if !names.contains(&n) { names.push(n); } }
    names.iter().map(|n| {
        let mut rows = gen_rows(r);
        if rows.iter().sum::<u64>() == 0 { rows.push(1 + r.below(50)); }
        json!({"name": bytes_json(n.as_bytes()), "rows": rows, "pad": *r.pick(&[0u64, 0, 8, 64]), "seed": r.below(1 << 30), "junk": false})
    }).collect()
}

fn gen_frag(r: &mut Rng, id: u64) -> Value {
    let init = gen_files(r);
    let mut work = init.clone();
    let muts = ["none", "none", "none", "rename", "regroup", "extra_row", "pad", "drop_file", "missing", "flip_digest", "fewer_rows", "add_file"];
    let mut m = (*r.pick(&muts)).to_string();
    let fi = r.below(work.len() as u64) as usize;
    match m.as_str() {
        "rename" => {
            // change ONE character of one file name (same length), keeping names distinct and *.parquet
            let mut b = json_bytes(&work[fi]["name"]);
            let old = b[0];
            b[0] = if old == b'q' { b'r' } else { b'q' };
            if work.iter().any(|f| json_bytes(&f["name"]) == b) { m = "none".into(); } else { work[fi]["name"] = bytes_json(&b); }
        }
        "regroup" => {
            // same rows, different row-group layout: split the first non-empty group, or merge two
            let rows: Vec<u64> = work[fi]["rows"].as_array().unwrap().iter().map(|x| x.as_u64().unwrap()).collect();
            if let Some(j) = rows.iter().position(|&x| x >= 2) {
                let mut nr = rows.clone(); let a = 1 + r.below(rows[j] - 1); nr[j] = a; nr.insert(j + 1, rows[j] - a);
                work[fi]["rows"] = json!(nr);
            } else { m = "none".into(); }
        }
        "extra_row" => { let mut rows: Vec<u64> = work[fi]["rows"].as_array().unwrap().iter().map(|x| x.as_u64().unwrap()).collect();
            let j = r.below(rows.len() as u64) as usize; rows[j] += 1; work[fi]["rows"] = json!(rows); }
        "fewer_rows" => { let mut rows: Vec<u64> = work[fi]["rows"].as_array().unwrap().iter().map(|x| x.as_u64().unwrap()).collect();
            if let Some(j) = rows.iter().position(|&x| x >= 2) { rows[j] -= 1; work[fi]["rows"] = json!(rows); } else { m = "none".into(); } }
        "pad" => { let p = work[fi]["pad"].as_u64().unwrap_or(0); work[fi]["pad"] = json!(if p == 0 { 9 } else { p + 1 }); }
        "drop_file" => { if work.len() >= 2 { work.remove(fi); } else { m = "none".into(); } }
        "add_file" => { work.push(json!({"name": bytes_json(b"zz-extra.parquet"), "rows": [1 + r.below(20)], "pad": 0, "seed": 7, "junk": false})); }
        _ => {}
    }
    let count = match r.below(8) { 0 => 0, 1 => 1, 2 => 64, _ => 1 + r.below(9) };
    let n = count.max(1);
    let index = match r.below(6) { 0 => n, 1 => n + 1 + r.below(5), 2 => 0, _ => r.below(n) };
    json!({"kind": "frag", "id": id, "table": *r.pick(&["t", "lineitem"]), "count": count, "index": index, "mutation": m,
           "init": init, "work": if m == "missing" { Value::Null } else { json!(work) }})
}

pub fn main(o: &Opts) {
    if let Some(p) = &o.replay { for mut c in replay_cases(p) { let i = run_case(&mut c); emit(c, i); } return; }
    let mut r = Rng::new(o.seed ^ 0xC14);
    for n in 0..o.cases {
        let mut c = gen_frag(&mut r, n as u64);
        let i = run_case(&mut c);
        emit(c, i);
    }
}
