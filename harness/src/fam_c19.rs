// FAMILY: C19
//! C19: rewritten files vs the footer cache (metadata_cache.rs) and the IPC sidecar cache (ipc_cache.rs), on REAL files.
//! Case: {"mode":"0"|"auto"|"1","ops":[op..]} — one path per case; `QE_IPC_CACHE` is read once per process, so the parent
//! harness process spawns one child per mode (same binary, `--opt child=<mode>`) and forwards its lines.
//!   {"op":"write","rgs":[[k..],..],"mt":[secs,nanos]}   (+ derived on every run: "len", "mtime_ns" as the file system reports them)
//!   {"op":"query","q":"scan"|"sum"|"gt","c":N,"fresh":bool}   scan = ParquetTable::scan; sum/gt = SQL through ExecutionContext
//!                                                          fresh=false reuses the case's registered table (same provider)
//!   {"op":"build"}                                         another process with QE_IPC_CACHE=1 reads the file (builds the sidecar)
//! Impl: {"answers":[{"n":rows,"s":sum|null} | {"err":..} | {"panic":..} per query op]}
use crate::common::*;
use crate::rng::Rng;
use arrow::array::{Array, ArrayRef, Int64Array};
use arrow::datatypes::{DataType, Field, Schema};
use arrow::record_batch::RecordBatch;
use parquet::arrow::ArrowWriter;
use parquet::basic::Compression;
use parquet::file::properties::{EnabledStatistics, WriterProperties};
use query_engine::physical::operators::TableProvider;
use query_engine::storage::ParquetTable;
use query_engine::ExecutionContext;
use serde_json::{json, Value};
use std::path::{Path, PathBuf};
use std::sync::Arc;
use std::time::{Duration, SystemTime};

fn scratch() -> PathBuf {
    let p = PathBuf::from(std::env::var("IQE_SCRATCH").unwrap_or_else(|_| "/verif/harness/scratch/manual".into()));
    let _ = std::fs::create_dir_all(&p);
    p
}

/// fixed-width layout: PLAIN, no dictionary, no compression — the file length depends only on the row-group layout
pub fn write_k_file(path: &Path, rgs: &[Vec<i64>], mt: Option<(u64, u32)>) -> Result<(u64, u128), String> {
    let schema = Arc::new(Schema::new(vec![Field::new("k", DataType::Int64, true)]));
    let props = WriterProperties::builder()
        .set_dictionary_enabled(false).set_compression(Compression::UNCOMPRESSED)
        .set_statistics_enabled(EnabledStatistics::Chunk).set_max_row_group_row_count(Some(1 << 20))
        .set_created_by("iqe-harness".to_string()).build();
    let f = std::fs::File::create(path).map_err(|e| e.to_string())?;
    let mut w = ArrowWriter::try_new(f, schema.clone(), Some(props)).map_err(|e| e.to_string())?;
    for rg in rgs {
        let a: ArrayRef = Arc::new(Int64Array::from(rg.clone()));
        w.write(&RecordBatch::try_new(schema.clone(), vec![a]).map_err(|e| e.to_string())?).map_err(|e| e.to_string())?;
        w.flush().map_err(|e| e.to_string())?;
    }
    w.close().map_err(|e| e.to_string())?;
    if let Some((s, ns)) = mt {
        let f = std::fs::File::options().write(true).open(path).map_err(|e| e.to_string())?;
        f.set_modified(SystemTime::UNIX_EPOCH + Duration::new(s, ns)).map_err(|e| e.to_string())?;
    }
    let md = std::fs::metadata(path).map_err(|e| e.to_string())?;
    let mtime = md.modified().map_err(|e| e.to_string())?.duration_since(SystemTime::UNIX_EPOCH).map_err(|e| e.to_string())?;
    Ok((md.len(), mtime.as_nanos()))
}

fn summarize_batches(bs: &[RecordBatch]) -> Value {
    let mut n = 0i64; let mut s: i128 = 0;
    for b in bs {
        n += b.num_rows() as i64;
        if b.num_columns() == 0 { continue; }
        if let Some(a) = b.column(0).as_any().downcast_ref::<Int64Array>() {
            for i in 0..a.len() { if a.is_valid(i) { s += a.value(i) as i128; } }
        }
    }
    json!({"n": n, "s": if n == 0 { Value::Null } else { json!(s as i64) }})
}

fn sql_answer(rt: &tokio::runtime::Runtime, ctx: &ExecutionContext, sql: &str) -> Value {
    match rt.block_on(ctx.sql(sql)) {
        Err(e) => json!({"err": format!("{e}").chars().take(100).collect::<String>()}),
        Ok(r) => {
            let mut n: Option<i64> = None; let mut s: Option<i64> = None;
            for b in &r.batches {
                if b.num_rows() == 0 { continue; }
                let c0 = arrow::compute::cast(b.column(0), &DataType::Int64).ok();
                let c1 = arrow::compute::cast(b.column(1), &DataType::Int64).ok();
                if let Some(c0) = c0 { let a = c0.as_any().downcast_ref::<Int64Array>().unwrap(); if a.is_valid(0) { n = Some(a.value(0)); } }
                if let Some(c1) = c1 { let a = c1.as_any().downcast_ref::<Int64Array>().unwrap(); if a.is_valid(0) { s = Some(a.value(0)); } }
            }
            json!({"n": n.unwrap_or(0), "s": s})
        }
    }
}

/// Runs one history in THIS process (whose QE_IPC_CACHE decides the sidecar mode).
fn run_history(c: &mut Value, uniq: &str, rt: &tokio::runtime::Runtime) -> Value {
    let dir = scratch().join(format!("c19-{}-{}", std::process::id(), uniq));
    let _ = std::fs::remove_dir_all(&dir);
    if std::fs::create_dir_all(&dir).is_err() { return json!({"harness_error": "mkdir"}); }
    let path = dir.join("t.parquet");
    let mut answers = vec![];
    let mut kept: Option<(ExecutionContext, Arc<ParquetTable>)> = None;
    let nops = c["ops"].as_array().map(|a| a.len()).unwrap_or(0);
    for i in 0..nops {
        let op = c["ops"][i].clone();
        match op["op"].as_str().unwrap_or("") {
            "write" => {
                let rgs: Vec<Vec<i64>> = op["rgs"].as_array().cloned().unwrap_or_default().iter()
                    .map(|r| r.as_array().cloned().unwrap_or_default().iter().map(|v| v.as_i64().unwrap_or(0)).collect()).collect();
                let mt = op["mt"].as_array().map(|a| (a[0].as_u64().unwrap_or(0), a[1].as_u64().unwrap_or(0) as u32));
                match write_k_file(&path, &rgs, mt) {
                    Ok((len, ns)) => { c["ops"][i]["len"] = json!(len); c["ops"][i]["mtime_ns"] = json!(ns as u64); }
                    Err(e) => { let _ = std::fs::remove_dir_all(&dir); return json!({"harness_error": format!("write: {e}")}); }
                }
            }
            "build" => {
                let exe = std::env::current_exe().unwrap();
                let _ = std::process::Command::new(exe).args(["C19", "--opt", &format!("builder={}", path.display())])
                    .env("QE_IPC_CACHE", "1").stdout(std::process::Stdio::null()).stderr(std::process::Stdio::null()).status();
            }
            "query" => {
                let fresh = op["fresh"].as_bool().unwrap_or(true);
                let q = op["q"].as_str().unwrap_or("scan").to_string();
                let cst = op["c"].as_i64().unwrap_or(0);
                let p2 = path.clone();
                if fresh || kept.is_none() {
                    let made = guarded_pair(|| {
                        let t = Arc::new(ParquetTable::try_new(&p2).map_err(|e| format!("{e}"))?);
                        let mut ctx = ExecutionContext::new();
                        ctx.register_table_provider("t", t.clone());
                        Ok((ctx, t))
                    });
                    match made { Ok(x) => kept = Some(x), Err(e) => { answers.push(json!({"err": e})); continue; } }
                }
                let (ctx, t) = kept.as_ref().unwrap();
                let ctx = std::panic::AssertUnwindSafe(ctx); let t = std::panic::AssertUnwindSafe(t); let rt2 = std::panic::AssertUnwindSafe(rt);
                let a = guarded(move || match q.as_str() {
                    "scan" => match t.scan(None) { Ok(bs) => summarize_batches(&bs), Err(e) => json!({"err": format!("{e}").chars().take(100).collect::<String>()}) },
                    "sum" => sql_answer(&rt2, &ctx, "SELECT COUNT(*) AS n, SUM(k) AS s FROM t"),
                    _ => sql_answer(&rt2, &ctx, &format!("SELECT COUNT(*) AS n, SUM(k) AS s FROM t WHERE k > {}", cst)),
                });
                answers.push(a);
            }
            _ => {}
        }
    }
    drop(kept);
    let _ = std::fs::remove_dir_all(&dir);
    json!({"answers": answers})
}

fn guarded_pair<T, F: FnOnce() -> Result<T, String>>(f: F) -> Result<T, String> {
    match std::panic::catch_unwind(std::panic::AssertUnwindSafe(f)) { Ok(r) => r, Err(_) => Err("panic while opening".into()) }
}

// ---------------------------------------------------------------- generator
const T0: u64 = 1_700_000_000;
fn layouts() -> Vec<Vec<usize>> { vec![vec![2], vec![3], vec![2, 2], vec![3, 1], vec![1, 3], vec![2, 2, 2, 2, 2], vec![1, 1, 1, 1, 1, 1], vec![2, 2, 2, 2, 2, 2]] }

fn gen_write(r: &mut Rng, layout: &[usize], prev_mt: Option<(u64, u32)>) -> Value {
    let base = *r.pick(&[0i64, 100, 1000]);
    let rgs: Vec<Vec<i64>> = layout.iter().map(|n| (0..*n).map(|_| base + r.range(0, 9)).collect()).collect();
    let mt = match prev_mt {
        Some(m) if r.chance(1, 2) => m,
        _ => (T0 + r.below(2), *r.pick(&[0u32, 500_000_000, 123_456_789])),
    };
    json!({"op": "write", "rgs": rgs, "mt": [mt.0, mt.1]})
}

pub fn gen_case(r: &mut Rng, mode: &str) -> Value {
    let ls = layouts();
    let mut layout = r.pick(&ls).clone();
    let mut ops = vec![];
    let mut prev_mt = None;
    let w = gen_write(r, &layout, prev_mt);
    prev_mt = Some((w["mt"][0].as_u64().unwrap(), w["mt"][1].as_u64().unwrap() as u32));
    ops.push(w);
    let n = 2 + r.below(7);
    for _ in 0..n {
        let x = r.below(10);
        if x < 6 {
            ops.push(json!({"op": "query", "q": *r.pick(&["scan", "sum", "gt", "gt"]), "c": *r.pick(&[50i64, 500]), "fresh": r.chance(2, 3)}));
        } else if x < 9 {
            if r.chance(1, 4) { layout = r.pick(&ls).clone(); }
            let w = gen_write(r, &layout, prev_mt);
            prev_mt = Some((w["mt"][0].as_u64().unwrap(), w["mt"][1].as_u64().unwrap() as u32));
            ops.push(w);
        } else if mode != "0" {
            ops.push(json!({"op": "build"}));
        }
    }
    ops.push(json!({"op": "query", "q": *r.pick(&["scan", "sum", "gt"]), "c": *r.pick(&[50i64, 500]), "fresh": true}));
    json!({"mode": mode, "ops": ops})
}

fn child(o: &Opts, mode: &str) {
    let rt = tokio::runtime::Builder::new_multi_thread().worker_threads(2).enable_all().build().unwrap();
    let cases = replay_cases(o.replay.as_ref().expect("child needs --replay"));
    for (i, mut c) in cases.into_iter().enumerate() {
        if c["mode"].as_str() != Some(mode) { continue; }
        let imp = run_history(&mut c, &format!("{}-{}", mode, i), &rt);
        emit(c, imp);
    }
}

fn run_all(cases: &[Value]) {
    // one child per mode present; children inherit stdout
    let file = scratch().join(format!("c19-cases-{}.jsonl", std::process::id()));
    let text: String = cases.iter().map(|c| format!("{}\n", json!({"case": c}))).collect();
    std::fs::write(&file, text).expect("write case file");
    for mode in ["0", "auto", "1"] {
        if !cases.iter().any(|c| c["mode"].as_str() == Some(mode)) { continue; }
        let exe = std::env::current_exe().unwrap();
        let mut cmd = std::process::Command::new(exe);
        cmd.args(["C19", "--replay", file.to_str().unwrap(), "--opt", &format!("child={}", mode)]);
        if mode == "auto" { cmd.env_remove("QE_IPC_CACHE"); } else { cmd.env("QE_IPC_CACHE", mode); }
        let _ = cmd.status();
    }
    let _ = std::fs::remove_file(&file);
}

pub fn main(o: &Opts) {
    if let Some(p) = o.get("builder") {
        // external builder: with QE_IPC_CACHE=1 a plain scan builds the sidecar
        if let Ok(t) = ParquetTable::try_new(p) { let _ = t.scan(None); }
        return;
    }
    if let Some(m) = o.get("child") { let m = m.to_string(); child(o, &m); return; }
    if let Some(p) = &o.replay { let cases = replay_cases(p); run_all(&cases); return; }
    let mut r = Rng::new(o.seed ^ 0xC19);
    let mut cases = vec![];
    for n in 0..o.cases {
        let mode = ["0", "1", "auto", "1"][n % 4];
        cases.push(gen_case(&mut r, mode));
    }
    run_all(&cases);
}
