// FAMILY: C31
//! C31: every optimizer rule returns a well-formed plan.
//! Case: {"kind":"rules","src":"sqlgen"|"joins","layout":"mem0"|"mem"|"pq","sql":text, tables: sqlgen ("cat","tables") or optlab ("otables"), "tags":[..]}
//! Impl: {"bound":Plan|{"err"}, "alone":[{"rule":name,"after":Plan|"same"|{"err"}}…]   — `rule.optimize(&bound)` of each production rule alone
//!        (plus "SubqueryDecorrelation>SemiJoinPushdown": SemiJoinPushdown alone on the decorrelated plan, when decorrelation changed the plan)
//!        "steps":[{"rule":name,"iter":k,"after":Plan|{"err"}}…]                          — the production fixpoint rule by rule (only steps that changed the plan)
//!        "final":Plan|{"err"}, "trace_agrees":bool                                       — `Optimizer::new()[.with_table_statistics]` and whether the stepwise replay reached it
//!        "runs":[{"of":"bound"|"final"|"alone:<rule>","out":{"width":n,"rows":n}|{"err":kind,"msg"}|{"panic"}}…]}
//! Plans are rendered by `planexport` (format: lean/Driver/PlanJson.lean).
use crate::common::*;
use crate::fams::fam_c32::optlab::*;
use crate::fams::fam_c32::planexport;
use crate::fams::fam_sql::sqlgen::{catalog::{gen_catalog, CatOpts, Catalog}, gen::{Gen, GenOpts}};
use crate::rng::Rng;
use query_engine::physical::operators::{MemoryTable, TableProvider};
use query_engine::planner::LogicalPlan;
use query_engine::QueryError;
use serde_json::{json, Value};
use std::sync::Arc;

/// providers for a sqlgen catalog: memory (single batch) or one Parquet file per table
pub fn sqlgen_providers<T>(cat: &Catalog, layout: &str, f: impl FnOnce(&Provs) -> T) -> Result<T, String> {
    if layout != "pq" {
        let provs: Provs = cat.tables.iter().map(|t| (t.name.clone(), Arc::new(MemoryTable::new(t.schema(), t.single_batch())) as Arc<dyn TableProvider>)).collect();
        return Ok(f(&provs));
    }
    let dir = scratch_dir();
    let r = (|| {
        let mut out: Provs = vec![];
        for t in &cat.tables {
            let d = dir.join(&t.name);
            std::fs::create_dir_all(&d).map_err(|e| e.to_string())?;
            let file = std::fs::File::create(d.join("part-000.parquet")).map_err(|e| e.to_string())?;
            let mut w = parquet::arrow::ArrowWriter::try_new(file, t.schema(), None).map_err(|e| e.to_string())?;
            for b in t.single_batch() { w.write(&b).map_err(|e| e.to_string())?; }
            w.close().map_err(|e| e.to_string())?;
            out.push((t.name.clone(), Arc::new(query_engine::ParquetTable::try_new(&d).map_err(|e| e.to_string())?) as Arc<dyn TableProvider>));
        }
        Ok::<Provs, String>(out)
    })().map(|p| f(&p));
    let _ = std::fs::remove_dir_all(&dir);
    r
}

pub fn caught(f: &dyn Fn() -> Result<LogicalPlan, QueryError>) -> Result<LogicalPlan, QueryError> {
    match std::panic::catch_unwind(std::panic::AssertUnwindSafe(|| f())) {
        Ok(r) => r,
        Err(e) => {
            let msg = if let Some(s) = e.downcast_ref::<&str>() { s.to_string() } else if let Some(s) = e.downcast_ref::<String>() { s.clone() } else { "panic".into() };
            Err(QueryError::Internal(format!("panic: {}", msg)))
        }
    }
}
fn plan_or_err(p: &Result<LogicalPlan, QueryError>) -> Value { match p { Ok(x) => planexport::plan_json(x), Err(e) => err_json(e) } }
fn dbg(p: &LogicalPlan) -> String { format!("{:?}", p) }

/// outcome of running a plan: only what C31 looks at (error kind, result width)
fn run_summary(provs: &Provs, p: &LogicalPlan) -> Value {
    let v = execute(provs, p, true);
    if let Some(rows) = v.get("rows").and_then(|x| x.as_array()) {
        let width = rows.first().and_then(|r| r.as_array()).map(|r| r.len());
        return json!({"rows": rows.len(), "width": width});
    }
    if v.get("digest").is_some() { return json!({"rows": v["digest"]["n"], "width": null}); }
    v
}

pub fn observe(provs: &Provs, sql: &str, layout: &str) -> Value {
    let bound = bind(provs, sql);
    let b = match &bound { Ok(b) => b.clone(), Err(e) => return json!({"bound": err_json(e)}) };
    let stats = if layout == "mem0" { std::collections::HashMap::new() } else { stats_of(provs) };
    // each rule alone, once, on the bound plan
    let mut alone = vec![];
    let mut runs = vec![json!({"of": "bound", "out": run_summary(provs, &b)})];
    for name in rule_names() {
        let r = caught(&|| apply_rule_once(&name, &stats, &b).unwrap());
        let after = match &r { Ok(p) if dbg(p) == dbg(&b) => json!("same"), _ => plan_or_err(&r) };
        if let Ok(p) = &r { if dbg(p) != dbg(&b) && runs.len() < 7 { runs.push(json!({"of": format!("alone:{}", name), "out": run_summary(provs, p)})); } }
        alone.push(json!({"rule": name, "after": after}));
    }
    // SemiJoinPushdown alone on the decorrelated plan (on the bound plan the subquery predicates are still expressions)
    if let Ok(d) = caught(&|| apply_rule_once("SubqueryDecorrelation", &stats, &b).unwrap()) {
        if dbg(&d) != dbg(&b) {
            let r2 = caught(&|| apply_rule_once("SemiJoinPushdown", &stats, &d).unwrap());
            let after = match &r2 { Ok(p) if dbg(p) == dbg(&d) => json!("same"), _ => plan_or_err(&r2) };
            if let Ok(p) = &r2 { if dbg(p) != dbg(&d) { runs.push(json!({"of": "alone:SubqueryDecorrelation>SemiJoinPushdown", "out": run_summary(provs, p)})); } }
            alone.push(json!({"rule": "SubqueryDecorrelation>SemiJoinPushdown", "after": after}));
        }
    }
    // the production fixpoint, rule by rule (mirrors Optimizer::optimize_with_rules: loop rules until no change, max 10 iterations; PackedJoinKeys once after)
    let mut steps = vec![];
    let mut cur = b.clone();
    let order: Vec<String> = production_rules().iter().map(|r| r.name().to_string()).collect();
    let mut broken = false;
    'outer: for iter in 0..10 {
        let mut changed = false;
        for name in order.iter().filter(|n| n.as_str() != "PackedJoinKeys") {
            let r = caught(&|| apply_rule_once(name, &stats, &cur).unwrap());
            match r {
                Ok(p) => { if dbg(&p) != dbg(&cur) { changed = true; steps.push(json!({"rule": name, "iter": iter, "after": planexport::plan_json(&p)})); cur = p; } }
                Err(e) => { steps.push(json!({"rule": name, "iter": iter, "after": err_json(&e)})); broken = true; break 'outer; }
            }
        }
        if !changed { break; }
    }
    if !broken {
        let r = caught(&|| apply_rule_once("PackedJoinKeys", &stats, &cur).unwrap());
        match r {
            Ok(p) => { if dbg(&p) != dbg(&cur) { steps.push(json!({"rule": "PackedJoinKeys", "iter": 99, "after": planexport::plan_json(&p)})); cur = p; } }
            Err(e) => { steps.push(json!({"rule": "PackedJoinKeys", "iter": 99, "after": err_json(&e)})); broken = true; }
        }
    }
    let fin = caught(&|| optimize_production(&stats, b.clone()));
    let trace_agrees = match &fin { Ok(p) => !broken && dbg(p) == dbg(&cur), Err(_) => broken };
    if let Ok(p) = &fin { runs.push(json!({"of": "final", "out": run_summary(provs, p)})); }
    json!({"bound": planexport::plan_json(&b), "alone": alone, "steps": steps, "final": plan_or_err(&fin), "trace_agrees": trace_agrees, "runs": runs})
}

pub fn run_case(c: &Value) -> Value {
    let c = c.clone();
    guarded(move || {
        let sql = c["sql"].as_str().unwrap_or("").to_string();
        let layout = c["layout"].as_str().unwrap_or("mem").to_string();
        let phys = if layout == "pq" { "pq" } else { "mem" };
        let r = if c.get("otables").is_some() {
            with_providers(&tables_from_json(&c["otables"]), phys, |provs| observe(provs, &sql, &layout))
        } else {
            sqlgen_providers(&Catalog::from_case(&c), phys, |provs| observe(provs, &sql, &layout))
        };
        match r { Ok(v) => v, Err(e) => json!({"harness_err": e}) }
    })
}

/// statements aimed at the rules the random generators rarely trigger (ConstantFolding, DeriveOrPredicates, FlattenDependentJoin,
/// SubqueryDecorrelation, SemiJoinPushdown, HavingTotalCse, VectorSearchPushdown), over three small integer tables and a vector table
pub fn gen_targets(r: &mut Rng, layout: &str) -> Value {
    let mk = |r: &mut Rng, name: &str, cols: &[&str], n: usize| {
        let rows: Vec<Vec<V>> = (0..n).map(|i| cols.iter().enumerate().map(|(ci, _)| if ci == 0 { V::I(i as i64 + 1) } else if r.chance(1, 9) { V::Null } else { V::I(r.below(4) as i64) }).collect()).collect();
        Tbl::new(name, cols.iter().map(|c| (c.to_string(), CT::I64)).collect(), rows)
    };
    let np = 1 + r.below(9) as usize; let nq = r.below(9) as usize; let ns = 1 + r.below(5) as usize;
    let mut tables = vec![mk(r, "p", &["pk", "pa", "pb", "pv"], np), mk(r, "q", &["qk", "qa", "qv"], nq), mk(r, "s", &["sk", "sa"], ns)];
    let nv = 1 + r.below(6) as usize;
    tables.push(Tbl::new("vt", vec![("vid".into(), CT::I64), ("emb".into(), CT::Vec(2))],
        (0..nv).map(|i| vec![V::I(i as i64), V::Vecf(vec![r.below(5) as f32, r.below(5) as f32])]).collect()));
    if layout == "pq" { for t in tables.iter_mut() { t.rg = *r.pick(&[0usize, 3]); } }
    let k = r.below(4);
    let templates: Vec<(&str, String)> = vec![
        ("constfold", format!("SELECT pk, 1 + 2 AS c FROM p WHERE pa = 1 + 1 AND 2 > 1")),
        ("constfold", format!("SELECT pk FROM p WHERE (1 = 1 AND pa >= {}) OR 1 = 2", k)),
        ("derive_or", format!("SELECT pk, qk FROM p JOIN q ON pk = qk WHERE (pa = 1 AND qa = 2) OR (pa = 2 AND qa = 1)")),
        ("derive_or", format!("SELECT pk, qk FROM p, q WHERE pk = qk AND ((pa = {} AND qa = 0) OR (pa = 3 AND qa = {}))", k, k)),
        ("exists", format!("SELECT pk FROM p WHERE EXISTS (SELECT 1 FROM q WHERE qk = pk)")),
        ("exists", format!("SELECT pk FROM p WHERE NOT EXISTS (SELECT 1 FROM q WHERE qk = pk AND qv >= {})", k)),
        ("exists", format!("SELECT pk FROM p WHERE EXISTS (SELECT 1 FROM q WHERE qk = pk) AND NOT EXISTS (SELECT 1 FROM s WHERE sk = pk)")),
        ("in_sub", format!("SELECT pk FROM p WHERE pa IN (SELECT qa FROM q WHERE qv >= {})", k)),
        ("scalar_sub", format!("SELECT pk FROM p WHERE pv > (SELECT MIN(qv) FROM q)")),
        ("scalar_sub", format!("SELECT pk FROM p WHERE pv >= (SELECT MAX(qv) FROM q WHERE qk = pk)")),
        ("semi_push", format!("SELECT pk, sk FROM p JOIN s ON pa = sa WHERE pk IN (SELECT qk FROM q WHERE qv >= {})", k)),
        ("semi_push", format!("SELECT pk, sk FROM p, s WHERE pa = sa AND EXISTS (SELECT 1 FROM q WHERE qk = pk)")),
        ("having_total", format!("SELECT pa, SUM(pv) AS v FROM p JOIN q ON pk = qk GROUP BY pa HAVING SUM(pv) > (SELECT SUM(pv) FROM p JOIN q ON pk = qk) / 4")),
        ("having_total", format!("SELECT pa, SUM(pv) AS v FROM p GROUP BY pa HAVING SUM(pv) >= (SELECT SUM(pv) FROM p)")),
        ("knn", format!("SELECT vid FROM vt ORDER BY l2_distance(emb, ARRAY[1.0, {}.0]) LIMIT {}", k, 1 + k)),
        ("knn", format!("SELECT vid, emb FROM vt ORDER BY cosine_distance(emb, ARRAY[1.0, 2.0]) LIMIT 2 OFFSET {}", k)),
        ("agg_join", format!("SELECT pa, COUNT(*) AS n, SUM(qv) AS t FROM p JOIN q ON pk = qk GROUP BY pa")),
        ("outer", format!("SELECT pk, qv FROM p LEFT JOIN q ON pk = qk WHERE pa >= {}", k)),
        ("union", format!("SELECT pk AS x FROM p WHERE pa = {} UNION ALL SELECT qk AS x FROM q", k)),
        ("distinct_sort", format!("SELECT DISTINCT pa FROM p ORDER BY pa LIMIT 3")),
    ];
    let (tag, sql) = r.pick(&templates).clone();
    json!({"sql": sql, "tables": tables_json(&tables), "tags": [format!("s:t_{}", tag)]})
}

pub fn main(o: &Opts) {
    if o.get("bt").is_some() { std::panic::set_hook(Box::new(|info| eprintln!("PANIC {info}\n{}", std::backtrace::Backtrace::force_capture()))); }
    if let (Some(p), Some(rule)) = (&o.replay, o.get("fix")) {
        // development aid: one rule applied repeatedly (what `Optimizer::with_rules([rule])` does), printing every plan
        for c in replay_cases(p) {
            let sql = c["sql"].as_str().unwrap_or("").to_string();
            let show = |provs: &Provs| {
                let stats = stats_of(provs);
                let mut cur = bind(provs, &sql).unwrap();
                eprintln!("BOUND\n{}", cur);
                for it in 0..4 {
                    match apply_rule_once(rule, &stats, &cur) { Some(Ok(p)) => { if dbg(&p) == dbg(&cur) { break; } eprintln!("== {} #{}\n{}", rule, it, p); eprintln!("{}", execute(provs, &p, false)); cur = p; } other => { eprintln!("{:?}", other.map(|r| r.map(|_| ()))); break; } }
                }
            };
            if c.get("otables").is_some() { let _ = with_providers(&tables_from_json(&c["otables"]), "mem", |p| show(p)); } else { let _ = sqlgen_providers(&Catalog::from_case(&c), "mem", |p| show(p)); }
        }
        return;
    }
    if let Some(p) = &o.replay { for c in replay_cases(p) { let i = run_case(&c); emit(c, i); } return; }
    let mut r = Rng::new(o.seed ^ 0xC31);
    let gopts = GenOpts::from_opts(o, "all");
    let mut copts = CatOpts::from_opts(o);
    copts.sizes = vec!["tiny".into(), "small".into()];
    let mut cat = gen_catalog(&mut r, &copts);
    for n in 0..o.cases {
        let layout = match n % 4 { 0 => "mem", 2 => "mem0", _ => "pq" };
        let case = if matches!(n % 20, 1 | 7 | 12) {
            // 15 %: shared column names / self-joins under subquery predicates (SemiJoinPushdown must honour the qualifier)
            let lay = *r.pick(&["mem", "mem0", "pq"]);
            let (ts, sql, tags) = crate::fams::fam_c03::gen_shared_semi(&mut r);
            json!({"kind": "rules", "src": "shared", "layout": lay, "sql": sql, "otables": tables_json(&ts), "tags": tags})
        } else if n % 5 < 3 {
            if n % 6 == 0 { cat = gen_catalog(&mut r, &copts); }
            let mut qr = r.fork();
            let g = Gen::new(&mut qr, &cat, &gopts).generate(n);
            json!({"kind": "rules", "src": "sqlgen", "layout": layout, "sql": g.q.sql(), "cat": cat.meta_json(), "tables": cat.tables_json(), "tags": g.tags})
        } else if n % 5 == 3 {
            let j = crate::fams::fam_c32::gen_case(&mut r, layout);
            json!({"kind": "rules", "src": "joins", "layout": layout, "sql": j["sql"], "otables": j["tables"], "tags": [format!("s:joins_{}", j["shape"].as_str().unwrap_or("?"))]})
        } else if n % 10 == 4 {
            let j = crate::fams::fam_c03::gen_adversarial(&mut r, layout);
            json!({"kind": "rules", "src": "stats", "layout": layout, "sql": j["sql"], "otables": j["tables"], "tags": j["tags"]})
        } else {
            let j = gen_targets(&mut r, layout);
            json!({"kind": "rules", "src": "targets", "layout": layout, "sql": j["sql"], "otables": j["tables"], "tags": j["tags"]})
        };
        let i = run_case(&case);
        emit(case, i);
    }
}
