// FAMILY: C30
//! C30: the schema a query reports describes the rows it returns.
//! Case  = the sqlgen case (prop C30: sql, plan JSON, tables, cat, cfg, tags) + "names": expected output names where the
//!         binder's naming rule is exactly specifiable (alias of the leftmost SELECT list; null = unspecified).
//! Impl  = {"status":"ok"|"err"|"panic","msg":..,
//!          "result":[[name,arrow type]..]            QueryResult.schema
//!          "plan":[[name,arrow type]..] | {"err":..}  ctx.physical_plan(sql).schema()
//!          "batches":[[[name,type]..]..]              distinct schemas of the returned batches
//!          "arrays":[[type..]..]                      distinct lists of the column ARRAYS' data types (what the rows really are)
//!          "nbatches":k,"rows":n}
use crate::common::*;
use crate::fams::fam_sql::sqlgen::{ast::*, catalog::*, driver::*, exec::{runtime, ExecCfg, Layout}, gen::*};
use crate::rng::Rng;
use arrow::datatypes::Schema;
use query_engine::ExecutionContext;
use serde_json::{json, Value};

fn schema_json(s: &Schema) -> Value { Value::Array(s.fields().iter().map(|f| json!([f.name(), format!("{}", f.data_type())])).collect()) }

fn names_of(b: &Body) -> Vec<Value> {
    match b {
        Body::Select(s) => s.proj.iter().map(|(_, a)| json!(a)).collect(),
        Body::SetOp { l, .. } => names_of(l),
        Body::Values(rows) => rows.first().map(|r| r.iter().map(|_| Value::Null).collect()).unwrap_or_default(),
    }
}

fn make_ctx(cat: &Catalog, cfg: &ExecCfg) -> ExecutionContext {
    let mut ctx = match cfg.mem_limit { Some(n) => ExecutionContext::with_memory_limit(n), None => ExecutionContext::new() };
    for t in &cat.tables {
        let batches = if cfg.layout == Layout::MemSingle { t.single_batch() } else { t.batches() };
        ctx.register_table(t.name.clone(), t.schema(), batches);
    }
    ctx
}

pub fn run_case30(case: &Value) -> Value {
    let case = case.clone();
    guarded(move || {
        let cat = Catalog::from_case(&case);
        let sql = case["sql"].as_str().unwrap_or("").to_string();
        let cfg = case["cfg"].as_str().and_then(ExecCfg::parse).unwrap_or_else(ExecCfg::mem_batches);
        let ctx = make_ctx(&cat, &cfg);
        let plan = match ctx.physical_plan(&sql) { Ok(p) => schema_json(&p.schema()), Err(e) => json!({"err": e.to_string().chars().take(200).collect::<String>()}) };
        match runtime().block_on(async { ctx.sql(&sql).await }) {
            Ok(r) => {
                let mut bs: Vec<Value> = vec![]; let mut arrs: Vec<Value> = vec![];
                for b in &r.batches {
                    let s = schema_json(&b.schema()); if !bs.contains(&s) { bs.push(s); }
                    let a = Value::Array(b.columns().iter().map(|c| json!(format!("{}", c.data_type()))).collect()); if !arrs.contains(&a) { arrs.push(a); }
                }
                json!({"status":"ok","result":schema_json(&r.schema),"plan":plan,"batches":bs,"arrays":arrs,"nbatches":r.batches.len(),
                       "rows": r.batches.iter().map(|b| b.num_rows()).sum::<usize>()})
            }
            Err(e) => json!({"status":"err","msg":e.to_string().chars().take(200).collect::<String>(),"plan":plan}),
        }
    })
}

/// raw stream: type-blind grammar statements of family C29 over its fixed tables, run in a supervised child process
/// (no plan JSON, so only the engine-internal comparison applies): {"kind":"raw","setup":"std","sql":..}
fn run_raw(pool: &mut crate::fams::fam_c29::Pool, c: &Value) -> Value {
    let (mut i, alive) = pool.run_phase(c["setup"].as_str().unwrap_or("std"), c["sql"].as_str().unwrap_or(""), "schema");
    if !alive { pool.kill(); }
    if i.get("status").is_none() { i["status"] = json!(if i["outcome"] == "panic" { "panic" } else { "died" }); }
    i
}

/// stratum `shape:union-plain-then-join` (fixed tables of family C29: t1 60 rows / 2 batches, t2 30 rows / 1 batch, mb 99 rows / 1 batch,
/// big 2 500 rows / 3 batches): UNION ALL of a plain scan/projection and a hash join that projects a VARCHAR column of the small
/// single-batch build side (the shape whose gathers are dictionary-encoded inside the engine), in both branch orders, the join alone,
/// three branches, multi-batch probe sides, LEFT joins - the reported schema must describe EVERY returned batch.
fn gen_union_join(r: &mut Rng) -> String {
    let plain = |r: &mut Rng| ["SELECT a AS id, s AS txt FROM t1","SELECT k AS id, name AS txt FROM t2","SELECT n AS id, s AS txt FROM mb","SELECT x AS id, y AS txt FROM empty1",
        "SELECT a AS id, UPPER(s) AS txt FROM t1 WHERE a < 40","SELECT k AS id, CAST(g AS VARCHAR) AS txt FROM big WHERE k < 5"][r.below(6) as usize].to_string();
    let join = |r: &mut Rng| {
        let (probe, pk) = [("big p","p.k"),("t1 p","p.a"),("big p","p.k"),("t1 p","p.b")][r.below(4) as usize];
        let (build, bk, bs) = [("t2 d","d.k","d.name"),("mb d","d.n","d.s"),("mb d","d.n","d.p"),("t2 d","d.k","d.name")][r.below(4) as usize];
        let jt = ["JOIN","JOIN","JOIN","LEFT JOIN","RIGHT JOIN"][r.below(5) as usize];
        let (l, rr) = if r.chance(1, 4) { (build, probe) } else { (probe, build) };
        let wh = if r.chance(1, 3) { format!(" WHERE {} < {}", pk, [3, 10, 100][r.below(3) as usize]) } else { String::new() };
        let extra = if r.chance(1, 4) { format!(", {} AS txt2", bs) } else { String::new() };
        (format!("SELECT {} AS id, {} AS txt{} FROM {} {} {} ON {} = {}{}", pk, bs, extra, l, jt, rr, pk, bk, wh), !extra.is_empty())
    };
    let (j, wide) = join(r);
    let pl = |r: &mut Rng| { let p = plain(r); if wide { p.replace(" AS txt FROM", " AS txt, 'x' AS txt2 FROM") } else { p } };
    match r.below(8) {
        0 => j,
        1 | 2 | 3 => format!("{} UNION ALL {}", pl(r), j),
        4 => format!("{} UNION ALL {}", j, pl(r)),
        5 => format!("{} UNION ALL {} UNION ALL {}", pl(r), j, pl(r)),
        6 => format!("{} UNION ALL {} UNION ALL {}", pl(r), pl(r), j),
        _ => { let (j2, w2) = join(r); if w2 == wide { format!("{} UNION ALL {} UNION ALL {}", pl(r), j, j2) } else { format!("{} UNION ALL {}", pl(r), j) } }
    }
}

pub fn main(o: &Opts) {
    let mut pool = crate::fams::fam_c29::Pool::new(10_000);
    if let Some(p) = &o.replay {
        for c in replay_cases(p) { let i = if c["kind"] == "raw" { run_raw(&mut pool, &c) } else { run_case30(&c) }; emit(c, i); }
        pool.kill();
        return;
    }
    let gopts = GenOpts::from_opts(o, "filter,case,join,agg,distinct,setop,cte,values,subquery,sort_limit");
    let copts = CatOpts::from_opts(o);
    let cfgs = cfgs_from_opts(o, "memb,mem1");
    let per_cat = o.get_usize("per_cat", 8).max(1);
    let mut r = Rng::new(o.seed ^ 0xC30);
    let mut cat = gen_catalog(&mut r, &copts);
    for n in 0..o.cases {
        if n % 10 == 7 || n % 10 == 2 {
            let c = json!({"kind":"raw","setup":"std","tags":["s:raw","shape:union-plain-then-join"],"sql": gen_union_join(&mut r)});
            let i = run_raw(&mut pool, &c);
            emit(c, i);
            continue;
        }
        if n % 4 == 3 {
            let c = json!({"kind":"raw","setup":"std","tags":["s:raw"],"sql": crate::fams::fam_c29::gen_tame(&mut r)});
            let i = run_raw(&mut pool, &c);
            emit(c, i);
            continue;
        }
        if n % per_cat == 0 { cat = gen_catalog(&mut r, &copts); }
        let mut qr = r.fork();
        let mut g = Gen::new(&mut qr, &cat, &gopts).generate(n);
        // empty results must still carry the right schema: every 5th statement gets LIMIT 0 or an always-false filter on top
        let mut tags = g.tags.clone();
        if n % 5 == 4 { g.q.limit = Some((0, Some(0))); tags.push("f:limit0".into()); }
        let one = [cfgs[n % cfgs.len()].clone()];
        let mut case = make_case("C30", &cat, &g.q, &tags, g.engine_defined, &one, false);
        case["names"] = Value::Array(names_of(&g.q.body));
        let imp = run_case30(&case);
        emit(case, imp);
    }
    pool.kill();
}
