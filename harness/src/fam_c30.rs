// FAMILY: C30
//! C30: the schema a query reports describes the rows it returns.
//! Case  = the sqlgen case (prop C30: sql, plan JSON, tables, cat, cfg, tags) + "names": expected output names where the
//!         binder's naming rule is exactly specifiable (alias of the leftmost SELECT list; null = unspecified).
//! Impl  = {"status":"ok"|"err"|"panic","msg":..,
//!          "result":[[name,arrow type]..]            QueryResult.schema
//!          "plan":[[name,arrow type]..] | {"err":..}  ctx.physical_plan(sql).schema()
//!          "batches":[[[name,type]..]..]              distinct schemas of the returned batches
//!          "arrays":[[type..]..]                      distinct lists of the column ARRAYS' data types (what the rows really are)
//!          "nbatches":k,"rows":n}
use crate::common::*;
use crate::fams::fam_sql::sqlgen::{ast::*, catalog::*, driver::*, exec::{runtime, ExecCfg, Layout}, gen::*};
use crate::rng::Rng;
use arrow::datatypes::Schema;
use query_engine::ExecutionContext;
use serde_json::{json, Value};

fn schema_json(s: &Schema) -> Value { Value::Array(s.fields().iter().map(|f| json!([f.name(), format!("{}", f.data_type())])).collect()) }

fn names_of(b: &Body) -> Vec<Value> {
    match b {
        Body::Select(s) => s.proj.iter().map(|(_, a)| json!(a)).collect(),
        Body::SetOp { l, .. } => names_of(l),
        Body::Values(rows) => rows.first().map(|r| r.iter().map(|_| Value::Null).collect()).unwrap_or_default(),
    }
}

fn make_ctx(cat: &Catalog, cfg: &ExecCfg) -> ExecutionContext {
    let mut ctx = match cfg.mem_limit { Some(n) => ExecutionContext::with_memory_limit(n), None => ExecutionContext::new() };
    for t in &cat.tables {
        let batches = if cfg.layout == Layout::MemSingle { t.single_batch() } else { t.batches() };
        ctx.register_table(t.name.clone(), t.schema(), batches);
    }
    ctx
}

pub fn run_case30(case: &Value) -> Value {
    let case = case.clone();
    guarded(move || {
        let cat = Catalog::from_case(&case);
        let sql = case["sql"].as_str().unwrap_or("").to_string();
        let cfg = case["cfg"].as_str().and_then(ExecCfg::parse).unwrap_or_else(ExecCfg::mem_batches);
        let ctx = make_ctx(&cat, &cfg);
        let plan = match ctx.physical_plan(&sql) { Ok(p) => schema_json(&p.schema()), Err(e) => json!({"err": e.to_string().chars().take(200).collect::<String>()}) };
        match runtime().block_on(async { ctx.sql(&sql).await }) {
            Ok(r) => {
                let mut bs: Vec<Value> = vec![]; let mut arrs: Vec<Value> = vec![];
                for b in &r.batches {
                    let s = schema_json(&b.schema()); if !bs.contains(&s) { bs.push(s); }
                    let a = Value::Array(b.columns().iter().map(|c| json!(format!("{}", c.data_type()))).collect()); if !arrs.contains(&a) { arrs.push(a); }
                }
                json!({"status":"ok","result":schema_json(&r.schema),"plan":plan,"batches":bs,"arrays":arrs,"nbatches":r.batches.len(),
                       "rows": r.batches.iter().map(|b| b.num_rows()).sum::<usize>()})
            }
            Err(e) => json!({"status":"err","msg":e.to_string().chars().take(200).collect::<String>(),"plan":plan}),
        }
    })
}

/// raw stream: type-blind grammar statements of family C29 over its fixed tables, run in a supervised child process
/// (no plan JSON, so only the engine-internal comparison applies): {"kind":"raw","setup":"std","sql":..}
fn run_raw(pool: &mut crate::fams::fam_c29::Pool, c: &Value) -> Value {
    let (mut i, alive) = pool.run_phase(c["setup"].as_str().unwrap_or("std"), c["sql"].as_str().unwrap_or(""), "schema");
    if !alive { pool.kill(); }
    if i.get("status").is_none() { i["status"] = json!(if i["outcome"] == "panic" { "panic" } else { "died" }); }
    i
}

pub fn main(o: &Opts) {
    let mut pool = crate::fams::fam_c29::Pool::new(10_000);
    if let Some(p) = &o.replay {
        for c in replay_cases(p) { let i = if c["kind"] == "raw" { run_raw(&mut pool, &c) } else { run_case30(&c) }; emit(c, i); }
        pool.kill();
        return;
    }
    let gopts = GenOpts::from_opts(o, "filter,case,join,agg,distinct,setop,cte,values,subquery,sort_limit");
    let copts = CatOpts::from_opts(o);
    let cfgs = cfgs_from_opts(o, "memb,mem1");
    let per_cat = o.get_usize("per_cat", 8).max(1);
    let mut r = Rng::new(o.seed ^ 0xC30);
    let mut cat = gen_catalog(&mut r, &copts);
    for n in 0..o.cases {
        if n % 4 == 3 {
            let c = json!({"kind":"raw","setup":"std","tags":["s:raw"],"sql": crate::fams::fam_c29::gen_tame(&mut r)});
            let i = run_raw(&mut pool, &c);
            emit(c, i);
            continue;
        }
        if n % per_cat == 0 { cat = gen_catalog(&mut r, &copts); }
        let mut qr = r.fork();
        let mut g = Gen::new(&mut qr, &cat, &gopts).generate(n);
        // empty results must still carry the right schema: every 5th statement gets LIMIT 0 or an always-false filter on top
        let mut tags = g.tags.clone();
        if n % 5 == 4 { g.q.limit = Some((0, Some(0))); tags.push("f:limit0".into()); }
        let one = [cfgs[n % cfgs.len()].clone()];
        let mut case = make_case("C30", &cat, &g.q, &tags, g.engine_defined, &one, false);
        case["names"] = Value::Array(names_of(&g.q.body));
        let imp = run_case30(&case);
        emit(case, imp);
    }
    pool.kill();
}
