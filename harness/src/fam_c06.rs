// FAMILY: C06
//! C06: compiled predicates (`CompiledPredicate`, `PredicateEvaluator`) vs the interpreter (`evaluate_expr`).
//! Case: {"schema":[ty…],"pattern":[[Val…]…],"n":N,"expr":E}; batch row i = pattern[i mod |pattern|]; E = SqlJson + {"lit":{"i32":k}}.
//! Impl: {"compiled":bool,"ce":OUT|null,"interp":OUT,"pe":OUT,"pe0":OUT|null}; pe0 = PredicateEvaluator in a child process of this
//! binary started with QE_COMPILE=0 (the switch is a OnceLock, so the two settings need two processes).
use super::fam_c02::{array_vals, build_batch, to_engine};
use crate::common::*;
use crate::rng::Rng;
use arrow::array::*;
use query_engine::physical::compiled_expr::{CompiledPredicate, PredicateEvaluator};
use query_engine::physical::evaluate_expr;
use serde_json::{json, Value};
use std::sync::Arc;

pub const SCHEMA: [&str; 9] = ["f64", "f64", "int", "i32", "date", "int", "f64", "str", "f64"];

fn fb(x: f64) -> Value { json!({"f": x.to_bits()}) }
fn specials() -> Vec<Value> {
    vec![fb(f64::NAN), json!({"f": 0xFFF8000000000000u64}), fb(-0.0), fb(0.0), fb(f64::INFINITY), fb(f64::NEG_INFINITY), fb(0.5), fb(-0.5),
         fb(1.0), fb(5e-324), fb(f64::MAX), fb(9007199254740993.0), json!({"f": 0x7FF0000000000001u64})]
}
fn tame() -> Vec<Value> { vec![fb(0.5), fb(1.0), fb(2.5), fb(-1.5), fb(3.0), fb(-0.25)] }

fn cell(r: &mut Rng, ci: usize, null_pct: u64) -> Value {
    if r.below(100) < null_pct { return Value::Null; }
    match ci {
        0 | 6 => { let s = specials(); s[r.below(s.len() as u64) as usize].clone() }
        1 | 8 => { let s = tame(); s[r.below(s.len() as u64) as usize].clone() }
        2 | 5 => json!({"i": *r.pick(&[0i64, 1, 2, 3, -1, i64::MAX, i64::MIN, 9007199254740993])}),
        3 => json!({"i": *r.pick(&[0i64, 1, 2, -1, i32::MAX as i64, i32::MIN as i64])}),
        4 => json!({"d": *r.pick(&[0i64, 100, 200, -5, 19000])}),
        _ => json!({"s": *r.pick(&["a", "b", ""])}),
    }
}

fn col(i: usize) -> Value { json!({"col": i}) }
fn lit(v: Value) -> Value { json!({"lit": v}) }
fn bin(op: &str, a: Value, b: Value) -> Value { json!({"bin": [op, a, b]}) }

fn num(r: &mut Rng, d: u32) -> Value {
    if d == 0 || r.chance(1, 2) {
        return if r.chance(2, 3) { col(*r.pick(&[1usize, 8])) } else { let t = tame(); lit(t[r.below(t.len() as u64) as usize].clone()) };
    }
    arith(r, d - 1)
}
/// f64 arithmetic; a divisor is always a non-zero literal (x/0 and 0/0 would create inf / NaN whose sign and payload are hardware- and
/// compiler-defined — outside what the model's float parameter is compared on)
fn arith(r: &mut Rng, d: u32) -> Value {
    let op = *r.pick(&["add", "sub", "mul", "div"]);
    let a = num(r, d);
    let b = if op == "div" { let t = tame(); lit(t[r.below(t.len() as u64) as usize].clone()) } else { num(r, d) };
    bin(op, a, b)
}
fn side_f64(r: &mut Rng, d: u32) -> Value {
    match r.below(6) {
        0 | 1 => col(*r.pick(&[0usize, 6])),
        2 => col(*r.pick(&[1usize, 8])),
        3 | 4 => { let s = specials(); lit(s[r.below(s.len() as u64) as usize].clone()) }
        _ => arith(r, d),
    }
}
fn cmp(r: &mut Rng, d: u32) -> Value {
    let op = *r.pick(&["eq", "ne", "lt", "le", "gt", "ge"]);
    match r.below(12) {
        0..=4 => bin(op, side_f64(r, d), side_f64(r, d)),
        5 | 6 => {
            let s = |r: &mut Rng| if r.chance(1, 2) { col(*r.pick(&[2usize, 5])) } else { lit(json!({"i": *r.pick(&[0i64, 1, 2, -1, i64::MAX, i64::MIN, 9007199254740993])})) };
            bin(op, s(r), s(r))
        }
        7 => { let s = |r: &mut Rng| if r.chance(1, 2) { col(3) } else { lit(json!({"i32": *r.pick(&[0i64, 1, 2, -1, i32::MAX as i64, i32::MIN as i64])})) }; bin(op, s(r), s(r)) }
        8 => { let s = |r: &mut Rng| if r.chance(1, 2) { col(4) } else { lit(json!({"d": *r.pick(&[0i64, 100, 150, 200, -5])})) }; bin(op, s(r), s(r)) }
        // shapes the compiler must decline (mixed types → interpreter coercion)
        9 => bin(op, col(2), lit(fb(*r.pick(&[1.5f64, 2.0, -1.0])))),
        10 => bin(op, col(3), lit(json!({"i": *r.pick(&[0i64, 1, 2, 5_000_000_000])}))),
        _ => bin(op, col(0), col(2)),
    }
}
fn between(r: &mut Rng, d: u32) -> Value {
    let neg = r.chance(1, 3);
    match r.below(4) {
        0 | 1 => json!({"between": [side_f64(r, d), side_f64(r, 0), side_f64(r, 0), neg]}),
        2 => json!({"between": [col(2), lit(json!({"i": *r.pick(&[0i64, 1, -1])})), lit(json!({"i": *r.pick(&[1i64, 2, 3])})), neg]}),
        _ => json!({"between": [col(4), lit(json!({"d": 0})), col(4), neg]}),
    }
}
fn boolean(r: &mut Rng, d: u32) -> Value {
    if d == 0 { return if r.chance(1, 5) { between(r, 1) } else { cmp(r, 1) }; }
    match r.below(12) {
        0..=2 => bin("and", boolean(r, d - 1), boolean(r, d - 1)),
        3..=5 => bin("or", boolean(r, d - 1), boolean(r, d - 1)),
        6 | 7 => json!({"un": ["not", boolean(r, d - 1)]}),
        8 => between(r, 2),
        9 if r.chance(1, 2) => r.pick(&[json!({"un": ["isnull", col(0)]}), bin("eq", col(7), lit(json!({"s": "a"}))), json!({"inlist": [col(2), [lit(json!({"i": 1})), lit(json!({"i": 2}))], false]})]).clone(),
        _ => cmp(r, 2),
    }
}
/// a conjunction / disjunction chain of k comparisons: k = 12 uses 23 M-registers (compiles), k = 13 needs 25 (declined by MAX_REGS)
fn chain(r: &mut Rng, k: usize) -> Value {
    let op = if r.chance(1, 2) { "and" } else { "or" };
    let mut e = cmp(r, 0);
    for _ in 1..k { let c = cmp(r, 0); e = if r.chance(1, 2) { bin(op, e, c) } else { bin(op, c, e) }; }
    e
}

fn gen_case(r: &mut Rng, k: usize) -> Value {
    let e = match k % 16 { 0 => { let k = *r.pick(&[11usize, 12, 13, 14]); chain(r, k) } 1 => { let d = 3 + r.below(3) as u32; boolean(r, d) } _ => { let d = r.below(4) as u32; boolean(r, d) } };
    let plen = *r.pick(&[1usize, 3, 7, 13]);
    let null_pct = *r.pick(&[0u64, 0, 10, 30, 60]);
    let pattern: Vec<Value> = (0..plen).map(|_| Value::Array((0..SCHEMA.len()).map(|ci| cell(r, ci, null_pct)).collect())).collect();
    let n = match r.below(10) { 0 => *r.pick(&[0usize, 1, 1023, 1024, 1025, 2048, 2049, 3000]), 1 => *r.pick(&[7usize, 8, 9, 15, 16, 17, 63, 64, 65]), _ => 1 + r.below(40) as usize };
    json!({"schema": SCHEMA, "pattern": pattern, "n": n, "expr": e})
}

fn out_of(m: Result<BooleanArray, String>) -> Value {
    match m {
        Ok(b) => { let a: ArrayRef = Arc::new(b); json!({"ok": array_vals(&a).unwrap()}) }
        Err(e) => json!({"err": e.chars().take(80).collect::<String>()}),
    }
}

fn batch_of(c: &Value) -> (arrow::record_batch::RecordBatch, query_engine::planner::Expr) {
    let schema: Vec<String> = c["schema"].as_array().unwrap().iter().map(|x| x.as_str().unwrap().to_string()).collect();
    let pat = c["pattern"].as_array().unwrap();
    let n = c["n"].as_u64().unwrap() as usize;
    let rows: Vec<Value> = (0..n).map(|k| pat[k % pat.len()].clone()).collect();
    (build_batch(&schema, &rows), to_engine(&c["expr"]))
}

pub fn run_case(c: &Value) -> Value {
    let c2 = c.clone();
    guarded(move || {
        let (batch, expr) = batch_of(&c2);
        let mut out = json!({"compiled": false, "ce": null, "interp": null, "pe": null, "pe0": null});
        out["interp"] = match evaluate_expr(&batch, &expr) {
            Ok(a) => match a.as_any().downcast_ref::<BooleanArray>() { Some(b) => out_of(Ok(b.clone())), None => json!({"err": "not boolean"}) },
            Err(e) => json!({"err": format!("{e}").chars().take(80).collect::<String>()}),
        };
        if let Some(cp) = CompiledPredicate::compile(&expr, &batch.schema()) {
            out["compiled"] = json!(true);
            if let Some(m) = cp.evaluate(&batch) { out["ce"] = out_of(Ok(m)); }
        }
        out["pe"] = out_of(PredicateEvaluator::new(expr.clone()).evaluate(&batch).map_err(|e| format!("{e}")));
        out
    })
}

/// child mode (QE_COMPILE=0): only the predicate evaluator's answer
fn run_child(c: &Value) -> Value {
    let c2 = c.clone();
    guarded(move || {
        let (batch, expr) = batch_of(&c2);
        json!({"pe0": out_of(PredicateEvaluator::new(expr).evaluate(&batch).map_err(|e| format!("{e}"))),
               "enabled": query_engine::physical::compiled_expr::compilation_enabled()})
    })
}

fn with_child(cases: Vec<Value>) {
    // second process of this very binary with QE_COMPILE=0
    let scratch = std::env::var("IQE_SCRATCH").unwrap_or_else(|_| ".".into());
    let path = format!("{scratch}/c06-cases-{}.jsonl", std::process::id());
    let text: String = cases.iter().map(|c| format!("{}\n", json!({"case": c}))).collect();
    std::fs::write(&path, text).expect("scratch file");
    let exe = std::env::current_exe().expect("current exe");
    let child = std::process::Command::new(exe).args(["C06", "--replay", &path, "--opt", "child=1"]).env("QE_COMPILE", "0").output();
    let _ = std::fs::remove_file(&path);
    let pe0: Vec<Value> = match child {
        Ok(o) => String::from_utf8_lossy(&o.stdout).lines().filter_map(|l| serde_json::from_str::<Value>(l).ok()).map(|v| v["impl"].clone()).collect(),
        Err(_) => vec![],
    };
    for (k, c) in cases.into_iter().enumerate() {
        let mut i = run_case(&c);
        if let Some(p) = pe0.get(k) {
            // the child must really have run with compilation off
            i["pe0"] = if p["enabled"] == json!(false) { p["pe0"].clone() } else { json!({"err": "child ran with compilation enabled"}) };
        }
        emit(c, i);
    }
}

pub fn main(o: &Opts) {
    if o.get("child") == Some("1") {
        if let Some(p) = &o.replay { for c in replay_cases(p) { let i = run_child(&c); emit(c, i); } }
        return;
    }
    if let Some(p) = &o.replay { with_child(replay_cases(p)); return; }
    let mut r = Rng::new(o.seed ^ 0xC06);
    let cases: Vec<Value> = (0..o.cases).map(|k| gen_case(&mut r, k)).collect();
    with_child(cases);
}
