// FAMILY: C13
//! C13: shard scans reassemble the table — `splits_of` + `assign_lpt` + `shard_context` for EVERY shard index, on REAL Parquet tables.
//! Table columns: k (i64, key 0..n-1), v (i64 nullable, -3..12), w (i64 = 1_000_000 + 3k), s (string padding).
//! Case {"kind":"shards","id","table":"t","nodes":N,"files":[recipe + derived "rgs"],"vals":[v|null for k = 0..n-1] (derived),
//!       "queries":[{"cols":[any non-empty sub-sequence / permutation of k,v,w],"filter":null|{"col":"k"|"v"|"w","op","c","d"}}]}
//! Impl {"ok":{"shards":[{"stats":{"bytes","rows","splits"},"raw":[k..] (provider.scan(Some([0]))),"files_none":bool,
//!                        "answers":[rows per query]  (SQL over the shard context; a row = the projected values in `cols` order, null = NULL; rows sorted),
//!                        "provider":[rows per query | null] (scan_with_filter(projection, filter) when `cols` is increasing in table order)}],
//!             "base":[rows per query] (the same SQL on the unsharded table)}} | {"err":kind}
use crate::common::*;
use crate::fams::fam_c11::{gen_rows, row_values, scratch};
use crate::fams::fam_c14::{err_kind, keys_of, rt, write_copy};
use crate::rng::Rng;
use arrow::array::{Array, Int64Array};
use query_engine::distributed::coordinator::{shard_context, splits_of};
use query_engine::distributed::assign_lpt;
use query_engine::planner::{Expr, ScalarValue, UnaryOp};
use query_engine::ExecutionContext;
use serde_json::{json, Value};

pub fn pred_sql(f: &Value) -> String {
    let col = f["col"].as_str().unwrap_or("k");
    let (c, d) = (f["c"].as_i64().unwrap_or(0), f["d"].as_i64().unwrap_or(0));
    match f["op"].as_str().unwrap_or("=") {
        "isnull" => format!("{col} IS NULL"),
        "notnull" => format!("{col} IS NOT NULL"),
        "between" => format!("{col} BETWEEN {c} AND {d}"),
        op => format!("{col} {op} {c}"),
    }
}

pub fn query_sql(table: &str, q: &Value) -> String {
    let cols: Vec<String> = q["cols"].as_array().map(|a| a.iter().map(|x| x.as_str().unwrap_or("k").to_string()).collect()).unwrap_or_else(|| vec!["k".into()]);
    let mut s = format!("SELECT {} FROM {table}", cols.join(", "));
    if !q["filter"].is_null() { s.push_str(" WHERE "); s.push_str(&pred_sql(&q["filter"])); }
    s
}

/// rows of a result: every (Int64) column in output order, null = NULL; sorted (None < Some)
fn rows_all(batches: &[arrow::record_batch::RecordBatch]) -> Value {
    let mut out: Vec<Vec<Option<i64>>> = vec![];
    for b in batches {
        if b.num_rows() == 0 { continue; }
        let cols: Vec<Option<Int64Array>> = (0..b.num_columns()).map(|i| b.column(i).as_any().downcast_ref::<Int64Array>().cloned()).collect();
        for r in 0..b.num_rows() {
            out.push(cols.iter().map(|c| c.as_ref().and_then(|a| if a.is_valid(r) { Some(a.value(r)) } else { None })).collect());
        }
    }
    out.sort();
    json!(out)
}

pub fn col_index(c: &str) -> usize { match c { "k" => 0, "v" => 1, "w" => 2, _ => 3 } }

/// the planner expression of a case filter (what the optimizer would push into `scan_with_filter`)
pub fn pred_expr(f: &Value) -> Expr {
    let col = Expr::column(f["col"].as_str().unwrap_or("k"));
    let lit = |x: i64| Expr::literal(ScalarValue::Int64(x));
    let (c, d) = (f["c"].as_i64().unwrap_or(0), f["d"].as_i64().unwrap_or(0));
    match f["op"].as_str().unwrap_or("=") {
        "isnull" => Expr::UnaryExpr { op: UnaryOp::IsNull, expr: Box::new(col) },
        "notnull" => Expr::UnaryExpr { op: UnaryOp::IsNotNull, expr: Box::new(col) },
        "between" => col.clone().gt_eq(lit(c)).and(col.lt_eq(lit(d))),
        "<" => col.lt(lit(c)), "<=" => col.lt_eq(lit(c)), "=" => col.eq(lit(c)),
        ">=" => col.gt_eq(lit(c)), ">" => col.gt(lit(c)), _ => col.not_eq(lit(c)),
    }
}

fn run_shards(c: &mut Value) -> Value {
    let root = scratch().join(format!("c13-{}", c["id"].as_u64().unwrap_or(0)));
    let _ = std::fs::remove_dir_all(&root);
    let table = c["table"].as_str().unwrap_or("t").to_string();
    let nodes = c["nodes"].as_u64().unwrap_or(1) as usize;
    let dir = root.join("tbl");
    let mut files = c["files"].clone();
    let _ = write_copy(&mut files, &dir);
    c["files"] = files.clone();
    // the table's v column, by key (keys are handed out file by file in recipe order)
    let mut vals = vec![];
    let mut k: i64 = 0;
    for f in files.as_array().cloned().unwrap_or_default() {
        let n: u64 = f["rows"].as_array().map(|a| a.iter().map(|x| x.as_u64().unwrap_or(0)).sum()).unwrap_or(0);
        for _ in 0..n { let (_, v, _) = row_values(f["seed"].as_u64().unwrap_or(0), k, f["pad"].as_u64().unwrap_or(0) as usize); vals.push(json!(v)); k += 1; }
    }
    c["vals"] = Value::Array(vals);
    let queries = c["queries"].as_array().cloned().unwrap_or_default();
    let out = guarded(move || {
        let mut ctx = ExecutionContext::new();
        if let Err(e) = ctx.register_parquet(&table, &dir) { return json!({"err": "register", "detail": err_kind(&e.to_string())}); }
        let set = match splits_of(&ctx, &table, nodes) { Ok(s) => s, Err(e) => return json!({"err": err_kind(&e.to_string())}) };
        let assignment = assign_lpt(&set, nodes);
        let runtime = rt();
        let mut shards = vec![];
        for i in 0..assignment.nodes {
            let (sctx, st) = match shard_context(&ctx, &table, &set, &assignment, i) { Ok(x) => x, Err(e) => return json!({"err": err_kind(&e.to_string()), "shard": i}) };
            let prov = sctx.table_provider(&table).expect("sharded provider");
            let raw = match prov.scan(Some(&[0])) { Ok(b) => json!(keys_of(&b)), Err(e) => json!({"err": e.to_string().chars().take(60).collect::<String>()}) };
            let files_none = prov.parquet_files().is_none();
            let mut answers = vec![];
            let mut provider = vec![];
            for q in &queries {
                match runtime.block_on(sctx.sql(&query_sql(&table, q))) {
                    Ok(r) => answers.push(rows_all(&r.batches)),
                    Err(e) => answers.push(json!({"err": e.to_string().chars().take(80).collect::<String>()})),
                }
                let idx: Vec<usize> = q["cols"].as_array().map(|a| a.iter().map(|x| col_index(x.as_str().unwrap_or("k"))).collect()).unwrap_or_default();
                if idx.windows(2).all(|w| w[0] < w[1]) {
                    let e = if q["filter"].is_null() { None } else { Some(pred_expr(&q["filter"])) };
                    match prov.scan_with_filter(Some(&idx), e.as_ref()) {
                        Ok(b) => provider.push(rows_all(&b)),
                        Err(e) => provider.push(json!({"err": e.to_string().chars().take(80).collect::<String>()})),
                    }
                } else { provider.push(Value::Null); }
            }
            shards.push(json!({"stats": {"bytes": st.bytes, "rows": st.rows, "splits": st.splits}, "raw": raw, "files_none": files_none,
                               "answers": answers, "provider": provider}));
        }
        let mut base = vec![];
        for q in &queries {
            match runtime.block_on(ctx.sql(&query_sql(&table, q))) {
                Ok(r) => base.push(rows_all(&r.batches)),
                Err(e) => base.push(json!({"err": e.to_string().chars().take(80).collect::<String>()})),
            }
        }
        json!({"ok": {"shards": shards, "base": base}})
    });
    let _ = std::fs::remove_dir_all(&root);
    out
}

pub fn run_case(c: &mut Value) -> Value {
    match c["kind"].as_str().unwrap_or("") { "shards" => run_shards(c), _ => json!({"bad_case": true}) }
}

fn gen_filter_on(r: &mut Rng, col: &str, nrows: u64) -> Value {
    let c = match col { "k" => r.range(-2, nrows as i64 + 2), "w" => 1_000_000 + 3 * r.range(-2, nrows as i64 + 2) + r.range(0, 2), _ => r.range(-4, 13) };
    let op = *r.pick(&["<", "<=", "=", ">=", ">", "<>", "between", "isnull", "notnull", "<=", ">="]);
    let d = c + match col { "k" => r.range(-1, (nrows / 2) as i64 + 1), "w" => r.range(-1, 3 * (nrows / 2) as i64 + 1), _ => r.range(-1, 6) };
    json!({"col": col, "op": op, "c": c, "d": d})
}

/// a non-empty sub-sequence of (k, v, w), possibly permuted
fn gen_cols(r: &mut Rng, permute: bool) -> Vec<&'static str> {
    let all = ["k", "v", "w"];
    loop {
        let mut c: Vec<&'static str> = all.iter().copied().filter(|_| r.chance(1, 2)).collect();
        if c.is_empty() { continue; }
        if permute { r.shuffle(&mut c); }
        return c;
    }
}

fn gen_query(r: &mut Rng, nrows: u64) -> Value {
    match r.below(10) {
        // the shape that moves the filter column: project a sub-sequence that skips an earlier column, filter on a projected column
        0..=4 => {
            let cols: Vec<&'static str> = match r.below(6) { 0 => vec!["v"], 1 => vec!["w"], 2 => vec!["v", "w"], 3 => vec!["w", "v"], 4 => vec!["w", "k"], _ => vec!["k", "w"] };
            let moved: Vec<&&str> = cols.iter().filter(|c| { let i = col_index(c); (0..i).any(|j| !cols.iter().any(|x| col_index(x) == j)) }).collect();
            let fc = if moved.is_empty() { cols[0] } else { **r.pick(&moved) };
            json!({"cols": cols, "filter": gen_filter_on(r, fc, nrows)})
        }
        5 | 6 => { let cols = gen_cols(r, true); let fc = *r.pick(&["k", "v", "w"]); json!({"cols": cols, "filter": gen_filter_on(r, fc, nrows)}) }
        7 => json!({"cols": gen_cols(r, true), "filter": null}),
        _ => { let cols = gen_cols(r, false); let fc = *r.pick(&cols); json!({"cols": cols, "filter": gen_filter_on(r, fc, nrows)}) }
    }
}

fn gen_shards(r: &mut Rng, id: u64) -> Value {
    let nf = 1 + match r.below(6) { 0 | 1 => 0, 2 | 3 => 1, _ => 1 + r.below(3) } as usize;
    let pool = ["a.parquet", "b.parquet", "part-0.parquet", "part-00.parquet", "part-1.parquet", "A.parquet", "aa.parquet", "ab.parquet", "z9.parquet"];
    let mut names: Vec<String> = vec![];
    while names.len() < nf { let n = (*r.pick(&pool)).to_string(); if !names.contains(&n) { names.push(n); } }
    let mut total = 0u64;
    let files: Vec<Value> = names.iter().map(|n| {
        let mut rows: Vec<u64> = gen_rows(r).into_iter().map(|x| x.min(300)).collect();
        if rows.iter().sum::<u64>() == 0 { rows.push(1 + r.below(50)); }
        total += rows.iter().sum::<u64>();
        json!({"name": bytes_json(n.as_bytes()), "rows": rows, "pad": *r.pick(&[0u64, 0, 8, 64]), "seed": r.below(1 << 30), "junk": false})
    }).collect();
    let nodes = match r.below(8) { 0 => 0, 1 => 1, 2 => 12 + r.below(20), _ => 2 + r.below(7) };
    let mut queries = vec![json!({"cols": ["k", "v", "w"], "filter": null})];
    for _ in 0..(2 + r.below(4)) { queries.push(gen_query(r, total)); }
    json!({"kind": "shards", "id": id, "table": *r.pick(&["t", "lineitem"]), "nodes": nodes, "files": files, "queries": queries})
}

pub fn main(o: &Opts) {
    if let Some(p) = &o.replay { for mut c in replay_cases(p) { let i = run_case(&mut c); emit(c, i); } return; }
    let mut r = Rng::new(o.seed ^ 0xC13);
    for n in 0..o.cases {
        let mut c = gen_shards(&mut r, n as u64);
        let i = run_case(&mut c);
        emit(c, i);
    }
}
