// FAMILY: C13
//! C13: shard scans reassemble the table — `splits_of` + `assign_lpt` + `shard_context` for EVERY shard index, on REAL Parquet tables.
//! Case {"kind":"shards","id","table":"t","nodes":N,"files":[recipe + derived "rgs"],"vals":[v|null for k = 0..n-1] (derived),
//!       "queries":[{"cols":["k","v"],"filter":null|{"col","op","c","d"}}]}
//! Impl {"ok":{"shards":[{"stats":{"bytes","rows","splits"},"raw":[k..] (provider.scan(Some([0]))),"files_none":bool,
//!                        "answers":[[[k,v|null],..] per query, sorted by k]}]}} | {"err":kind}
use crate::common::*;
use crate::fams::fam_c11::{gen_rows, row_values, scratch};
use crate::fams::fam_c14::{err_kind, keys_of, rt, write_copy};
use crate::rng::Rng;
use arrow::array::{Array, Int64Array};
use query_engine::distributed::coordinator::{shard_context, splits_of};
use query_engine::distributed::assign_lpt;
use query_engine::ExecutionContext;
use serde_json::{json, Value};

pub fn pred_sql(f: &Value) -> String {
    let col = f["col"].as_str().unwrap_or("k");
    let (c, d) = (f["c"].as_i64().unwrap_or(0), f["d"].as_i64().unwrap_or(0));
    match f["op"].as_str().unwrap_or("=") {
        "isnull" => format!("{col} IS NULL"),
        "notnull" => format!("{col} IS NOT NULL"),
        "between" => format!("{col} BETWEEN {c} AND {d}"),
        op => format!("{col} {op} {c}"),
    }
}

pub fn query_sql(table: &str, q: &Value) -> String {
    let cols: Vec<String> = q["cols"].as_array().map(|a| a.iter().map(|x| x.as_str().unwrap_or("k").to_string()).collect()).unwrap_or_else(|| vec!["k".into()]);
    let mut s = format!("SELECT {} FROM {table}", cols.join(", "));
    if !q["filter"].is_null() { s.push_str(" WHERE "); s.push_str(&pred_sql(&q["filter"])); }
    s
}

/// rows of a result as [k, v|null], sorted by k; `cols` says where k and v sit
fn rows_kv(batches: &[arrow::record_batch::RecordBatch], cols: &[String]) -> Value {
    let ki = cols.iter().position(|c| c == "k");
    let vi = cols.iter().position(|c| c == "v");
    let mut out: Vec<(i64, Option<i64>)> = vec![];
    for b in batches {
        if b.num_rows() == 0 { continue; }
        let ka = ki.and_then(|i| b.column(i).as_any().downcast_ref::<Int64Array>().cloned());
        let va = vi.and_then(|i| b.column(i).as_any().downcast_ref::<Int64Array>().cloned());
        for r in 0..b.num_rows() {
            let k = ka.as_ref().map(|a| a.value(r)).unwrap_or(-1);
            let v = va.as_ref().and_then(|a| if a.is_valid(r) { Some(a.value(r)) } else { None });
            out.push((k, v));
        }
    }
    out.sort();
    Value::Array(out.into_iter().map(|(k, v)| json!([k, v])).collect())
}

fn run_shards(c: &mut Value) -> Value {
    let root = scratch().join(format!("c13-{}", c["id"].as_u64().unwrap_or(0)));
    let _ = std::fs::remove_dir_all(&root);
    let table = c["table"].as_str().unwrap_or("t").to_string();
    let nodes = c["nodes"].as_u64().unwrap_or(1) as usize;
    let dir = root.join("tbl");
    let mut files = c["files"].clone();
    let _ = write_copy(&mut files, &dir);
    c["files"] = files.clone();
    // the table's v column, by key (keys are handed out file by file in recipe order)
    let mut vals = vec![];
    let mut k: i64 = 0;
    for f in files.as_array().cloned().unwrap_or_default() {
        let n: u64 = f["rows"].as_array().map(|a| a.iter().map(|x| x.as_u64().unwrap_or(0)).sum()).unwrap_or(0);
        for _ in 0..n { let (_, v, _) = row_values(f["seed"].as_u64().unwrap_or(0), k, f["pad"].as_u64().unwrap_or(0) as usize); vals.push(json!(v)); k += 1; }
    }
    c["vals"] = Value::Array(vals);
    let queries = c["queries"].as_array().cloned().unwrap_or_default();
    let out = guarded(move || {
        let mut ctx = ExecutionContext::new();
        if let Err(e) = ctx.register_parquet(&table, &dir) { return json!({"err": "register", "detail": err_kind(&e.to_string())}); }
        let set = match splits_of(&ctx, &table, nodes) { Ok(s) => s, Err(e) => return json!({"err": err_kind(&e.to_string())}) };
        let assignment = assign_lpt(&set, nodes);
        let runtime = rt();
        let mut shards = vec![];
        for i in 0..assignment.nodes {
            let (sctx, st) = match shard_context(&ctx, &table, &set, &assignment, i) { Ok(x) => x, Err(e) => return json!({"err": err_kind(&e.to_string()), "shard": i}) };
            let prov = sctx.table_provider(&table).expect("sharded provider");
            let raw = match prov.scan(Some(&[0])) { Ok(b) => json!(keys_of(&b)), Err(e) => json!({"err": e.to_string().chars().take(60).collect::<String>()}) };
            let files_none = prov.parquet_files().is_none();
            let mut answers = vec![];
            for q in &queries {
                let cols: Vec<String> = q["cols"].as_array().map(|a| a.iter().map(|x| x.as_str().unwrap_or("k").to_string()).collect()).unwrap_or_default();
                match runtime.block_on(sctx.sql(&query_sql(&table, q))) {
                    Ok(r) => answers.push(rows_kv(&r.batches, &cols)),
                    Err(e) => answers.push(json!({"err": e.to_string().chars().take(80).collect::<String>()})),
                }
            }
            shards.push(json!({"stats": {"bytes": st.bytes, "rows": st.rows, "splits": st.splits}, "raw": raw, "files_none": files_none, "answers": answers}));
        }
        json!({"ok": {"shards": shards}})
    });
    let _ = std::fs::remove_dir_all(&root);
    out
}

pub fn run_case(c: &mut Value) -> Value {
    match c["kind"].as_str().unwrap_or("") { "shards" => run_shards(c), _ => json!({"bad_case": true}) }
}

fn gen_filter(r: &mut Rng, nrows: u64) -> Value {
    let on_k = r.chance(1, 2);
    let col = if on_k { "k" } else { "v" };
    let c = if on_k { r.range(-2, nrows as i64 + 2) } else { r.range(-4, 13) };
    let op = *r.pick(&["<", "<=", "=", ">=", ">", "<>", "between", "isnull", "notnull"]);
    let d = c + r.range(-1, if on_k { (nrows / 2) as i64 + 1 } else { 6 });
    json!({"col": col, "op": op, "c": c, "d": d})
}

fn gen_shards(r: &mut Rng, id: u64) -> Value {
    let nf = 1 + match r.below(6) { 0 | 1 => 0, 2 | 3 => 1, _ => 1 + r.below(3) } as usize;
    let pool = ["a.parquet", "b.parquet", "part-0.parquet", "part-00.parquet", "part-1.parquet", "A.parquet", "aa.parquet", "ab.parquet", "z9.parquet"];
    let mut names: Vec<String> = vec![];
    while names.len() < nf { let n = (*r.pick(&pool)).to_string(); if !names.contains(&n) { names.push(n); } }
    let mut total = 0u64;
    let files: Vec<Value> = names.iter().map(|n| {
        let mut rows: Vec<u64> = gen_rows(r).into_iter().map(|x| x.min(300)).collect();
        if rows.iter().sum::<u64>() == 0 { rows.push(1 + r.below(50)); }
        total += rows.iter().sum::<u64>();
        json!({"name": bytes_json(n.as_bytes()), "rows": rows, "pad": *r.pick(&[0u64, 0, 8, 64]), "seed": r.below(1 << 30), "junk": false})
    }).collect();
    let nodes = match r.below(8) { 0 => 0, 1 => 1, 2 => 12 + r.below(20), _ => 2 + r.below(7) };
    let mut queries = vec![json!({"cols": ["k", "v"], "filter": null})];
    for _ in 0..(1 + r.below(3)) {
        let cols = match r.below(4) { 0 => json!(["k"]), 1 => json!(["v", "k"]), _ => json!(["k", "v"]) };
        queries.push(json!({"cols": cols, "filter": gen_filter(r, total)}));
    }
    json!({"kind": "shards", "id": id, "table": *r.pick(&["t", "lineitem"]), "nodes": nodes, "files": files, "queries": queries})
}

pub fn main(o: &Opts) {
    if let Some(p) = &o.replay { for mut c in replay_cases(p) { let i = run_case(&mut c); emit(c, i); } return; }
    let mut r = Rng::new(o.seed ^ 0xC13);
    for n in 0..o.cases {
        let mut c = gen_shards(&mut r, n as u64);
        let i = run_case(&mut c);
        emit(c, i);
    }
}
