// FAMILY: C16
//! C16: `distributed::http_client::parse_response` through the `verif_parse_response` hook, and the public async
//! `request` / `get` / `post_json` against a scripted TCP server that sends a prefix of a response and closes
//! (or stalls) — every truncation point of short responses, random ones of longer responses.
//!
//! Cases (bytes are arrays of 0..255; `full` describes the response the generator rendered):
//!   {"kind":"parse","sub":"rendered"|"cut"|"soup","raw":..,"full":{"status":n,"headers":[[k,v]..],"body":..,"cl":bool}?,"cut":n?,"len":L?}
//!   {"kind":"sock","api":"get"|"post_json"|"request","raw":<full bytes>,"full":..,"cut":n,"len":L,"stall":bool}
//! Output: {"ok":{"status":n,"headers":[[kcodepoints,vcodepoints]..],"body":..}} | {"err":"InvalidData"|"UnexpectedEof"|"TimedOut"|..}
//!         | {"panic":msg} | {"hang":true}
use crate::common::*;
use crate::rng::Rng;
use query_engine::distributed::http_client::{self, verif_parse_response, HttpResponse};
use serde_json::{json, Value};
use std::io::{Read, Write};
use std::time::Duration;

fn cps(s: &str) -> Value { Value::Array(s.chars().map(|c| json!(c as u32)).collect()) }

fn canon(r: std::io::Result<HttpResponse>) -> Value {
    match r {
        Ok(h) => json!({"ok": {"status": h.status,
                               "headers": h.headers.iter().map(|(k, v)| json!([cps(k), cps(v)])).collect::<Vec<_>>(),
                               "body": bytes_json(&h.body)}}),
        Err(e) => json!({"err": format!("{:?}", e.kind())}),
    }
}

struct Full { status_text: String, status: u64, reason: String, headers: Vec<(String, String)>, body: Vec<u8>, cl: bool }

fn case_mix(r: &mut Rng, s: &str) -> String {
    match r.below(4) { 0 => s.to_ascii_lowercase(), 1 => s.to_ascii_uppercase(), _ => s.to_string() }
}

fn gen_full(r: &mut Rng) -> Full {
    let status = *r.pick(&[200u64, 200, 200, 204, 404, 500, 503, 99, 1000, 65535, 0, 7]);
    let status_text = match r.below(8) { 0 => format!("0{status}"), 1 => format!("000{status}"), _ => status.to_string() };
    let reason = r.pick(&["OK", "OK", "Not Found", "", "Service Unavailable", "I'm a teapot: short", "No Content"]).to_string();
    let n = match r.below(10) { 0 => 0, 1 => 1, 2..=7 => r.below(24), _ => r.below(200) } as usize;
    let mode = r.below(3);
    let body: Vec<u8> = (0..n).map(|_| match mode {
        0 => r.below(256) as u8,
        1 => *r.pick(&[b'\r', b'\n', b'\r', b'\n', b':', b'a', b' ']),
        _ => b' ' + r.below(95) as u8,
    }).collect();
    let pool = [("Content-Type", "application/json"), ("X-QE-Rows", "42"), ("x-qe-elapsed-ms", "3"), ("Server", "qe: v1"), ("X-Empty", ""),
                ("Date", "Mon, 21 Sep 2026 10:00:00 GMT"), ("X-Note", "a  b\tc"), ("Connection", "close")];
    let mut headers: Vec<(String, String)> = vec![];
    for _ in 0..r.below(4) { let (k, v) = *r.pick(&pool); headers.push((case_mix(r, k), v.to_string())); }
    let cl = r.chance(3, 4);
    if cl {
        let v = match r.below(10) { 0 => format!("+{}", body.len()), 1 => format!("00{}", body.len()), _ => body.len().to_string() };
        let at = r.below(headers.len() as u64 + 1) as usize;
        headers.insert(at, (case_mix(r, "Content-Length"), v));
    }
    Full { status_text, status, reason, headers, body, cl }
}

fn render(f: &Full) -> Vec<u8> {
    let mut out = format!("HTTP/1.1 {} {}", f.status_text, f.reason).into_bytes();
    for (k, v) in &f.headers { out.extend(format!("\r\n{k}: {v}").into_bytes()); }
    out.extend(b"\r\n\r\n");
    out.extend(&f.body);
    out
}

fn full_json(f: &Full) -> Value {
    json!({"status": f.status, "headers": f.headers.iter().map(|(k, v)| json!([k, v])).collect::<Vec<_>>(), "body": bytes_json(&f.body), "cl": f.cl})
}

fn soup(r: &mut Rng) -> Value {
    let toks: [&[u8]; 44] = [b"HTTP/1.1", b" ", b" ", b"200", b"\r\n", b"\r\n", b"\n", b"\r", b":", b": ", b"Content-Length", b"content-length: 5", b"Content-Length: abc",
        b"Content-Length: +3", b"Content-Length:  7 ", b"Content-Length: 99999999999999999999999", b"Content-Length: 18446744073709551615", b"CONTENT-LENGTH:0",
        b"\r\n\r\n", b"\r\n\r\n", b"\xff", b"\xc3\x28", b"\xe2\x82", b"\xf0\x9f\x98\x80", "\u{a0}".as_bytes(), "\u{3000}200".as_bytes(), b"65535", b"65536", b"+200", b"-1",
        b"x", b"body", b"OK", b"\t", b"X-K: v", b"\xed\xa0\x80", b"\xf4\x90", b"\xc0\xaf", b"Content-Length: -1", b"content-length: 2", "Content-Length: \u{a0}3".as_bytes(),
        b"Content-Length : 4", b"K\xffEY: \xe2\x82v", b"0"];
    let mut raw = vec![];
    if r.chance(1, 2) { raw.extend(b"HTTP/1.1 200 OK\r\n"); }
    for _ in 0..r.below(10) { raw.extend(*r.pick(&toks)); }
    if r.chance(1, 2) { raw.extend(b"\r\n\r\n"); for _ in 0..r.below(8) { raw.push(r.below(256) as u8); } }
    json!({"kind":"parse","sub":"soup","raw":bytes_json(&raw)})
}

fn parse_case(f: &Full, raw: &[u8], cut: usize) -> Value {
    json!({"kind":"parse","sub": if cut == raw.len() { "rendered" } else { "cut" }, "raw": bytes_json(&raw[..cut]), "full": full_json(f), "cut": cut, "len": raw.len()})
}

fn sock_case(r: &mut Rng, f: &Full, raw: &[u8], cut: usize, stall: bool) -> Value {
    let api = *r.pick(&["get", "post_json", "request"]);
    json!({"kind":"sock","api":api,"raw":bytes_json(raw),"full":full_json(f),"cut":cut,"len":raw.len(),"stall":stall})
}

/// Scripted server: accept one connection, read the whole request, send `payload`, then close — or keep the
/// connection open without sending anything more (`stall`).
fn serve_once(payload: Vec<u8>, stall: bool) -> (String, std::thread::JoinHandle<()>) {
    let l = std::net::TcpListener::bind("127.0.0.1:0").expect("bind");
    let addr = l.local_addr().unwrap().to_string();
    let h = std::thread::spawn(move || {
        if let Ok((mut s, _)) = l.accept() {
            let _ = s.set_read_timeout(Some(Duration::from_secs(5)));
            let _ = s.set_nodelay(true);
            let mut req: Vec<u8> = vec![];
            let mut buf = [0u8; 1024];
            let mut need: Option<usize> = None;
            loop {
                if need.is_none() {
                    if let Some(p) = req.windows(4).position(|w: &[u8]| w == b"\r\n\r\n") {
                        let head = String::from_utf8_lossy(&req[..p]).to_ascii_lowercase();
                        let cl = head.lines().find_map(|l| l.strip_prefix("content-length:").and_then(|v| v.trim().parse::<usize>().ok())).unwrap_or(0);
                        need = Some(p + 4 + cl);
                    }
                }
                if let Some(n) = need { if req.len() >= n { break; } }
                match s.read(&mut buf) { Ok(0) | Err(_) => break, Ok(n) => req.extend(&buf[..n]) }
            }
            let _ = s.write_all(&payload);
            let _ = s.flush();
            if stall { std::thread::sleep(Duration::from_millis(600)); }
            let _ = s.shutdown(std::net::Shutdown::Both);
        }
    });
    (addr, h)
}

pub fn run_case(c: &Value) -> Value {
    let raw = json_bytes(&c["raw"]);
    if c["kind"] == "sock" {
        let cut = c["cut"].as_u64().unwrap_or(0) as usize;
        let stall = c["stall"].as_bool().unwrap_or(false);
        let api = c["api"].as_str().unwrap_or("get").to_string();
        let (addr, h) = serve_once(raw[..cut.min(raw.len())].to_vec(), stall);
        let timeout = if stall { Duration::from_millis(150) } else { Duration::from_secs(5) };
        let out = guarded(std::panic::AssertUnwindSafe(move || {
            let rt = tokio::runtime::Builder::new_current_thread().enable_all().build().expect("runtime");
            rt.block_on(async move {
                let call = async {
                    match api.as_str() {
                        "get" => http_client::get(&addr, "/healthz", timeout).await,
                        "post_json" => http_client::post_json(&addr, "/fragment", b"{\"q\":\"select 1\"}", timeout).await,
                        _ => http_client::request(&addr, "PUT", "/x?y=1", Some("text/plain"), Some(b"abc"), timeout).await,
                    }
                };
                // the client's own timeout must fire; a call still pending long after it is a hang
                match tokio::time::timeout(timeout + Duration::from_secs(3), call).await {
                    Ok(r) => canon(r),
                    Err(_) => json!({"hang": true}),
                }
            })
        }));
        let _ = h.join();
        return out;
    }
    guarded(move || canon(verif_parse_response(&raw)))
}

pub fn main(o: &Opts) {
    if let Some(p) = &o.replay { for c in replay_cases(p) { let i = run_case(&c); emit(c, i); } return; }
    let mut r = Rng::new(o.seed ^ 0xC16);
    let mut n = 0usize;
    let mut stalls = 0usize;
    let out = |c: Value, n: &mut usize| { let i = run_case(&c); emit(c, i); *n += 1; };
    // shares by number of emitted cases: soup 25 %, parse (complete + truncations) 50 %, socket 25 %
    let (mut n_soup, mut n_parse, mut n_sock) = (0usize, 0usize, 0usize);
    while n < o.cases {
        let before = n;
        let which = if n_soup * 4 <= n { 0 } else if n_sock * 4 <= n { 2 } else { 1 };
        match which {
            0 => out(soup(&mut r), &mut n),
            1 => {
                let f = gen_full(&mut r);
                let raw = render(&f);
                out(parse_case(&f, &raw, raw.len()), &mut n);
                if raw.len() <= 160 && r.chance(1, 3) {
                    for cut in 0..raw.len() { if n < o.cases { out(parse_case(&f, &raw, cut), &mut n); } }   // every truncation point
                } else {
                    for _ in 0..3 { let cut = r.below(raw.len() as u64) as usize; if n < o.cases { out(parse_case(&f, &raw, cut), &mut n); } }
                }
            }
            _ => {
                let f = gen_full(&mut r);
                let raw = render(&f);
                out(sock_case(&mut r, &f, &raw, raw.len(), false), &mut n);
                if raw.len() <= 90 && r.chance(1, 4) {
                    for cut in 0..raw.len() { if n < o.cases { out(sock_case(&mut r, &f, &raw, cut, false), &mut n); } }    // every truncation point, over the socket
                } else {
                    for _ in 0..2 { let cut = r.below(raw.len() as u64) as usize; if n < o.cases { out(sock_case(&mut r, &f, &raw, cut, false), &mut n); } }
                }
                if stalls < 12 && r.chance(1, 6) && n < o.cases {
                    stalls += 1;
                    let cut = r.below(raw.len() as u64 + 1) as usize;
                    out(sock_case(&mut r, &f, &raw, cut, true), &mut n);
                }
            }
        }
        match which { 0 => n_soup += n - before, 1 => n_parse += n - before, _ => n_sock += n - before }
    }
    let _ = n_parse;
}
