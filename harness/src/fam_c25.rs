// FAMILY: C25
//! C25: ORDER BY / LIMIT / OFFSET.
//!   limit_op  LimitExec(skip, fetch) over an operator with CHOSEN partitions × batches; observes rows and how many input partitions were opened
//!   sort_op   SortExec::new / with_fetch over chosen partitions × batches (nullable int / float / string / date / bool keys, multi-key, DESC, NULLS FIRST)
//!   sql       SELECT * FROM t ORDER BY … LIMIT … OFFSET … through ExecutionContext::sql, every (LIMIT, OFFSET) ∈ {0,1,n−1,n,n+1,big}² in turn
use crate::common::*;
use crate::fams::fam_sql::sqlgen::catalog::{gen_catalog, small_value, CatOpts, Catalog, ColSpec, TableSpec};
use crate::fams::fam_sql::sqlgen::exec::{batch_rows, err_kind, run, runtime, ExecCfg};
use crate::fams::fam_sql::sqlgen::{rows_from_json, rows_json, ColTy, Val};
use crate::rng::Rng;
use arrow::array::{ArrayRef, Int64Array};
use arrow::datatypes::{DataType, Field, Schema, SchemaRef};
use arrow::record_batch::RecordBatch;
use async_trait::async_trait;
use futures::TryStreamExt;
use query_engine::physical::{LimitExec, PhysicalOperator, RecordBatchStream, SortExec};
use query_engine::planner::{Expr, NullOrdering, SortDirection, SortExpr};
use serde_json::{json, Value};
use std::sync::atomic::{AtomicUsize, Ordering};
use std::sync::Arc;

/// An input operator with exactly the partitions × batches it is given; counts `execute` calls.
#[derive(Debug)]
struct PartsExec { schema: SchemaRef, parts: Vec<Vec<RecordBatch>>, opened: Arc<AtomicUsize> }

#[async_trait]
impl PhysicalOperator for PartsExec {
    fn schema(&self) -> SchemaRef { self.schema.clone() }
    fn children(&self) -> Vec<Arc<dyn PhysicalOperator>> { vec![] }
    async fn execute(&self, partition: usize) -> query_engine::Result<RecordBatchStream> {
        self.opened.fetch_add(1, Ordering::SeqCst);
        let bs = self.parts.get(partition).cloned().unwrap_or_default();
        Ok(Box::pin(futures::stream::iter(bs.into_iter().map(Ok))))
    }
    fn output_partitions(&self) -> usize { self.parts.len() }
    fn name(&self) -> &str { "PartsExec" }
}

fn outcome<T>(r: Result<Result<T, query_engine::QueryError>, Box<dyn std::any::Any + Send>>, ok: impl FnOnce(T) -> Value) -> Value {
    match r {
        Ok(Ok(v)) => json!({"ok": ok(v)}),
        Ok(Err(e)) => json!({"err": err_kind(&e), "msg": e.to_string().chars().take(200).collect::<String>()}),
        Err(p) => {
            let msg = if let Some(s) = p.downcast_ref::<&str>() { s.to_string() } else if let Some(s) = p.downcast_ref::<String>() { s.clone() } else { "panic".into() };
            json!({"panic": msg.chars().take(200).collect::<String>()})
        }
    }
}

// ---------------------------------------------------------------- limit_op
fn gen_limit_op(r: &mut Rng) -> Value {
    let nparts = *r.pick(&[1usize, 1, 2, 3, 5]);
    let mut parts: Vec<Vec<usize>> = vec![];
    for _ in 0..nparts {
        let nb = r.below(4) as usize; // a partition may have no batch at all
        parts.push((0..nb).map(|_| *r.pick(&[0usize, 1, 1, 2, 3, 5, 8, 13])).collect());
    }
    let n: usize = parts.iter().flatten().sum();
    let pts = |r: &mut Rng| -> usize {
        let c = [0usize, 1, n.saturating_sub(1), n, n + 1, n / 2, 2 * n + 3, r.below(n as u64 + 2) as usize];
        *r.pick(&c)
    };
    let skip = pts(r);
    let fetch = if r.chance(1, 5) { None } else { Some(pts(r)) };
    json!({"kind": "limit_op", "skip": skip, "fetch": fetch, "parts": parts})
}

fn run_limit_op(c: &Value) -> Value {
    let skip = c["skip"].as_u64().unwrap_or(0) as usize;
    let fetch = c["fetch"].as_u64().map(|x| x as usize);
    let lens: Vec<Vec<usize>> = c["parts"].as_array().map(|a| a.iter().map(|p| p.as_array().map(|b| b.iter().map(|x| x.as_u64().unwrap_or(0) as usize).collect()).unwrap_or_default()).collect()).unwrap_or_default();
    let schema: SchemaRef = Arc::new(Schema::new(vec![Field::new("i", DataType::Int64, false)]));
    let mut at = 0i64;
    let parts: Vec<Vec<RecordBatch>> = lens.iter().map(|p| p.iter().map(|&l| {
        let a: ArrayRef = Arc::new(Int64Array::from((at..at + l as i64).collect::<Vec<_>>()));
        at += l as i64;
        RecordBatch::try_new(schema.clone(), vec![a]).expect("batch")
    }).collect()).collect();
    let opened = Arc::new(AtomicUsize::new(0));
    let input = Arc::new(PartsExec { schema, parts, opened: opened.clone() });
    let res = std::panic::catch_unwind(std::panic::AssertUnwindSafe(|| {
        runtime().block_on(async {
            let op = LimitExec::new(input, skip, fetch);
            let s = op.execute(0).await?;
            let bs: Vec<RecordBatch> = s.try_collect().await?;
            Ok(bs)
        })
    }));
    outcome(res, |bs: Vec<RecordBatch>| {
        let mut rows: Vec<i64> = vec![];
        for b in &bs { let a = b.column(0).as_any().downcast_ref::<Int64Array>().unwrap(); rows.extend(a.values().iter().copied()); }
        json!({"rows": rows, "opened": opened.load(Ordering::SeqCst), "batches": bs.iter().map(|b| b.num_rows()).collect::<Vec<_>>()})
    })
}

// ---------------------------------------------------------------- sort_op
fn key_table(r: &mut Rng) -> TableSpec {
    let pool = [ColTy::I64, ColTy::I32, ColTy::F64, ColTy::Str, ColTy::Date, ColTy::Bool];
    let nc = 1 + r.below(3) as usize;
    let mut cols = vec![ColSpec { name: "id".into(), cty: ColTy::I64, null_pct: 0, boundary: false, special: false, unique: true }];
    for c in 0..nc {
        cols.push(ColSpec { name: format!("k{}", c), cty: *r.pick(&pool), null_pct: *r.pick(&[0u8, 10, 50, 100]), boundary: false, special: false, unique: false });
    }
    let n = *r.pick(&[0usize, 1, 2, 3, 5, 9, 17, 40]);
    let doms: Vec<u64> = cols.iter().map(|_| *r.pick(&[2u64, 3, 4, 8])).collect();
    let mut ids: Vec<i64> = (0..n as i64).collect();
    r.shuffle(&mut ids);
    let rows = (0..n).map(|i| {
        let mut row = vec![Val::I(ids[i])];
        for (ci, cs) in cols.iter().enumerate().skip(1) {
            row.push(if r.below(100) < cs.null_pct as u64 { Val::Null } else { small_value(r, cs.cty, doms[ci]) });
        }
        row
    }).collect();
    TableSpec { cluster: None, name: "t".into(), cols, rows, cuts: vec![] }
}

fn gen_sort_op(r: &mut Rng) -> Value {
    let t = key_table(r);
    let n = t.rows.len();
    // cut the rows into partitions × batches (empty batches and empty partitions included)
    let nparts = *r.pick(&[1usize, 1, 2, 3]);
    let mut parts: Vec<Vec<Vec<Vec<Val>>>> = vec![vec![]; nparts];
    let mut at = 0;
    while at < n {
        let l = (1 + r.below(6) as usize).min(n - at);
        let p = r.below(nparts as u64) as usize;
        parts[p].push(t.rows[at..at + l].to_vec());
        at += l;
    }
    if r.chance(1, 4) { let p = r.below(nparts as u64) as usize; parts[p].push(vec![]); }
    let nk = 1 + r.below((t.cols.len() - 1).min(3) as u64) as usize;
    let mut cols: Vec<usize> = (1..t.cols.len()).collect();
    r.shuffle(&mut cols);
    let mut keys: Vec<Value> = cols.iter().take(nk).map(|&c| json!({"col": c, "desc": r.chance(1, 2), "nf": r.chance(1, 2)})).collect();
    if r.chance(1, 3) { keys.push(json!({"col": 0, "desc": r.chance(1, 2), "nf": false})); } // unique tie-breaker: total order
    let fetch = if r.chance(1, 2) { None } else { Some(*r.pick(&[0usize, 1, 2, n.saturating_sub(1), n, n + 1, n / 2])) };
    json!({"kind": "sort_op", "keys": keys, "fetch": fetch,
           "cols": t.cols.iter().map(|c| json!({"name": c.name, "ty": c.cty.name()})).collect::<Vec<_>>(),
           "parts": parts.iter().map(|p| p.iter().map(|b| rows_json(b)).collect::<Vec<_>>()).collect::<Vec<_>>()})
}

fn run_sort_op(c: &Value) -> Value {
    let empty = vec![];
    let cols: Vec<ColSpec> = c["cols"].as_array().unwrap_or(&empty).iter().map(|x| ColSpec {
        name: x["name"].as_str().unwrap_or("c").into(), cty: ColTy::parse(x["ty"].as_str().unwrap_or("i64")).unwrap_or(ColTy::I64),
        null_pct: 0, boundary: false, special: false, unique: false }).collect();
    let t = TableSpec { cluster: None, name: "t".into(), cols, rows: vec![], cuts: vec![] };
    let parts: Vec<Vec<RecordBatch>> = c["parts"].as_array().unwrap_or(&empty).iter()
        .map(|p| p.as_array().unwrap_or(&empty).iter().map(|b| t.batch_of(&rows_from_json(b))).collect()).collect();
    let order: Vec<SortExpr> = c["keys"].as_array().unwrap_or(&empty).iter().map(|k| SortExpr {
        expr: Expr::column(t.cols[k["col"].as_u64().unwrap_or(0) as usize].name.clone()),
        direction: if k["desc"].as_bool().unwrap_or(false) { SortDirection::Desc } else { SortDirection::Asc },
        nulls: if k["nf"].as_bool().unwrap_or(false) { NullOrdering::NullsFirst } else { NullOrdering::NullsLast } }).collect();
    let fetch = c["fetch"].as_u64().map(|x| x as usize);
    let input = Arc::new(PartsExec { schema: t.schema(), parts, opened: Arc::new(AtomicUsize::new(0)) });
    let res = std::panic::catch_unwind(std::panic::AssertUnwindSafe(|| {
        runtime().block_on(async {
            let op = match fetch { Some(k) => SortExec::with_fetch(input, order, k), None => SortExec::new(input, order) };
            let s = op.execute(0).await?;
            let bs: Vec<RecordBatch> = s.try_collect().await?;
            Ok(bs)
        })
    }));
    outcome(res, |bs: Vec<RecordBatch>| { let mut rows = vec![]; for b in &bs { batch_rows(b, &mut rows); } rows_json(&rows) })
}

// ---------------------------------------------------------------- sql
fn order_sql(t: &TableSpec, keys: &[(usize, bool, Option<bool>)]) -> String {
    keys.iter().map(|(c, d, nf)| format!("{}{}{}", t.cols[*c].name, if *d { " DESC" } else { " ASC" },
        match nf { Some(true) => " NULLS FIRST", Some(false) => " NULLS LAST", None => "" })).collect::<Vec<_>>().join(", ")
}

/// every (LIMIT, OFFSET) pair of the boundary grid in turn; `n` counts generated sql cases
fn gen_sql(r: &mut Rng, cat: &Catalog, n: usize, cfg: &ExecCfg) -> Value {
    let t = &cat.tables[0];
    let rows = t.rows.len();
    let grid = |i: usize| -> Option<usize> { match i % 7 { 0 => None, 1 => Some(0), 2 => Some(1), 3 => Some(rows.saturating_sub(1)), 4 => Some(rows), 5 => Some(rows + 1), _ => Some(rows / 2) } };
    let limit = grid(n);
    let offset = grid(n / 7 + 3);
    let nk = 1 + r.below(t.cols.len().min(3) as u64) as usize;
    let mut cols: Vec<usize> = (1..t.cols.len()).collect();
    r.shuffle(&mut cols);
    let mut keys: Vec<(usize, bool, Option<bool>)> = cols.iter().take(nk).map(|&c| (c, r.chance(1, 2), *r.pick(&[None, Some(true), Some(false)]))).collect();
    if keys.is_empty() || r.chance(1, 3) { keys.push((0, r.chance(1, 2), None)); }
    let mut sql = format!("SELECT * FROM {}", t.name);
    let no_order = r.chance(1, 12) && (limit.is_some() || offset.is_some());
    if !no_order { sql.push_str(&format!(" ORDER BY {}", order_sql(t, &keys))); }
    if let Some(l) = limit { sql.push_str(&format!(" LIMIT {}", l)); }
    if let Some(o) = offset { sql.push_str(&format!(" OFFSET {}", o)); }
    let keyj: Vec<Value> = keys.iter().map(|(c, d, nf)| json!({"e": {"col": c}, "desc": d, "nf": nf.unwrap_or(false)})).collect();
    let mut plan = json!({"scan": 0});
    if !no_order { plan = json!({"sort": {"keys": keyj, "q": plan}}); }
    if limit.is_some() || offset.is_some() { plan = json!({"limit": {"skip": offset.unwrap_or(0), "fetch": limit, "q": plan}}); }
    let special = t.cols.iter().enumerate().any(|(i, c)| c.special && keys.iter().any(|k| k.0 == i));
    json!({"kind": "sql", "prop": "C25", "mode": "spec", "sql": sql, "plan": plan, "tables": cat.tables_json(), "cat": cat.meta_json(),
           "tags": [if no_order { "no_order" } else { "order" }, if limit.is_some() { "limit" } else { "nolimit" }, if offset.is_some() { "offset" } else { "nooffset" }],
           "engine_defined": special, "strict_err": true, "cfg": cfg.name})
}

fn run_sql(c: &Value) -> Value {
    let cat = Catalog::from_case(c);
    let cfg = c["cfg"].as_str().and_then(ExecCfg::parse).unwrap_or_else(ExecCfg::mem_batches);
    run(&cat, c["sql"].as_str().unwrap_or(""), &cfg)
}

pub fn run_case(c: &Value) -> Value {
    match c["kind"].as_str().unwrap_or("sql") { "limit_op" => run_limit_op(c), "sort_op" => run_sort_op(c), _ => run_sql(c) }
}

pub fn main(o: &Opts) {
    if let Some(p) = &o.replay { for c in replay_cases(p) { let i = run_case(&c); emit(c, i); } return; }
    let mut r = Rng::new(o.seed ^ 0xC25);
    let mut copts = CatOpts::default();
    copts.max_tables = 1; copts.max_cols = 5;
    copts.sizes = vec!["tiny".into(), "small".into(), "small".into(), "mid".into()];
    let mut big = copts.clone(); big.multi_partition = true; // ≥1000 rows in ≥2 batches: the only multi-partition MemoryTableExec
    let cfgs = [ExecCfg::mem_batches(), ExecCfg::mem_single()];
    let mut cat = gen_catalog(&mut r, &copts);
    let mut nsql = 0usize;
    for n in 0..o.cases {
        let c = match n % 4 {
            0 => gen_limit_op(&mut r),
            1 => gen_sort_op(&mut r),
            _ => {
                if nsql % 10 == 0 { cat = gen_catalog(&mut r, if nsql % 150 == 140 { &big } else { &copts }); }
                nsql += 1;
                gen_sql(&mut r, &cat, nsql, &cfgs[nsql % 2])
            }
        };
        let i = run_case(&c);
        emit(c, i);
    }
}
