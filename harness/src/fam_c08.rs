// FAMILY: C08
//! C08: a memory limit never changes an answer.  Every case = one statement run WITHOUT a limit and under a ladder of limits derived from the
//! input size (no spill / about one run / several runs / more than 8 runs = multi-pass merge; join build side and aggregation input spilled).
//! Strata (each triggers at most one listed finding, so a new deviation shows up unattributed):
//!   sort_clean   ORDER BY keys of merge-supported types with the NULL placement the merge implements (ASC NULLS LAST / DESC NULLS FIRST), no fused LIMIT
//!   sort_offset  the same with LIMIT + OFFSET > 0 (LimitExec over the external sort, not fused)
//!   sort_f1      … with LIMIT and no OFFSET (fused fetch: C08-F1)
//!   sort_f2      keys with the other NULL placement over nullable columns (C08-F2); neutraliser = placement flipped
//!   sort_f3      a BOOLEAN key (C08-F3); neutraliser = the boolean keys dropped
//!   join_inner   INNER equi-join on int / double / string keys      join_outer  LEFT / RIGHT / FULL (spill path: explicit error)
//!   join_f5      INNER join on a DATE / BOOLEAN key (C08-F5)
//!   agg          GROUP BY one or two NULL-free keys with COUNT / SUM / MIN / MAX
//!   agg_nullkeys the same over keys holding NULLs (C08-F6 = the GROUP BY NULL-key defects C21-F2/F4 seen through the path switch); neutraliser = WHERE keys IS NOT NULL
//!   spill_*      kind agg-spill: aggregations the fused streaming path does NOT serve, so that under a small limit the input is hash-partitioned (64 ways) and
//!                aggregated partition by partition (SpillableHashAggregateExec::aggregate_with_spilling → aggregate_batches_external): spill_distinct (SELECT DISTINCT),
//!                spill_union (UNION), spill_cdist (GROUP BY + COUNT/SUM(DISTINCT)), spill_groups (GROUP BY with 100+ groups); own tables g0/g1 with BIGINT / VARCHAR /
//!                DATE / BOOLEAN / DOUBLE key columns at 10-50 % NULLs, 1-3 key columns, 170-400 rows in 1-6 batches; limits 64 … 16384 bytes and unlimited.
//!                The harness observes per run whether an operator took its spill path (the engine creates <TMPDIR>/query_engine_spill only there): impl.spilled.
use crate::common::*;
use crate::fams::fam_sql::sqlgen::catalog::{gen_catalog, CatOpts, Catalog, TableSpec};
use crate::fams::fam_sql::sqlgen::exec::{run, run_many, ExecCfg};
use crate::fams::fam_sql::sqlgen::{ColTy, Val};
use crate::rng::Rng;
use serde_json::{json, Value};

fn table_bytes(t: &TableSpec) -> usize {
    let per_row: usize = t.cols.iter().map(|c| match c.cty { ColTy::I64 | ColTy::F64 => 9, ColTy::I32 | ColTy::Date => 5, ColTy::Bool => 1, ColTy::Str => 8 }).sum();
    (t.rows.len() * per_row).max(64)
}

fn ladder(r: &mut Rng, bytes: usize) -> Vec<ExecCfg> {
    // limit L: the spill threshold is 0.8 L
    let mut v = vec![ExecCfg::mem_batches()];
    let picks = [bytes * 8, bytes * 5 / 4, bytes / 3, bytes / 12, 200];
    let a = picks[r.below(2) as usize + 1];
    let b = picks[r.below(2) as usize + 3];
    for l in [a, b] { let l = l.max(64); if !v.iter().any(|c: &ExecCfg| c.mem_limit == Some(l)) { v.push(ExecCfg::mem_batches().with_limit(l)); } }
    if r.chance(1, 6) { v.push(ExecCfg::mem_batches().with_limit(picks[0])); }
    v
}

fn cols_of(t: &TableSpec, pred: impl Fn(ColTy) -> bool) -> Vec<usize> { (1..t.cols.len()).filter(|&i| pred(t.cols[i].cty)).collect() }
fn has_null(t: &TableSpec, c: usize) -> bool { t.rows.iter().any(|r| r[c] == Val::Null) }

struct Stmt { sql: String, plan: Value, stratum: &'static str, kind: &'static str, neutral: Option<(String, Value)> }

fn order_text(t: &TableSpec, keys: &[(usize, bool, bool)]) -> String {
    keys.iter().map(|(c, d, nf)| format!("{} {} NULLS {}", t.cols[*c].name, if *d { "DESC" } else { "ASC" }, if *nf { "FIRST" } else { "LAST" })).collect::<Vec<_>>().join(", ")
}
fn order_plan(keys: &[(usize, bool, bool)]) -> Vec<Value> { keys.iter().map(|(c, d, nf)| json!({"e": {"col": c}, "desc": d, "nf": nf})).collect() }

fn sort_stmt(r: &mut Rng, t: &TableSpec, stratum: &'static str) -> Option<Stmt> {
    let supported = cols_of(t, |c| !matches!(c, ColTy::Bool));
    let bools = cols_of(t, |c| matches!(c, ColTy::Bool));
    let mut keys: Vec<(usize, bool, bool)> = vec![];
    let nk = 1 + r.below(2) as usize;
    let mut pool = supported.clone(); r.shuffle(&mut pool);
    for &c in pool.iter().take(nk) { let d = r.chance(1, 2); keys.push((c, d, d)); } // merge-consistent: ASC NULLS LAST / DESC NULLS FIRST
    match stratum {
        "sort_f2" => {
            // flip the placement of one key over a column that holds NULLs
            let cands: Vec<usize> = (0..keys.len()).filter(|&i| has_null(t, keys[i].0)).collect();
            if cands.is_empty() { return None; }
            let i = *r.pick(&cands); keys[i].2 = !keys[i].2;
        }
        "sort_f3" => { if bools.is_empty() { return None; } let d = r.chance(1, 2); keys.insert(r.below(keys.len() as u64 + 1) as usize, (*r.pick(&bools), d, d)); }
        _ => {}
    }
    keys.push((0, r.chance(1, 3), false)); // unique, non-NULL tie-breaker: the order is total
    let n = t.rows.len();
    let (limit, offset): (Option<usize>, Option<usize>) = match stratum {
        "sort_f1" => (Some(*r.pick(&[1usize, 3, n / 2 + 1, n.saturating_sub(1).max(1)])), None),
        "sort_offset" => (Some(*r.pick(&[1usize, 5, n / 2 + 1])), Some(*r.pick(&[1usize, 2, n / 3 + 1]))),
        _ => (None, None),
    };
    let build = |keys: &[(usize, bool, bool)]| -> (String, Value) {
        let mut sql = format!("SELECT * FROM {} ORDER BY {}", t.name, order_text(t, keys));
        if let Some(l) = limit { sql.push_str(&format!(" LIMIT {}", l)); }
        if let Some(o) = offset { sql.push_str(&format!(" OFFSET {}", o)); }
        let mut plan = json!({"sort": {"keys": order_plan(keys), "q": {"scan": 0}}});
        if limit.is_some() || offset.is_some() { plan = json!({"limit": {"skip": offset.unwrap_or(0), "fetch": limit, "q": plan}}); }
        (sql, plan)
    };
    let (sql, plan) = build(&keys);
    let neutral = match stratum {
        "sort_f2" => { let nk: Vec<(usize, bool, bool)> = keys.iter().map(|(c, d, _)| (*c, *d, *d)).collect(); Some(build(&nk)) }
        "sort_f3" => { let nk: Vec<(usize, bool, bool)> = keys.iter().filter(|(c, _, _)| !matches!(t.cols[*c].cty, ColTy::Bool)).cloned().collect(); Some(build(&nk)) }
        _ => None,
    };
    Some(Stmt { sql, plan, stratum, kind: "sort", neutral })
}

fn join_stmt(r: &mut Rng, cat: &Catalog, stratum: &'static str) -> Option<Stmt> {
    if cat.tables.len() < 2 { return None; }
    let (l, rt) = (&cat.tables[0], &cat.tables[1]);
    let want = |c: ColTy| -> u8 { match c { ColTy::I64 | ColTy::I32 => 0, ColTy::F64 => 1, ColTy::Str => 2, ColTy::Date => 3, ColTy::Bool => 4 } };
    let mut pairs: Vec<(usize, usize)> = vec![];
    for i in 0..l.cols.len() { for j in 0..rt.cols.len() {
        let (a, b) = (l.cols[i].cty, rt.cols[j].cty);
        if a != b { continue; } // same physical type: no implicit cast in the join key
        let class = want(a);
        let ok = if stratum == "join_f5" { class >= 3 } else { class <= 2 };
        if ok && !(i == 0 && j == 0) { pairs.push((i, j)); }
    } }
    // keep the join output small (the driver compares bags): at most ~3000 matching pairs
    let matches = |i: usize, j: usize| -> usize {
        let mut m: std::collections::HashMap<&Val, usize> = std::collections::HashMap::new();
        for row in &rt.rows { if row[j] != Val::Null { *m.entry(&row[j]).or_insert(0) += 1; } }
        l.rows.iter().map(|row| if row[i] == Val::Null { 0 } else { *m.get(&row[i]).unwrap_or(&0) }).sum()
    };
    pairs.retain(|&(i, j)| matches(i, j) <= 3000);
    if pairs.is_empty() { return None; }
    let (i, j) = *r.pick(&pairs);
    let jt = match stratum { "join_outer" => *r.pick(&["left", "right", "full"]), _ => "inner" };
    let jsql = match jt { "left" => "LEFT JOIN", "right" => "RIGHT JOIN", "full" => "FULL OUTER JOIN", _ => "INNER JOIN" };
    let cols: Vec<String> = l.cols.iter().map(|c| format!("x.{}", c.name)).chain(rt.cols.iter().map(|c| format!("y.{}", c.name))).collect();
    let aliased: Vec<String> = cols.iter().enumerate().map(|(k, c)| format!("{} AS q{}", c, k)).collect();
    let sql = format!("SELECT {} FROM {} AS x {} {} AS y ON x.{} = y.{}", aliased.join(", "), l.name, jsql, rt.name, l.cols[i].name, rt.cols[j].name);
    let (lw, rw) = (l.cols.len(), rt.cols.len());
    let plan = json!({"join": {"jt": jt, "lw": lw, "rw": rw, "on": {"bin": ["eq", {"col": i}, {"col": lw + j}]}, "l": {"scan": 0}, "r": {"scan": 1}}});
    Some(Stmt { sql, plan, stratum, kind: "join", neutral: None })
}

fn agg_stmt(r: &mut Rng, t: &TableSpec, nullkeys: bool) -> Option<Stmt> {
    let keys_pool = cols_of(t, |_| true);
    if keys_pool.is_empty() { return None; }
    let nk = 1 + r.below(2) as usize;
    // clean stratum: key columns without a NULL (NULL group keys hit the engine's known GROUP BY defects, C21-F2/F4, whose effect
    // depends on which aggregation path the memory limit selects — stratum agg_nullkeys, finding C08-F6)
    let mut pool: Vec<usize> = keys_pool.iter().cloned().filter(|&c| nullkeys || !has_null(t, c)).collect();
    if pool.is_empty() { return None; }
    r.shuffle(&mut pool);
    let mut keys: Vec<usize> = pool.into_iter().take(nk).collect();
    if nullkeys && !keys.iter().any(|&c| has_null(t, c)) {
        let nullable: Vec<usize> = keys_pool.iter().cloned().filter(|&c| has_null(t, c)).collect();
        if nullable.is_empty() { return None; }
        keys[0] = *r.pick(&nullable); keys.dedup();
    }
    let nums = cols_of(t, |c| matches!(c, ColTy::I64 | ColTy::I32 | ColTy::F64));
    let mut sel: Vec<String> = keys.iter().map(|&c| t.cols[c].name.clone()).collect();
    let mut aggs: Vec<Value> = vec![json!({"fn": "count_star"})];
    sel.push("COUNT(*)".into());
    for &(f, sqlf) in &[("sum", "SUM"), ("min", "MIN"), ("max", "MAX"), ("count", "COUNT")] {
        if r.chance(1, 2) {
            let pool = if f == "sum" { &nums } else { &keys_pool };
            if pool.is_empty() { continue; }
            let c = *r.pick(pool);
            sel.push(format!("{}({})", sqlf, t.cols[c].name));
            aggs.push(json!({"fn": f, "arg": {"col": c}}));
        }
    }
    let sel_aliased: Vec<String> = sel.iter().enumerate().map(|(k, s)| format!("{} AS q{}", s, k)).collect();
    let group = keys.iter().map(|&c| t.cols[c].name.clone()).collect::<Vec<_>>().join(", ");
    let sql = format!("SELECT {} FROM {} GROUP BY {}", sel_aliased.join(", "), t.name, group);
    let keyj: Vec<Value> = keys.iter().map(|&c| json!({"col": c})).collect();
    let plan = json!({"agg": {"keys": keyj, "aggs": aggs, "q": {"scan": 0}}});
    let neutral = if nullkeys {
        let cond_sql = keys.iter().map(|&c| format!("{} IS NOT NULL", t.cols[c].name)).collect::<Vec<_>>().join(" AND ");
        let mut cond = json!({"un": ["isnotnull", {"col": keys[0]}]});
        for &c in keys.iter().skip(1) { cond = json!({"bin": ["and", cond, {"un": ["isnotnull", {"col": c}]}]}); }
        Some((format!("SELECT {} FROM {} WHERE {} GROUP BY {}", sel_aliased.join(", "), t.name, cond_sql, group),
              json!({"agg": {"keys": keyj, "aggs": aggs, "q": {"filter": {"p": cond, "q": {"scan": 0}}}}})))
    } else { None };
    Some(Stmt { sql, plan, stratum: if nullkeys { "agg_nullkeys" } else { "agg" }, kind: "agg", neutral })
}


/// tables of the agg-spill strata: g0(id, k BIGINT, s VARCHAR, d DATE, b BOOLEAN, f DOUBLE, v BIGINT, w BIGINT wide domain) and g1 (same types, names …x)
fn spill_catalog(r: &mut Rng) -> Catalog {
    use crate::fams::fam_sql::sqlgen::catalog::{small_value, ColSpec};
    let tys = [("k", ColTy::I64), ("s", ColTy::Str), ("d", ColTy::Date), ("b", ColTy::Bool), ("f", ColTy::F64), ("v", ColTy::I64), ("w", ColTy::I64)];
    let mut tables = vec![];
    for t in 0..2usize {
        let sfx = if t == 0 { "" } else { "x" };
        let mut cols = vec![ColSpec { name: format!("id{}", sfx), cty: ColTy::I64, null_pct: 0, boundary: false, special: false, unique: true }];
        for (nm, cty) in tys.iter() {
            let null_pct = match *nm { "v" => *r.pick(&[0u8, 10]), "w" => *r.pick(&[10u8, 20, 30]), _ => *r.pick(&[10u8, 20, 30, 50]) };
            cols.push(ColSpec { name: format!("{}{}", nm, sfx), cty: *cty, null_pct, boundary: false, special: false, unique: false });
        }
        let n = if t == 0 { 170 + r.below(231) as usize } else { 30 + r.below(150) as usize };
        let doms: Vec<u64> = cols.iter().map(|_| *r.pick(&[3u64, 6, 8, 20, 40])).collect();
        let mut ids: Vec<i64> = (0..n as i64).collect(); r.shuffle(&mut ids);
        let mut rows = Vec::with_capacity(n);
        for i in 0..n {
            let mut row = vec![Val::I(ids[i])];
            for (c, cs) in cols.iter().enumerate().skip(1) {
                let v = if r.below(100) < cs.null_pct as u64 { Val::Null }
                    else if cs.name.starts_with('w') { Val::I(r.below(8 * n as u64) as i64) }
                    else { small_value(r, cs.cty, doms[c]) };
                row.push(v);
            }
            rows.push(row);
        }
        let k = 1 + r.below(6) as usize;
        let mut cuts: Vec<usize> = (0..k - 1).map(|_| r.below(n as u64 + 1) as usize).collect();
        cuts.push(0); cuts.push(n); cuts.sort();
        let cuts: Vec<usize> = cuts.windows(2).map(|w| w[1] - w[0]).collect();
        tables.push(TableSpec { cluster: None, name: format!("g{}", t), cols, rows, cuts });
    }
    Catalog { tables }
}

fn cols_bytes(t: &TableSpec, cs: &[usize]) -> usize {
    let per_row: usize = cs.iter().map(|&c| match t.cols[c].cty { ColTy::I64 | ColTy::F64 => 9, ColTy::I32 | ColTy::Date => 5, ColTy::Bool => 1, ColTy::Str => 8 }).sum();
    (t.rows.len() * per_row).max(64)
}

/// kind agg-spill (see the header).  Returns the statement and the estimated bytes of the aggregation input.
fn aggspill_stmt(r: &mut Rng, cat: &Catalog, stratum: &'static str) -> Option<(Stmt, usize)> {
    let t = &cat.tables[0];
    let keyable: Vec<usize> = (1..=5).collect(); // k s d b f
    let (vcol, wcol) = (6usize, 7usize);
    let mut pool = keyable.clone(); r.shuffle(&mut pool);
    // GROUP BY over a BOOLEAN key is refused by the engine also without a limit ("Group by type not supported: Boolean"): kept rare (a panic would still be seen)
    if stratum == "spill_cdist" && !r.chance(1, 8) { pool.retain(|&c| t.cols[c].cty != ColTy::Bool); }
    let nk = *r.pick(&[1usize, 1, 2, 2, 3]);
    let mut keys: Vec<usize> = pool.into_iter().take(nk).collect();
    let name = |c: usize| t.cols[c].name.clone();
    let colj = |cs: &[usize]| -> Vec<Value> { cs.iter().map(|&c| json!({"col": c})).collect() };
    match stratum {
        "spill_distinct" => {
            let sel = keys.iter().map(|&c| name(c)).collect::<Vec<_>>().join(", ");
            let sql = format!("SELECT DISTINCT {} FROM {}", sel, t.name);
            let plan = json!({"distinct": {"project": {"es": colj(&keys), "q": {"scan": 0}}}});
            Some((Stmt { sql, plan, stratum, kind: "agg-spill", neutral: None }, cols_bytes(t, &keys)))
        }
        "spill_union" => {
            let u = &cat.tables[1];
            let l = keys.iter().enumerate().map(|(i, &c)| format!("{} AS q{}", name(c), i)).collect::<Vec<_>>().join(", ");
            let rr = keys.iter().enumerate().map(|(i, &c)| format!("{} AS q{}", u.cols[c].name, i)).collect::<Vec<_>>().join(", ");
            let sql = format!("SELECT {} FROM {} UNION SELECT {} FROM {}", l, t.name, rr, u.name);
            let plan = json!({"setop": {"op": "union", "all": false, "l": {"project": {"es": colj(&keys), "q": {"scan": 0}}}, "r": {"project": {"es": colj(&keys), "q": {"scan": 1}}}}});
            Some((Stmt { sql, plan, stratum, kind: "agg-spill", neutral: None }, cols_bytes(t, &keys) + cols_bytes(u, &keys)))
        }
        "spill_cdist" | "spill_groups" => {
            let mut sel: Vec<String> = vec![]; let mut aggs: Vec<Value> = vec![]; let mut used: Vec<usize> = vec![];
            if stratum == "spill_groups" {
                // 100+ groups: the wide column (alone or with further keys)
                keys.truncate(nk.min(2)); if r.chance(1, 2) { keys.insert(0, wcol); } else { keys = vec![wcol]; }
                sel.push("COUNT(*)".into()); aggs.push(json!({"fn": "count_star"}));
                for &(f, sqlf) in &[("sum", "SUM"), ("min", "MIN"), ("max", "MAX"), ("count", "COUNT")] {
                    if r.chance(1, 2) { sel.push(format!("{}({})", sqlf, name(vcol))); aggs.push(json!({"fn": f, "arg": {"col": vcol}})); used.push(vcol); }
                }
                let mut seen = std::collections::HashSet::new();
                for row in &t.rows { seen.insert(keys.iter().map(|&c| format!("{:?}", row[c])).collect::<Vec<_>>().join("|")); }
                if seen.len() < 100 { return None; }
            } else {
                let darg = *r.pick(&[vcol, vcol, 1usize, 2]); // COUNT(DISTINCT v | k | s)
                sel.push(format!("COUNT(DISTINCT {})", name(darg))); aggs.push(json!({"fn": "count", "arg": {"col": darg}, "distinct": true})); used.push(darg);
                if r.chance(1, 3) { sel.push(format!("SUM(DISTINCT {})", name(vcol))); aggs.push(json!({"fn": "sum", "arg": {"col": vcol}, "distinct": true})); used.push(vcol); }
                if r.chance(1, 2) { sel.push("COUNT(*)".into()); aggs.push(json!({"fn": "count_star"})); }
                if r.chance(1, 3) { sel.push(format!("MAX({})", name(vcol))); aggs.push(json!({"fn": "max", "arg": {"col": vcol}})); used.push(vcol); }
            }
            let mut all: Vec<String> = keys.iter().map(|&c| name(c)).collect(); all.extend(sel);
            let aliased = all.iter().enumerate().map(|(i, s)| format!("{} AS q{}", s, i)).collect::<Vec<_>>().join(", ");
            let group = keys.iter().map(|&c| name(c)).collect::<Vec<_>>().join(", ");
            let sql = format!("SELECT {} FROM {} GROUP BY {}", aliased, t.name, group);
            let plan = json!({"agg": {"keys": colj(&keys), "aggs": aggs, "q": {"scan": 0}}});
            let mut cs = keys.clone(); cs.extend(used); cs.sort(); cs.dedup();
            Some((Stmt { sql, plan, stratum, kind: "agg-spill", neutral: None }, cols_bytes(t, &cs)))
        }
        _ => None,
    }
}

/// limits of the agg-spill strata: unlimited, one limit the input fits under, and two small ones (64 … 16384 bytes)
fn spill_ladder(r: &mut Rng, bytes: usize) -> Vec<ExecCfg> {
    let mut v = vec![ExecCfg::mem_batches()];
    let small = [64usize, 200, 1024, 4096, 16384, (bytes / 3).clamp(64, 16384), (bytes / 12).clamp(64, 16384)];
    let mut picks = vec![*r.pick(&small), *r.pick(&small)];
    if r.chance(1, 2) { picks.push(bytes * 8); }
    for l in picks { if !v.iter().any(|c: &ExecCfg| c.mem_limit == Some(l)) { v.push(ExecCfg::mem_batches().with_limit(l)); } }
    v
}

fn make_case(cat: &Catalog, s: &Stmt, cfgs: &[ExecCfg], bytes: usize, batches: usize) -> Value {
    // which spill regime each limit aims at (estimated from the input size: the engine does not expose its run count)
    let mut tags: Vec<String> = vec![];
    for c in cfgs { if let Some(l) = c.mem_limit {
        let thr = (l as f64 * 0.8) as usize;
        let runs = if thr == 0 { batches } else { ((bytes + thr - 1) / thr).min(batches.max(1)) };
        tags.push(if bytes <= thr { "regime:fits".into() } else if runs <= 1 { "regime:one_run".into() } else if runs <= 8 { "regime:runs<=8".into() } else { "regime:multi_pass".to_string() });
    } }
    tags.sort(); tags.dedup();
    let mut c = json!({"kind": s.kind, "stratum": s.stratum, "prop": "C08", "mode": "meta", "sql": s.sql, "plan": s.plan, "tables": cat.tables_json(), "cat": cat.meta_json(),
        "tags": tags, "engine_defined": false, "cfgs": cfgs.iter().map(|c| c.name.clone()).collect::<Vec<_>>()});
    if let Some((nsql, nplan)) = &s.neutral { c["neutral_sql"] = json!(nsql); c["neutral_plan"] = nplan.clone(); }
    c
}

/// the engine creates <TMPDIR>/query_engine_spill (ExecutionConfig::ensure_spill_dir) only when an operator takes its spill path: remove it before a run,
/// look for it afterwards.  In the agg-spill statements the only spillable operator is the aggregation (no join, no sort).
fn spill_root() -> std::path::PathBuf { std::env::temp_dir().join("query_engine_spill") }

pub fn run_case(c: &Value) -> Value {
    let cat = Catalog::from_case(c);
    let cfgs: Vec<ExecCfg> = c["cfgs"].as_array().map(|a| a.iter().filter_map(|x| x.as_str().and_then(ExecCfg::parse)).collect()).unwrap_or_default();
    let sql = c["sql"].as_str().unwrap_or("");
    let (mut runs, mut spilled) = (serde_json::Map::new(), serde_json::Map::new());
    for cfg in &cfgs {
        let _ = std::fs::remove_dir_all(spill_root());
        runs.insert(cfg.name.clone(), run(&cat, sql, cfg));
        spilled.insert(cfg.name.clone(), json!(spill_root().exists()));
    }
    let mut out = json!({"runs": Value::Object(runs), "spilled": Value::Object(spilled)});
    if let Some(nsql) = c["neutral_sql"].as_str() {
        let lim: Vec<ExecCfg> = cfgs.iter().filter(|c| c.mem_limit.is_some()).cloned().collect();
        out["neutral"] = run_many(&cat, nsql, &lim)["runs"].clone();
    }
    out
}

pub fn main(o: &Opts) {
    // the engine's default spill directory is std::env::temp_dir(): keep it under the scratch directory of this run
    // (always a private directory: run_case removes <TMPDIR>/query_engine_spill before every run)
    let base = std::env::var("IQE_SCRATCH").unwrap_or_else(|_| "/verif/harness/scratch/manual".into());
    let d = std::path::Path::new(&base).join(format!("spill-tmp-{}", std::process::id())); let _ = std::fs::create_dir_all(&d); std::env::set_var("TMPDIR", &d);
    if let Some(p) = &o.replay { for c in replay_cases(p) { let i = run_case(&c); emit(c, i); } return; }
    let mut r = Rng::new(o.seed ^ 0xC08);
    let mut copts = CatOpts::default();
    copts.max_tables = 2; copts.max_cols = 4; copts.max_batches = 14;
    copts.sizes = vec!["small".into(), "mid".into(), "mid".into()];
    copts.shared_names = false;
    let strata = ["sort_clean", "sort_offset", "sort_f1", "sort_f2", "sort_f3", "sort_clean", "join_inner", "join_inner", "join_outer", "join_f5", "agg", "agg", "agg_nullkeys",
                  "spill_distinct", "spill_union", "spill_cdist", "spill_groups", "spill_cdist", "spill_distinct"];
    let strata: Vec<&'static str> = match o.get("only") { Some(p) => strata.iter().cloned().filter(|s| s.starts_with(p)).collect(), None => strata.to_vec() };
    let mut scat = spill_catalog(&mut r);
    let mut cat = gen_catalog(&mut r, &copts);
    let (mut n, mut attempts) = (0usize, 0usize);
    while n < o.cases && attempts < o.cases * 6 + 20 {
        if attempts % 5 == 0 { cat = gen_catalog(&mut r, &copts); if cat.tables.len() < 2 { let t = cat.tables[0].clone(); let mut t2 = t.clone(); t2.name = "t1".into(); for c in t2.cols.iter_mut() { c.name = format!("{}x", c.name); } cat.tables.push(t2); } }
        let stratum = strata[attempts % strata.len()];
        attempts += 1;
        if stratum.starts_with("spill_") {
            if attempts % 3 == 0 { scat = spill_catalog(&mut r); }
            let Some((stmt, bytes)) = aggspill_stmt(&mut r, &scat, stratum) else { continue };
            let cfgs = spill_ladder(&mut r, bytes);
            let case = make_case(&scat, &stmt, &cfgs, bytes, scat.tables[0].cuts.len().max(1));
            let imp = run_case(&case);
            emit(case, imp);
            n += 1;
            continue;
        }
        let stmt = match stratum {
            s if s.starts_with("sort") => sort_stmt(&mut r, &cat.tables[0], s),
            s if s.starts_with("join") => join_stmt(&mut r, &cat, s),
            s => agg_stmt(&mut r, &cat.tables[0], s == "agg_nullkeys"),
        };
        let Some(stmt) = stmt else { continue };
        let bytes = match stmt.kind { "join" => table_bytes(&cat.tables[0]).min(table_bytes(&cat.tables[1])), _ => table_bytes(&cat.tables[0]) };
        let cfgs = ladder(&mut r, bytes);
        let nb = cat.tables[0].cuts.len().max(1);
        let case = make_case(&cat, &stmt, &cfgs, bytes, nb);
        let imp = run_case(&case);
        emit(case, imp);
        n += 1;
    }
}
