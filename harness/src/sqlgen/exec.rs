//! Executors: run one SQL text over a generated catalog on the REAL engine under a chosen configuration and
//! return the canonical outcome  {"ok":[[Val…]…]} | {"err":kind,"msg":…} | {"panic":msg}.
//!
//! Configurations (`ExecCfg`): table layout (single batch / generated batches / Parquet files × row-group size),
//! optional memory limit, optimizer rule set.  The default rule set goes through `ExecutionContext::sql`; any other
//! rule set drives the same public pipeline by hand (parse → Binder → Optimizer::with_rules → PhysicalPlanner →
//! execute every partition), which is what `ExecutionContext::sql` does internally.
//!
//! Extension point for "distributed in-process": add a `Layout`/`ExecCfg` variant and handle it in `run_async`
//! (everything else — canonicalisation, error mapping, panics, runtime — is shared).
use super::catalog::Catalog;
use super::{rows_json, Val};
use arrow::array::*;
use arrow::datatypes::DataType;
use arrow::record_batch::RecordBatch;
use futures::TryStreamExt;
use query_engine::execution::{create_memory_pool, ExecutionConfig, ExecutionContext};
use query_engine::optimizer::{self, Optimizer, OptimizerRule};
use query_engine::physical::operators::{MemoryTable, TableProvider};
use query_engine::physical::PhysicalPlanner;
use query_engine::planner::{Binder, InMemoryCatalog, PlanSchema, SchemaField};
use query_engine::{ParquetTable, QueryError};
use serde_json::{json, Value};
use std::sync::{Arc, OnceLock};

#[derive(Clone, Debug, PartialEq)]
pub enum Layout {
    /// every table registered as ONE batch
    MemSingle,
    /// every table registered in the batches cut by the catalog generator (multi-partition when ≥1000 rows in ≥2 batches)
    MemBatches,
    /// every table cut into 6–12 batches with its rows reordered so that the NULLs of one nullable column are clustered at the
    /// end (or the start): whole trailing / leading batches are all-NULL in that column.  Row order is unspecified in SQL, so
    /// this is the same table; it drives the parallel partial-aggregate merge (> 4 batches) over chunks that saw only NULLs.
    MemClustered,
    /// every table written as `files` Parquet files with the given max row-group size, registered with register_parquet
    Parquet { files: usize, rg: usize },
}

#[derive(Clone, Debug, PartialEq)]
pub enum Rules {
    /// `Optimizer::new()` through `ExecutionContext::sql`
    Default,
    /// no optimizer rule at all (bound plan straight to the physical planner)
    None,
    /// the production list minus the named rules
    Without(Vec<String>),
    /// only the named rules, in production order
    Only(Vec<String>),
}

#[derive(Clone, Debug)]
pub struct ExecCfg { pub name: String, pub layout: Layout, pub mem_limit: Option<usize>, pub rules: Rules }

impl ExecCfg {
    pub fn mem_single() -> ExecCfg { ExecCfg { name: "mem1".into(), layout: Layout::MemSingle, mem_limit: None, rules: Rules::Default } }
    pub fn mem_clustered() -> ExecCfg { ExecCfg { name: "mem8c".into(), layout: Layout::MemClustered, mem_limit: None, rules: Rules::Default } }
    pub fn mem_batches() -> ExecCfg { ExecCfg { name: "memb".into(), layout: Layout::MemBatches, mem_limit: None, rules: Rules::Default } }
    pub fn parquet(files: usize, rg: usize) -> ExecCfg { ExecCfg { name: format!("pq{}x{}", files, rg), layout: Layout::Parquet { files, rg }, mem_limit: None, rules: Rules::Default } }
    pub fn with_limit(mut self, n: usize) -> ExecCfg { self.mem_limit = Some(n); self.name = format!("{}+lim{}", self.name, n); self }
    pub fn with_rules(mut self, r: Rules) -> ExecCfg {
        self.name = format!("{}+{}", self.name, match &r { Rules::Default => "opt".to_string(), Rules::None => "noopt".to_string(), Rules::Without(v) => format!("without:{}", v.join("/")), Rules::Only(v) => format!("only:{}", v.join("/")) });
        self.rules = r; self
    }
    /// parse a configuration name as produced by `name` (used by replay): mem1 | memb | mem8c | pq<f>x<rg> [+lim<n>] [+noopt | +without:a/b | +only:a/b]
    pub fn parse(s: &str) -> Option<ExecCfg> {
        let mut parts = s.split('+');
        let base = parts.next()?;
        let mut c = if base == "mem1" { ExecCfg::mem_single() } else if base == "memb" { ExecCfg::mem_batches() } else if base == "mem8c" { ExecCfg::mem_clustered() }
            else if let Some(rest) = base.strip_prefix("pq") { let (f, rg) = rest.split_once('x')?; ExecCfg::parquet(f.parse().ok()?, rg.parse().ok()?) } else { return None };
        for p in parts {
            if let Some(n) = p.strip_prefix("lim") { c = c.with_limit(n.parse().ok()?); }
            else if p == "noopt" { c = c.with_rules(Rules::None); }
            else if let Some(l) = p.strip_prefix("without:") { c = c.with_rules(Rules::Without(l.split('/').map(|x| x.to_string()).collect())); }
            else if let Some(l) = p.strip_prefix("only:") { c = c.with_rules(Rules::Only(l.split('/').map(|x| x.to_string()).collect())); }
            else if p == "opt" {} else { return None; }
        }
        Some(c)
    }
}

/// production rule list (same order as `Optimizer::new`), by `OptimizerRule::name()`
pub fn production_rules() -> Vec<Arc<dyn OptimizerRule>> {
    vec![
        Arc::new(optimizer::ConstantFolding), Arc::new(optimizer::DeriveOrPredicates), Arc::new(optimizer::PredicatePushdown),
        Arc::new(optimizer::FlattenDependentJoin), Arc::new(optimizer::SubqueryDecorrelation), Arc::new(optimizer::SemiJoinPushdown),
        Arc::new(optimizer::JoinReorder::new()), Arc::new(optimizer::PredicatePushdown), Arc::new(optimizer::HavingTotalCse),
        Arc::new(optimizer::GroupKeyReduction::new()), Arc::new(optimizer::EagerAggregation::new()), Arc::new(optimizer::PackedGroupKeys::new()),
        Arc::new(optimizer::PackedJoinKeys::new()), Arc::new(optimizer::ProjectionPushdown), Arc::new(optimizer::VectorSearchPushdown),
    ]
}
pub fn rule_names() -> Vec<String> { let mut v: Vec<String> = production_rules().iter().map(|r| r.name().to_string()).collect(); v.dedup(); v }

pub fn runtime() -> &'static tokio::runtime::Runtime {
    static RT: OnceLock<tokio::runtime::Runtime> = OnceLock::new();
    RT.get_or_init(|| tokio::runtime::Builder::new_multi_thread().worker_threads(4).enable_all().build().expect("tokio runtime"))
}

pub fn err_kind(e: &QueryError) -> &'static str {
    match e {
        QueryError::Parse(_) => "parse",
        QueryError::Bind(_) | QueryError::Plan(_) | QueryError::Type(_) | QueryError::TableNotFound(_) | QueryError::ColumnNotFound(_) | QueryError::InvalidArgument(_) => "bind",
        QueryError::NotImplemented(_) => "unsupported",
        QueryError::Execution(_) | QueryError::Arrow(_) | QueryError::Internal(_) => "exec",
        _ => "other",
    }
}
fn err_json(e: &QueryError) -> Value { let m = e.to_string(); json!({"err": err_kind(e), "msg": m.chars().take(300).collect::<String>()}) }

/// Arrow → Val.  Int32/Int64/Float64(bit pattern)/Utf8/LargeUtf8/Boolean/Date32 exactly; other integer widths and Float32 are
/// widened (value-preserving); anything else is reported as Val::Other(datatype) — never dropped.
pub fn batch_rows(b: &RecordBatch, out: &mut Vec<Vec<Val>>) {
    let n = b.num_rows();
    let start = out.len();
    for _ in 0..n { out.push(Vec::with_capacity(b.num_columns())); }
    for c in b.columns() {
        // dictionary-encoded columns are an internal representation (ExecutionContext::sql casts them at its boundary, too)
        let decoded;
        let c = if let DataType::Dictionary(_, v) = c.data_type() { match arrow::compute::cast(c.as_ref(), v) { Ok(a) => { decoded = a; &decoded } Err(_) => c } } else { c };
        macro_rules! prim { ($t:ty, $f:expr) => {{ let a = c.as_any().downcast_ref::<$t>().unwrap(); for i in 0..n { out[start + i].push(if a.is_null(i) { Val::Null } else { $f(a.value(i)) }); } }}; }
        match c.data_type() {
            DataType::Int64 => prim!(Int64Array, |v: i64| Val::I(v)),
            DataType::Int32 => prim!(Int32Array, |v: i32| Val::I(v as i64)),
            DataType::Int16 => prim!(Int16Array, |v: i16| Val::I(v as i64)),
            DataType::Int8 => prim!(Int8Array, |v: i8| Val::I(v as i64)),
            DataType::UInt8 => prim!(UInt8Array, |v: u8| Val::I(v as i64)),
            DataType::UInt16 => prim!(UInt16Array, |v: u16| Val::I(v as i64)),
            DataType::UInt32 => prim!(UInt32Array, |v: u32| Val::I(v as i64)),
            DataType::UInt64 => prim!(UInt64Array, |v: u64| if v <= i64::MAX as u64 { Val::I(v as i64) } else { Val::Other(format!("UInt64:{}", v)) }),
            DataType::Float64 => prim!(Float64Array, |v: f64| Val::F(v.to_bits())),
            DataType::Float32 => prim!(Float32Array, |v: f32| Val::F((v as f64).to_bits())),
            DataType::Boolean => prim!(BooleanArray, |v: bool| Val::B(v)),
            DataType::Date32 => prim!(Date32Array, |v: i32| Val::D(v)),
            DataType::Utf8 => prim!(StringArray, |v: &str| Val::S(v.to_string())),
            DataType::LargeUtf8 => prim!(LargeStringArray, |v: &str| Val::S(v.to_string())),
            DataType::Utf8View => prim!(StringViewArray, |v: &str| Val::S(v.to_string())),
            DataType::Null => for i in 0..n { out[start + i].push(Val::Null); },
            other => { let t = format!("{}", other); for i in 0..n { out[start + i].push(if c.is_null(i) { Val::Null } else { Val::Other(t.clone()) }); } }
        }
    }
}

fn plan_schema(s: &arrow::datatypes::Schema) -> PlanSchema {
    PlanSchema::new(s.fields().iter().map(|f| SchemaField::new(f.name().clone(), f.data_type().clone()).with_nullable(f.is_nullable())).collect())
}

static SCRATCH_CTR: std::sync::atomic::AtomicUsize = std::sync::atomic::AtomicUsize::new(0);
pub fn scratch_dir() -> std::path::PathBuf {
    let base = std::env::var("IQE_SCRATCH").unwrap_or_else(|_| "/verif/harness/scratch/manual".into());
    let n = SCRATCH_CTR.fetch_add(1, std::sync::atomic::Ordering::SeqCst);
    let p = std::path::Path::new(&base).join(format!("sql-{}-{}", std::process::id(), n));
    std::fs::create_dir_all(&p).expect("scratch dir");
    p
}

/// providers of every table under the layout; Parquet files are written below `dir`
fn providers(cat: &Catalog, layout: &Layout, dir: &mut Option<std::path::PathBuf>) -> Result<Vec<(String, Arc<dyn TableProvider>)>, String> {
    let mut out: Vec<(String, Arc<dyn TableProvider>)> = vec![];
    for t in &cat.tables {
        match layout {
            Layout::MemSingle => out.push((t.name.clone(), Arc::new(MemoryTable::new(t.schema(), t.single_batch())))),
            Layout::MemBatches => out.push((t.name.clone(), Arc::new(MemoryTable::new(t.schema(), t.batches())))),
            Layout::MemClustered => out.push((t.name.clone(), Arc::new(MemoryTable::new(t.schema(), t.clustered_batches())))),
            Layout::Parquet { files, rg } => {
                if dir.is_none() { *dir = Some(scratch_dir()); }
                let d = dir.as_ref().unwrap().join(&t.name);
                std::fs::create_dir_all(&d).map_err(|e| e.to_string())?;
                let nf = (*files).max(1);
                let n = t.rows.len();
                for f in 0..nf {
                    let lo = n * f / nf; let hi = n * (f + 1) / nf;
                    if lo == hi && f > 0 { continue; }
                    let batch = t.batch_of(&t.rows[lo..hi]);
                    let file = std::fs::File::create(d.join(format!("part-{:03}.parquet", f))).map_err(|e| e.to_string())?;
                    let props = parquet::file::properties::WriterProperties::builder().set_max_row_group_row_count(Some((*rg).max(1))).build();
                    let mut w = parquet::arrow::ArrowWriter::try_new(file, t.schema(), Some(props)).map_err(|e| e.to_string())?;
                    w.write(&batch).map_err(|e| e.to_string())?;
                    w.close().map_err(|e| e.to_string())?;
                }
                let pt = ParquetTable::try_new(&d).map_err(|e| e.to_string())?;
                out.push((t.name.clone(), Arc::new(pt)));
            }
        }
    }
    Ok(out)
}

fn pick_rules(r: &Rules) -> Vec<Arc<dyn OptimizerRule>> {
    match r {
        Rules::Default => production_rules(),
        Rules::None => vec![],
        Rules::Without(names) => production_rules().into_iter().filter(|x| !names.iter().any(|n| n == x.name())).collect(),
        Rules::Only(names) => production_rules().into_iter().filter(|x| names.iter().any(|n| n == x.name())).collect(),
    }
}

async fn run_async(cat: &Catalog, sql: &str, cfg: &ExecCfg, dir: &mut Option<std::path::PathBuf>) -> Value {
    let provs = match providers(cat, &cfg.layout, dir) { Ok(p) => p, Err(e) => return json!({"err": "harness", "msg": e}) };
    let batches: Result<Vec<RecordBatch>, QueryError> = if cfg.rules == Rules::Default {
        let mut ctx = match cfg.mem_limit { Some(n) => ExecutionContext::with_memory_limit(n), None => ExecutionContext::new() };
        for (n, p) in provs { ctx.register_table_provider(n, p); }
        ctx.sql(sql).await.map(|r| r.batches)
    } else {
        // the public pipeline by hand, with a chosen rule list
        (async {
            let stmt = query_engine::parser::parse_sql(sql)?;
            let mut icat = InMemoryCatalog::new();
            for (n, p) in &provs { icat.register_table(n.clone(), plan_schema(&p.schema())); }
            let logical = Binder::new(&icat).bind(&stmt)?;
            let mut stats = std::collections::HashMap::new();
            for (n, p) in &provs { if let Some(s) = p.statistics() { stats.insert(n.clone(), s); } }
            let opt = Optimizer::with_rules(pick_rules(&cfg.rules));
            let opt = if stats.is_empty() { opt } else { opt.with_table_statistics(stats) };
            let optimized = opt.optimize(logical)?;
            let config = match cfg.mem_limit { Some(n) => ExecutionConfig::default().with_memory_limit(n), None => ExecutionConfig::default() };
            let pool = create_memory_pool(config.memory_limit);
            let mut planner = PhysicalPlanner::with_config(pool, config);
            for (n, p) in &provs { planner.register_table(n.clone(), p.clone()); }
            planner.enable_subquery_execution();
            let physical = planner.create_physical_plan(&optimized)?;
            let parts = physical.output_partitions().max(1);
            let mut all = vec![];
            for p in 0..parts {
                let stream = physical.execute(p).await?;
                let bs: Vec<RecordBatch> = stream.try_collect().await?;
                all.extend(bs);
            }
            Ok(all)
        }).await
    };
    match batches {
        Ok(bs) => { let mut rows = vec![]; for b in &bs { batch_rows(b, &mut rows); } json!({"ok": rows_json(&rows)}) }
        Err(e) => err_json(&e),
    }
}

/// Run `sql` over `cat` under `cfg` on the real engine.  Panics are caught; a run longer than `timeout_s` is {"err":"timeout"}.
pub fn run(cat: &Catalog, sql: &str, cfg: &ExecCfg) -> Value { run_with_timeout(cat, sql, cfg, 60) }

pub fn run_with_timeout(cat: &Catalog, sql: &str, cfg: &ExecCfg, timeout_s: u64) -> Value {
    let mut dir: Option<std::path::PathBuf> = None;
    let res = std::panic::catch_unwind(std::panic::AssertUnwindSafe(|| {
        runtime().block_on(async {
            match tokio::time::timeout(std::time::Duration::from_secs(timeout_s), run_async(cat, sql, cfg, &mut dir)).await {
                Ok(v) => v,
                Err(_) => json!({"err": "timeout", "msg": format!("no answer within {} s", timeout_s)}),
            }
        })
    }));
    if let Some(d) = &dir { let _ = std::fs::remove_dir_all(d); }
    match res {
        Ok(v) => v,
        Err(e) => {
            let msg = if let Some(s) = e.downcast_ref::<&str>() { s.to_string() } else if let Some(s) = e.downcast_ref::<String>() { s.clone() } else { "panic".into() };
            json!({"panic": msg.chars().take(300).collect::<String>()})
        }
    }
}

/// several configurations → {"runs": {name: outcome}}
pub fn run_many(cat: &Catalog, sql: &str, cfgs: &[ExecCfg]) -> Value {
    let mut m = serde_json::Map::new();
    for c in cfgs { m.insert(c.name.clone(), run(cat, sql, c)); }
    json!({"runs": Value::Object(m)})
}
