//! sqlgen — shared SQL infrastructure for the SQL-family properties (C01–C04, C07–C09, C21–C28, C30, C31, C43–C45).
//! A library: catalog generator (`catalog`), query AST + SQL printer + plan-JSON serializer (`ast`),
//! type-directed query generator (`gen`), executors over the real engine (`exec`), shrinker (`shrink`),
//! and the glue used by family files (`driver`).  See README.md in this directory.
#![allow(dead_code)]
pub mod ast;
pub mod catalog;
pub mod exec;
pub mod gen;
pub mod shrink;
pub mod driver;

use serde_json::{json, Value};

/// Logical value types of the reference semantics (Lean `IQE.Ty`).
#[derive(Clone, Copy, PartialEq, Eq, Debug, Hash, PartialOrd, Ord)]
pub enum Ty { Bool, Int, F64, Str, Date }
impl Ty {
    pub fn json(self) -> &'static str { match self { Ty::Bool => "bool", Ty::Int => "int", Ty::F64 => "f64", Ty::Str => "str", Ty::Date => "date" } }
    /// SQL type name used in CAST
    pub fn sql(self) -> &'static str { match self { Ty::Bool => "BOOLEAN", Ty::Int => "BIGINT", Ty::F64 => "DOUBLE", Ty::Str => "VARCHAR", Ty::Date => "DATE" } }
    pub fn numeric(self) -> bool { matches!(self, Ty::Int | Ty::F64) }
}

/// Physical column types of generated tables.
#[derive(Clone, Copy, PartialEq, Eq, Debug, Hash)]
pub enum ColTy { I64, I32, F64, Str, Date, Bool }
impl ColTy {
    pub fn ty(self) -> Ty { match self { ColTy::I64 | ColTy::I32 => Ty::Int, ColTy::F64 => Ty::F64, ColTy::Str => Ty::Str, ColTy::Date => Ty::Date, ColTy::Bool => Ty::Bool } }
    pub fn name(self) -> &'static str { match self { ColTy::I64 => "i64", ColTy::I32 => "i32", ColTy::F64 => "f64", ColTy::Str => "str", ColTy::Date => "date", ColTy::Bool => "bool" } }
    pub fn parse(s: &str) -> Option<ColTy> { Some(match s { "i64" => ColTy::I64, "i32" => ColTy::I32, "f64" => ColTy::F64, "str" => ColTy::Str, "date" => ColTy::Date, "bool" => ColTy::Bool, _ => return None }) }
}

/// A SQL value in the wire format of lean/Driver/SqlJson.lean.  Floats are bit patterns.
#[derive(Clone, Debug, PartialEq, Eq, Hash, PartialOrd, Ord)]
pub enum Val { Null, B(bool), I(i64), F(u64), S(String), D(i32), Other(String) }

impl Val {
    pub fn f(x: f64) -> Val { Val::F(x.to_bits()) }
    pub fn is_null(&self) -> bool { matches!(self, Val::Null) }
    pub fn to_json(&self) -> Value {
        match self {
            Val::Null => Value::Null,
            Val::B(b) => json!({"b": b}),
            Val::I(i) => json!({"i": i}),
            Val::F(x) => json!({"f": x}),
            Val::S(s) => json!({"s": s}),
            Val::D(d) => json!({"d": d}),
            Val::Other(t) => json!({"other": t}),
        }
    }
    pub fn from_json(v: &Value) -> Val {
        if v.is_null() { return Val::Null; }
        if let Some(b) = v.get("b").and_then(|x| x.as_bool()) { return Val::B(b); }
        if let Some(i) = v.get("i").and_then(|x| x.as_i64()) { return Val::I(i); }
        if let Some(x) = v.get("f").and_then(|x| x.as_u64()) { return Val::F(x); }
        if let Some(s) = v.get("s").and_then(|x| x.as_str()) { return Val::S(s.to_string()); }
        if let Some(d) = v.get("d").and_then(|x| x.as_i64()) { return Val::D(d as i32); }
        Val::Other(v.to_string())
    }
    pub fn ty(&self) -> Option<Ty> {
        Some(match self { Val::B(_) => Ty::Bool, Val::I(_) => Ty::Int, Val::F(_) => Ty::F64, Val::S(_) => Ty::Str, Val::D(_) => Ty::Date, _ => return None })
    }
    /// SQL literal text (NULL is printed typed by the caller).
    pub fn sql(&self) -> String {
        match self {
            Val::Null => "NULL".into(),
            Val::B(b) => if *b { "TRUE".into() } else { "FALSE".into() },
            Val::I(i) => if *i < 0 { format!("({})", i) } else { i.to_string() },
            Val::F(bits) => {
                let x = f64::from_bits(*bits);
                // dyadic test data prints exactly with a fraction part; the parser reads it back as the same double
                let s = if x == x.trunc() && x.abs() < 1e15 { format!("{:.1}", x) } else { format!("{:?}", x) };
                if x.is_sign_negative() { format!("({})", s) } else { s }
            }
            Val::S(s) => format!("'{}'", s.replace('\'', "''")),
            Val::D(d) => format!("DATE '{}'", date_string(*d)),
            Val::Other(t) => format!("/*{}*/NULL", t),
        }
    }
}

/// days since 1970-01-01 → YYYY-MM-DD (proleptic Gregorian; civil-from-days)
pub fn date_string(days: i32) -> String {
    let z = days as i64 + 719468;
    let era = if z >= 0 { z } else { z - 146096 } / 146097;
    let doe = z - era * 146097;
    let yoe = (doe - doe / 1460 + doe / 36524 - doe / 146096) / 365;
    let y = yoe + era * 400;
    let doy = doe - (365 * yoe + yoe / 4 - yoe / 100);
    let mp = (5 * doy + 2) / 153;
    let d = doy - (153 * mp + 2) / 5 + 1;
    let m = if mp < 10 { mp + 3 } else { mp - 9 };
    let y = if m <= 2 { y + 1 } else { y };
    format!("{:04}-{:02}-{:02}", y, m, d)
}

pub fn rows_json(rows: &[Vec<Val>]) -> Value {
    Value::Array(rows.iter().map(|r| Value::Array(r.iter().map(|v| v.to_json()).collect())).collect())
}
pub fn rows_from_json(v: &Value) -> Vec<Vec<Val>> {
    v.as_array().map(|a| a.iter().map(|r| r.as_array().map(|c| c.iter().map(Val::from_json).collect()).unwrap_or_default()).collect()).unwrap_or_default()
}
