//! Generic shrinker for SQL-family cases: `iqe-harness <fam> --replay file --opt shrink=1`.
//! Keeps "the same failure" (oracle verdict fails with the same first words, same attribution) while
//!   1. delta-debugging the rows of every table (chunks of 1/2, 1/4, … single rows),
//!   2. simplifying the physical shape (one batch per table, configuration mem1 when the failure survives),
//!   3. cutting top-level wrappers: LIMIT/OFFSET, then ORDER BY (plan node and the tail of the SQL text together),
//!   4. simplifying cell values (NULL → kept; other cells to the smallest value of their type that keeps the failure).
//! Every candidate is re-run on the REAL engine and judged by the Lean driver binary
//! (`$IQE_DRIVER` or /verif/lean/.lake/build/bin/iqe-driver, family `$IQE_DRIVER_FAMILY` or SQL).
//! Column / interior plan-node removal would need the positional plan and the SQL text to be re-rendered from one
//! AST; the case carries only the renderings, so that step is not done here.
use super::driver::run_case;
use serde_json::{json, Value};
use std::io::Write;
use std::process::{Command, Stdio};

fn driver_cmd() -> (String, Vec<String>) {
    let bin = std::env::var("IQE_DRIVER").unwrap_or_else(|_| "/verif/lean/.lake/build/bin/iqe-driver".into());
    let fam = std::env::var("IQE_DRIVER_FAMILY").unwrap_or_else(|_| "SQL".into());
    (bin, vec![fam])
}

/// verdict of the Lean driver on (case, impl)
pub fn judge(case: &Value, imp: &Value) -> Value {
    let (bin, args) = driver_cmd();
    let mut ch = match Command::new(&bin).args(&args).stdin(Stdio::piped()).stdout(Stdio::piped()).stderr(Stdio::null()).spawn() {
        Ok(c) => c, Err(e) => return json!({"driver_error": format!("cannot start {}: {}", bin, e)}) };
    { let mut si = ch.stdin.take().unwrap(); let _ = writeln!(si, "{}", json!({"case": case, "impl": imp})); }
    let out = ch.wait_with_output().map(|o| String::from_utf8_lossy(&o.stdout).to_string()).unwrap_or_default();
    out.lines().next().and_then(|l| serde_json::from_str(l).ok()).unwrap_or(json!({"driver_error": "no verdict"}))
}

/// what must be preserved: (failing?, first words of the oracle message, attribution)
fn signature(v: &Value) -> (bool, String, String) {
    let o = v["o"].as_str().unwrap_or("ok");
    let head: String = o.split(|c| c == ':' || c == ';').take(2).collect::<Vec<_>>().join(":");
    (o != "ok" || v.get("driver_error").is_some() || v["k"].as_bool() == Some(false), head, v["attr"].as_str().unwrap_or("").to_string())
}

fn still(case: &Value, want: &(bool, String, String)) -> Option<Value> {
    let imp = run_case(case);
    let v = judge(case, &imp);
    if &signature(&v) == want { Some(imp) } else { None }
}

pub fn shrink(case: &Value) -> (Value, Value) {
    let mut cur = case.clone();
    let mut imp = run_case(&cur);
    let want = signature(&judge(&cur, &imp));
    if !want.0 { eprintln!("shrink: the case does not fail; nothing to do"); return (cur, imp); }
    let nt = cur["tables"].as_array().map(|a| a.len()).unwrap_or(0);
    // 2a. one batch per table
    { let mut c = cur.clone(); for t in 0..nt { let n = c["tables"][t].as_array().map(|a| a.len()).unwrap_or(0); c["cat"][t]["cuts"] = if n == 0 { json!([]) } else { json!([n]) }; }
      if let Some(i) = still(&c, &want) { cur = c; imp = i; } }
    if cur["mode"].as_str() != Some("meta") && cur["cfg"].as_str() != Some("mem1") { let mut c = cur.clone(); c["cfg"] = json!("mem1"); if let Some(i) = still(&c, &want) { cur = c; imp = i; } }
    // 1. rows (ddmin per table)
    for t in 0..nt {
        let mut chunk = (cur["tables"][t].as_array().map(|a| a.len()).unwrap_or(0) + 1) / 2;
        while chunk >= 1 {
            let mut at = 0;
            loop {
                let rows = cur["tables"][t].as_array().cloned().unwrap_or_default();
                if at >= rows.len() { break; }
                let mut keep = rows.clone();
                let hi = (at + chunk).min(rows.len());
                keep.drain(at..hi);
                let mut c = cur.clone();
                c["tables"][t] = Value::Array(keep.clone());
                c["cat"][t]["cuts"] = if keep.is_empty() { json!([]) } else { json!([keep.len()]) };
                if let Some(i) = still(&c, &want) { cur = c; imp = i; } else { at += chunk; }
            }
            if chunk == 1 { break; }
            chunk /= 2;
        }
    }
    // 3. top-level wrappers
    loop {
        let mut c = cur.clone();
        let sql = c["sql"].as_str().unwrap_or("").to_string();
        let cut = if let Some(inner) = c["plan"].get("limit").map(|l| l["q"].clone()) {
            let pos = sql.rfind(" LIMIT ").or_else(|| sql.rfind(" OFFSET "));
            // `LIMIT n OFFSET m`: cut at the earlier of the two keywords belonging to the tail
            let pos = match (sql.rfind(" LIMIT "), sql.rfind(" OFFSET ")) { (Some(a), Some(b)) => Some(a.min(b)), _ => pos };
            pos.map(|p| (inner, sql[..p].to_string()))
        } else if let Some(inner) = c["plan"].get("sort").map(|s| s["q"].clone()) {
            sql.rfind(" ORDER BY ").map(|p| (inner, sql[..p].to_string()))
        } else { None };
        match cut {
            Some((inner, text)) => { c["plan"] = inner; c["sql"] = json!(text); if let Some(i) = still(&c, &want) { cur = c; imp = i; } else { break; } }
            None => break,
        }
    }
    // 4. cell values
    for t in 0..nt {
        let nrows = cur["tables"][t].as_array().map(|a| a.len()).unwrap_or(0);
        for r in 0..nrows {
            let ncols = cur["tables"][t][r].as_array().map(|a| a.len()).unwrap_or(0);
            for col in 1..ncols {
                let v = cur["tables"][t][r][col].clone();
                let cands: Vec<Value> = if v.is_null() { vec![] }
                    else if v.get("i").is_some() { vec![Value::Null, json!({"i": 0}), json!({"i": 1})] }
                    else if v.get("f").is_some() { vec![Value::Null, json!({"f": 0}), json!({"f": 4607182418800017408u64})] }
                    else if v.get("s").is_some() { vec![Value::Null, json!({"s": "a"})] }
                    else if v.get("d").is_some() { vec![Value::Null, json!({"d": 18262})] }
                    else if v.get("b").is_some() { vec![Value::Null, json!({"b": false})] } else { vec![] };
                for cand in cands {
                    if cand == v { break; }
                    let mut c = cur.clone();
                    c["tables"][t][r][col] = cand;
                    if let Some(i) = still(&c, &want) { cur = c; imp = i; break; }
                }
            }
        }
    }
    (cur, imp)
}
