//! Glue between generator, executors and the line protocol: build a case, run it, replay it.
//!
//! Case JSON (input of lean/Driver/Sql.lean):
//!   {"prop":"C01", "mode":"spec"|"meta", "sql":text, "plan":Query, "tables":[Table…], "cat":[{name,cols,cuts}…],
//!    "tags":[…], "engine_defined":bool, "cfg":"memb" (mode spec) | "cfgs":["mem1","memb",…] (mode meta)}
//! Impl JSON: mode spec {"ok":Table}|{"err":kind,"msg":…}|{"panic":msg};  mode meta {"runs":{cfg:<that>,…}}
use super::ast::QueryExpr;
use super::catalog::{gen_catalog, CatOpts, Catalog};
use super::exec::{run, run_many, ExecCfg};
use super::gen::{Gen, GenOpts, Generated};
use crate::common::Opts;
use crate::rng::Rng;
use serde_json::{json, Value};

pub fn make_case(prop: &str, cat: &Catalog, q: &QueryExpr, tags: &[String], engine_defined: bool, cfgs: &[ExecCfg], meta: bool) -> Value {
    let mut c = json!({"prop": prop, "mode": if meta { "meta" } else { "spec" }, "sql": q.sql(), "plan": q.plan(0), "tables": cat.tables_json(), "cat": cat.meta_json(),
                       "tags": tags, "engine_defined": engine_defined});
    if meta { c["cfgs"] = json!(cfgs.iter().map(|c| c.name.clone()).collect::<Vec<_>>()); } else { c["cfg"] = json!(cfgs[0].name); }
    c
}

/// Neutraliser `nonull` (DESIGN §3.4): the same statement over the same tables with every NULL cell replaced by a
/// fresh non-NULL value of its column (distinct from every value of that column and from each other; BOOLEAN: FALSE).
pub fn nonull_tables(case: &Value) -> Value {
    let mut tables = case["tables"].clone();
    let empty = vec![];
    for (t, meta) in case["cat"].as_array().unwrap_or(&empty).iter().enumerate() {
        let ncols = meta["cols"].as_array().map(|a| a.len()).unwrap_or(0);
        for c in 0..ncols {
            let ty = meta["cols"][c]["ty"].as_str().unwrap_or("i64").to_string();
            let rows = tables[t].as_array().cloned().unwrap_or_default();
            let mut top: i64 = 1000;
            for r in &rows { if let Some(i) = r[c].get("i").and_then(|x| x.as_i64()) { top = top.max(i.saturating_add(1)); } if let Some(d) = r[c].get("d").and_then(|x| x.as_i64()) { top = top.max(d + 1); } }
            if ty == "date" { top = top.max(20000); }
            let top = top.min(1_000_000_000);
            let mut k = 0i64;
            for (ri, r) in rows.iter().enumerate() {
                if r[c].is_null() {
                    k += 1;
                    tables[t][ri][c] = match ty.as_str() {
                        "i64" | "i32" => json!({"i": top + k}),
                        "f64" => json!({"f": ((1000 + k) as f64).to_bits()}),
                        "str" => json!({"s": format!("n{}", k)}),
                        "date" => json!({"d": top + k}),
                        _ => json!({"b": false}),
                    };
                }
            }
        }
    }
    tables
}
pub fn has_null(case: &Value) -> bool {
    case["tables"].as_array().map(|ts| ts.iter().any(|t| t.as_array().map(|rs| rs.iter().any(|r| r.as_array().map(|cs| cs.iter().any(|c| c.is_null())).unwrap_or(false))).unwrap_or(false))).unwrap_or(false)
}

/// run a case (as generated or as read from a replay file) on the real engine
pub fn run_case(case: &Value) -> Value {
    let mut out = run_case_plain(case);
    // `"neutral":["nonull"]` in a spec-mode case: also run the neutralised variant; the driver uses it for attribution only
    if case["mode"].as_str() != Some("meta") && case["neutral"].as_array().map(|a| a.iter().any(|x| x == "nonull")).unwrap_or(false) && has_null(case) {
        let mut c2 = case.clone();
        c2["tables"] = nonull_tables(case);
        let imp2 = run_case_plain(&c2);
        if let Some(o) = out.as_object_mut() { o.insert("neutral_nonull".into(), json!({"tables": c2["tables"], "impl": imp2})); }
    }
    // `"neutral":[…,"noopt"]`: the same case with every optimizer rule switched off (bound plan straight to the physical planner)
    if case["mode"].as_str() != Some("meta") && case["neutral"].as_array().map(|a| a.iter().any(|x| x == "noopt")).unwrap_or(false) {
        let mut c2 = case.clone();
        let base = case["cfg"].as_str().unwrap_or("memb").split('+').next().unwrap_or("memb").to_string();
        c2["cfg"] = json!(format!("{}+noopt", base));
        let imp2 = run_case_plain(&c2);
        if let Some(o) = out.as_object_mut() { o.insert("neutral_noopt".into(), json!({"impl": imp2})); }
    }
    out
}

fn run_case_plain(case: &Value) -> Value {
    let cat = Catalog::from_case(case);
    let sql = case["sql"].as_str().unwrap_or("");
    if case["mode"].as_str() == Some("meta") {
        let cfgs: Vec<ExecCfg> = case["cfgs"].as_array().map(|a| a.iter().filter_map(|x| x.as_str().and_then(ExecCfg::parse)).collect()).unwrap_or_default();
        run_many(&cat, sql, &cfgs)
    } else {
        let cfg = case["cfg"].as_str().and_then(ExecCfg::parse).unwrap_or_else(ExecCfg::mem_batches);
        run(&cat, sql, &cfg)
    }
}

/// configuration list from `--opt cfgs=mem1,memb,pq2x7,memb+noopt` (default given by the caller)
pub fn cfgs_from_opts(o: &Opts, default: &str) -> Vec<ExecCfg> {
    o.get("cfgs").unwrap_or(default).split(',').filter_map(ExecCfg::parse).collect()
}

/// Standard main of a SQL family: replay, or generate `o.cases` cases (a fresh catalog every `per_cat` queries),
/// run each on the engine and emit.  `post` may veto / adjust a generated case (return None to skip it).
pub fn family_main(o: &Opts, prop: &str, seed_tag: u64, default_strata: &str, default_cfgs: &str, meta: bool,
                   mut post: impl FnMut(&mut Rng, &Catalog, Generated) -> Option<Generated>) {
    if let Some(p) = &o.replay {
        let cases = crate::common::replay_cases(p);
        if o.get_usize("shrink", 0) == 1 { for c in cases { let m = super::shrink::shrink(&c); println!("{}", json!({"case": m.0, "impl": m.1})); } return; }
        for c in cases { let i = run_case(&c); crate::common::emit(c, i); }
        return;
    }
    let gopts = GenOpts::from_opts(o, default_strata);
    let copts = CatOpts::from_opts(o);
    let cfgs = cfgs_from_opts(o, default_cfgs);
    let per_cat = o.get_usize("per_cat", 8).max(1);
    // `--opt strict_err=1`: an engine error counts as an oracle failure (properties that say "produces its rows")
    // `--opt strict_err=simple`: only for statements without joins / aggregates / set operations
    let strict_err = o.get("strict_err").unwrap_or("0").to_string();
    // `--opt neutral=1`: cases over tables with NULLs also carry the outcome of the `nonull` neutralised variant
    let neutral = o.get_usize("neutral", 0) == 1;
    let prop = o.get("prop").unwrap_or(prop).to_string();
    let mut r = Rng::new(o.seed ^ seed_tag);
    let mut cat = gen_catalog(&mut r, &copts);
    let mut n = 0usize; let mut attempts = 0usize;
    let clustered = o.get_usize("clustered", 1) == 1;
    let big = o.get("big").unwrap_or("1") != "0"; let big_huge = o.get("big").unwrap_or("1") == "1"; let mut big_now = false;   // big=small: only the ~1025-row class
    while n < o.cases && attempts < o.cases * 4 + 16 {
        if attempts % per_cat == 0 {
            // size stream (`--opt big=0` switches it off): the 4th catalog of a run has a table just above 1024 rows, the 8th one above 8192
            let k = attempts / per_cat;
            let mut co = copts.clone();
            if big && k == 3 { co.big_rows = Some(*r.pick(&[1001usize, 1025, 1100, 2049])); }
            if big && big_huge && k == 7 { co.big_rows = Some(*r.pick(&[8193usize, 8200, 10001])); }
            cat = gen_catalog(&mut r, &co);
            big_now = co.big_rows.is_some();
        }
        attempts += 1;
        let mut qr = r.fork();
        // targeted shape (spec mode, tried for 1 case in 4 and formed when the catalog has a suitable column — about 1 case in 10, `--opt clustered=0` switches it off): scalar / DISTINCT-accompanied MIN/MAX over the
        // column whose NULLs layout mem8c clusters into whole batches
        let targeted = if !meta && clustered && qr.chance(1, 4) { super::gen::clustered_agg_case(&mut qr, &cat) } else { None };
        let (g, cluster) = match targeted {
            Some((g, t, c, nf, k)) => (g, Some((t, c, nf, k))),
            None => { let g = Gen::new(&mut qr, &cat, &gopts).generate(n); match post(&mut r, &cat, g) { Some(g) => (g, None), None => continue } }
        };
        // rotate the single configuration of a spec-mode case over the list
        let one = [if cluster.is_some() { ExecCfg::mem_clustered() } else { cfgs[n % cfgs.len()].clone() }];
        let mut case = make_case(&prop, &cat, &g.q, &g.tags, g.engine_defined, if meta { &cfgs } else { &one }, meta);
        if let Some((t, c, nf, k)) = cluster { case["cat"][t]["cluster"] = json!([c, nf, k]); }
        if !meta { if let Some(t) = case["tags"].as_array_mut() { t.push(json!(format!("layout:{}", one[0].name))); } }
        if big_now { if let Some(t) = case["tags"].as_array_mut() { t.push(json!("data:big")); } }
        if neutral { case["neutral"] = json!(["nonull", "noopt"]); }
        let simple = !g.tags.iter().any(|t| t == "f:join" || t == "f:agg" || t == "f:setop");
        if strict_err == "1" || (strict_err == "simple" && simple) { case["strict_err"] = json!(true); }
        let imp = run_case(&case);
        crate::common::emit(case, imp);
        n += 1;
    }
}
