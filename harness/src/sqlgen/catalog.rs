//! Catalog generator: 1–4 tables × 2–6 columns, small value domains, NULL densities, boundary / special streams,
//! rows cut into batches.  Everything derives from the caller's Rng.
use super::{rows_from_json, rows_json, ColTy, Val};
use crate::rng::Rng;
use arrow::array::{ArrayRef, BooleanArray, Date32Array, Float64Array, Int32Array, Int64Array, StringArray};
use arrow::datatypes::{DataType, Field, Schema, SchemaRef};
use arrow::record_batch::RecordBatch;
use serde_json::{json, Value};
use std::sync::Arc;

#[derive(Clone, Debug)]
pub struct ColSpec {
    pub name: String,
    pub cty: ColTy,
    /// NULL density in percent: 0, 10, 50 or 100
    pub null_pct: u8,
    /// values from the boundary stream (extremes): no arithmetic / SUM / AVG is generated over such a column
    pub boundary: bool,
    /// NaN / ±inf / -0.0 present (separately tagged stream; ordering and grouping are engine-defined)
    pub special: bool,
    /// unique and non-NULL (the row id)
    pub unique: bool,
}

#[derive(Clone, Debug)]
pub struct TableSpec {
    pub name: String,
    pub cols: Vec<ColSpec>,
    pub rows: Vec<Vec<Val>>,
    /// batch lengths (sum = rows.len()); an empty table has cuts = []
    pub cuts: Vec<usize>,
    /// layout mem8c override: (column whose NULLs are clustered, NULLs first?, number of batches); None = chosen from the content
    pub cluster: Option<(usize, bool, usize)>,
}

#[derive(Clone, Debug, Default)]
pub struct Catalog { pub tables: Vec<TableSpec> }

#[derive(Clone, Debug)]
pub struct CatOpts {
    pub max_tables: usize,
    pub max_cols: usize,
    /// row-count classes to draw from: "tiny" 0..8, "small" 0..60, "mid" 60..300, "big" 1000..3000
    pub sizes: Vec<String>,
    /// force the ≥1000 rows in ≥2 batches shape on the first table (the only multi-partition MemoryTableExec)
    pub multi_partition: bool,
    /// allow the boundary stream (one column of one table in ~1/3 of the catalogs)
    pub boundary: bool,
    /// allow NaN / ±inf / -0.0 in double columns (tagged `special_floats`)
    pub special_floats: bool,
    /// allow NULLs at all
    pub nulls: bool,
    /// same column names in every table (c0, c1, …) instead of table-specific names
    pub shared_names: bool,
    pub max_batches: usize,
    /// restrict column types (empty = all)
    pub types: Vec<ColTy>,
    /// force this many rows on table 0, cut into ≥ 2 batches (size stream around the engine's 1000 / 1024 / 8192 / 10000-row gates)
    pub big_rows: Option<usize>,
}
impl Default for CatOpts {
    fn default() -> Self {
        CatOpts { max_tables: 3, max_cols: 5, sizes: vec!["tiny".into(), "small".into(), "small".into(), "small".into()], multi_partition: false, boundary: false,
                  special_floats: false, nulls: true, shared_names: false, max_batches: 4, types: vec![], big_rows: None }
    }
}
impl CatOpts {
    /// read overrides from harness `--opt` keys: tables=, cols=, sizes=tiny,small,big, multi=1, boundary=1, special=1, nulls=0, shared_names=1, batches=
    pub fn from_opts(o: &crate::common::Opts) -> CatOpts {
        let mut c = CatOpts::default();
        c.max_tables = o.get_usize("tables", c.max_tables).clamp(1, 4);
        c.max_cols = o.get_usize("cols", c.max_cols).clamp(2, 6);
        if let Some(s) = o.get("sizes") { c.sizes = s.split(',').map(|x| x.to_string()).collect(); }
        c.multi_partition = o.get_usize("multi", 0) == 1;
        c.boundary = o.get_usize("boundary", 0) == 1;
        c.special_floats = o.get_usize("special", 0) == 1;
        c.nulls = o.get_usize("nulls", 1) == 1;
        c.shared_names = o.get_usize("shared_names", 0) == 1;
        c.max_batches = o.get_usize("batches", c.max_batches).max(1);
        if let Some(s) = o.get("types") { c.types = s.split(',').filter_map(ColTy::parse).collect(); }
        c
    }
}

pub const SMALL_STRS: &[&str] = &["a", "b", "ab", "ba", "abc", "B", "a b", "b%", "c_d", "zz"];
pub const BOUNDARY_STRS: &[&str] = &["", " ", "é", "日本", "ß", "a\u{0301}", "Z", "'", "\\", "%"];
pub const DATE_BASE: i32 = 18262; // 2020-01-01

/// a value of the column's small domain
pub fn small_value(r: &mut Rng, cty: ColTy, dom: u64) -> Val {
    match cty {
        ColTy::I64 | ColTy::I32 => Val::I(r.below(dom) as i64 - (dom as i64) / 4),
        ColTy::F64 => Val::f((r.below(dom * 2) as f64 - dom as f64 / 2.0) / 4.0),
        ColTy::Str => Val::S(SMALL_STRS[r.below((dom as usize).min(SMALL_STRS.len()) as u64) as usize].to_string()),
        ColTy::Date => Val::D(DATE_BASE + r.below(dom) as i32),
        ColTy::Bool => Val::B(r.chance(1, 2)),
    }
}

pub fn boundary_value(r: &mut Rng, cty: ColTy) -> Val {
    match cty {
        ColTy::I64 => Val::I(*r.pick(&[i64::MIN, i64::MAX, i64::MIN + 1, i64::MAX - 1, i32::MAX as i64 + 1, i32::MIN as i64 - 1, (1 << 53) + 1, (1 << 53) - 1, 1 << 53, -(1 << 53) - 1, 0, -1, 1])),
        ColTy::I32 => Val::I(*r.pick(&[i32::MIN as i64, i32::MAX as i64, i32::MIN as i64 + 1, i32::MAX as i64 - 1, 0, -1, 1, 65536])),
        ColTy::F64 => Val::f(*r.pick(&[0.0, 9007199254740992.0, 9007199254740994.0, -9007199254740992.0, 1e300, -1e300, 5e-324, 0.5, -0.5, 2147483648.0])),
        ColTy::Str => Val::S(r.pick(BOUNDARY_STRS).to_string()),
        ColTy::Date => Val::D(*r.pick(&[0, -1, 1, -25567, 47482, DATE_BASE, 11016])),
        ColTy::Bool => Val::B(r.chance(1, 2)),
    }
}

pub fn special_float(r: &mut Rng) -> Val {
    Val::f(*r.pick(&[f64::NAN, f64::INFINITY, f64::NEG_INFINITY, -0.0, 0.0, 1.0, -1.0]))
}

fn draw_rows(r: &mut Rng, class: &str) -> usize {
    match class {
        "tiny" => if r.chance(1, 4) { 0 } else { 1 + r.below(8) as usize },
        "small" => 4 + r.below(57) as usize,
        "mid" => 60 + r.below(241) as usize,
        "big" => 1000 + r.below(2001) as usize,
        n => n.parse().unwrap_or(10),
    }
}

fn cut_batches(r: &mut Rng, n: usize, max_batches: usize) -> Vec<usize> {
    if n == 0 { return if r.chance(1, 2) { vec![] } else { vec![0] }; }
    let k = 1 + r.below(max_batches.min(n) as u64) as usize;
    let mut cuts: Vec<usize> = (0..k - 1).map(|_| r.below(n as u64 + 1) as usize).collect();
    cuts.push(0); cuts.push(n); cuts.sort();
    cuts.windows(2).map(|w| w[1] - w[0]).collect()
}

pub fn gen_catalog(r: &mut Rng, o: &CatOpts) -> Catalog {
    let nt = 1 + r.below(o.max_tables as u64) as usize;
    let all = [ColTy::I64, ColTy::I32, ColTy::F64, ColTy::Str, ColTy::Date, ColTy::Bool, ColTy::I64, ColTy::Str];
    let pool: Vec<ColTy> = if o.types.is_empty() { all.to_vec() } else { o.types.clone() };
    let boundary_table = if o.boundary && r.chance(1, 2) { Some(r.below(nt as u64) as usize) } else { None };
    let mut tables = vec![];
    for t in 0..nt {
        let nc = 2 + r.below((o.max_cols - 1) as u64) as usize;
        let mut cols = vec![ColSpec { name: if o.shared_names { "id".into() } else { format!("id{}", t) }, cty: ColTy::I64, null_pct: 0, boundary: false, special: false, unique: true }];
        for c in 1..nc {
            let cty = *r.pick(&pool);
            let null_pct = if !o.nulls { 0 } else { *r.pick(&[0u8, 0, 10, 10, 50, 50, 100]) };
            let boundary = boundary_table == Some(t) && r.chance(1, 2);
            let special = o.special_floats && cty == ColTy::F64 && r.chance(1, 2);
            let letter = (b'a' + (c as u8 - 1)) as char;
            cols.push(ColSpec { name: if o.shared_names { format!("{}", letter) } else { format!("{}{}", letter, t) }, cty, null_pct, boundary, special, unique: false });
        }
        let n = if let (Some(b), 0) = (o.big_rows, t) { b } else if o.multi_partition && t == 0 { 1000 + r.below(1200) as usize } else { let cl = r.pick(&o.sizes).clone(); draw_rows(r, &cl) };
        let doms: Vec<u64> = cols.iter().map(|_| *r.pick(&[2u64, 3, 4, 6, 8])).collect();
        let mut rows = Vec::with_capacity(n);
        // row ids are unique but shuffled, so physical order is not id order
        let mut ids: Vec<i64> = (0..n as i64).collect();
        r.shuffle(&mut ids);
        for i in 0..n {
            let mut row = vec![Val::I(ids[i])];
            for (c, cs) in cols.iter().enumerate().skip(1) {
                let v = if r.below(100) < cs.null_pct as u64 { Val::Null }
                    else if cs.special && r.chance(1, 3) { special_float(r) }
                    else if cs.boundary && r.chance(1, 2) { boundary_value(r, cs.cty) }
                    else { small_value(r, cs.cty, doms[c]) };
                row.push(v);
            }
            rows.push(row);
        }
        let cuts = if (o.multi_partition || o.big_rows.is_some()) && t == 0 {
            let k = 2 + r.below(7) as usize; let base = n / k; let mut v = vec![base; k]; v[k - 1] += n - base * k; v
        } else { cut_batches(r, n, o.max_batches) };
        tables.push(TableSpec { name: format!("t{}", t), cols, rows, cuts, cluster: None });
    }
    Catalog { tables }
}

fn arrow_type(c: ColTy) -> DataType {
    match c { ColTy::I64 => DataType::Int64, ColTy::I32 => DataType::Int32, ColTy::F64 => DataType::Float64, ColTy::Str => DataType::Utf8, ColTy::Date => DataType::Date32, ColTy::Bool => DataType::Boolean }
}

impl TableSpec {
    pub fn schema(&self) -> SchemaRef {
        Arc::new(Schema::new(self.cols.iter().map(|c| Field::new(&c.name, arrow_type(c.cty), true)).collect::<Vec<_>>()))
    }
    pub fn batch_of(&self, rows: &[Vec<Val>]) -> RecordBatch {
        let mut arrays: Vec<ArrayRef> = vec![];
        for (ci, c) in self.cols.iter().enumerate() {
            let a: ArrayRef = match c.cty {
                ColTy::I64 => Arc::new(Int64Array::from(rows.iter().map(|r| if let Val::I(i) = &r[ci] { Some(*i) } else { None }).collect::<Vec<_>>())),
                ColTy::I32 => Arc::new(Int32Array::from(rows.iter().map(|r| if let Val::I(i) = &r[ci] { Some(*i as i32) } else { None }).collect::<Vec<_>>())),
                ColTy::F64 => Arc::new(Float64Array::from(rows.iter().map(|r| if let Val::F(b) = &r[ci] { Some(f64::from_bits(*b)) } else { None }).collect::<Vec<_>>())),
                ColTy::Str => Arc::new(StringArray::from(rows.iter().map(|r| if let Val::S(s) = &r[ci] { Some(s.clone()) } else { None }).collect::<Vec<_>>())),
                ColTy::Date => Arc::new(Date32Array::from(rows.iter().map(|r| if let Val::D(d) = &r[ci] { Some(*d) } else { None }).collect::<Vec<_>>())),
                ColTy::Bool => Arc::new(BooleanArray::from(rows.iter().map(|r| if let Val::B(b) = &r[ci] { Some(*b) } else { None }).collect::<Vec<_>>())),
            };
            arrays.push(a);
        }
        RecordBatch::try_new(self.schema(), arrays).expect("batch")
    }
    /// batches as cut by `cuts`
    pub fn batches(&self) -> Vec<RecordBatch> {
        let mut out = vec![]; let mut at = 0;
        for &n in &self.cuts { out.push(self.batch_of(&self.rows[at..at + n])); at += n; }
        if at < self.rows.len() { out.push(self.batch_of(&self.rows[at..])); }
        out
    }
    /// 6–12 batches, NULLs of one nullable column (chosen deterministically from the table's content) clustered at the end or the
    /// start, so that whole trailing / leading batches are all-NULL in that column (layout `mem8c`)
    pub fn clustered_batches(&self) -> Vec<RecordBatch> {
        let n = self.rows.len();
        if n == 0 { return self.batches(); }
        let nullable: Vec<usize> = (0..self.cols.len()).filter(|&c| self.rows.iter().any(|r| r[c].is_null()) && self.rows.iter().any(|r| !r[c].is_null())).collect();
        let mut rows = self.rows.clone();
        let mut k = (6 + n % 7).min(n);
        if let Some((col, nulls_first, kk)) = self.cluster {
            if col < self.cols.len() { rows.sort_by_key(|r| r[col].is_null() != nulls_first); }
            k = kk.clamp(1, n);
        } else if !nullable.is_empty() {
            let h = n + self.cols.len() * 7 + self.name.len();
            let col = nullable[h % nullable.len()];
            let nulls_first = (h / nullable.len()) % 2 == 1;
            rows.sort_by_key(|r| r[col].is_null() != nulls_first);   // stable: keeps the relative order inside the two clusters
        }
        let mut out = vec![]; let mut at = 0;
        for b in 0..k { let hi = n * (b + 1) / k; out.push(self.batch_of(&rows[at..hi])); at = hi; }
        out
    }
    pub fn single_batch(&self) -> Vec<RecordBatch> { vec![self.batch_of(&self.rows)] }
    pub fn to_json(&self) -> Value {
        json!({"name": self.name, "cuts": self.cuts,
               "cols": self.cols.iter().map(|c| json!({"name": c.name, "ty": c.cty.name(), "null_pct": c.null_pct, "boundary": c.boundary, "special": c.special, "unique": c.unique})).collect::<Vec<_>>()})
    }
}

impl Catalog {
    /// `cat` member of a case (schemas, cuts) — rows travel separately in `tables`
    pub fn meta_json(&self) -> Value { Value::Array(self.tables.iter().map(|t| t.to_json()).collect()) }
    pub fn tables_json(&self) -> Value { Value::Array(self.tables.iter().map(|t| rows_json(&t.rows)).collect()) }
    pub fn from_case(case: &Value) -> Catalog {
        let mut tables = vec![];
        let empty = vec![];
        let metas = case["cat"].as_array().unwrap_or(&empty);
        for (i, m) in metas.iter().enumerate() {
            let cols = m["cols"].as_array().unwrap_or(&empty).iter().map(|c| ColSpec {
                name: c["name"].as_str().unwrap_or("c").to_string(), cty: ColTy::parse(c["ty"].as_str().unwrap_or("i64")).unwrap_or(ColTy::I64),
                null_pct: c["null_pct"].as_u64().unwrap_or(0) as u8, boundary: c["boundary"].as_bool().unwrap_or(false),
                special: c["special"].as_bool().unwrap_or(false), unique: c["unique"].as_bool().unwrap_or(false) }).collect();
            let rows = rows_from_json(&case["tables"][i]);
            let mut cuts: Vec<usize> = m["cuts"].as_array().unwrap_or(&empty).iter().map(|x| x.as_u64().unwrap_or(0) as usize).collect();
            if cuts.iter().sum::<usize>() != rows.len() { cuts = if rows.is_empty() { vec![] } else { vec![rows.len()] }; }
            let cluster = m["cluster"].as_array().and_then(|a| Some((a.first()?.as_u64()? as usize, a.get(1)?.as_bool()?, a.get(2)?.as_u64()? as usize)));
            tables.push(TableSpec { name: m["name"].as_str().unwrap_or("t").to_string(), cols, rows, cuts, cluster });
        }
        Catalog { tables }
    }
    pub fn total_rows(&self) -> usize { self.tables.iter().map(|t| t.rows.len()).sum() }
}
