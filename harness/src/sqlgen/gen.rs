//! Type-directed generator of bounded-depth queries over a generated catalog.
//! A case has one *primary stratum* (forced on) and a set of allowed auxiliary features (each used with some
//! probability).  Every feature actually used is recorded as a tag `f:<feature>`; the primary as `s:<stratum>`.
//!
//! Rules that keep the reference semantics deterministic:
//!   * a LIMIT/OFFSET below the top level sits on an ORDER BY over *all* output columns (ties are then equal rows);
//!   * no integer division / modulo; magnitudes are tracked (`bits`) so that no i64 overflow and no inexact double
//!     arithmetic can occur; columns from the boundary stream take part in comparisons only;
//!   * constructs whose result the properties call engine-defined set `engine_defined`.
use super::ast::*;
use super::catalog::{Catalog, DATE_BASE, SMALL_STRS};
use super::{Ty, Val};
use crate::rng::Rng;
use std::collections::BTreeSet;

/// A column visible in a scope.
#[derive(Clone, Debug)]
pub struct SCol {
    pub ty: Ty,
    /// SQL spelling of a reference to this column in the current scope
    pub sql: String,
    /// bare output name (used to re-qualify under a derived-table alias)
    pub name: String,
    pub nullable: bool,
    /// NULLs may arise from computation (outer join, expression, NULL literal) — not removable by the `nonull` data neutraliser
    pub ncomp: bool,
    /// ordinal of the FROM item the column comes from (join keys of a later join are drawn from ONE earlier item unless `multi_rel_key`)
    pub rel: usize,
    /// bound on magnitude + fraction bits of the values (None: not usable in arithmetic / SUM / AVG)
    pub bits: Option<u32>,
    pub special: bool,
    /// physical INTEGER (Int32) column: mixing it with BIGINT in join keys / COALESCE / CASE hits engine defects (feature `mixed_width`)
    pub narrow: bool,
    /// integer expression over INTEGER columns: its physical width is the engine's business — never used as a join / IN key unless `mixed_width`
    pub wunk: bool,
    /// column of a derived table / CTE / VALUES list (grouped SUM over such a column hits an engine defect: feature `sum_derived`)
    pub derived: bool,
    /// a few values that occur in the column (literals for comparisons)
    pub samples: Vec<Val>,
}
pub type Scope = Vec<SCol>;

pub const ALL_STRATA: &[&str] = &["filter", "case", "join", "agg", "distinct", "setop", "cte", "values", "gsets", "subquery", "sort_limit"];

#[derive(Clone, Debug)]
pub struct GenOpts {
    /// primary strata to rotate over
    pub strata: Vec<String>,
    /// auxiliary features allowed in addition to the primary stratum's own
    pub allow: BTreeSet<String>,
    pub max_depth: usize,
    /// at most this many JOINs per FROM clause (`--opt joins=n`, default 2)
    pub max_joins: usize,
}
impl GenOpts {
    /// `--opt strata=a,b,c` (primary strata), `--opt allow=x,y` (extra features; default = the strata list plus basics),
    /// `--opt deny=x,y`, `--opt depth=n`
    pub fn from_opts(o: &crate::common::Opts, default_strata: &str) -> GenOpts {
        let strata: Vec<String> = o.get("strata").unwrap_or(default_strata).split(',').filter(|s| !s.is_empty()).map(|s| s.to_string()).collect();
        let strata = if strata.iter().any(|s| s == "all") { ALL_STRATA.iter().map(|s| s.to_string()).collect() } else { strata };
        let mut allow: BTreeSet<String> = strata.iter().cloned().collect();
        for b in ["arith", "like", "inlist", "between", "or", "not", "isnull", "derived", "having", "outer_join", "semi_join", "cross_join", "cmp_col", "sum_derived", "null_int_key"] { allow.insert(b.to_string()); }
        if let Some(a) = o.get("allow") { for x in a.split(',') { if !x.is_empty() { allow.insert(x.to_string()); } } }
        if let Some(d) = o.get("deny") { for x in d.split(',') { allow.remove(x); } }
        GenOpts { strata, allow, max_depth: o.get_usize("depth", 3), max_joins: o.get_usize("joins", 2).max(1) }
    }
}

pub struct Gen<'a> {
    pub r: &'a mut Rng,
    pub cat: &'a Catalog,
    pub o: &'a GenOpts,
    n_alias: usize,
    n_rel: usize,
    pub tags: BTreeSet<String>,
    pub engine_defined: bool,
    /// CTE stack in lexical scope: (name, output columns)
    ctes: Vec<(String, Scope)>,
    /// enclosing scopes for correlated references, innermost first
    outer: Vec<Scope>,
    /// nesting depth of query blocks
    qdepth: usize,
    /// the next FROM item must be a VALUES list / prefer CTE references
    force_values: bool,
    prefer_cte: bool,
    /// column references are being generated inside COALESCE / CASE / NULLIF (see `wide_ref`)
    widen: bool,
}

pub struct Generated { pub q: QueryExpr, pub tags: Vec<String>, pub engine_defined: bool, pub out: Scope }

impl<'a> Gen<'a> {
    pub fn new(r: &'a mut Rng, cat: &'a Catalog, o: &'a GenOpts) -> Self {
        Gen { r, cat, o, n_alias: 0, n_rel: 0, tags: BTreeSet::new(), engine_defined: false, ctes: vec![], outer: vec![], qdepth: 0, force_values: false, prefer_cte: false, widen: false }
    }
    fn on(&self, f: &str) -> bool { self.o.allow.contains(f) }
    fn tag(&mut self, f: &str) { self.tags.insert(format!("f:{}", f)); }
    /// feature allowed and drawn with probability num/den → tags it
    fn maybe(&mut self, f: &str, num: u64, den: u64) -> bool { if self.on(f) && self.r.chance(num, den) { self.tag(f); true } else { false } }
    fn alias(&mut self) -> String { self.n_alias += 1; format!("q{}", self.n_alias) }   // never collides with base column names a0…e3
    fn rel_alias(&mut self) -> String { self.n_rel += 1; format!("x{}", self.n_rel) }

    /// generate the `n`-th case of a run: primary stratum rotates over `o.strata`
    pub fn generate(mut self, n: usize) -> Generated {
        let primary = self.o.strata[n % self.o.strata.len()].clone();
        self.tags.insert(format!("s:{}", primary));
        let (q, out) = self.top(&primary);
        Generated { q, tags: self.tags.into_iter().collect(), engine_defined: self.engine_defined, out }
    }

    // ------------------------------------------------------------ scopes
    pub fn table_scope(&self, t: usize, alias: &str) -> Scope {
        let tb = &self.cat.tables[t];
        tb.cols.iter().enumerate().map(|(ci, c)| {
            let mut samples: Vec<Val> = vec![];
            for row in tb.rows.iter().take(40) { let v = &row[ci]; if !v.is_null() && !samples.contains(v) { samples.push(v.clone()); if samples.len() >= 6 { break; } } }
            SCol { ty: c.cty.ty(), sql: format!("{}.{}", alias, c.name), name: c.name.clone(), nullable: c.null_pct > 0, ncomp: false, rel: 0,
                   bits: if c.boundary || c.special || !c.cty.ty().numeric() { None } else if c.unique { Some(12) } else { Some(6) },
                   special: c.special, narrow: c.cty == super::ColTy::I32, wunk: false, derived: false, samples }
        }).collect()
    }
    fn requalify(out: &Scope, alias: &str) -> Scope {
        out.iter().map(|c| SCol { sql: format!("{}.{}", alias, c.name), derived: true, rel: 0, ..c.clone() }).collect()
    }

    // ------------------------------------------------------------ literals and scalars
    fn lit_of(&mut self, ty: Ty, near: Option<&SCol>) -> Expr {
        if let Some(c) = near { if !c.samples.is_empty() && self.r.chance(3, 4) {
            let v = self.r.pick(&c.samples).clone();
            if let Val::F(b) = &v { let x = f64::from_bits(*b); if x.is_nan() || x.is_infinite() || (x == 0.0 && x.is_sign_negative()) || x.abs() > 1e15 { return Expr::Lit(Val::f(0.5), Ty::F64); } }
            if let Val::D(d) = &v { if *d < -25000 || *d > 47000 { return Expr::Lit(Val::D(DATE_BASE), Ty::Date); } }
            if let Val::I(i) = &v { if *i == i64::MIN { return Expr::Lit(Val::I(i64::MIN + 1), Ty::Int); } }
            return Expr::Lit(v, ty);
        } }
        let v = match ty {
            Ty::Int => Val::I(self.r.range(-2, 6)),
            Ty::F64 => Val::f(self.r.range(-8, 8) as f64 / 4.0),
            Ty::Str => Val::S(self.r.pick(SMALL_STRS).to_string()),
            Ty::Date => Val::D(DATE_BASE + self.r.below(8) as i32),
            Ty::Bool => Val::B(self.r.chance(1, 2)),
        };
        Expr::Lit(v, ty)
    }
    fn cols_of(&self, sc: &Scope, ty: Ty) -> Vec<usize> { sc.iter().enumerate().filter(|(_, c)| c.ty == ty).map(|(i, _)| i).collect() }
    fn col_ref(sc: &Scope, i: usize) -> Expr { Expr::Col { i, sql: sc[i].sql.clone() } }
    /// reference to be combined with other integers (COALESCE / CASE / NULLIF / MIN / MAX): INTEGER columns are cast to BIGINT unless `mixed_width`
    fn wide_ref(&mut self, sc: &Scope, i: usize) -> Expr {
        if sc[i].narrow && !self.on("mixed_width") { Expr::Cast(Box::new(Self::col_ref(sc, i)), Ty::Int) } else { if sc[i].narrow { self.tag("mixed_width"); } Self::col_ref(sc, i) }
    }
    fn same_width(&self, a: &SCol, b: &SCol) -> bool { (a.narrow == b.narrow && !a.wunk && !b.wunk) || self.on("mixed_width") }

    /// scalar expression of type `ty`; returns (expr, bits bound, a column it is "near" for literal choice)
    pub fn scalar(&mut self, sc: &Scope, ty: Ty, depth: usize) -> (Expr, Option<u32>) {
        let cols = self.cols_of(sc, ty);
        let leaf = depth == 0 || self.r.chance(1, 2);
        if leaf {
            if !cols.is_empty() && self.r.chance(4, 5) { let i = *self.r.pick(&cols); let e = if self.widen { self.wide_ref(sc, i) } else { Self::col_ref(sc, i) }; return (e, sc[i].bits); }
            // correlated reference to an enclosing scope
            if !self.outer.is_empty() && self.on("corr_free") && self.r.chance(1, 3) {
                let oc = self.cols_of(&self.outer[0].clone(), ty);
                if !oc.is_empty() { let i = *self.r.pick(&oc); let c = self.outer[0][i].clone(); self.tag("corr"); return (Expr::Outer { d: 1, i, sql: c.sql.clone() }, c.bits); }
            }
            let near = if cols.is_empty() { None } else { Some(sc[*self.r.pick(&cols)].clone()) };
            let e = self.lit_of(ty, near.as_ref());
            return (e, if ty.numeric() { Some(5) } else { None });
        }
        let d = depth - 1;
        match ty {
            Ty::Int | Ty::F64 => {
                let k = self.r.below(10);
                if k < 5 && self.on("arith") {
                    let (a, ba) = self.scalar(sc, ty, d);
                    // mixed int/double arithmetic now and then
                    let tyb = if ty == Ty::F64 && self.r.chance(1, 4) { Ty::Int } else { ty };
                    let (b, bb) = self.scalar(sc, tyb, d);
                    if let (Some(x), Some(y)) = (ba, bb) {
                        // doubles: no multiplication and no negation — 0.0 * (-x) and -(0.0) are -0.0, whose comparison is engine-defined
                        let op = if ty == Ty::F64 { *self.r.pick(&[BinOp::Add, BinOp::Sub]) } else { *self.r.pick(&[BinOp::Add, BinOp::Sub, BinOp::Mul]) };
                        let bits = if op == BinOp::Mul { x + y } else { x.max(y) + 1 };
                        if bits <= 40 { self.tag("arith"); return (Expr::bin(op, a, b), Some(bits)); }
                    }
                    return (a, ba);
                }
                if k == 5 && self.on("arith") && ty == Ty::Int { let (a, ba) = self.scalar(sc, ty, d); if ba.is_some() { self.tag("neg"); return (Expr::Un(UnOp::Neg, Box::new(a)), ba); } return (a, ba); }
                if k == 6 && self.on("case") { return self.case_expr(sc, ty, d); }
                if k == 7 && self.on("case") { return self.coalesce_expr(sc, ty, d); }
                if k == 8 && self.on("case") { let w = std::mem::replace(&mut self.widen, true); let (a, ba) = self.scalar(sc, ty, d); let (b, _) = self.scalar(sc, ty, 0); self.widen = w; self.tag("nullif"); return (Expr::Nullif(Box::new(a), Box::new(b)), ba); }
                if k == 9 && self.on("cast") {
                    let from = if ty == Ty::Int { Ty::F64 } else { Ty::Int };
                    let (a, ba) = self.scalar(sc, from, d);
                    if ba.is_some() { self.tag("cast"); return (Expr::Cast(Box::new(a), ty), ba); }
                }
                self.scalar(sc, ty, 0)
            }
            Ty::Str => {
                let k = self.r.below(6);
                if k == 0 && self.on("concat") { let (a, _) = self.scalar(sc, Ty::Str, d); let (b, _) = self.scalar(sc, Ty::Str, 0); self.tag("concat"); return (Expr::bin(BinOp::Concat, a, b), None); }
                if k == 1 && self.on("case") { return self.case_expr(sc, ty, d); }
                if k == 2 && self.on("case") { return self.coalesce_expr(sc, ty, d); }
                self.scalar(sc, ty, 0)
            }
            Ty::Date => { if self.on("case") && self.r.chance(1, 3) { return self.coalesce_expr(sc, ty, d); } self.scalar(sc, ty, 0) }
            Ty::Bool => { if self.r.chance(1, 2) { (self.pred(sc, d), None) } else { self.scalar(sc, ty, 0) } }
        }
    }
    /// like `scalar`, but retried until the expression mentions a column (when the scope has one of that type)
    fn col_scalar(&mut self, sc: &Scope, ty: Ty, depth: usize) -> (Expr, Option<u32>) {
        let has = !self.cols_of(sc, ty).is_empty();
        for _ in 0..4 {
            let (e, b) = self.scalar(sc, ty, depth);
            let mut found = false;
            e.visit(&mut |x| if matches!(x, Expr::Col { .. } | Expr::Outer { .. }) { found = true });
            if found || !has { return (e, b); }
        }
        let cols = self.cols_of(sc, ty); let i = *self.r.pick(&cols);
        (Self::col_ref(sc, i), sc[i].bits)
    }
    fn case_expr(&mut self, sc: &Scope, ty: Ty, d: usize) -> (Expr, Option<u32>) {
        let w = std::mem::replace(&mut self.widen, true);
        let r = self.case_expr_inner(sc, ty, d);
        self.widen = w; r
    }
    fn case_expr_inner(&mut self, sc: &Scope, ty: Ty, d: usize) -> (Expr, Option<u32>) {
        self.tag("case");
        let n = 1 + self.r.below(2) as usize;
        let mut arms = vec![]; let mut bits = Some(0u32);
        for _ in 0..n { arms.push(self.pred(sc, d.min(1))); let (t, b) = self.scalar(sc, ty, d.min(1)); arms.push(t); bits = match (bits, b) { (Some(x), Some(y)) => Some(x.max(y)), _ => None }; }
        if self.r.chance(2, 3) { let (e, b) = self.scalar(sc, ty, 0); arms.push(e); bits = match (bits, b) { (Some(x), Some(y)) => Some(x.max(y)), _ => None }; }
        (Expr::Case(arms), if ty.numeric() { bits } else { None })
    }
    fn coalesce_expr(&mut self, sc: &Scope, ty: Ty, d: usize) -> (Expr, Option<u32>) {
        let w = std::mem::replace(&mut self.widen, true);
        let r = self.coalesce_expr_inner(sc, ty, d);
        self.widen = w; r
    }
    fn coalesce_expr_inner(&mut self, sc: &Scope, ty: Ty, d: usize) -> (Expr, Option<u32>) {
        self.tag("coalesce");
        let n = 2 + self.r.below(2) as usize;
        let mut es = vec![]; let mut bits = Some(0u32);
        for _ in 0..n { let (e, b) = self.scalar(sc, ty, d.min(1)); es.push(e); bits = match (bits, b) { (Some(x), Some(y)) => Some(x.max(y)), _ => None }; }
        (Expr::Coalesce(es), if ty.numeric() { bits } else { None })
    }

    fn cmp_types(&mut self, sc: &Scope) -> Ty {
        let mut tys: Vec<Ty> = sc.iter().map(|c| c.ty).collect();
        if tys.is_empty() { tys.push(Ty::Int); }
        *self.r.pick(&tys)
    }

    /// boolean predicate over the scope
    pub fn pred(&mut self, sc: &Scope, depth: usize) -> Expr {
        let w = std::mem::replace(&mut self.widen, false);
        let e = self.pred_inner(sc, depth);
        self.widen = w; e
    }
    fn pred_inner(&mut self, sc: &Scope, depth: usize) -> Expr {
        if depth > 0 {
            let k = self.r.below(10);
            if k < 2 { let a = self.pred(sc, depth - 1); let b = self.pred(sc, depth - 1); self.tag("and"); return Expr::and(a, b); }
            if k == 2 && self.on("or") { let a = self.pred(sc, depth - 1); let b = self.pred(sc, depth - 1); self.tag("or"); return Expr::bin(BinOp::Or, a, b); }
            if k == 3 && self.on("not") {
                // NOT over an IN / EXISTS subquery is the NOT IN / NOT EXISTS class (features not_in / not_exists)
                let a = self.pred(sc, depth - 1);
                if a.has_subquery_deep() && !self.on("not_in") { return a; }
                self.tag("not"); return Expr::Un(UnOp::Not, Box::new(a));
            }
            if k == 4 && self.on("subquery") && self.qdepth < 2 { if let Some(e) = self.subquery_pred(sc) { return e; } }
        }
        let ty = self.cmp_types(sc);
        let cols = self.cols_of(sc, ty);
        let k = self.r.below(12);
        let d = depth.min(1);
        match k {
            0 if self.on("isnull") => { let (a, _) = self.col_scalar(sc, ty, 0); self.tag("isnull"); Expr::Un(if self.r.chance(1, 2) { UnOp::IsNull } else { UnOp::IsNotNull }, Box::new(a)) }
            1 | 2 if self.on("inlist") && ty != Ty::Bool => {
                let (a, _) = self.col_scalar(sc, ty, d);
                let near = if cols.is_empty() { None } else { Some(sc[*self.r.pick(&cols)].clone()) };
                let n = 1 + self.r.below(4) as usize;
                let mut items: Vec<Expr> = (0..n).map(|_| self.lit_of(ty, near.as_ref())).collect();
                if self.on("null_lit") && self.r.chance(1, 4) { items.push(Expr::null(ty)); self.tag("inlist_null"); }
                let neg = self.on("not") && self.r.chance(1, 4);
                self.tag(if neg { "not_inlist" } else { "inlist" });
                Expr::InList(Box::new(a), items, neg)
            }
            3 if self.on("between") && ty != Ty::Bool && ty != Ty::Str => {
                let (a, _) = self.col_scalar(sc, ty, d);
                let near = if cols.is_empty() { None } else { Some(sc[*self.r.pick(&cols)].clone()) };
                let lo = self.lit_of(ty, near.as_ref()); let hi = self.lit_of(ty, near.as_ref());
                let neg = self.on("not") && self.r.chance(1, 4);
                self.tag("between");
                Expr::Between(Box::new(a), Box::new(lo), Box::new(hi), neg)
            }
            4 if self.on("like") && !self.cols_of(sc, Ty::Str).is_empty() => {
                let sc2 = self.cols_of(sc, Ty::Str); let i = *self.r.pick(&sc2);
                let pat = self.r.pick(&["a%", "%b", "%a%", "_", "a_", "%", "ab", "_b%", "%_", "", "b%%", "c__"]).to_string();
                self.tag("like");
                Expr::bin(if self.r.chance(1, 4) { BinOp::NotLike } else { BinOp::Like }, Self::col_ref(sc, i), Expr::Lit(Val::S(pat), Ty::Str))
            }
            5 if !self.cols_of(sc, Ty::Bool).is_empty() => { let b = self.cols_of(sc, Ty::Bool); let i = *self.r.pick(&b); Self::col_ref(sc, i) }
            6 | 7 if self.on("cmp_col") && cols.len() >= 2 => {
                let i = *self.r.pick(&cols); let mut j = *self.r.pick(&cols);
                if !self.same_width(&sc[i], &sc[j]) { j = i; }
                let op = if ty == Ty::Bool { *self.r.pick(&[BinOp::Eq, BinOp::Ne]) } else { *self.r.pick(&[BinOp::Eq, BinOp::Ne, BinOp::Lt, BinOp::Le, BinOp::Gt, BinOp::Ge]) };
                self.tag("cmp_col");
                Expr::bin(op, Self::col_ref(sc, i), Self::col_ref(sc, j))
            }
            _ => {
                let (a, _) = self.col_scalar(sc, ty, d);
                let near = if cols.is_empty() { None } else { Some(sc[*self.r.pick(&cols)].clone()) };
                let b = if self.r.chance(1, 6) { self.scalar(sc, ty, 0).0 } else { self.lit_of(ty, near.as_ref()) };
                let op = if ty == Ty::Bool { *self.r.pick(&[BinOp::Eq, BinOp::Ne]) } else { *self.r.pick(&[BinOp::Eq, BinOp::Eq, BinOp::Ne, BinOp::Lt, BinOp::Le, BinOp::Gt, BinOp::Ge]) };
                // mixed int / double comparison now and then
                let b = if ty == Ty::Int && self.on("mixed_cmp") && self.r.chance(1, 8) { self.tag("mixed_cmp"); Expr::Lit(Val::f(self.r.range(-4, 8) as f64 / 2.0), Ty::F64) } else { b };
                Expr::bin(op, a, b)
            }
        }
    }

    // ------------------------------------------------------------ subqueries
    /// EXISTS / IN / scalar comparison against a subquery over some table, correlated by equality (or, with
    /// feature `nonequi_corr`, additionally by an inequality)
    fn subquery_pred(&mut self, sc: &Scope) -> Option<Expr> {
        let saved = self.tags.clone();
        let r = self.subquery_pred_inner(sc);
        if r.is_none() { self.tags = saved; }
        r
    }
    fn subquery_pred_inner(&mut self, sc: &Scope) -> Option<Expr> {
        let t = self.r.below(self.cat.tables.len() as u64) as usize;
        let a = self.rel_alias();
        let inner = self.table_scope(t, &a);
        let from = Rel::Table { t, name: self.cat.tables[t].name.clone(), alias: a.clone() };
        // correlation: inner column = outer column of the same type
        let mut conj: Vec<Expr> = vec![];
        let mut pairs = vec![];
        for (ii, ic) in inner.iter().enumerate() { for (oi, oc) in sc.iter().enumerate() { if ic.ty == oc.ty && ic.ty != Ty::Bool && ic.ty != Ty::F64 && self.same_width(ic, oc) { pairs.push((ii, oi)); } } }
        let correlated = !pairs.is_empty() && self.on("corr") && self.r.chance(2, 3);
        if correlated {
            let (ii, oi) = *self.r.pick(&pairs);
            conj.push(Expr::bin(BinOp::Eq, Self::col_ref(&inner, ii), Expr::Outer { d: 1, i: oi, sql: sc[oi].sql.clone() }));
            self.tag("corr");
            if self.on("nonequi_corr") && self.r.chance(1, 3) {
                let (ii, oi) = *self.r.pick(&pairs);
                if inner[ii].ty != Ty::Str {
                    conj.push(Expr::bin(*self.r.pick(&[BinOp::Lt, BinOp::Gt, BinOp::Ne, BinOp::Le]), Self::col_ref(&inner, ii), Expr::Outer { d: 1, i: oi, sql: sc[oi].sql.clone() }));
                    self.tag("nonequi_corr");
                }
            }
        }
        self.qdepth += 1;
        self.outer.insert(0, sc.clone());
        if self.r.chance(1, 2) { let p = self.simple_pred(&inner); conj.push(p); }
        self.outer.remove(0);
        self.qdepth -= 1;
        let where_ = conj.into_iter().reduce(Expr::and);
        let kind = self.r.below(3);
        self.tag("subquery");
        match kind {
            0 => {
                let al = self.alias();
                let q = QueryExpr::of(Body::Select(Box::new(Select { from: Some(from), where_, group: None, having: None, proj: vec![(Expr::lit_i(1), al)], distinct: false })));
                let neg = self.on("not_exists") && self.r.chance(1, 3) || (self.on("not") && self.r.chance(1, 4));
                self.tag(if neg { "not_exists" } else { "exists" });
                Some(Expr::Exists(Box::new(q), neg))
            }
            1 => {
                // x IN (SELECT y FROM …)
                let mut cands = vec![];
                for (ii, ic) in inner.iter().enumerate() { for (oi, oc) in sc.iter().enumerate() { if ic.ty == oc.ty && ic.ty != Ty::Bool && ic.ty != Ty::F64 && self.same_width(ic, oc) { cands.push((ii, oi)); } } }
                if cands.is_empty() { return None; }
                let (ii, oi) = *self.r.pick(&cands);
                let al = self.alias();
                let q = QueryExpr::of(Body::Select(Box::new(Select { from: Some(from), where_, group: None, having: None, proj: vec![(Self::col_ref(&inner, ii), al)], distinct: false })));
                let neg = self.on("not_in") && self.r.chance(1, 2);
                self.tag(if neg { "not_in" } else { "in_sub" });
                Some(Expr::InSub(Box::new(Self::col_ref(sc, oi)), Box::new(q), neg))
            }
            _ => {
                // col op (SELECT agg(y) FROM … ) — a global aggregate yields exactly one row
                let mut cands = vec![];
                for (ii, ic) in inner.iter().enumerate() { for (oi, oc) in sc.iter().enumerate() { if ic.ty == oc.ty && (ic.ty == Ty::Int || ic.ty == Ty::Date || (ic.ty == Ty::Str && self.on("str_minmax"))) && ic.bits.is_some() == oc.bits.is_some() && self.same_width(ic, oc) { cands.push((ii, oi)); } } }
                if cands.is_empty() { return None; }
                let (ii, oi) = *self.r.pick(&cands);
                let f = *self.r.pick(&[AggFn::Min, AggFn::Max]);
                let arg = self.wide_ref(&inner, ii);
                let call = AggCall { f, arg: Some(arg), distinct: false };
                let al = self.alias();
                let post = Expr::Col { i: 0, sql: call.sql() };
                let q = QueryExpr::of(Body::Select(Box::new(Select { from: Some(from), where_, group: Some(Group { keys: vec![], aggs: vec![call], sets: None }), having: None, proj: vec![(post, al)], distinct: false })));
                self.tag("scalar_sub");
                Some(Expr::bin(*self.r.pick(&[BinOp::Eq, BinOp::Lt, BinOp::Ge, BinOp::Ne]), Self::col_ref(sc, oi), Expr::Scalar(Box::new(q))))
            }
        }
    }
    /// a leaf predicate: comparison / IS NULL / IN-list over the scope (no nesting, no subqueries)
    fn simple_pred(&mut self, sc: &Scope) -> Expr { self.pred(sc, 0) }

    // ------------------------------------------------------------ FROM
    fn base_rel(&mut self, allow_derived: bool) -> (Rel, Scope) {
        let mut k = self.r.below(10);
        if self.force_values { self.force_values = false; k = 1; }
        else if self.prefer_cte && !self.ctes.is_empty() && self.r.chance(3, 4) { k = 2; }
        if k == 0 && allow_derived && self.on("derived") && self.qdepth < 2 {
            self.tag("derived");
            self.qdepth += 1;
            let saved_outer = std::mem::take(&mut self.outer);   // derived tables are not correlated
            let (q, out) = self.query_block("filter", false);
            self.outer = saved_outer;
            self.qdepth -= 1;
            let a = self.rel_alias();
            return (Rel::Derived { q: Box::new(q), alias: a.clone() }, Self::requalify(&out, &a));
        }
        if k == 1 && self.on("values") {
            let (q, out) = self.values_query();
            let a = self.rel_alias();
            self.tag("values_from");
            return (Rel::Derived { q: Box::new(q), alias: a.clone() }, Self::requalify(&out, &a));
        }
        if (k == 2 || k == 3) && !self.ctes.is_empty() {
            let idx = self.r.below(self.ctes.len() as u64) as usize;
            // lexical scoping: a later definition of the same name shadows an earlier one
            let name = self.ctes[idx].0.clone();
            let idx = self.ctes.iter().rposition(|c| c.0 == name).unwrap_or(idx);
            let a = self.rel_alias();
            self.tag("cte_ref");
            return (Rel::Cte { idx, name, alias: a.clone() }, Self::requalify(&self.ctes[idx].1.clone(), &a));
        }
        let t = self.r.below(self.cat.tables.len() as u64) as usize;
        let a = self.rel_alias();
        (Rel::Table { t, name: self.cat.tables[t].name.clone(), alias: a.clone() }, self.table_scope(t, &a))
    }

    fn rel_rows(&self, r: &Rel) -> usize { match r { Rel::Table { t, .. } => self.cat.tables[*t].rows.len().max(1), _ => 20 } }
    fn join_rel(&mut self, n: usize) -> (Rel, Scope) {
        let (mut rel, mut sc) = self.base_rel(true);
        let mut est = self.rel_rows(&rel);
        for _ in 0..n {
            // keep the reference interpreter's nested loops (and the quadratic bag comparison) affordable
            if est > 1500 { break; }
            let (mut r2, mut sc2) = self.base_rel(true);
            // two derived relations with equal column names in one FROM resolve wrongly in the engine (feature `dup_derived_names`)
            let clash = sc2.iter().any(|c| c.derived && sc.iter().any(|d| d.derived && d.name == c.name));
            if clash && !self.on("dup_derived_names") {
                let t = self.r.below(self.cat.tables.len() as u64) as usize; let a = self.rel_alias();
                sc2 = self.table_scope(t, &a); r2 = Rel::Table { t, name: self.cat.tables[t].name.clone(), alias: a };
            } else if clash { self.tag("dup_derived_names"); }
            let mut jts = vec![JoinType::Inner, JoinType::Inner];
            if self.on("outer_join") { jts.extend([JoinType::Left, JoinType::Right, JoinType::Full]); }
            if self.on("semi_join") { jts.extend([JoinType::Semi, JoinType::Anti]); }
            if self.on("cross_join") { jts.push(JoinType::Cross); }
            let jt = *self.r.pick(&jts);
            let lw = sc.len(); let rw = sc2.len();
            let nrel = sc.iter().map(|c| c.rel).max().unwrap_or(0) + 1;
            let sc2: Scope = sc2.into_iter().map(|c| SCol { rel: nrel, ..c }).collect();
            let key_rel = self.r.below(nrel as u64) as usize;
            let mut both = sc.clone(); both.extend(sc2.iter().cloned());
            let on = if jt == JoinType::Cross { None } else {
                let mut conj = vec![];
                let mut pairs = vec![];
                for (i, a) in sc.iter().enumerate() { for (j, b) in sc2.iter().enumerate() { if a.ty == b.ty && a.ty != Ty::Bool && a.ty != Ty::F64 && self.same_width(a, b) && (a.rel == key_rel || self.on("multi_rel_key")) { pairs.push((i, lw + j)); } } }
                let nk = if pairs.is_empty() { 0 } else { 1 + self.r.below(2) as usize };
                for _ in 0..nk { let (i, j) = *self.r.pick(&pairs); conj.push(Expr::bin(BinOp::Eq, Self::col_ref(&both, i), Self::col_ref(&both, j))); }
                if conj.is_empty() || self.maybe("join_residual", 1, 3) { conj.push(self.pred(&both, 0)); }
                conj.into_iter().reduce(Expr::and)
            };
            self.tag(&format!("join_{}", jt.json()));
            let has_eq = matches!(&on, Some(Expr::Bin(BinOp::Eq, ..))) || matches!(&on, Some(Expr::Bin(BinOp::And, ..)));
            est = if matches!(jt, JoinType::Semi | JoinType::Anti) { est } else if has_eq { est.max(self.rel_rows(&r2)) * 3 } else { est * self.rel_rows(&r2) };
            rel = Rel::Join { jt, l: Box::new(rel), r: Box::new(r2), lw, rw, on };
            sc = match jt {
                JoinType::Semi | JoinType::Anti => sc,
                JoinType::Left => { let mut s = sc; s.extend(sc2.into_iter().map(|c| SCol { nullable: true, ncomp: true, ..c })); s }
                JoinType::Right => { let mut s: Scope = sc.into_iter().map(|c| SCol { nullable: true, ncomp: true, ..c }).collect(); s.extend(sc2); s }
                JoinType::Full => both.into_iter().map(|c| SCol { nullable: true, ncomp: true, ..c }).collect(),
                _ => both,
            };
        }
        (rel, sc)
    }

    // ------------------------------------------------------------ VALUES
    fn values_query(&mut self) -> (QueryExpr, Scope) {
        let ncols = 1 + self.r.below(3) as usize;
        let nrows = 1 + self.r.below(5) as usize;
        let tys: Vec<Ty> = (0..ncols).map(|_| *self.r.pick(&[Ty::Int, Ty::Int, Ty::Str, Ty::F64, Ty::Bool, Ty::Date])).collect();
        let mut rows = vec![];
        for ri in 0..nrows {
            let row: Vec<Expr> = tys.iter().map(|&ty| {
                // the engine types a VALUES column by its first row: keep the first row non-NULL and typed
                if ri > 0 && self.on("null_lit") && self.r.chance(1, 5) { Expr::null(ty) } else { self.lit_of(ty, None) }
            }).collect();
            rows.push(row);
        }
        let out: Scope = tys.iter().enumerate().map(|(i, &ty)| SCol { ty, sql: format!("column{}", i), name: format!("column{}", i), nullable: rows.iter().any(|r: &Vec<Expr>| matches!(r[i], Expr::Lit(Val::Null, _))), ncomp: rows.iter().any(|r: &Vec<Expr>| matches!(r[i], Expr::Lit(Val::Null, _))), bits: if ty.numeric() { Some(5) } else { None }, special: false, narrow: false, wunk: false, derived: false, rel: 0, samples: vec![] }).collect();
        self.tag("values");
        (QueryExpr::of(Body::Values(rows)), out)
    }

    /// size stream: VALUES lists whose row count sits around the engine's batch / partition thresholds (1000, 1024, 8192, 10000),
    /// bare (≤ 2049 rows) or as a derived table under COUNT(*) / SUM / MIN / MAX so that the comparison stays cheap
    fn values_long(&mut self) -> (QueryExpr, Scope) {
        let n = *self.r.pick(&[1usize, 2, 999, 1000, 1001, 1023, 1024, 1025, 1500, 2048, 2049, 3000, 8192, 8193, 10001]);
        let ncols = 1 + self.r.below(2) as usize;
        let rows: Vec<Vec<Expr>> = (0..n).map(|i| (0..ncols).map(|c| if c == 0 { Expr::lit_i((i % 7) as i64) } else { Expr::Lit(Val::S(["a", "b", "ab"][i % 3].to_string()), Ty::Str) }).collect()).collect();
        self.tag("values"); self.tag("values_long"); self.tag(&format!("values_rows:{}", n));
        let vq = QueryExpr::of(Body::Values(rows));
        if n <= 2049 && self.r.chance(1, 2) { self.tag("values_bare");
            let out: Scope = (0..ncols).map(|i| SCol { ty: if i == 0 { Ty::Int } else { Ty::Str }, sql: format!("column{}", i), name: format!("column{}", i), nullable: false, ncomp: false, bits: Some(5), special: false, narrow: false, wunk: false, derived: false, rel: 0, samples: vec![] }).collect();
            return (vq, out);
        }
        let a = self.rel_alias();
        let c0 = Expr::Col { i: 0, sql: format!("{}.column0", a) };
        let aggs = vec![AggCall { f: AggFn::CountStar, arg: None, distinct: false }, AggCall { f: AggFn::Sum, arg: Some(c0.clone()), distinct: false },
                        AggCall { f: AggFn::Min, arg: Some(c0.clone()), distinct: false }, AggCall { f: AggFn::Max, arg: Some(c0), distinct: false }];
        let mut proj = vec![]; let mut out: Scope = vec![];
        for (i, ag) in aggs.iter().enumerate() { let al = self.alias(); proj.push((Expr::Col { i, sql: ag.sql() }, al.clone()));
            out.push(SCol { ty: Ty::Int, sql: al.clone(), name: al, nullable: true, ncomp: true, bits: Some(20), special: false, narrow: false, wunk: false, derived: false, rel: 0, samples: vec![] }); }
        self.tag("values_from"); self.tag("values_agg"); self.tag("agg");
        let sel = Select { from: Some(Rel::Derived { q: Box::new(vq), alias: a }), where_: None, group: Some(Group { keys: vec![], aggs, sets: None }), having: None, proj, distinct: false };
        (QueryExpr::of(Body::Select(Box::new(sel))), out)
    }

    // ------------------------------------------------------------ SELECT blocks
    fn agg_call(&mut self, sc: &Scope, keyed: bool) -> (AggCall, Ty, Option<u32>) {
        let (c, ty, bits) = self.agg_call_inner(sc, keyed);
        // accumulator inputs that are NULL by computation (outer join, NULL literal …): feature `computed_null_key`
        let mut comp = false;
        if let Some(a) = &c.arg { a.visit(&mut |e| if let Expr::Col { i, .. } = e { if sc[*i].ncomp { comp = true; } }); }
        if comp && !self.on("computed_null_key") { return (AggCall { f: AggFn::CountStar, arg: None, distinct: false }, Ty::Int, Some(12)); }
        (c, ty, bits)
    }
    fn agg_call_inner(&mut self, sc: &Scope, keyed: bool) -> (AggCall, Ty, Option<u32>) {
        let k = self.r.below(10);
        if k < 2 || sc.is_empty() { return (AggCall { f: AggFn::CountStar, arg: None, distinct: false }, Ty::Int, Some(12)); }
        let distinct = self.on("agg_distinct") && self.r.chance(1, 5);
        if distinct { self.tag("agg_distinct"); }
        if k < 4 { let ty = self.cmp_types(sc); let (a, _) = self.scalar(sc, ty, 0); return (AggCall { f: AggFn::Count, arg: Some(a), distinct }, Ty::Int, Some(12)); }
        if k < 7 {
            // SUM / AVG over numeric expressions whose magnitude is tracked
            let ty = if self.cols_of(sc, Ty::F64).is_empty() || self.r.chance(1, 2) { Ty::Int } else { Ty::F64 };
            let (a, bits) = self.scalar(sc, ty, 1);
            let mut over_derived = false;
            a.visit(&mut |e| if let Expr::Col { i, .. } = e { if sc[*i].derived { over_derived = true; } });
            if over_derived && keyed && !self.on("sum_derived") { return (AggCall { f: AggFn::CountStar, arg: None, distinct: false }, Ty::Int, Some(12)); }
            if over_derived && keyed { self.tag("sum_derived"); }
            if let Some(b) = bits { if b <= 28 {
                if self.on("avg") && self.r.chance(1, 3) { self.tag("avg"); return (AggCall { f: AggFn::Avg, arg: Some(a), distinct }, Ty::F64, None); }
                self.tag("sum");
                return (AggCall { f: AggFn::Sum, arg: Some(a), distinct }, ty, Some(b + 12));
            } }
        }
        let tys: Vec<Ty> = sc.iter().map(|c| c.ty).filter(|t| *t != Ty::Bool).collect();
        if tys.is_empty() { return (AggCall { f: AggFn::CountStar, arg: None, distinct: false }, Ty::Int, Some(12)); }
        let ty = *self.r.pick(&tys);
        let cols = self.cols_of(sc, ty); let i = *self.r.pick(&cols);
        // MIN / MAX of a string group without a non-NULL value comes out as '' in the engine: feature `null_str_minmax`
        if ty == Ty::Str && (!self.on("str_minmax") || (sc[i].nullable && (!self.on("null_str_minmax") || (sc[i].ncomp && !self.on("computed_null_key"))))) { return (AggCall { f: AggFn::Count, arg: Some(Self::col_ref(sc, i)), distinct: false }, Ty::Int, Some(12)); }
        self.tag("minmax");
        let arg = self.wide_ref(sc, i);
        (AggCall { f: if self.r.chance(1, 2) { AggFn::Min } else { AggFn::Max }, arg: Some(arg), distinct: false }, ty, sc[i].bits)
    }

    /// one SELECT block (possibly with ORDER BY / LIMIT when `top` or when allowed below the top level)
    pub fn query_block(&mut self, primary: &str, top: bool) -> (QueryExpr, Scope) {
        // FROM
        let want_join = primary == "join" || self.maybe("join", 1, 6);
        let (from, sc) = if want_join { let n = 1 + self.r.below(self.o.max_joins.min(2) as u64) as usize; self.tag("join"); self.join_rel(n) } else { self.base_rel(true) };
        // WHERE
        let where_ = if primary == "filter" || primary == "subquery" || self.maybe("filter", 1, 3) {
            self.tag("filter");
            let d = if primary == "filter" { 1 + self.r.below(self.o.max_depth as u64) as usize } else { 1 };
            let mut p = self.pred(&sc, d);
            if primary == "subquery" { if let Some(s) = self.subquery_pred(&sc) { p = if self.r.chance(1, 2) { s } else { Expr::and(s, p) }; } }
            Some(p)
        } else { None };
        // GROUP BY
        let want_agg = primary == "agg" || primary == "gsets" || (primary != "distinct" && self.maybe("agg", 1, 8));
        let mut sel;
        let out: Scope;
        if want_agg {
            self.tag("agg");
            let gs = primary == "gsets";
            let nk = if gs { 1 + self.r.below(3) as usize } else { self.r.below(3) as usize };
            let mut keys = vec![]; let mut post: Scope = vec![];
            // composite keys / grouping sets with real NULL keys lose groups in the engine (A.21): feature `null_multi_key`
            let strict_null = (gs || nk >= 2) && !self.on("null_multi_key");
            let keyable: Vec<usize> = sc.iter().enumerate().filter(|(_, c)| !(strict_null && c.nullable) && !(c.ncomp && !self.on("computed_null_key"))).filter(|(_, c)| (c.ty != Ty::F64 || self.on("float_key")) && (c.ty != Ty::Bool || self.on("bool_key")) && (!(c.ty == Ty::Int && c.nullable) || self.on("null_int_key")) && (!c.ncomp || self.on("computed_null_key"))).map(|(i, _)| i).collect();
            for _ in 0..nk {
                if keyable.is_empty() { break; }
                let i = *self.r.pick(&keyable);
                if keys.iter().any(|k: &Expr| matches!(k, Expr::Col { i: j, .. } if *j == i)) { continue; }
                if !gs && self.on("key_expr") && sc[i].ty == Ty::Int && sc[i].bits.is_some() && self.r.chance(1, 5) {
                    let e = Expr::bin(BinOp::Add, Self::col_ref(&sc, i), Expr::lit_i(1));
                    self.tag("key_expr");
                    post.push(SCol { sql: e.sql(), name: String::new(), bits: sc[i].bits.map(|b| b + 1), samples: vec![], ..sc[i].clone() });
                    keys.push(e);
                } else { post.push(sc[i].clone()); keys.push(Self::col_ref(&sc, i)); }
            }
            if keys.len() >= 2 { self.tag("multi_key"); }
            let gs = gs && !keys.is_empty();
            let na = if keys.is_empty() { 1 + self.r.below(3) as usize } else if self.on("group_noagg") && self.r.chance(1, 6) { 0 } else { 1 + self.r.below(3) as usize };
            if na == 0 { self.tag("group_noagg"); }
            let mut aggs = vec![];
            for _ in 0..na {
                let (c, ty, bits) = self.agg_call(&sc, !keys.is_empty());
                if gs && aggs.iter().any(|a: &AggCall| a.sql() == c.sql()) { continue; }
                post.push(SCol { ty, sql: c.sql(), name: String::new(), nullable: !matches!(c.f, AggFn::Count | AggFn::CountStar), ncomp: !matches!(c.f, AggFn::Count | AggFn::CountStar), bits, special: false, narrow: false, wunk: false, derived: false, rel: 0, samples: vec![] });
                aggs.push(c);
            }
            let sets = if gs {
                let n = keys.len();
                let kind = *self.r.pick(&[GsKind::Rollup, GsKind::Cube, GsKind::Sets]);
                let sets: Vec<Vec<usize>> = match kind {
                    GsKind::Rollup => (0..=n).rev().map(|k| (0..k).collect()).collect(),
                    GsKind::Cube => (0..(1usize << n)).rev().map(|m| (0..n).filter(|b| m & (1 << (n - 1 - b)) != 0).collect()).collect(),
                    GsKind::Sets => {
                        let ns = 1 + self.r.below(3) as usize;
                        let mut s: Vec<Vec<usize>> = (0..ns).map(|_| (0..n).filter(|_| self.r.chance(1, 2)).collect()).collect();
                        // every key must occur in some set (the engine rejects GROUPING() arguments that are not grouping columns)
                        for k in 0..n { if !s.iter().any(|x| x.contains(&k)) { s[0].push(k); s[0].sort(); } }
                        s
                    }
                };
                self.tag(match kind { GsKind::Rollup => "rollup", GsKind::Cube => "cube", GsKind::Sets => "grouping_sets" });
                let all: Vec<String> = keys.iter().map(|k| k.sql()).collect();
                post.push(SCol { ty: Ty::Int, sql: format!("GROUPING({})", all.join(", ")), name: String::new(), nullable: false, ncomp: false, bits: Some(4), special: false, narrow: false, wunk: false, derived: false, rel: 0, samples: vec![] });
                // keys absent from a set come out NULL
                for c in post.iter_mut().take(n) { c.nullable = true; }
                Some((kind, sets))
            } else { None };
            let having = if !gs && primary != "gsets" && self.maybe("having", 1, 3) { Some(self.pred(&post, 0)) } else { None };
            // projection over the aggregate's output: a non-empty selection of its columns, sometimes expressions over them
            // (every aggregate is projected, so the statement text and the plan name the same aggregate list)
            let nkeys = keys.len(); let naggs = aggs.len();
            let mut idxs: Vec<usize> = (0..post.len()).filter(|&i| (i >= nkeys && i < nkeys + naggs) || self.r.chance(3, 4)).collect();
            if idxs.is_empty() && !post.is_empty() { idxs.push(self.r.below(post.len() as u64) as usize); }
            let mut proj = vec![]; let mut o: Scope = vec![];
            for i in idxs {
                let al = self.alias();
                let (e, bits) = if !gs && self.on("agg_expr") && post[i].ty == Ty::Int && post[i].bits.map(|b| b < 30).unwrap_or(false) && self.r.chance(1, 5) {
                    self.tag("agg_expr"); (Expr::bin(BinOp::Add, Self::col_ref(&post, i), Expr::lit_i(1)), post[i].bits.map(|b| b + 1))
                } else { (Self::col_ref(&post, i), post[i].bits) };
                o.push(SCol { sql: al.clone(), name: al.clone(), bits, samples: vec![], ..post[i].clone() });
                proj.push((e, al));
            }
            if proj.is_empty() { let al = self.alias(); proj.push((Expr::lit_i(1), al.clone())); o.push(SCol { ty: Ty::Int, sql: al.clone(), name: al, nullable: false, ncomp: false, bits: Some(1), special: false, narrow: false, wunk: false, derived: false, rel: 0, samples: vec![] }); }
            sel = Select { from: Some(from), where_, group: Some(Group { keys, aggs, sets }), having, proj, distinct: false };
            out = o;
        } else {
            // plain projection
            let distinct = primary == "distinct" || self.maybe("distinct", 1, 10);
            let n = 1 + self.r.below(4) as usize;
            let mut proj = vec![]; let mut o: Scope = vec![];
            let exprs = primary == "case" || self.on("case") && self.r.chance(1, 4);
            // DISTINCT groups by every output column: no BOOLEAN / DOUBLE keys unless allowed
            let usable_probe = (0..sc.len()).any(|i| (sc[i].ty != Ty::Bool || self.on("bool_key")) && (sc[i].ty != Ty::F64 || self.on("float_key")) && (!sc[i].nullable || (self.on("null_distinct") && (!sc[i].ncomp || self.on("computed_null_key")))));
            let distinct = distinct && usable_probe;
            if distinct { self.tag("distinct"); }
            let usable: Vec<usize> = (0..sc.len()).filter(|&i| !distinct || ((sc[i].ty != Ty::Bool || self.on("bool_key")) && (sc[i].ty != Ty::F64 || self.on("float_key")) && (!sc[i].nullable || (self.on("null_distinct") && (!sc[i].ncomp || self.on("computed_null_key")))))).collect();
            for _ in 0..n {
                let al = self.alias();
                if usable.is_empty() || (exprs && (!distinct || (self.on("null_distinct") && self.on("computed_null_key"))) && self.r.chance(1, 2)) {
                    let tys: Vec<Ty> = usable.iter().map(|&i| sc[i].ty).collect();
                    let ty = if tys.is_empty() { Ty::Int } else { *self.r.pick(&tys) };
                    let (e, bits) = self.scalar(&sc, ty, self.o.max_depth.min(2));
                    let mut wunk = false;
                    e.visit(&mut |x| if let Expr::Col { i, .. } = x { if sc[*i].narrow || sc[*i].wunk { wunk = true; } });
                    o.push(SCol { ty, sql: al.clone(), name: al.clone(), nullable: true, ncomp: true, bits, special: false, narrow: false, wunk, derived: false, rel: 0, samples: vec![] });
                    proj.push((e, al));
                } else {
                    let i = *self.r.pick(&usable);
                    o.push(SCol { sql: al.clone(), name: al.clone(), ..sc[i].clone() });
                    proj.push((Self::col_ref(&sc, i), al));
                }
            }
            if primary == "case" { self.tag("case"); }
            sel = Select { from: Some(from), where_, group: None, having: None, proj, distinct };
            out = o;
        }
        if primary == "subquery" && self.on("scalar_select") && self.r.chance(1, 4) {
            // correlated scalar subquery in the SELECT list
            if let Some((e, ty)) = self.scalar_select_item(&sel) { let al = self.alias(); sel.proj.push((e, al.clone())); let mut o2 = out.clone(); o2.push(SCol { ty, sql: al.clone(), name: al, nullable: true, ncomp: true, bits: None, special: false, narrow: false, wunk: false, derived: false, rel: 0, samples: vec![] }); return self.finish_block(sel, o2, primary, top); }
        }
        self.finish_block(sel, out, primary, top)
    }

    fn scalar_select_item(&mut self, sel: &Select) -> Option<(Expr, Ty)> {
        if sel.group.is_some() { return None; }
        let sc = match &sel.from { Some(Rel::Table { t, alias, .. }) => self.table_scope(*t, alias), _ => return None };
        let t = self.r.below(self.cat.tables.len() as u64) as usize;
        let a = self.rel_alias();
        let inner = self.table_scope(t, &a);
        let mut pairs = vec![];
        for (ii, ic) in inner.iter().enumerate() { for (oi, oc) in sc.iter().enumerate() { if ic.ty == oc.ty && (ic.ty == Ty::Int || ic.ty == Ty::Str) && self.same_width(ic, oc) { pairs.push((ii, oi)); } } }
        if pairs.is_empty() { return None; }
        let (ii, oi) = *self.r.pick(&pairs);
        let w = Expr::bin(BinOp::Eq, Self::col_ref(&inner, ii), Expr::Outer { d: 1, i: oi, sql: sc[oi].sql.clone() });
        let tys: Vec<usize> = (0..inner.len()).filter(|&i| inner[i].ty != Ty::Bool && (inner[i].ty != Ty::Str || self.on("str_minmax"))).collect();
        let ai = *self.r.pick(&tys);
        let arg = self.wide_ref(&inner, ai);
        let call = AggCall { f: *self.r.pick(&[AggFn::Max, AggFn::Min, AggFn::Count]), arg: Some(arg), distinct: false };
        let ty = if call.f == AggFn::Count { Ty::Int } else { inner[ai].ty };
        let al = self.alias();
        let q = QueryExpr::of(Body::Select(Box::new(Select { from: Some(Rel::Table { t, name: self.cat.tables[t].name.clone(), alias: a }), where_: Some(w),
            group: Some(Group { keys: vec![], aggs: vec![call.clone()], sets: None }), having: None, proj: vec![(Expr::Col { i: 0, sql: call.sql() }, al)], distinct: false })));
        self.tag("scalar_select"); self.tag("corr");
        Some((Expr::Scalar(Box::new(q)), ty))
    }

    fn finish_block(&mut self, sel: Select, out: Scope, primary: &str, top: bool) -> (QueryExpr, Scope) {
        let mut q = QueryExpr::of(Body::Select(Box::new(sel)));
        self.order_limit(&mut q, &out, primary, top);
        (q, out)
    }

    /// ORDER BY / LIMIT / OFFSET.  Top level: any keys (ties are the oracle's business).  Below: total order over all output columns.
    fn order_limit(&mut self, q: &mut QueryExpr, out: &Scope, primary: &str, top: bool) {
        let want = if top { primary == "sort_limit" || self.maybe("sort_limit", 1, 5) } else { self.on("sort_limit") && self.on("inner_limit") && self.r.chance(1, 4) };
        if !want || out.is_empty() { return; }
        let sortable = |c: &SCol| !c.special;
        if top {
            let n = 1 + self.r.below(out.len().min(3) as u64) as usize;
            let mut idx: Vec<usize> = (0..out.len()).filter(|&i| sortable(&out[i])).collect();
            self.r.shuffle(&mut idx);
            idx.truncate(n);
            if idx.is_empty() { return; }
            q.order = idx.iter().map(|&i| SortKey { e: Expr::Col { i, sql: out[i].name.clone() }, desc: self.r.chance(1, 2), nulls_first: self.r.chance(1, 2) }).collect();
            self.tag("order_by");
            if primary == "sort_limit" && self.r.chance(3, 4) || self.r.chance(1, 3) {
                let skip = *self.r.pick(&[0usize, 0, 0, 1, 2, 5, 50]);
                let fetch = if self.r.chance(1, 6) { None } else { Some(*self.r.pick(&[0usize, 1, 2, 3, 5, 10, 100])) };
                q.limit = Some((skip, fetch));
                self.tag("limit"); if skip > 0 { self.tag("offset"); }
            }
        } else {
            if out.iter().any(|c| !sortable(c)) { return; }
            q.order = (0..out.len()).map(|i| SortKey { e: Expr::Col { i, sql: out[i].name.clone() }, desc: self.r.chance(1, 2), nulls_first: self.r.chance(1, 2) }).collect();
            q.limit = Some((*self.r.pick(&[0usize, 0, 1, 3]), Some(*self.r.pick(&[1usize, 2, 5, 20]))));
            self.tag("inner_limit");
        }
    }

    // ------------------------------------------------------------ set operations
    fn select_of_types(&mut self, tys: &[Ty]) -> Select {
        let (from, sc) = self.base_rel(false);
        let where_ = if self.maybe("filter", 1, 3) { Some(self.pred(&sc, 1)) } else { None };
        let proj = tys.iter().map(|&ty| {
            let cols = self.cols_of(&sc, ty);
            let e = if !cols.is_empty() && self.r.chance(5, 6) { let i = *self.r.pick(&cols); self.wide_ref(&sc, i) } else { self.lit_of(ty, None) };
            (e, self.alias())
        }).collect();
        Select { from: Some(from), where_, group: None, having: None, proj, distinct: false }
    }
    fn setop_body(&mut self, depth: usize) -> (Body, Scope) {
        // left operand: free choice of 1–3 columns of one table; right operand(s): same types
        let (mut from, mut sc) = self.base_rel(false);
        let n = 1 + self.r.below(3) as usize;
        let mut proj = vec![]; let mut out: Scope = vec![];
        let usable_of = |g: &Self, sc: &Scope| -> Vec<usize> { (0..sc.len()).filter(|&i| (sc[i].ty != Ty::Bool || g.on("bool_key")) && (sc[i].ty != Ty::F64 || g.on("float_key"))).collect() };
        let mut usable = usable_of(self, &sc);
        if usable.is_empty() {
            // a VALUES list with only BOOLEAN / DOUBLE columns: fall back to a base table (its id column is always usable)
            let a = self.rel_alias();
            sc = self.table_scope(0, &a);
            from = Rel::Table { t: 0, name: self.cat.tables[0].name.clone(), alias: a };
            usable = usable_of(self, &sc);
        }
        for _ in 0..n {
            let i = *self.r.pick(&usable);
            let al = self.alias();
            out.push(SCol { sql: al.clone(), name: al.clone(), nullable: true, ncomp: sc[i].ncomp, samples: vec![], narrow: sc[i].narrow && self.on("mixed_width"), ..sc[i].clone() });
            let e = self.wide_ref(&sc, i);
            proj.push((e, al));
        }
        let where_ = if self.maybe("filter", 1, 3) { Some(self.pred(&sc, 1)) } else { None };
        let tys: Vec<Ty> = out.iter().map(|c| c.ty).collect();
        let mut body = Body::Select(Box::new(Select { from: Some(from), where_, group: None, having: None, proj, distinct: false }));
        let k = 1 + if depth > 0 && self.r.chance(1, 4) { 1 } else { 0 };
        for _ in 0..k {
            let op = *self.r.pick(&[SetOp::Union, SetOp::Union, SetOp::Intersect, SetOp::Except]);
            let all = self.r.chance(1, 2);
            self.tag(&format!("{}{}", op.json(), if all { "_all" } else { "" }));
            let r = Body::Select(Box::new(self.select_of_types(&tys)));
            body = Body::SetOp { op, all, l: Box::new(body), r: Box::new(r) };
        }
        for c in out.iter_mut() { c.bits = None; }
        (body, out)
    }

    // ------------------------------------------------------------ top level
    fn top(&mut self, primary: &str) -> (QueryExpr, Scope) {
        match primary {
            "setop" => {
                self.tag("setop");
                let (body, out) = self.setop_body(1);
                let mut q = QueryExpr::of(body);
                self.order_limit(&mut q, &out, primary, true);
                (q, out)
            }
            "values" if self.r.chance(1, 12) => self.values_long(),
            "values" => {
                match self.r.below(4) {
                    0 => { let (q, out) = self.values_query(); self.tag("values_bare"); (q, out) }
                    1 => {
                        // SELECT cols FROM (VALUES …) AS v [WHERE …]
                        let (vq, vout) = self.values_query();
                        let a = self.rel_alias();
                        let sc = Self::requalify(&vout, &a);
                        let where_ = if self.r.chance(1, 2) { Some(self.pred(&sc, 1)) } else { None };
                        let mut proj = vec![]; let mut out = vec![];
                        for i in 0..sc.len() { if self.r.chance(3, 4) || proj.is_empty() { let al = self.alias(); out.push(SCol { sql: al.clone(), name: al.clone(), ..sc[i].clone() }); proj.push((Self::col_ref(&sc, i), al)); } }
                        self.tag("values_from");
                        let sel = Select { from: Some(Rel::Derived { q: Box::new(vq), alias: a }), where_, group: None, having: None, proj, distinct: false };
                        self.finish_block(sel, out, primary, true)
                    }
                    2 => { self.tag("values_join"); self.force_values = true; self.query_block("join", true) }
                    _ => { self.tag("values_agg"); self.force_values = true; self.query_block("agg", true) }
                }
            }
            "cte" => self.cte_query(),
            p => self.query_block(p, true),
        }
    }
    /// WITH c1 AS (…), c2 AS (… may reference c1 …) SELECT … FROM references to them
    fn cte_query(&mut self) -> (QueryExpr, Scope) {
        self.tag("cte");
        let base = self.ctes.len();
        let n = 1 + self.r.below(3) as usize;
        let mut with = vec![];
        for k in 0..n {
            let name = format!("w{}", base + k);
            self.qdepth += 1;
            let prim = *self.r.pick(&["filter", "filter", "agg", "join"]);
            let (q, out) = self.query_block(prim, false);
            self.qdepth -= 1;
            self.ctes.push((name.clone(), out));
            with.push((name, q));
        }
        // body: a block whose FROM items are drawn mostly from the CTEs (base_rel prefers them when the stack is non-empty)
        let prim = *self.r.pick(&["filter", "join", "join", "agg"]);
        // nested WITH that re-uses a name (lexical shadowing) — only with feature cte_shadow
        self.prefer_cte = true;
        let (mut q, out) = if self.on("cte_shadow") && self.r.chance(1, 2) { self.shadow_block() } else { self.query_block(prim, true) };
        self.prefer_cte = false;
        self.ctes.truncate(base);
        q.with = with;
        (q, out)
    }

    /// SELECT … FROM <outer cte> AS a CROSS JOIN (WITH <same name> AS (…) SELECT … FROM <same name>) AS b
    fn shadow_block(&mut self) -> (QueryExpr, Scope) {
        self.tag("cte_shadow");
        let idx = self.ctes.len() - 1;
        let name = self.ctes[idx].0.clone();
        let a = self.rel_alias();
        let lsc = Self::requalify(&self.ctes[idx].1.clone(), &a);
        let l = Rel::Cte { idx, name: name.clone(), alias: a };
        // inner definition with the same name, different content
        self.qdepth += 1;
        let (iq, iout) = self.query_block("filter", false);
        self.ctes.push((name.clone(), iout.clone()));
        let ia = self.rel_alias();
        let isc = Self::requalify(&iout, &ia);
        let mut proj = vec![]; let mut o = vec![];
        for i in 0..isc.len() { let al = self.alias(); o.push(SCol { sql: al.clone(), name: al.clone(), ..isc[i].clone() }); proj.push((Self::col_ref(&isc, i), al)); }
        let inner_sel = Select { from: Some(Rel::Cte { idx: idx + 1, name: name.clone(), alias: ia }), where_: None, group: None, having: None, proj, distinct: false };
        let mut inner_q = QueryExpr::of(Body::Select(Box::new(inner_sel)));
        inner_q.with = vec![(name, iq)];
        self.ctes.pop();
        self.qdepth -= 1;
        let b = self.rel_alias();
        let rsc = Self::requalify(&o, &b);
        let lw = lsc.len(); let rw = rsc.len();
        let mut both = lsc.clone(); both.extend(rsc.iter().cloned());
        let mut proj = vec![]; let mut out = vec![];
        for i in 0..both.len() { let al = self.alias(); out.push(SCol { sql: al.clone(), name: al.clone(), ..both[i].clone() }); proj.push((Self::col_ref(&both, i), al)); }
        let sel = Select { from: Some(Rel::Join { jt: JoinType::Cross, l: Box::new(l), r: Box::new(Rel::Derived { q: Box::new(inner_q), alias: b }), lw, rw, on: None }),
                           where_: None, group: None, having: None, proj, distinct: false };
        self.finish_block(sel, out, "cte", true)
    }
}


/// Targeted shape `shape:global-agg-clustered` (about 1 spec-mode case in 8 of `family_main`): a scalar aggregate
/// `SELECT MIN(c), MAX(c), COUNT(c) [, SUM(c)] FROM t [WHERE id >= k]`, or `SELECT g, MIN(c), COUNT(DISTINCT d) FROM t GROUP BY g`,
/// over a BIGINT / INTEGER / DATE / DOUBLE / VARCHAR column `c` with a NULL share ≥ 30 % — to be run under layout mem8c clustered on
/// exactly `c` with a batch count whose last (first) worker chunk of ceil(k/4) consecutive batches is all-NULL in `c`.
/// Returns the statement and (table, column, NULLs first?, batches).
pub fn clustered_agg_case(r: &mut Rng, cat: &Catalog) -> Option<(Generated, usize, usize, bool, usize)> {
    use super::ColTy;
    let mut cands = vec![];
    for (t, tb) in cat.tables.iter().enumerate() {
        let n = tb.rows.len();
        if n < 12 { continue; }
        for (c, cs) in tb.cols.iter().enumerate().skip(1) {
            if cs.cty == ColTy::Bool || cs.special || cs.boundary { continue; }
            let nulls = tb.rows.iter().filter(|row| row[c].is_null()).count();
            if nulls * 10 >= n * 3 && nulls < n { cands.push((t, c)); }
        }
    }
    if cands.is_empty() { return None; }
    let (t, c) = *r.pick(&cands);
    let tb = &cat.tables[t];
    let a = "x1".to_string();
    let col = |i: usize| Expr::Col { i, sql: format!("{}.{}", a, tb.cols[i].name) };
    let from = Rel::Table { t, name: tb.name.clone(), alias: a.clone() };
    let numeric_int = matches!(tb.cols[c].cty, ColTy::I64 | ColTy::I32);
    // INTEGER arguments of MIN / MAX are cast (the engine has no MIN/MAX over Int32: an error, not an answer)
    let arg = |e: Expr| if tb.cols[c].cty == ColTy::I32 { Expr::Cast(Box::new(e), Ty::Int) } else { e };
    let mut tags: Vec<String> = vec!["s:clustered".into(), "shape:global-agg-clustered".into(), "f:agg".into(), "f:minmax".into(), format!("f:clustered_{}", tb.cols[c].cty.name())];
    let others: Vec<usize> = (1..tb.cols.len()).filter(|&i| i != c && tb.cols[i].cty != ColTy::Bool && tb.cols[i].cty != ColTy::F64 && !tb.cols[i].special).collect();
    let sel = if others.is_empty() || r.chance(3, 5) {
        let mut aggs = vec![AggCall { f: AggFn::Min, arg: Some(arg(col(c))), distinct: false }, AggCall { f: AggFn::Max, arg: Some(arg(col(c))), distinct: false },
                            AggCall { f: AggFn::Count, arg: Some(col(c)), distinct: false }];
        if numeric_int && r.chance(1, 2) { aggs.push(AggCall { f: AggFn::Sum, arg: Some(col(c)), distinct: false }); tags.push("f:sum".into()); }
        let where_ = if r.chance(1, 2) { tags.push("f:filter".into()); Some(Expr::bin(BinOp::Ge, col(0), Expr::lit_i(r.range(0, 3)))) } else { None };
        let proj = aggs.iter().enumerate().map(|(i, ag)| (Expr::Col { i, sql: ag.sql() }, format!("q{}", i + 1))).collect();
        Select { from: Some(from), where_, group: Some(Group { keys: vec![], aggs, sets: None }), having: None, proj, distinct: false }
    } else {
        let g = *r.pick(&others);
        let d = if others.len() > 1 { *r.pick(&others) } else { 0 };
        let aggs = vec![AggCall { f: AggFn::Min, arg: Some(arg(col(c))), distinct: false }, AggCall { f: AggFn::Count, arg: Some(col(d)), distinct: true }];
        tags.push("f:agg_distinct".into()); tags.push("f:group_clustered".into());
        let proj = vec![(Expr::Col { i: 0, sql: col(g).sql() }, "q1".to_string()), (Expr::Col { i: 1, sql: aggs[0].sql() }, "q2".to_string()), (Expr::Col { i: 2, sql: aggs[1].sql() }, "q3".to_string())];
        Select { from: Some(from), where_: None, group: Some(Group { keys: vec![col(g)], aggs, sets: None }), having: None, proj, distinct: false }
    };
    // batch counts whose last / first chunk of ceil(k/4) batches holds ≤ 25 % of the rows
    let k = *r.pick(&[7usize, 8, 10, 11, 12]);
    tags.sort();
    Some((Generated { q: QueryExpr::of(Body::Select(Box::new(sel))), tags, engine_defined: false, out: vec![] }, t, c, r.chance(1, 2), k))
}
