//! SQL-shaped query AST mirroring Lean `IQE.Spec.{Expr,Query}` plus the names needed to print SQL.
//! Two renderings of one tree: `sql()` (text for the engine's parser) and `plan()` (resolved positional plan in
//! exactly the Driver/SqlJson wire format).  The generator owns name resolution: every column reference carries
//! its position *and* its SQL spelling, so a binder that resolves the spelling differently shows up as a disagreement.
use super::{Ty, Val};
use serde_json::{json, Value};

#[derive(Clone, Copy, PartialEq, Eq, Debug)]
pub enum UnOp { Not, Neg, IsNull, IsNotNull }
#[derive(Clone, Copy, PartialEq, Eq, Debug)]
pub enum BinOp { Add, Sub, Mul, Div, Mod, Eq, Ne, Lt, Le, Gt, Ge, And, Or, Like, NotLike, Concat }
impl BinOp {
    pub fn json(self) -> &'static str {
        use BinOp::*;
        match self { Add => "add", Sub => "sub", Mul => "mul", Div => "div", Mod => "mod", Eq => "eq", Ne => "ne", Lt => "lt", Le => "le", Gt => "gt", Ge => "ge",
                     And => "and", Or => "or", Like => "like", NotLike => "notlike", Concat => "concat" }
    }
    pub fn sql(self) -> &'static str {
        use BinOp::*;
        match self { Add => "+", Sub => "-", Mul => "*", Div => "/", Mod => "%", Eq => "=", Ne => "<>", Lt => "<", Le => "<=", Gt => ">", Ge => ">=",
                     And => "AND", Or => "OR", Like => "LIKE", NotLike => "NOT LIKE", Concat => "||" }
    }
}

#[derive(Clone, Debug)]
pub enum Expr {
    /// literal; the type is needed to print a typed NULL
    Lit(Val, Ty),
    /// column `i` of the current row, spelled `sql` in the statement
    Col { i: usize, sql: String },
    /// column `i` of the `d`-th enclosing query's current row (d ≥ 1)
    Outer { d: usize, i: usize, sql: String },
    Un(UnOp, Box<Expr>),
    Bin(BinOp, Box<Expr>, Box<Expr>),
    InList(Box<Expr>, Vec<Expr>, bool),
    Between(Box<Expr>, Box<Expr>, Box<Expr>, bool),
    /// searched CASE, flattened [c1,t1,c2,t2,…,else?]
    Case(Vec<Expr>),
    Coalesce(Vec<Expr>),
    Nullif(Box<Expr>, Box<Expr>),
    Cast(Box<Expr>, Ty),
    Fn(String, Vec<Expr>),
    Exists(Box<QueryExpr>, bool),
    InSub(Box<Expr>, Box<QueryExpr>, bool),
    Scalar(Box<QueryExpr>),
}

#[derive(Clone, Copy, PartialEq, Eq, Debug)]
pub enum JoinType { Inner, Left, Right, Full, Semi, Anti, Cross }
impl JoinType {
    pub fn json(self) -> &'static str { match self { JoinType::Inner => "inner", JoinType::Left => "left", JoinType::Right => "right", JoinType::Full => "full", JoinType::Semi => "semi", JoinType::Anti => "anti", JoinType::Cross => "cross" } }
    pub fn sql(self) -> &'static str { match self { JoinType::Inner => "INNER JOIN", JoinType::Left => "LEFT JOIN", JoinType::Right => "RIGHT JOIN", JoinType::Full => "FULL OUTER JOIN", JoinType::Semi => "LEFT SEMI JOIN", JoinType::Anti => "LEFT ANTI JOIN", JoinType::Cross => "CROSS JOIN" } }
}

#[derive(Clone, Copy, PartialEq, Eq, Debug)]
pub enum AggFn { CountStar, Count, Sum, Avg, Min, Max }
impl AggFn {
    pub fn json(self) -> &'static str { match self { AggFn::CountStar => "count_star", AggFn::Count => "count", AggFn::Sum => "sum", AggFn::Avg => "avg", AggFn::Min => "min", AggFn::Max => "max" } }
    pub fn sql(self) -> &'static str { match self { AggFn::CountStar | AggFn::Count => "COUNT", AggFn::Sum => "SUM", AggFn::Avg => "AVG", AggFn::Min => "MIN", AggFn::Max => "MAX" } }
}
#[derive(Clone, Debug)]
pub struct AggCall { pub f: AggFn, pub arg: Option<Expr>, pub distinct: bool }
impl AggCall {
    pub fn sql(&self) -> String {
        match (&self.f, &self.arg) {
            (AggFn::CountStar, _) | (_, None) => "COUNT(*)".into(),
            (f, Some(a)) => format!("{}({}{})", f.sql(), if self.distinct { "DISTINCT " } else { "" }, a.sql()),
        }
    }
}

#[derive(Clone, Debug)]
pub struct SortKey { pub e: Expr, pub desc: bool, pub nulls_first: bool }

#[derive(Clone, Copy, PartialEq, Eq, Debug)]
pub enum SetOp { Union, Intersect, Except }
impl SetOp {
    pub fn json(self) -> &'static str { match self { SetOp::Union => "union", SetOp::Intersect => "intersect", SetOp::Except => "except" } }
    pub fn sql(self) -> &'static str { match self { SetOp::Union => "UNION", SetOp::Intersect => "INTERSECT", SetOp::Except => "EXCEPT" } }
}

/// FROM item
#[derive(Clone, Debug)]
pub enum Rel {
    Table { t: usize, name: String, alias: String },
    /// reference to the CTE at absolute position `idx` of the CTE stack in scope
    Cte { idx: usize, name: String, alias: String },
    Derived { q: Box<QueryExpr>, alias: String },
    Join { jt: JoinType, l: Box<Rel>, r: Box<Rel>, lw: usize, rw: usize, on: Option<Expr> },
}

#[derive(Clone, Copy, PartialEq, Eq, Debug)]
pub enum GsKind { Sets, Rollup, Cube }

#[derive(Clone, Debug)]
pub struct Group {
    pub keys: Vec<Expr>,
    pub aggs: Vec<AggCall>,
    /// GROUPING SETS / ROLLUP / CUBE: (how it is written, the expanded sets as indices into `keys`).
    /// Output of the node is then keys ++ aggs ++ [grouping mask over all keys, MSB = first key].
    pub sets: Option<(GsKind, Vec<Vec<usize>>)>,
}

#[derive(Clone, Debug)]
pub struct Select {
    /// None: table-less SELECT (one row of no columns)
    pub from: Option<Rel>,
    pub where_: Option<Expr>,
    pub group: Option<Group>,
    /// over the aggregate's output (keys ++ aggs); column refs carry the SQL spelling of the key / aggregate call
    pub having: Option<Expr>,
    /// (expression over the current scope, output alias)
    pub proj: Vec<(Expr, String)>,
    pub distinct: bool,
}

#[derive(Clone, Debug)]
pub enum Body {
    Select(Box<Select>),
    SetOp { op: SetOp, all: bool, l: Box<Body>, r: Box<Body> },
    /// bare VALUES list
    Values(Vec<Vec<Expr>>),
}

#[derive(Clone, Debug)]
pub struct QueryExpr {
    pub with: Vec<(String, QueryExpr)>,
    pub body: Body,
    /// keys over the body's output columns
    pub order: Vec<SortKey>,
    /// (skip, fetch)
    pub limit: Option<(usize, Option<usize>)>,
}

impl QueryExpr {
    pub fn of(body: Body) -> QueryExpr { QueryExpr { with: vec![], body, order: vec![], limit: None } }
}

// ------------------------------------------------------------------ SQL text
impl Expr {
    pub fn col(i: usize, sql: &str) -> Expr { Expr::Col { i, sql: sql.to_string() } }
    pub fn bin(op: BinOp, a: Expr, b: Expr) -> Expr { Expr::Bin(op, Box::new(a), Box::new(b)) }
    pub fn and(a: Expr, b: Expr) -> Expr { Expr::bin(BinOp::And, a, b) }
    pub fn lit_i(i: i64) -> Expr { Expr::Lit(Val::I(i), Ty::Int) }
    pub fn null(ty: Ty) -> Expr { Expr::Lit(Val::Null, ty) }

    pub fn sql(&self) -> String {
        match self {
            Expr::Lit(Val::Null, ty) => format!("CAST(NULL AS {})", ty.sql()),
            Expr::Lit(v, _) => v.sql(),
            Expr::Col { sql, .. } | Expr::Outer { sql, .. } => sql.clone(),
            Expr::Un(UnOp::Not, e) => format!("(NOT {})", e.sql()),
            Expr::Un(UnOp::Neg, e) => format!("(- {})", e.sql()),
            Expr::Un(UnOp::IsNull, e) => format!("({} IS NULL)", e.sql()),
            Expr::Un(UnOp::IsNotNull, e) => format!("({} IS NOT NULL)", e.sql()),
            Expr::Bin(op, a, b) => format!("({} {} {})", a.sql(), op.sql(), b.sql()),
            Expr::InList(e, items, neg) => format!("({} {}IN ({}))", e.sql(), if *neg { "NOT " } else { "" }, items.iter().map(|x| x.sql()).collect::<Vec<_>>().join(", ")),
            Expr::Between(e, lo, hi, neg) => format!("({} {}BETWEEN {} AND {})", e.sql(), if *neg { "NOT " } else { "" }, lo.sql(), hi.sql()),
            Expr::Case(arms) => {
                let mut s = String::from("(CASE");
                let mut i = 0;
                while i + 1 < arms.len() { s += &format!(" WHEN {} THEN {}", arms[i].sql(), arms[i + 1].sql()); i += 2; }
                if i < arms.len() { s += &format!(" ELSE {}", arms[i].sql()); }
                s + " END)"
            }
            Expr::Coalesce(es) => format!("COALESCE({})", es.iter().map(|x| x.sql()).collect::<Vec<_>>().join(", ")),
            Expr::Nullif(a, b) => format!("NULLIF({}, {})", a.sql(), b.sql()),
            Expr::Cast(e, ty) => format!("CAST({} AS {})", e.sql(), ty.sql()),
            Expr::Fn(n, args) => format!("{}({})", n, args.iter().map(|x| x.sql()).collect::<Vec<_>>().join(", ")),
            Expr::Exists(q, neg) => format!("({}EXISTS ({}))", if *neg { "NOT " } else { "" }, q.sql()),
            Expr::InSub(e, q, neg) => format!("({} {}IN ({}))", e.sql(), if *neg { "NOT " } else { "" }, q.sql()),
            Expr::Scalar(q) => format!("({})", q.sql()),
        }
    }

    /// plan JSON; subquery expressions are appended to `subs` and referenced by index
    pub fn plan(&self, subs: &mut Vec<Value>, ctes: usize) -> Value {
        let list = |es: &Vec<Expr>, subs: &mut Vec<Value>| Value::Array(es.iter().map(|e| e.plan(subs, ctes)).collect());
        match self {
            Expr::Lit(v, _) => json!({"lit": v.to_json()}),
            Expr::Col { i, .. } => json!({"col": i}),
            Expr::Outer { d, i, .. } => json!({"outer": [d, i]}),
            Expr::Un(op, e) => json!({"un": [match op { UnOp::Not => "not", UnOp::Neg => "neg", UnOp::IsNull => "isnull", UnOp::IsNotNull => "isnotnull" }, e.plan(subs, ctes)]}),
            Expr::Bin(op, a, b) => { let x = a.plan(subs, ctes); let y = b.plan(subs, ctes); json!({"bin": [op.json(), x, y]}) }
            Expr::InList(e, items, neg) => { let x = e.plan(subs, ctes); let l = list(items, subs); json!({"inlist": [x, l, neg]}) }
            Expr::Between(e, lo, hi, neg) => { let x = e.plan(subs, ctes); let l = lo.plan(subs, ctes); let h = hi.plan(subs, ctes); json!({"between": [x, l, h, neg]}) }
            Expr::Case(arms) => json!({"case": list(arms, subs)}),
            Expr::Coalesce(es) => json!({"coalesce": list(es, subs)}),
            Expr::Nullif(a, b) => { let x = a.plan(subs, ctes); let y = b.plan(subs, ctes); json!({"nullif": [x, y]}) }
            Expr::Cast(e, ty) => json!({"cast": [e.plan(subs, ctes), ty.json()]}),
            Expr::Fn(n, args) => json!({"fn": [n, list(args, subs)]}),
            Expr::Exists(q, neg) => { subs.push(q.plan(ctes)); json!({"exists": [subs.len() - 1, neg]}) }
            Expr::InSub(e, q, neg) => { let x = e.plan(subs, ctes); subs.push(q.plan(ctes)); json!({"insub": [x, subs.len() - 1, neg]}) }
            Expr::Scalar(q) => { subs.push(q.plan(ctes)); json!({"scalar": subs.len() - 1}) }
        }
    }

    /// pre-order visit of this expression (not descending into subqueries)
    pub fn visit(&self, f: &mut dyn FnMut(&Expr)) {
        f(self);
        match self {
            Expr::Un(_, e) | Expr::Cast(e, _) => e.visit(f),
            Expr::Bin(_, a, b) | Expr::Nullif(a, b) => { a.visit(f); b.visit(f) }
            Expr::InList(e, items, _) => { e.visit(f); for x in items { x.visit(f) } }
            Expr::Between(a, b, c, _) => { a.visit(f); b.visit(f); c.visit(f) }
            Expr::Case(es) | Expr::Coalesce(es) | Expr::Fn(_, es) => for x in es { x.visit(f) },
            Expr::InSub(e, _, _) => e.visit(f),
            _ => {}
        }
    }
    /// a subquery expression anywhere below (through AND / OR / NOT …)
    pub fn has_subquery_deep(&self) -> bool { self.has_subquery() }
    pub fn has_subquery(&self) -> bool {
        let mut h = false;
        self.visit(&mut |e| if matches!(e, Expr::Exists(..) | Expr::InSub(..) | Expr::Scalar(..)) { h = true });
        h
    }
}

impl Rel {
    pub fn sql(&self) -> String {
        match self {
            Rel::Table { name, alias, .. } | Rel::Cte { name, alias, .. } => if name == alias { name.clone() } else { format!("{} AS {}", name, alias) },
            Rel::Derived { q, alias } => format!("({}) AS {}", q.sql(), alias),
            Rel::Join { jt, l, r, on, .. } => {
                let rs = match **r { Rel::Join { .. } => format!("({})", r.sql()), _ => r.sql() };
                match (jt, on) {
                    (JoinType::Cross, _) | (_, None) => format!("{} CROSS JOIN {}", l.sql(), rs),
                    (_, Some(e)) => format!("{} {} {} ON {}", l.sql(), jt.sql(), rs, e.sql()),
                }
            }
        }
    }
    pub fn plan(&self, ctes: usize) -> Value {
        match self {
            Rel::Table { t, .. } => json!({"scan": t}),
            Rel::Cte { idx, name, .. } => json!({"cte": idx, "name": name}),   // "name" is extra information for C28 (ignored by queryOfJson)
            Rel::Derived { q, .. } => q.plan(ctes),
            Rel::Join { jt, l, r, lw, rw, on } => {
                let mut subs = vec![];
                let jt2 = if on.is_none() { JoinType::Cross } else { *jt };
                let onj = match on { Some(e) => e.plan(&mut subs, ctes), None => json!({"lit": {"b": true}}) };
                json!({"join": {"jt": jt2.json(), "lw": lw, "rw": rw, "subs": subs, "on": onj, "l": l.plan(ctes), "r": r.plan(ctes)}})
            }
        }
    }
}

fn agg_json(a: &AggCall, ctes: usize) -> Value {
    let mut none = vec![];
    let arg = match &a.arg { Some(e) => e.plan(&mut none, ctes), None => Value::Null };
    json!({"fn": a.f.json(), "arg": arg, "distinct": a.distinct})
}

impl Select {
    pub fn sql(&self) -> String {
        let mut s = String::from("SELECT ");
        if self.distinct { s += "DISTINCT "; }
        s += &self.proj.iter().map(|(e, a)| format!("{} AS {}", e.sql(), a)).collect::<Vec<_>>().join(", ");
        if let Some(f) = &self.from { s += " FROM "; s += &f.sql(); }
        if let Some(w) = &self.where_ { s += " WHERE "; s += &w.sql(); }
        if let Some(g) = &self.group {
            let ks: Vec<String> = g.keys.iter().map(|k| k.sql()).collect();
            match &g.sets {
                None => if !ks.is_empty() { s += " GROUP BY "; s += &ks.join(", "); },
                Some((GsKind::Rollup, _)) => { s += &format!(" GROUP BY ROLLUP({})", ks.join(", ")); }
                Some((GsKind::Cube, _)) => { s += &format!(" GROUP BY CUBE({})", ks.join(", ")); }
                Some((GsKind::Sets, sets)) => {
                    let ss: Vec<String> = sets.iter().map(|st| format!("({})", st.iter().map(|&i| ks[i].clone()).collect::<Vec<_>>().join(", "))).collect();
                    s += &format!(" GROUP BY GROUPING SETS ({})", ss.join(", "));
                }
            }
        }
        if let Some(h) = &self.having { s += " HAVING "; s += &h.sql(); }
        s
    }
    pub fn plan(&self, ctes: usize) -> Value {
        let mut q = match &self.from { Some(r) => r.plan(ctes), None => json!({"values": [[]]}) };
        if let Some(w) = &self.where_ {
            let mut subs = vec![];
            let p = w.plan(&mut subs, ctes);
            q = json!({"filter": {"subs": subs, "p": p, "q": q}});
        }
        if let Some(g) = &self.group {
            let mut none = vec![];
            let keys: Vec<Value> = g.keys.iter().map(|k| k.plan(&mut none, ctes)).collect();
            let aggs: Vec<Value> = g.aggs.iter().map(|a| agg_json(a, ctes)).collect();
            q = match &g.sets {
                None => json!({"agg": {"keys": keys, "aggs": aggs, "q": q}}),
                Some((_, sets)) => json!({"gsets": {"keys": keys, "sets": sets, "aggs": aggs, "q": q}}),
            };
        }
        if let Some(h) = &self.having {
            let mut subs = vec![];
            let p = h.plan(&mut subs, ctes);
            q = json!({"filter": {"subs": subs, "p": p, "q": q}});
        }
        let mut subs = vec![];
        let es: Vec<Value> = self.proj.iter().map(|(e, _)| e.plan(&mut subs, ctes)).collect();
        q = json!({"project": {"subs": subs, "es": es, "q": q}});
        if self.distinct { q = json!({"distinct": q}); }
        q
    }
}

impl Body {
    pub fn sql(&self) -> String {
        match self {
            Body::Select(s) => s.sql(),
            Body::SetOp { op, all, l, r } => {
                let side = |b: &Body| match b { Body::SetOp { .. } => format!("({})", b.sql()), _ => b.sql() };
                format!("{} {}{} {}", side(l), op.sql(), if *all { " ALL" } else { "" }, side(r))
            }
            Body::Values(rows) => format!("VALUES {}", rows.iter().map(|r| format!("({})", r.iter().map(|e| e.sql()).collect::<Vec<_>>().join(", "))).collect::<Vec<_>>().join(", ")),
        }
    }
    pub fn plan(&self, ctes: usize) -> Value {
        match self {
            Body::Select(s) => s.plan(ctes),
            Body::SetOp { op, all, l, r } => json!({"setop": {"op": op.json(), "all": all, "l": l.plan(ctes), "r": r.plan(ctes)}}),
            Body::Values(rows) => { let mut none = vec![]; json!({"values": rows.iter().map(|r| r.iter().map(|e| e.plan(&mut none, ctes)).collect::<Vec<_>>()).collect::<Vec<_>>()}) }
        }
    }
    pub fn width(&self) -> usize {
        match self { Body::Select(s) => s.proj.len(), Body::SetOp { l, .. } => l.width(), Body::Values(rows) => rows.first().map(|r| r.len()).unwrap_or(0) }
    }
}

impl QueryExpr {
    pub fn sql(&self) -> String {
        let mut s = String::new();
        if !self.with.is_empty() {
            s += "WITH ";
            s += &self.with.iter().map(|(n, q)| format!("{} AS ({})", n, q.sql())).collect::<Vec<_>>().join(", ");
            s += " ";
        }
        s += &self.body.sql();
        if !self.order.is_empty() {
            s += " ORDER BY ";
            s += &self.order.iter().map(|k| format!("{} {} NULLS {}", k.e.sql(), if k.desc { "DESC" } else { "ASC" }, if k.nulls_first { "FIRST" } else { "LAST" })).collect::<Vec<_>>().join(", ");
        }
        if let Some((skip, fetch)) = &self.limit {
            if let Some(n) = fetch { s += &format!(" LIMIT {}", n); }
            if *skip > 0 || fetch.is_none() { s += &format!(" OFFSET {}", skip); }
        }
        s
    }
    /// `ctes` = number of CTE definitions in scope where this query expression stands
    pub fn plan(&self, ctes: usize) -> Value {
        let mut defs = vec![];
        let mut n = ctes;
        for (_, d) in &self.with { defs.push(d.plan(n)); n += 1; }
        let mut q = self.body.plan(n);
        if !defs.is_empty() { q = json!({"with": {"defs": defs, "body": q, "names": self.with.iter().map(|(n, _)| n.clone()).collect::<Vec<_>>()}}); }
        if !self.order.is_empty() {
            let mut none = vec![];
            let keys: Vec<Value> = self.order.iter().map(|k| json!({"e": k.e.plan(&mut none, n), "desc": k.desc, "nf": k.nulls_first})).collect();
            q = json!({"sort": {"keys": keys, "q": q}});
        }
        if let Some((skip, fetch)) = &self.limit {
            q = json!({"limit": {"skip": skip, "fetch": fetch, "q": q}});
        }
        q
    }
    pub fn width(&self) -> usize { self.body.width() }
}
