// FAMILY: C29
//! C29: no SQL text crashes or hangs `ExecutionContext::sql`.
//! Case  {"kind":"sql","setup":"std"|"spill","stream":<generator stream>,"sql":<text>}
//!       {"kind":"batch","setup":..,"sqls":[..]}   (a crash that needs the statements before it in the same process)
//! Impl  {"outcome":"ok"|"err"|"panic"|"abort"|"timeout","kind":<error variant | panic location | signal>,"detail":<message, cut>,
//!        "bg":<panics on other threads while the statement ran>,"ms":<wall clock>}
//! Every statement runs in a CHILD process (this binary re-executed with `--opt child=1`): a stack overflow / abort kills the
//! child only, the parent records `abort` (+ signal) and goes on with a fresh child; a statement that needs more than
//! `limit_ms` is killed and recorded as `timeout`. Inside the child each statement gets a fresh ExecutionContext over the
//! same Arc-shared batches, so a statement's outcome does not depend on what ran before it (replays are exact).
use crate::common::*;
use crate::rng::Rng;
use arrow::array::*;
use arrow::datatypes::{DataType, Field, Schema};
use arrow::record_batch::RecordBatch;
use query_engine::ExecutionContext;
use serde_json::{json, Value};
use std::io::{BufRead, BufReader, Write};
use std::process::{Child, ChildStdin, Command, Stdio};
use std::sync::atomic::{AtomicUsize, Ordering};
use std::sync::mpsc::{channel, Receiver, RecvTimeoutError};
use std::sync::{Arc, Mutex};
use std::time::{Duration, Instant};

// ------------------------------------------------------------------------------------------------ fixtures
/// multi-byte text: 2-byte (é ß ö), 3-byte (日本語 €), 4-byte (😀 𝄞), combining marks (e + U+0301, Devanagari), ZWJ sequence, empty
pub const MB_WORDS: &[&str] = &["héllo", "日本語", "a😀b", "ß", "e\u{301}a\u{308}", "Ünïcödé", "€uro", "𝄞clef", "नमस्ते", "👩\u{200d}💻x", "", "añb日c😀", "ÀÉ", "ab"];
type Tables = Vec<(String, Arc<Schema>, Vec<RecordBatch>)>;

fn opt_i64(r: &mut Rng, null_pct: u64, lo: i64, hi: i64) -> Option<i64> { if r.below(100) < null_pct { None } else { Some(r.range(lo, hi)) } }

/// Fixed fixtures (own fixed PRNG seed: the catalog is part of the *definition* of the setup name, not of the run seed).
fn std_tables() -> Tables {
    let mut r = Rng::new(0xC29_0001);
    let mut out: Tables = vec![];
    // t1: 60 rows in 2 batches, every column type, NULLs everywhere but `a`
    let s1 = Arc::new(Schema::new(vec![
        Field::new("a", DataType::Int64, false), Field::new("b", DataType::Int64, true), Field::new("c", DataType::Float64, true),
        Field::new("s", DataType::Utf8, true), Field::new("d", DataType::Date32, true), Field::new("e", DataType::Boolean, true),
        Field::new("i", DataType::Int32, true)]));
    let mut b1 = vec![];
    for part in 0..2 {
        let n = 30;
        let a: Vec<i64> = (0..n).map(|k| (part * 30 + k) as i64).collect();
        let b: Vec<Option<i64>> = (0..n).map(|_| opt_i64(&mut r, 20, -5, 9)).collect();
        let c: Vec<Option<f64>> = (0..n).map(|_| opt_i64(&mut r, 20, -40, 40).map(|x| x as f64 / 4.0)).collect();
        let words = ["", "a", "ab", "abc", "Hello", "wörld", "100", "-7", "2024-01-31", "x%y_z", " pad ", "NULL", "{\"k\":1}", "[1,2]", "http://h.io/p?q=1#f"];
        let s: Vec<Option<String>> = (0..n).map(|_| if r.chance(1, 5) { None } else { Some(r.pick(&words).to_string()) }).collect();
        let d: Vec<Option<i32>> = (0..n).map(|_| opt_i64(&mut r, 20, -800, 20000).map(|x| x as i32)).collect();
        let e: Vec<Option<bool>> = (0..n).map(|_| if r.chance(1, 5) { None } else { Some(r.chance(1, 2)) }).collect();
        let i: Vec<Option<i32>> = (0..n).map(|_| opt_i64(&mut r, 20, -3, 3).map(|x| x as i32)).collect();
        b1.push(RecordBatch::try_new(s1.clone(), vec![
            Arc::new(Int64Array::from(a)), Arc::new(Int64Array::from(b)), Arc::new(Float64Array::from(c)),
            Arc::new(StringArray::from(s)), Arc::new(Date32Array::from(d)), Arc::new(BooleanArray::from(e)),
            Arc::new(Int32Array::from(i))]).unwrap());
    }
    out.push(("t1".into(), s1, b1));
    // t2: 30 rows, one batch; extreme values included
    let s2 = Arc::new(Schema::new(vec![Field::new("k", DataType::Int64, true), Field::new("v", DataType::Float64, true), Field::new("name", DataType::Utf8, true)]));
    let mut k: Vec<Option<i64>> = (0..26).map(|_| opt_i64(&mut r, 15, -5, 9)).collect();
    k.extend([Some(i64::MAX), Some(i64::MIN), Some(0), None]);
    let mut v: Vec<Option<f64>> = (0..25).map(|_| opt_i64(&mut r, 15, -8, 8).map(|x| x as f64 / 2.0)).collect();
    v.extend([Some(f64::NAN), Some(f64::INFINITY), Some(-0.0), Some(f64::MAX), Some(f64::MIN_POSITIVE)]);
    let name: Vec<Option<String>> = (0..30).map(|j| if j % 7 == 3 { None } else { Some(format!("n{}", j % 5)) }).collect();
    let b2 = RecordBatch::try_new(s2.clone(), vec![Arc::new(Int64Array::from(k)), Arc::new(Float64Array::from(v)), Arc::new(StringArray::from(name))]).unwrap();
    out.push(("t2".into(), s2, vec![b2]));
    // empty0: no batch at all; empty1: one zero-row batch
    let s3 = Arc::new(Schema::new(vec![Field::new("x", DataType::Int64, true), Field::new("y", DataType::Utf8, true)]));
    out.push(("empty0".into(), s3.clone(), vec![]));
    out.push(("empty1".into(), s3.clone(), vec![RecordBatch::new_empty(s3)]));
    // big: 2500 rows in 3 batches (>= 1000 rows in >= 2 batches makes MemoryTableExec multi-partition)
    let s4 = Arc::new(Schema::new(vec![Field::new("k", DataType::Int64, false), Field::new("g", DataType::Int32, true)]));
    let mut b4 = vec![];
    for part in 0..3 {
        let n = [1000usize, 1000, 500][part];
        let kk: Vec<i64> = (0..n).map(|j| ((part * 1000 + j) % 700) as i64).collect();
        let gg: Vec<Option<i32>> = (0..n).map(|_| opt_i64(&mut r, 10, 0, 6).map(|x| x as i32)).collect();
        b4.push(RecordBatch::try_new(s4.clone(), vec![Arc::new(Int64Array::from(kk)), Arc::new(Int32Array::from(gg))]).unwrap());
    }
    out.push(("big".into(), s4, b4));
    // mb: multi-byte text (2-, 3-, 4-byte characters, combining marks) x small integers around the character boundaries
    let s5 = Arc::new(Schema::new(vec![Field::new("s", DataType::Utf8, true), Field::new("n", DataType::Int64, false), Field::new("p", DataType::Utf8, true)]));
    let mut ss: Vec<Option<String>> = vec![]; let mut ns: Vec<i64> = vec![]; let mut ps: Vec<Option<String>> = vec![];
    for (j, w) in MB_WORDS.iter().enumerate() { for n in 0..7i64 { ss.push(Some(w.to_string())); ns.push(n); ps.push(Some(MB_WORDS[(j + n as usize) % MB_WORDS.len()].chars().take(1).collect())); } }
    ss.push(None); ns.push(2); ps.push(None);
    let b5 = RecordBatch::try_new(s5.clone(), vec![Arc::new(StringArray::from(ss)), Arc::new(Int64Array::from(ns)), Arc::new(StringArray::from(ps))]).unwrap();
    out.push(("mb".into(), s5, vec![b5]));
    out
}

/// `spill`: ExecutionContext::with_memory_limit(100_000) and a 40 000-row table with a nullable key (DESIGN A.7).
fn spill_tables(per_batch: usize) -> Tables {
    let mut r = Rng::new(0xC29_0002);
    let s = Arc::new(Schema::new(vec![Field::new("x", DataType::Int64, true), Field::new("y", DataType::Int64, false), Field::new("w", DataType::Utf8, true)]));
    let mut bs = vec![];
    for part in 0..5 {
        let n = per_batch;
        let x: Vec<Option<i64>> = (0..n).map(|_| opt_i64(&mut r, 10, -100000, 100000)).collect();
        let y: Vec<i64> = (0..n).map(|j| (part * n + j) as i64).collect();
        let w: Vec<Option<String>> = (0..n).map(|j| if j % 11 == 0 { None } else { Some(format!("w{}", j % 97)) }).collect();
        bs.push(RecordBatch::try_new(s.clone(), vec![Arc::new(Int64Array::from(x)), Arc::new(Int64Array::from(y)), Arc::new(StringArray::from(w))]).unwrap());
    }
    let s2 = Arc::new(Schema::new(vec![Field::new("k", DataType::Int64, true), Field::new("v", DataType::Float64, true)]));
    let k: Vec<Option<i64>> = (0..6000).map(|_| opt_i64(&mut r, 10, -100000, 100000)).collect();
    let v: Vec<Option<f64>> = (0..6000).map(|_| opt_i64(&mut r, 10, -50, 50).map(|x| x as f64 / 2.0)).collect();
    let b2 = RecordBatch::try_new(s2.clone(), vec![Arc::new(Int64Array::from(k)), Arc::new(Float64Array::from(v))]).unwrap();
    vec![("big".into(), s, bs), ("small".into(), s2, vec![b2])]
}

fn make_ctx(setup: &str, std: &Tables, spill: &Tables, spill_s: &Tables) -> ExecutionContext {
    let (mut ctx, tabs) = if setup == "nolimit" { (ExecutionContext::new(), spill) } else if setup == "spill10k" { (ExecutionContext::with_memory_limit(100_000), spill_s) } else if setup == "spill" { (ExecutionContext::with_memory_limit(100_000), spill) } else { (ExecutionContext::new(), std) };
    for (n, s, b) in tabs { ctx.register_table(n.clone(), s.clone(), b.clone()); }
    ctx
}

// ------------------------------------------------------------------------------------------------ child side
static PANICS: AtomicUsize = AtomicUsize::new(0);

fn cut(s: &str, n: usize) -> String { if s.chars().count() <= n { s.to_string() } else { let mut t: String = s.chars().take(n).collect(); t.push('…'); t } }

fn err_kind(e: &query_engine::error::QueryError) -> &'static str {
    use query_engine::error::QueryError::*;
    match e {
        Parse(_) => "Parse", Plan(_) => "Plan", Bind(_) => "Bind", Type(_) => "Type", Execution(_) => "Execution", Storage(_) => "Storage",
        Io(_) => "Io", Arrow(_) => "Arrow", Parquet(_) => "Parquet", TableNotFound(_) => "TableNotFound", ColumnNotFound(_) => "ColumnNotFound",
        InvalidArgument(_) => "InvalidArgument", NotImplemented(_) => "NotImplemented", Internal(_) => "Internal",
    }
}

#[repr(C)]
struct RLimit { cur: u64, max: u64 }
extern "C" { fn setrlimit(resource: i32, rlim: *const RLimit) -> i32; }

/// Hidden sub-mode: read one case per line on stdin, answer one `R <json>` line per case on stdout.
fn child_main() {
    // address-space cap (RLIMIT_AS = 9 on Linux): an unbounded allocation becomes a clean `abort` outcome instead of eating the machine
    let cap = RLimit { cur: 6 << 30, max: 6 << 30 };
    unsafe { setrlimit(9, &cap); }
    let last: Arc<Mutex<(String, String)>> = Arc::new(Mutex::new((String::new(), String::new())));
    let main_id = std::thread::current().id();
    {
        let last = last.clone();
        std::panic::set_hook(Box::new(move |info| {
            PANICS.fetch_add(1, Ordering::SeqCst);
            let loc = info.location().map(|l| { let f = l.file(); let short = match f.find("/registry/src/") { Some(p) => f[p + 14..].splitn(2, '/').nth(1).unwrap_or(f), None => f.rsplit("/repo/").next().unwrap_or(f) }; format!("{}:{}", short, l.line()) }).unwrap_or_default();
            let msg = if let Some(s) = info.payload().downcast_ref::<&str>() { s.to_string() } else if let Some(s) = info.payload().downcast_ref::<String>() { s.clone() } else { "panic".into() };
            // innermost frame of the engine on the panicking stack (symbols are present without debug info)
            let bt = std::backtrace::Backtrace::force_capture().to_string();
            let frame = bt.lines().map(|l| l.trim()).filter_map(|l| l.find("query_engine::").map(|p| &l[p..]))
                .find(|l| !l.contains("verif")).map(|l| { let l = l.split("::h").next().unwrap_or(l); l.replace("::{{closure}}", "").to_string() }).unwrap_or_default();
            let loc = if frame.is_empty() { loc } else { format!("{} @ {}", frame, loc) };
            let mut g = last.lock().unwrap_or_else(|p| p.into_inner());
            // the first panic of a statement is the cause; later ones (JoinError unwraps …) are consequences
            if g.0.is_empty() { *g = (loc, format!("{}{}", if std::thread::current().id() == main_id { "" } else { "[bg] " }, msg)); }
        }));
    }
    let rt = tokio::runtime::Builder::new_multi_thread().worker_threads(4).enable_all().build().expect("runtime");
    let std_t = std_tables();
    let spill_t = spill_tables(8000);
    let spill_s = spill_tables(2000);
    let stdin = std::io::stdin();
    let stdout = std::io::stdout();
    for line in stdin.lock().lines() {
        let line = match line { Ok(l) => l, Err(_) => break };
        let c: Value = match serde_json::from_str(&line) { Ok(v) => v, Err(_) => continue };
        let setup = c["setup"].as_str().unwrap_or("std").to_string();
        let sql = c["sql"].as_str().unwrap_or("").to_string();
        let phase = c["phase"].as_str().unwrap_or("sql").to_string();
        *last.lock().unwrap_or_else(|p| p.into_inner()) = (String::new(), String::new());
        let before = PANICS.load(Ordering::SeqCst);
        let t0 = Instant::now();
        let res = std::panic::catch_unwind(std::panic::AssertUnwindSafe(|| {
            let ctx = make_ctx(&setup, &std_t, &spill_t, &spill_s);
            // phase probes (used by the parent to localise an abort/timeout): stop after the named phase
            match phase.as_str() {
                "parse" => return match query_engine::parser::parse_sql(&sql) { Ok(_) => json!({"outcome":"ok","kind":"ok","detail":"parsed"}), Err(e) => json!({"outcome":"err","kind":err_kind(&e),"detail":cut(&e.to_string(), 160)}) },
                "logical" => return match ctx.logical_plan(&sql) { Ok(_) => json!({"outcome":"ok","kind":"ok","detail":"bound"}), Err(e) => json!({"outcome":"err","kind":err_kind(&e),"detail":cut(&e.to_string(), 160)}) },
                "optimized" => return match ctx.optimized_plan(&sql) { Ok(_) => json!({"outcome":"ok","kind":"ok","detail":"optimized"}), Err(e) => json!({"outcome":"err","kind":err_kind(&e),"detail":cut(&e.to_string(), 160)}) },
                "physical" => return match ctx.physical_plan(&sql) { Ok(_) => json!({"outcome":"ok","kind":"ok","detail":"planned"}), Err(e) => json!({"outcome":"err","kind":err_kind(&e),"detail":cut(&e.to_string(), 160)}) },
                "schema" => {
                    // family C30, raw stream: the four views of the result schema
                    let sj = |s: &Schema| Value::Array(s.fields().iter().map(|f| json!([f.name(), format!("{}", f.data_type())])).collect());
                    // Before the result boundary: drive the physical plan by hand and note whether any operator hands out a
                    // dictionary-encoded array (ExecutionContext::sql casts those back to their value type).
                    let mut pre_dict = false; let mut pre_batches = 0usize;
                    let plan = match ctx.physical_plan(&sql) {
                        Ok(p) => {
                            let parts = p.output_partitions().max(1);
                            for part in 0..parts {
                                let got: std::result::Result<Vec<RecordBatch>, query_engine::QueryError> = rt.block_on(async {
                                    use futures::TryStreamExt;
                                    let st = p.execute(part).await?;
                                    st.try_collect().await
                                });
                                if let Ok(bs) = got { for b in &bs { pre_batches += 1; if b.columns().iter().any(|c| matches!(c.data_type(), DataType::Dictionary(_, _))) { pre_dict = true; } } }
                            }
                            sj(&p.schema())
                        }
                        Err(e) => json!({"err": cut(&e.to_string(), 160)}),
                    };
                    let _ = pre_batches;
                    return match rt.block_on(async { ctx.sql(&sql).await }) {
                        Ok(q) => {
                            let mut bs: Vec<Value> = vec![]; let mut arrs: Vec<Value> = vec![];
                            for b in &q.batches {
                                let s = sj(&b.schema()); if !bs.contains(&s) { bs.push(s); }
                                let a = Value::Array(b.columns().iter().map(|c| json!(format!("{}", c.data_type()))).collect()); if !arrs.contains(&a) { arrs.push(a); }
                            }
                            json!({"outcome":"ok","status":"ok","result":sj(&q.schema),"plan":plan,"batches":bs,"arrays":arrs,"nbatches":q.batches.len(),"pre_dict":pre_dict,
                                   "rows": q.batches.iter().map(|b| b.num_rows()).sum::<usize>()})
                        }
                        Err(e) => json!({"outcome":"err","status":"err","msg":cut(&e.to_string(), 160),"plan":plan}),
                    };
                }
                _ => {}
            }
            let r = rt.block_on(async { ctx.sql(&sql).await });
            match r {
                Ok(q) => {
                    // touch the result the way a client would: row counts and schema arity
                    let rows: usize = q.batches.iter().map(|b| b.num_rows()).sum();
                    json!({"outcome":"ok","kind":"ok","detail":format!("{} rows x {} cols", rows, q.schema.fields().len())})
                }
                Err(e) => json!({"outcome":"err","kind":err_kind(&e),"detail":cut(&e.to_string(), 160)}),
            }
        }));
        let ms = t0.elapsed().as_millis() as u64;
        let total = PANICS.load(Ordering::SeqCst) - before;
        let (loc, msg) = last.lock().unwrap_or_else(|p| p.into_inner()).clone();
        let mut out = match res {
            Ok(v) => v,
            Err(_) => json!({"outcome":"panic","kind":loc.clone(),"detail":cut(&msg, 200)}),
        };
        let unwound = out["outcome"] == "panic";
        let bg = total.saturating_sub(if unwound { 1 } else { 0 });
        out["bg"] = json!(bg);
        if bg > 0 && !unwound { out["bgkind"] = json!(loc); out["bgdetail"] = json!(cut(&msg, 200)); }
        out["ms"] = json!(ms);
        let mut l = stdout.lock();
        let _ = writeln!(l, "R {}", out);
        let _ = l.flush();
    }
}

// ------------------------------------------------------------------------------------------------ parent side
struct Kid { proc: Child, stdin: ChildStdin, rx: Receiver<String>, err_tail: Arc<Mutex<String>>, tmp: String }

fn spawn_kid() -> Kid {
    // /proc/self/exe stays executable when the file was replaced by a concurrent `cargo build` (current_exe() would then name a deleted path)
    let exe = if std::path::Path::new("/proc/self/exe").exists() { std::path::PathBuf::from("/proc/self/exe") } else { std::env::current_exe().expect("current_exe") };
    // the engine spills under std::env::temp_dir()/query_engine_spill with per-process counters: give every child its own TMPDIR
    static KID_NO: AtomicUsize = AtomicUsize::new(0);
    let base = std::env::var("IQE_SCRATCH").unwrap_or_else(|_| "/verif/harness/scratch/manual".into());
    let tmp = format!("{}/c29-{}-{}", base, std::process::id(), KID_NO.fetch_add(1, Ordering::SeqCst));
    let _ = std::fs::create_dir_all(&tmp);
    let mut proc = Command::new(exe).args(["C29", "--opt", "child=1"]).env("TMPDIR", &tmp).env("RAYON_NUM_THREADS", "4").stdin(Stdio::piped()).stdout(Stdio::piped()).stderr(Stdio::piped())
        .spawn().expect("spawn child");
    let stdin = proc.stdin.take().unwrap();
    let out = proc.stdout.take().unwrap();
    let err = proc.stderr.take().unwrap();
    let (tx, rx) = channel();
    std::thread::spawn(move || { for l in BufReader::new(out).lines() { match l { Ok(l) => { if tx.send(l).is_err() { break; } } Err(_) => break } } });
    let err_tail = Arc::new(Mutex::new(String::new()));
    let et = err_tail.clone();
    std::thread::spawn(move || {
        let mut rd = BufReader::new(err);
        let mut buf = Vec::new();
        loop {
            buf.clear();
            match rd.read_until(b'\n', &mut buf) { Ok(0) | Err(_) => break, Ok(_) => {} }
            let l = String::from_utf8_lossy(&buf).to_string();
            // the engine prints diagnostics on stderr; only keep what explains a death
            if l.contains("overflowed its stack") || l.contains("fatal runtime error") || l.contains("memory allocation") || l.contains("SIG") {
                let mut g = et.lock().unwrap();
                g.push_str(l.trim()); g.push(' ');
                if g.len() > 400 { let k = g.len() - 400; *g = g[k..].to_string(); }
            }
        }
    });
    Kid { proc, stdin, rx, err_tail, tmp }
}

/// user+system CPU time of a process in ms (fields 14 and 15 of /proc/<pid>/stat, USER_HZ = 100)
fn cpu_ms(pid: u32) -> u64 {
    let t = std::fs::read_to_string(format!("/proc/{}/stat", pid)).unwrap_or_default();
    let rest = t.rsplit(')').next().unwrap_or("");
    let f: Vec<&str> = rest.split_whitespace().collect();
    if f.len() < 13 { return 0; }
    (f[11].parse::<u64>().unwrap_or(0) + f[12].parse::<u64>().unwrap_or(0)) * 10
}

pub struct Pool { kid: Option<Kid>, limit: Duration, pub spawned: usize }

impl Pool {
    pub fn new(limit_ms: u64) -> Pool { Pool { kid: None, limit: Duration::from_millis(limit_ms), spawned: 0 } }
    pub fn kill(&mut self) { if let Some(mut k) = self.kid.take() { let _ = k.proc.kill(); let _ = k.proc.wait(); let _ = std::fs::remove_dir_all(&k.tmp); } }
    /// Run one statement in the current child (spawning one if needed). Returns (impl, child_survived).
    fn run(&mut self, setup: &str, sql: &str) -> (Value, bool) { self.run_phase(setup, sql, "sql") }
    /// first phase (parse / logical / optimized / physical / execute) in which the statement ends the same way
    fn localise(&mut self, setup: &str, sql: &str, outcome: &str) -> &'static str {
        let saved = self.limit;
        self.limit = saved / 2;
        let mut found = "execute";
        for ph in ["parse", "logical", "optimized", "physical"] {
            let (i, alive) = self.run_phase(setup, sql, ph);
            if !alive { self.kill(); }
            if i["outcome"] == outcome { found = ph; break; }
        }
        self.limit = saved;
        found
    }
    pub fn run_phase(&mut self, setup: &str, sql: &str, phase: &str) -> (Value, bool) {
        if self.kid.is_none() { self.kid = Some(spawn_kid()); self.spawned += 1; }
        let line = json!({"setup": setup, "sql": sql, "phase": phase}).to_string();
        let t0 = Instant::now();
        let wrote = { let k = self.kid.as_mut().unwrap(); writeln!(k.stdin, "{}", line).and_then(|_| k.stdin.flush()).is_ok() };
        // The limit is on the CPU time the child burns for this statement (all its threads, from /proc/<pid>/stat), so that a
        // loaded machine does not turn slow statements into timeouts; wall clock is only a backstop for deadlocks (12x).
        let got = if !wrote { Err(RecvTimeoutError::Disconnected) } else {
            let pid = self.kid.as_ref().unwrap().proc.id();
            let cpu0 = cpu_ms(pid);
            loop {
                match self.kid.as_ref().unwrap().rx.recv_timeout(Duration::from_millis(100)) {
                    Err(RecvTimeoutError::Timeout) => {
                        let cpu = cpu_ms(pid).saturating_sub(cpu0);
                        // the 40 000-row spill setting does real work (spilled aggregation + external sort on 4 threads): three times the budget
                        let lim = if setup == "spill" || setup == "nolimit" { self.limit * 3 } else { self.limit };
                        if cpu > lim.as_millis() as u64 || t0.elapsed() > lim * 12 { break Err(RecvTimeoutError::Timeout); }
                    }
                    other => break other,
                }
            }
        };
        match got {
            Ok(l) if l.starts_with("R ") => (serde_json::from_str(&l[2..]).unwrap_or(json!({"outcome":"abort","kind":"garbled","detail":cut(&l, 100)})), true),
            Ok(l) => { self.kill(); (json!({"outcome":"abort","kind":"garbled","detail":cut(&l, 100),"bg":0,"ms":t0.elapsed().as_millis() as u64}), false) }
            Err(RecvTimeoutError::Timeout) => {
                self.kill();
                (json!({"outcome":"timeout","kind":"timeout","detail":format!("no answer within {} ms of CPU time ({} ms wall)", self.limit.as_millis(), t0.elapsed().as_millis()),"bg":0,"ms":t0.elapsed().as_millis() as u64}), false)
            }
            Err(RecvTimeoutError::Disconnected) => {
                let mut k = self.kid.take().unwrap();
                let st = k.proc.wait().ok();
                let _ = std::fs::remove_dir_all(&k.tmp);
                std::thread::sleep(Duration::from_millis(20));
                let tail = k.err_tail.lock().unwrap().clone();
                use std::os::unix::process::ExitStatusExt;
                let sig = st.and_then(|s| s.signal());
                let kind = if tail.contains("overflowed its stack") { "stack-overflow".to_string() }
                    else if tail.contains("memory allocation") { "alloc-failure".to_string() }
                    else if let Some(s) = sig { format!("signal-{}", s) } else { format!("exit-{}", st.and_then(|s| s.code()).unwrap_or(-1)) };
                (json!({"outcome":"abort","kind":kind,"detail":cut(&tail, 200),"bg":0,"ms":t0.elapsed().as_millis() as u64}), false)
            }
        }
    }
}

fn is_bad(i: &Value) -> bool { i["outcome"] == "abort" || i["outcome"] == "timeout" }

fn run_batch_case(c: &Value, limit_ms: u64) -> Value {
    let mut pool = Pool::new(limit_ms);
    let setup = c["setup"].as_str().unwrap_or("std").to_string();
    let mut last = json!({"outcome":"ok","kind":"ok","detail":"empty batch","bg":0,"ms":0});
    for s in c["sqls"].as_array().cloned().unwrap_or_default() {
        let (i, alive) = pool.run(&setup, s.as_str().unwrap_or(""));
        last = i;
        if !alive || last["outcome"] == "panic" { break; }
    }
    pool.kill();
    last
}

/// Phase 1: `jobs` workers, each with its own child process, pull statements from a shared queue (many statements per child).
/// Phase 2 (nothing else running): every statement whose child died or timed out is re-run ALONE in a fresh child with the
/// full time limit — that result is the reported one (so a timeout is never an artefact of load, and a death is pinned to
/// one statement); if it only dies after its predecessors, the prefix is emitted as a `batch` case when that reproduces.
/// Results are emitted in case order.
fn run_all(cases: Vec<Value>, limit_ms: u64, jobs: usize) {
    let n = cases.len();
    let cases = Arc::new(cases);
    let next = Arc::new(AtomicUsize::new(0));
    let results: Arc<Mutex<Vec<Option<Value>>>> = Arc::new(Mutex::new(vec![None; n]));
    let suspects: Arc<Mutex<Vec<(usize, Value, Vec<String>)>>> = Arc::new(Mutex::new(vec![]));
    let mut hs = vec![];
    for _ in 0..jobs.max(1).min(n.max(1)) {
        let (cases, next, results, suspects) = (cases.clone(), next.clone(), results.clone(), suspects.clone());
        hs.push(std::thread::spawn(move || {
            let mut pool = Pool::new(limit_ms);
            let mut since_spawn: Vec<String> = vec![];
            loop {
                let k = next.fetch_add(1, Ordering::SeqCst);
                if k >= n { break; }
                let c = &cases[k];
                if c["kind"] == "batch" || c["kind"] == "opt" { continue; }
                let setup = c["setup"].as_str().unwrap_or("std");
                let sql = c["sql"].as_str().unwrap_or("");
                if pool.kid.is_none() { since_spawn.clear(); }
                let (mut i, alive) = pool.run(setup, sql);
                if alive && i["outcome"] == "panic" && setup.starts_with("spill") {
                    // neutraliser (DESIGN 3.4): the same statement over the same tables without the memory limit
                    let (nt, alive2) = pool.run("nolimit", sql);
                    if !alive2 { pool.kill(); }
                    i["neutral"] = nt["outcome"].clone();
                }
                if !alive || is_bad(&i) {
                    pool.kill();
                    suspects.lock().unwrap().push((k, i, std::mem::take(&mut since_spawn)));
                } else {
                    since_spawn.push(sql.to_string());
                    if since_spawn.len() > 300 { pool.kill(); }
                    results.lock().unwrap()[k] = Some(i);
                }
            }
            pool.kill();
        }));
    }
    for h in hs { let _ = h.join(); }
    // phase 2
    let mut extra: Vec<(usize, Value, Value)> = vec![];
    let mut sus = std::mem::take(&mut *suspects.lock().unwrap());
    sus.sort_by_key(|x| x.0);
    let mut pool = Pool::new(limit_ms);
    for (k, first, prefix) in sus {
        let c = &cases[k];
        let setup = c["setup"].as_str().unwrap_or("std");
        let sql = c["sql"].as_str().unwrap_or("");
        pool.kill();
        let (mut solo, alive) = pool.run(setup, sql);
        if !alive { pool.kill(); }
        if alive && solo["outcome"] == "panic" && setup.starts_with("spill") {
            let (nt, alive2) = pool.run("nolimit", sql);
            if !alive2 { pool.kill(); }
            solo["neutral"] = nt["outcome"].clone();
        }
        if is_bad(&solo) {
            let out = solo["outcome"].as_str().unwrap_or("").to_string();
            solo["phase"] = json!(pool.localise(setup, sql, &out));
            pool.kill();
        } else if first["outcome"] == "abort" && !prefix.is_empty() {
            let mut sqls = prefix.clone(); sqls.push(sql.to_string());
            let bc = json!({"kind":"batch","setup":setup,"stream":"batch","sqls":sqls});
            let bi = run_batch_case(&bc, limit_ms);
            if is_bad(&bi) { extra.push((k, bc, bi)); } else { solo["flaky"] = json!(first["kind"]); }
        }
        results.lock().unwrap()[k] = Some(solo);
    }
    pool.kill();
    let res = results.lock().unwrap();
    for k in 0..n {
        let c = cases[k].clone();
        if c["kind"] == "batch" { let i = run_batch_case(&c, limit_ms); emit(c, i); continue; }
        if c["kind"] == "opt" { let i = run_opt(&c); emit(c, i); continue; }
        for (kk, bc, bi) in &extra { if *kk == k { emit(bc.clone(), bi.clone()); } }
        emit(c, res[k].clone().unwrap_or(json!({"outcome":"abort","kind":"harness","detail":"no result recorded"})));
    }
}

// ------------------------------------------------------------------------------------------------ generators
const FUNCS: &[&str] = &["ABS","ACOS","ANY_VALUE","APPROX_DISTINCT","APPROX_PERCENTILE","ARBITRARY","ARRAYS_OVERLAP","ARRAY_CONCAT","ARRAY_CONTAINS","ARRAY_DISTINCT","ARRAY_EXCEPT","ARRAY_FIRST","ARRAY_INTERSECT","ARRAY_JOIN","ARRAY_LAST","ARRAY_LENGTH","ARRAY_MAX","ARRAY_MIN","ARRAY_POSITION","ARRAY_REMOVE","ARRAY_REPEAT","ARRAY_REVERSE","ARRAY_SORT","ARRAY_UNION","ASCII","ASIN","ATAN","ATAN2","AT_TIMEZONE","AVG","BETA_CDF","BITWISE_AND","BITWISE_AND_AGG","BITWISE_LEFT_SHIFT","BITWISE_NOT","BITWISE_OR","BITWISE_OR_AGG","BITWISE_RIGHT_SHIFT","BITWISE_RIGHT_SHIFT_ARITHMETIC","BITWISE_XOR","BITWISE_XOR_AGG","BIT_COUNT","BOOL_AND","BOOL_OR","CARDINALITY","CBRT","CEIL","CHECKSUM","CHR","COALESCE","CODEPOINT","COMBINATIONS","CONCAT","CONCAT_WS","CONTAINS_SEQUENCE","CORR","COS","COSH","COSINE_DISTANCE","COSINE_SIMILARITY","COT","COUNT","COUNT_IF","COVAR_POP","COVAR_SAMP","CRC32","CUME_DIST","CURRENT_DATE","CURRENT_TIME","CURRENT_TIMESTAMP","CURRENT_TIMEZONE","DATE_ADD","DATE_DIFF","DATE_FORMAT","DATE_PARSE","DATE_PART","DATE_TRUNC","DAY","DAY_OF_WEEK","DAY_OF_YEAR","DEGREES","DENSE_RANK","DOT_PRODUCT","ELEMENT_AT","ENDS_WITH","EXP","FIRST_VALUE","FLATTEN","FLOOR","FORMAT","FORMAT_NUMBER","FROM_BASE","FROM_BASE32","FROM_BASE64","FROM_BASE64URL","FROM_BIG_ENDIAN_32","FROM_BIG_ENDIAN_64","FROM_HEX","FROM_IEEE754_32","FROM_IEEE754_64","FROM_ISO8601_DATE","FROM_ISO8601_TIMESTAMP","FROM_UNIXTIME","FROM_UTF8","GEOMETRIC_MEAN","GREATEST","HAMMING_DISTANCE","HMAC_MD5","HMAC_SHA1","HMAC_SHA256","HMAC_SHA512","HOUR","HUMAN_READABLE_SECONDS","IF","INFINITY","INVERSE_BETA_CDF","INVERSE_NORMAL_CDF","IS_FINITE","IS_INFINITE","IS_JSON_SCALAR","IS_NAN","JSON_ARRAY","JSON_ARRAY_CONTAINS","JSON_ARRAY_GET","JSON_ARRAY_LENGTH","JSON_EXISTS","JSON_EXTRACT","JSON_EXTRACT_SCALAR","JSON_FORMAT","JSON_OBJECT","JSON_PARSE","JSON_QUERY","JSON_SIZE","JSON_VALUE","KURTOSIS","L2_DISTANCE","LAG","LAST_DAY_OF_MONTH","LAST_VALUE","LEAD","LEAST","LEFT","LENGTH","LEVENSHTEIN_DISTANCE","LISTAGG","LN","LOCALTIME","LOCALTIMESTAMP","LOG","LOG10","LOG2","LOWER","LPAD","LTRIM","LUHN_CHECK","MAX","MAX_BY","MD5","MILLISECOND","MIN","MINUTE","MIN_BY","MOD","MONTH","MURMUR3","NAN","NGRAMS","NORMALIZE","NORMAL_CDF","NOW","NTH_VALUE","NTILE","NULLIF","PARSE_DATA_SIZE","PARSE_DATETIME","PARSE_DURATION","PERCENT_RANK","PI","POSITION","POW","POWER","QUARTER","RADIANS","RAND","RANDOM","RANGE","RANK","REGEXP_COUNT","REGEXP_EXTRACT","REGEXP_EXTRACT_ALL","REGEXP_LIKE","REGEXP_POSITION","REGEXP_REPLACE","REGEXP_SPLIT","REGR_AVGX","REGR_AVGY","REGR_COUNT","REGR_INTERCEPT","REGR_SLOPE","REPEAT","REPLACE","REVERSE","RIGHT","ROUND","ROW_NUMBER","RPAD","RTRIM","SECOND","SEQUENCE","SHA1","SHA256","SHA512","SHUFFLE","SIGN","SIN","SINH","SKEWNESS","SLICE","SOUNDEX","SPLIT","SPLIT_PART","SPOOKY_HASH_V2_32","SPOOKY_HASH_V2_64","SQRT","STARTS_WITH","STDDEV","STDDEV_POP","STDDEV_SAMP","STRPOS","SUBSTRING","SUM","TAN","TANH","TIMEZONE","TIMEZONE_HOUR","TIMEZONE_MINUTE","TO_BASE","TO_BASE32","TO_BASE64","TO_BASE64URL","TO_BIG_ENDIAN_32","TO_BIG_ENDIAN_64","TO_HEX","TO_IEEE754_32","TO_IEEE754_64","TO_ISO8601","TO_UNIXTIME","TO_UTF8","TRANSLATE","TRIM","TRIM_ARRAY","TRUNCATE","TRY","TRY_CAST","TYPEOF","T_CDF","T_PDF","UPPER","URL_DECODE","URL_ENCODE","URL_EXTRACT_FRAGMENT","URL_EXTRACT_HOST","URL_EXTRACT_PARAMETER","URL_EXTRACT_PATH","URL_EXTRACT_PORT","URL_EXTRACT_PROTOCOL","URL_EXTRACT_QUERY","UUID","VARIANCE","VAR_POP","VAR_SAMP","WEEK","WIDTH_BUCKET","WILSON_INTERVAL_LOWER","WILSON_INTERVAL_UPPER","WITH_TIMEZONE","WORD_STEM","XXHASH64","YEAR","YEAR_OF_WEEK","YEAR_OF_WEEK","ZIP","NOSUCHFN"];
const AGGS: &[&str] = &["COUNT","SUM","AVG","MIN","MAX","COUNT_IF","BOOL_AND","BOOL_OR","STDDEV","VARIANCE","ANY_VALUE","APPROX_DISTINCT","MAX_BY","MIN_BY","CORR","LISTAGG","BITWISE_AND_AGG","GEOMETRIC_MEAN","CHECKSUM","ARBITRARY","KURTOSIS","APPROX_PERCENTILE"];
const WINS: &[&str] = &["ROW_NUMBER","RANK","DENSE_RANK","PERCENT_RANK","CUME_DIST","NTILE","LAG","LEAD","FIRST_VALUE","LAST_VALUE","NTH_VALUE","SUM","COUNT","AVG","MIN","MAX"];
const TYPES: &[&str] = &["BIGINT","INTEGER","INT","SMALLINT","TINYINT","DOUBLE","REAL","FLOAT","DECIMAL(10,2)","DECIMAL(38,10)","DECIMAL(76,0)","VARCHAR","VARCHAR(3)","CHAR(2)","TEXT","DATE","TIMESTAMP","TIME","BOOLEAN","INTERVAL","BLOB","UUID","JSON","ARRAY<INT>","INT[]","NOSUCHTYPE"];

/// Function names as the engine lists them: quoted upper-case identifiers of the binder's function dispatch and of
/// `ScalarFunction`'s Display table, read from /repo's current source (new functions are covered without touching this file);
/// falls back to the built-in list when the source cannot be read.
fn engine_functions() -> Vec<String> {
    let mut out: std::collections::BTreeSet<String> = std::collections::BTreeSet::new();
    for f in ["/repo/src/planner/binder.rs", "/repo/src/planner/logical_expr.rs"] {
        if let Ok(t) = std::fs::read_to_string(f) {
            let b = t.as_bytes();
            let mut i = 0;
            while i < b.len() {
                if b[i] == b'"' {
                    let mut j = i + 1;
                    while j < b.len() && (b[j].is_ascii_uppercase() || b[j].is_ascii_digit() || b[j] == b'_') { j += 1; }
                    if j < b.len() && b[j] == b'"' && j - i >= 3 && b[i + 1].is_ascii_uppercase() { out.insert(t[i + 1..j].to_string()); }
                    i = j;
                }
                i += 1;
            }
        }
    }
    for k in ["AND","OR","NOT","CASE","END","NULL","ROWS","RANGE","LIKE","CAST","TRY_CAST","EXTRACT","IF","TRY","UTC","ASC","DESC"] { out.remove(k); }
    if out.len() < 100 { return FUNCS.iter().map(|x| x.to_string()).collect(); }
    out.into_iter().collect()
}

/// string functions and operators over multi-byte text with small integer arguments around the character boundaries
fn gen_utf8(r: &mut Rng, funcs: &[String]) -> String {
    let lit = |r: &mut Rng| format!("'{}'", r.pick(MB_WORDS).replace('\'', "''"));
    let sarg = |r: &mut Rng| match r.below(5) { 0 | 1 => "s".to_string(), 2 => "p".to_string(), _ => lit(r) };
    let narg = |r: &mut Rng| match r.below(4) { 0 => "n".to_string(), 1 => ["-1","7","8","100"][r.below(4) as usize].to_string(), _ => r.below(7).to_string() };
    match r.below(10) {
        0 => { let e = match r.below(8) {
                0 => format!("s LIKE {}", ["'%é%'","'_本%'","'a_b'","'%😀'","p || '%'","'%' || p","'ß'","'_'","'%\u{301}%'"][r.below(9) as usize]),
                1 => format!("s || {} || p", lit(r)),
                2 => format!("CAST(s AS {})", ["BIGINT","DOUBLE","DATE","BOOLEAN","VARCHAR","INTEGER"][r.below(6) as usize]),
                3 => format!("s {} {}", ["<","<=","=","<>",">",">="][r.below(6) as usize], sarg(r)),
                4 => format!("SUBSTRING(s FROM {} FOR {})", narg(r), narg(r)),
                5 => format!("POSITION({} IN s)", sarg(r)),
                6 => format!("TRIM({} {} FROM s)", ["BOTH","LEADING","TRAILING"][r.below(3) as usize], sarg(r)),
                _ => format!("s NOT LIKE {}", lit(r)) };
               format!("SELECT s, n, {} FROM mb{}", e, if r.chance(1, 3) { " ORDER BY 1 NULLS FIRST, 2" } else { "" }) }
        1 => format!("SELECT s, COUNT(*), MIN(p), MAX(s) FROM mb GROUP BY s ORDER BY {}", ["1", "LENGTH(s)", "UPPER(s)", "REVERSE(s)"][r.below(4) as usize]),
        2 => format!("SELECT a.s, b.p FROM mb a JOIN mb b ON {} WHERE a.n = {} AND b.n = 0", ["a.s = b.s","a.p = b.p","LEFT(a.s, 1) = b.p","a.s LIKE b.p || '%'"][r.below(4) as usize], r.below(7)),
        _ => {
            let f = r.pick(funcs).clone();
            let shape = *r.pick(&["S","SN","SN","SS","SNN","SNS","SSN","SSS","NS","SNNS","SSNN"]);
            let args: Vec<String> = shape.chars().map(|c| if c == 'S' { sarg(r) } else { narg(r) }).collect();
            format!("SELECT {}({}) FROM mb{}", f, args.join(", "), if r.chance(1, 4) { " WHERE n < 3" } else { "" })
        }
    }
}

/// Systematic block (no randomness): EVERY function name of the engine's table x six argument shapes over the columns of `mb`
/// (all multi-byte words x n = 0..6 in one statement), so that a character-boundary slip in any one string function is hit on every run.
fn sys_utf8_cases(funcs: &[String]) -> Vec<Value> {
    let mut out = vec![];
    for f in funcs {
        for args in ["s", "s, n", "s, p", "s, n, n", "s, p, n", "s, n, p", "n, s", "s, 'é', p"] {
            out.push(json!({"kind":"sql","setup":"std","stream":"utf8-sys","sql":format!("SELECT {}({}) FROM mb", f, args)}));
        }
    }
    out
}

struct Tab { name: &'static str, cols: &'static [(&'static str, char)] }
const STD_TABS: &[Tab] = &[
    Tab { name: "t1", cols: &[("a",'i'),("b",'i'),("c",'f'),("s",'s'),("d",'d'),("e",'b'),("i",'i')] },
    Tab { name: "t2", cols: &[("k",'i'),("v",'f'),("name",'s')] },
    Tab { name: "empty0", cols: &[("x",'i'),("y",'s')] },
    Tab { name: "empty1", cols: &[("x",'i'),("y",'s')] },
    Tab { name: "big", cols: &[("k",'i'),("g",'i')] },
    Tab { name: "mb", cols: &[("s",'s'),("n",'i'),("p",'s')] },
];
const SPILL_TABS: &[Tab] = &[
    Tab { name: "big", cols: &[("x",'i'),("y",'i'),("w",'s')] },
    Tab { name: "small", cols: &[("k",'i'),("v",'f')] },
];

struct G<'a> { r: &'a mut Rng, tabs: &'static [Tab], scope: Vec<(String, &'static Tab)>, wild: u64, multi: bool }

impl<'a> G<'a> {
    fn lit(&mut self) -> String {
        match self.r.below(22) {
            0 => "NULL".into(), 1 => "TRUE".into(), 2 => "FALSE".into(),
            3 | 4 | 5 => self.r.range(-3, 12).to_string(),
            6 => ["0","1","-1","9223372036854775807","-9223372036854775808","9223372036854775808","2147483648","-2147483649","18446744073709551616"][self.r.below(9) as usize].into(),
            7 | 8 => format!("{}.{}", self.r.range(0, 20), ["0","5","25","125"][self.r.below(4) as usize]),
            9 => ["1e308","1e309","-1e-320","0.0","-0.0","1e0","1E+2",".5","5.","1e","0x1F","1_000"][self.r.below(12) as usize].into(),
            10 | 11 | 12 if self.r.chance(1, 3) => format!("'{}'", self.r.pick(MB_WORDS).replace('\'', "''")),
            10 | 11 | 12 => format!("'{}'", ["", "a", "ab", "abc", "Hello", "%", "_", "a%", "%b%", "100", "-7", "1.5", "x''y", "2024-01-31", "2024-13-45", "12:30:00", "wörld", "\u{1F600}", "{\"k\":[1,2]}", "$.k[0]", "(a+)+$", "[", "\\", "UTC", "day", "yyyy-MM-dd", "%Y-%m-%d"][self.r.below(27) as usize]),
            13 => format!("DATE '{}'", ["2024-01-31","1970-01-01","0001-01-01","9999-12-31","2024-02-30","99999-01-01","x"][self.r.below(7) as usize]),
            14 => format!("TIMESTAMP '{}'", ["2024-01-31 12:30:00","1970-01-01 00:00:00","2024-01-31","bad"][self.r.below(4) as usize]),
            15 => format!("INTERVAL '{}' {}", self.r.range(-2, 400), ["DAY","MONTH","YEAR","HOUR","SECOND","WEEK"][self.r.below(6) as usize]),
            16 => format!("ARRAY[{}]", (0..self.r.below(4)).map(|_| self.r.range(0, 5).to_string()).collect::<Vec<_>>().join(",")),
            17 => format!("[{}]", (0..self.r.below(4)).map(|_| format!("{}.5", self.r.range(0, 5))).collect::<Vec<_>>().join(",")),
            18 => "X'4142'".into(),
            19 => format!("{}", self.r.range(-100000, 100000)),
            _ => format!("'{}'", "ab".repeat(self.r.below(4) as usize)),
        }
    }
    fn col(&mut self) -> String {
        if self.scope.is_empty() || self.r.below(100) < self.wild {
            return ["zz","t1.zz","nosuch.a","\"A\"","\"a\"","t9.a.b","a.b.c.d","select","*","t1.*","_1","$1","?","@v","`a`","[a]"][self.r.below(16) as usize].into();
        }
        let k = self.r.below(self.scope.len() as u64) as usize;
        let (alias, t) = (self.scope[k].0.clone(), self.scope[k].1);
        let c = t.cols[self.r.below(t.cols.len() as u64) as usize].0;
        if self.r.chance(1, 2) { format!("{}.{}", alias, c) } else { c.to_string() }
    }
    fn ty(&mut self) -> String { self.r.pick(TYPES).to_string() }
    fn args(&mut self, d: u32, n: u64) -> String { (0..n).map(|_| self.expr(d)).collect::<Vec<_>>().join(", ") }
    fn call(&mut self, d: u32) -> String {
        let f = *self.r.pick(FUNCS);
        let n = if self.r.chance(1, 8) { self.r.below(7) } else { 1 + self.r.below(3) };
        if self.r.chance(1, 30) { return format!("{}(DISTINCT {})", f, self.args(d, n.max(1))); }
        if self.r.chance(1, 30) { return format!("{}(*)", f); }
        format!("{}({})", f, self.args(d, n))
    }
    fn over(&mut self, d: u32) -> String {
        let mut s = String::from("OVER (");
        if self.r.chance(1, 2) { let k = 1 + self.r.below(2); s += &format!("PARTITION BY {} ", self.args(d, k)); }
        if self.r.chance(2, 3) { s += &format!("ORDER BY {} ", self.order_items(d)); }
        if self.r.chance(1, 3) {
            let b = |g: &mut Self| -> String { match g.r.below(7) { 0 => "UNBOUNDED PRECEDING".into(), 1 => "UNBOUNDED FOLLOWING".into(), 2 => "CURRENT ROW".into(),
                3 => format!("{} PRECEDING", g.r.below(4)), 4 => format!("{} FOLLOWING", g.r.below(4)), 5 => ["-1 PRECEDING","18446744073709551615 FOLLOWING","9223372036854775807 FOLLOWING","18446744073709551615 PRECEDING","4294967296 FOLLOWING"][g.r.below(5) as usize].into(), _ => format!("{} PRECEDING", g.lit()) } };
            let u = ["ROWS","RANGE","GROUPS"][self.r.below(3) as usize];
            if self.r.chance(3, 4) { let (x, y) = (b(self), b(self)); s += &format!("{} BETWEEN {} AND {}", u, x, y); } else { let x = b(self); s += &format!("{} {}", u, x); }
        }
        s + ")"
    }
    fn order_items(&mut self, d: u32) -> String {
        (0..1 + self.r.below(3)).map(|_| {
            let e = if self.r.chance(1, 6) { self.r.range(0, 9).to_string() } else { self.expr(d) };
            format!("{}{}{}", e, ["", " ASC", " DESC"][self.r.below(3) as usize], ["", "", " NULLS FIRST", " NULLS LAST"][self.r.below(4) as usize])
        }).collect::<Vec<_>>().join(", ")
    }
    fn expr(&mut self, d: u32) -> String {
        if d == 0 { return if self.r.chance(1, 2) { self.lit() } else { self.col() }; }
        let d1 = d - 1;
        match self.r.below(40) {
            0..=4 => self.lit(),
            5..=10 => self.col(),
            11..=14 => { let op = ["+","-","*","/","%","||","&","|","^","<<",">>"][self.r.below(11) as usize]; format!("({} {} {})", self.expr(d1), op, self.expr(d1)) }
            15..=18 => { let op = ["=","<>","!=","<","<=",">",">=","<=>","IS DISTINCT FROM","IS NOT DISTINCT FROM"][self.r.below(10) as usize]; format!("({} {} {})", self.expr(d1), op, self.expr(d1)) }
            19 | 20 => format!("({} {} {})", self.expr(d1), ["AND","OR","XOR"][self.r.below(3) as usize], self.expr(d1)),
            21 => format!("(NOT {})", self.expr(d1)),
            22 => format!("(- {})", self.expr(d1)),
            23 => format!("({} IS {}{})", self.expr(d1), ["", "NOT "][self.r.below(2) as usize], ["NULL","TRUE","FALSE","UNKNOWN"][self.r.below(4) as usize]),
            24 => { let n = self.r.below(5); format!("({} {}IN ({}))", self.expr(d1), ["", "NOT "][self.r.below(2) as usize], self.args(d1, n)) }
            25 => format!("({} {}BETWEEN {} AND {})", self.expr(d1), ["", "NOT "][self.r.below(2) as usize], self.expr(d1), self.expr(d1)),
            26 => format!("({} {}{} {})", self.expr(d1), ["", "NOT "][self.r.below(2) as usize], ["LIKE","ILIKE","SIMILAR TO","RLIKE"][self.r.below(4) as usize], self.expr(d1)),
            27 => {
                let mut s = String::from("CASE ");
                if self.r.chance(1, 3) { s += &self.expr(d1); s.push(' '); }
                for _ in 0..self.r.below(3) + (if self.r.chance(9, 10) { 1 } else { 0 }) { s += &format!("WHEN {} THEN {} ", self.expr(d1), self.expr(d1)); }
                if self.r.chance(1, 2) { s += &format!("ELSE {} ", self.expr(d1)); }
                s + "END"
            }
            28 | 29 => format!("{}({} AS {})", ["CAST","CAST","TRY_CAST"][self.r.below(3) as usize], self.expr(d1), self.ty()),
            30..=33 => self.call(d1),
            34 => format!("({})", self.query(d1.min(1), false)),
            35 => format!("({}EXISTS ({}))", ["", "NOT "][self.r.below(2) as usize], self.query(d1.min(1), false)),
            36 => format!("({} {}IN ({}))", self.expr(d1), ["", "NOT "][self.r.below(2) as usize], self.query(d1.min(1), false)),
            37 => format!("({} {} {} ({}))", self.expr(d1), ["=", "<", ">="][self.r.below(3) as usize], ["ANY", "ALL", "SOME"][self.r.below(3) as usize], self.query(d1.min(1), false)),
            38 => { let f = *self.r.pick(WINS); let n = self.r.below(3); format!("{}({}) {}", f, self.args(d1, n), self.over(d1)) }
            _ => match self.r.below(8) {
                0 => format!("EXTRACT({} FROM {})", ["YEAR","MONTH","DAY","HOUR","DOW","EPOCH","QUARTER","NOSUCH"][self.r.below(8) as usize], self.expr(d1)),
                1 => format!("SUBSTRING({} FROM {} FOR {})", self.expr(d1), self.expr(d1), self.expr(d1)),
                2 => format!("POSITION({} IN {})", self.expr(d1), self.expr(d1)),
                3 => format!("TRIM({} {} FROM {})", ["BOTH","LEADING","TRAILING"][self.r.below(3) as usize], self.expr(d1), self.expr(d1)),
                4 => format!("{}[{}]", self.expr(d1), self.expr(d1)),
                5 => format!("{}::{}", self.expr(d1), self.ty()),
                6 => format!("({}, {})", self.expr(d1), self.expr(d1)),
                _ => format!("{} AT TIME ZONE 'UTC'", self.expr(d1)),
            },
        }
    }
    fn table_ref(&mut self, d: u32, n: usize) -> String {
        let alias = format!("{}{}", ["x","y","z","w"][n % 4], n / 4);
        if d > 0 && self.r.chance(1, 6) {
            // derived table: its columns are unknown to the generator -> treat as t2-shaped only by luck
            let q = self.query(d - 1, false);
            // derived tables are capped so that joins over them stay small (a time-out must be the engine's doing, not the data's)
            return if q.contains(" LIMIT ") || q.contains(" FETCH ") { format!("({}) {}", q, alias) } else { format!("({} LIMIT 20) {}", q, alias) };
        }
        if self.r.below(100) < self.wild { return format!("{} {}", ["nosuch","t1.t1","\"T1\"","information_schema.tables","(t1)","t1 t1 t1","UNNEST(ARRAY[1,2])","LATERAL (SELECT 1)","TABLE(f(1))","generate_series(1,3)","read_parquet('/nonexistent')"][self.r.below(11) as usize], alias); }
        let mut t = &self.tabs[self.r.below(self.tabs.len() as u64) as usize];
        // the large tables only stand alone (no cross products over them)
        if n > 0 || self.multi { while t.name == "big" || t.name == "small" { t = &self.tabs[self.r.below(self.tabs.len() as u64) as usize]; if self.tabs.len() <= 2 { break; } } }
        if self.r.chance(1, 3) { self.scope.push((t.name.to_string(), t)); t.name.to_string() }
        else { self.scope.push((alias.clone(), t)); format!("{}{}{}", t.name, [" ", " AS "][self.r.below(2) as usize], alias) }
    }
    fn query(&mut self, d: u32, top: bool) -> String {
        let saved = self.scope.clone();
        let mut s = String::new();
        if d > 0 && self.r.chance(1, 8) {
            let n = 1 + self.r.below(2);
            let mut parts = vec![];
            for j in 0..n { let q = self.query(d - 1, false); parts.push(format!("c{}{} AS ({})", j, if self.r.chance(1, 4) { "(p, q)" } else { "" }, q)); }
            s += &format!("WITH {}{} ", if self.r.chance(1, 10) { "RECURSIVE " } else { "" }, parts.join(", "));
        }
        if d > 0 && self.r.chance(1, 8) {
            let op = ["UNION","UNION ALL","INTERSECT","INTERSECT ALL","EXCEPT","EXCEPT ALL","MINUS","UNION DISTINCT"][self.r.below(8) as usize];
            let l = self.query(d - 1, false); let r2 = self.query(d - 1, false);
            s += &format!("{} {} {}", l, op, r2);
        } else if self.r.chance(1, 25) {
            let rows = 1 + self.r.below(3); let w = 1 + self.r.below(3);
            s += &format!("VALUES {}", (0..rows).map(|_| { let ww = if self.r.chance(1, 8) { w + 1 } else { w }; format!("({})", (0..ww).map(|_| self.lit()).collect::<Vec<_>>().join(", ")) }).collect::<Vec<_>>().join(", "));
        } else {
            // FROM first (so that the select list can use the scope), printed later
            let mut from = String::new();
            let mut nt = if self.r.chance(1, 12) { 0 } else { 1 + self.r.below(3) as usize };
            if self.tabs.len() <= 2 { nt = nt.min(1); }
            self.multi = nt > 1;
            self.scope.clear();
            for j in 0..nt {
                let tr = self.table_ref(d, j);
                if j == 0 { from += &tr; continue; }
                let jt = ["JOIN","INNER JOIN","LEFT JOIN","RIGHT JOIN","FULL JOIN","FULL OUTER JOIN","CROSS JOIN",",","LEFT SEMI JOIN","LEFT ANTI JOIN","NATURAL JOIN","JOIN LATERAL","ASOF JOIN"][self.r.below(13) as usize];
                from += &format!(" {} {}", jt, tr);
                if jt != "," && jt != "CROSS JOIN" && jt != "NATURAL JOIN" {
                    if self.r.chance(1, 10) { from += &format!(" USING ({})", self.col()); }
                    else if self.r.chance(9, 10) { let e = if self.r.chance(2, 3) { format!("{} = {}", self.col(), self.col()) } else { self.expr(d.min(2)) }; from += &format!(" ON {}", e); }
                }
            }
            // derived tables reset nothing: keep scope as is
            let grouped = self.r.chance(1, 4);
            let ed = d.min(3);
            let n = 1 + self.r.below(4);
            let mut items = vec![];
            for _ in 0..n {
                let mut e = match self.r.below(12) {
                    0 => "*".to_string(),
                    1 if grouped => { let a = *self.r.pick(AGGS); if self.r.chance(1, 5) { format!("{}(*)", a) } else if self.r.chance(1, 6) { format!("{}(DISTINCT {})", a, self.expr(ed.min(1))) } else { let k = 1 + self.r.below(2); format!("{}({})", a, self.args(ed.min(1), k)) } }
                    2 if grouped => format!("{}({}) FILTER (WHERE {})", self.r.pick(AGGS), self.expr(1), self.expr(1)),
                    _ => self.expr(ed),
                };
                if e != "*" && self.r.chance(1, 4) { e += &format!(" AS {}", ["n","a","\"x y\"","sum","c1","select"][self.r.below(6) as usize]); }
                items.push(e);
            }
            s += &format!("SELECT {}{}", ["", "", "", "DISTINCT ", "ALL ", "DISTINCT ON (a) ", "TOP 3 "][self.r.below(7) as usize], items.join(", "));
            if nt > 0 { s += " FROM "; s += &from; }
            if self.r.chance(1, 2) { s += &format!(" WHERE {}", self.expr(ed)); }
            if grouped {
                let k = 1 + self.r.below(3);
                let ks = (0..k).map(|_| if self.r.chance(1, 8) { self.r.range(0, 5).to_string() } else if self.r.chance(2, 3) { self.col() } else { self.expr(1) }).collect::<Vec<_>>();
                s += &match self.r.below(8) {
                    0 => format!(" GROUP BY ROLLUP({})", ks.join(", ")),
                    1 => format!(" GROUP BY CUBE({})", ks.join(", ")),
                    2 => format!(" GROUP BY GROUPING SETS (({}), ({}), ())", ks.join(", "), ks[0]),
                    3 => " GROUP BY ALL".to_string(),
                    4 => " GROUP BY ()".to_string(),
                    _ => format!(" GROUP BY {}", ks.join(", ")),
                };
                if self.r.chance(1, 3) { s += &format!(" HAVING {}", if self.r.chance(1, 2) { format!("{}({}) > {}", self.r.pick(AGGS), self.expr(1), self.lit()) } else { self.expr(ed) }); }
            }
            if self.r.chance(1, 20) { s += " WINDOW w AS (PARTITION BY 1)"; }
            if self.r.chance(1, 30) { s += &format!(" QUALIFY {}", self.expr(1)); }
        }
        if self.r.chance(1, if top { 3 } else { 6 }) { s += &format!(" ORDER BY {}", self.order_items(d.min(2))); }
        if self.r.chance(1, if top { 4 } else { 8 }) {
            let l = ["0","1","3","10","100000","18446744073709551615","18446744073709551616","-1","NULL","ALL","1+1","'3'","3.5","a"][self.r.below(14) as usize];
            s += &format!(" LIMIT {}", l);
            if self.r.chance(1, 2) { s += &format!(" OFFSET {}", ["0","1","5","1000000","-1","18446744073709551615","NULL"][self.r.below(7) as usize]); }
        } else if self.r.chance(1, 30) { s += &format!(" OFFSET {} ROWS FETCH FIRST {} ROWS ONLY", self.r.below(4), self.r.below(4)); }
        self.scope = saved;
        s
    }
}

/// "tame" statements: the supported core of the dialect only (type-blind but mostly bindable), used where executed statements
/// are wanted rather than error paths (family C30's raw stream, and as mutation seeds)
pub fn gen_tame(r: &mut Rng) -> String {
    fn col(r: &mut Rng, t: &Tab, alias: &str) -> String { format!("{}.{}", alias, t.cols[r.below(t.cols.len() as u64) as usize].0) }
    fn expr(r: &mut Rng, sc: &[(&'static Tab, String)], d: u32) -> String {
        let pick_col = |r: &mut Rng| { let (t, a) = &sc[r.below(sc.len() as u64) as usize]; col(r, t, a) };
        if d == 0 { return if r.chance(2, 3) { pick_col(r) } else if r.chance(1, 4) { format!("'{}'", r.pick(MB_WORDS).replace('\'', "''")) } else { ["1","2","0","1.5","'a'","'abc'","TRUE","NULL","DATE '2024-01-31'"][r.below(9) as usize].to_string() }; }
        match r.below(16) {
            0..=3 => pick_col(r),
            4 | 5 => format!("({} {} {})", expr(r, sc, d - 1), ["+","-","*","/","%"][r.below(5) as usize], expr(r, sc, d - 1)),
            6 | 7 => format!("({} {} {})", expr(r, sc, d - 1), ["=","<>","<","<=",">",">="][r.below(6) as usize], expr(r, sc, d - 1)),
            8 => format!("({} {} {})", expr(r, sc, d - 1), ["AND","OR"][r.below(2) as usize], expr(r, sc, d - 1)),
            9 => format!("({} IS {}NULL)", expr(r, sc, d - 1), ["", "NOT "][r.below(2) as usize]),
            10 => format!("CASE WHEN {} THEN {} ELSE {} END", expr(r, sc, d - 1), expr(r, sc, d - 1), expr(r, sc, d - 1)),
            11 => format!("CAST({} AS {})", expr(r, sc, d - 1), ["BIGINT","DOUBLE","VARCHAR","INTEGER","DATE","BOOLEAN"][r.below(6) as usize]),
            12 => format!("COALESCE({}, {})", expr(r, sc, d - 1), expr(r, sc, d - 1)),
            13 => { let f = ["ABS","UPPER","LOWER","LENGTH","ROUND","FLOOR","CEIL","YEAR","MONTH","SQRT","TRIM","REVERSE","SIGN","LN","EXP","TO_HEX","MD5","TYPEOF","IS_NAN","DAY_OF_WEEK","BIT_COUNT","CHR","ASCII","SOUNDEX","LAST_DAY_OF_MONTH","TO_UNIXTIME","NOW","PI","RANDOM","UUID","CURRENT_DATE"][r.below(31) as usize];
                    if ["NOW","PI","RANDOM","UUID","CURRENT_DATE"].contains(&f) { format!("{}()", f) } else { format!("{}({})", f, expr(r, sc, d - 1)) } }
            14 => { let f = ["CONCAT","POWER","MOD","NULLIF","GREATEST","LEAST","STARTS_WITH","STRPOS","LEFT","REPEAT","DATE_DIFF","ATAN2","SPLIT_PART","LPAD"][r.below(14) as usize];
                    match f { "REPEAT" | "LEFT" => format!("{}({}, 2)", f, expr(r, sc, d - 1)), "DATE_DIFF" => format!("DATE_DIFF('day', {}, {})", expr(r, sc, d - 1), expr(r, sc, d - 1)),
                              "SPLIT_PART" => format!("SPLIT_PART({}, 'a', 1)", expr(r, sc, d - 1)), "LPAD" => format!("LPAD({}, 5, 'x')", expr(r, sc, d - 1)),
                              _ => format!("{}({}, {})", f, expr(r, sc, d - 1), expr(r, sc, d - 1)) } }
            _ => format!("({} {}LIKE 'a%')", expr(r, sc, d - 1), ["", "NOT "][r.below(2) as usize]),
        }
    }
    let small: Vec<&'static Tab> = STD_TABS.iter().filter(|t| t.name != "big").collect();
    let nt = 1 + r.below(2) as usize;
    let sc: Vec<(&'static Tab, String)> = (0..nt).map(|j| (small[r.below(small.len() as u64) as usize], format!("x{}", j))).collect();
    let mut from = format!("{} AS x0", sc[0].0.name);
    if nt == 2 {
        let jt = ["JOIN","LEFT JOIN","RIGHT JOIN","FULL JOIN","CROSS JOIN"][r.below(5) as usize];
        from += &format!(" {} {} AS x1", jt, sc[1].0.name);
        if jt != "CROSS JOIN" { from += &format!(" ON {} = {}", col(r, sc[0].0, "x0"), col(r, sc[1].0, "x1")); }
    }
    let n = 1 + r.below(4);
    let shape = r.below(10);
    let alias = |j: u64, r: &mut Rng| if r.chance(1, 2) { format!(" AS c{}", j) } else { String::new() };
    let mut s = match shape {
        0 | 1 => { // aggregate
            let k = col(r, sc[0].0, "x0");
            let aggs: Vec<String> = (0..n).map(|j| { let a = ["COUNT(*)","COUNT","SUM","AVG","MIN","MAX","COUNT(DISTINCT","STDDEV","BOOL_OR","ANY_VALUE"][r.below(10) as usize];
                let e = expr(r, &sc, 1); let al = alias(j, r);
                if a == "COUNT(*)" { format!("COUNT(*){}", al) } else if a == "COUNT(DISTINCT" { format!("COUNT(DISTINCT {}){}", e, al) } else { format!("{}({}){}", a, e, al) } }).collect();
            let g = ["GROUP BY {k}","GROUP BY ROLLUP({k})","GROUP BY {k}, 1",""][r.below(4) as usize];
            if g.is_empty() { format!("SELECT {} FROM {}", aggs.join(", "), from) } else { format!("SELECT {}, {} FROM {} {}", k, aggs.join(", "), from, g.replace("{k}", &k).replace(", 1", "")) }
        }
        2 => { // window
            let items: Vec<String> = (0..n).map(|j| { let f = ["ROW_NUMBER()","RANK()","SUM({e})","COUNT(*)","LAG({e})","FIRST_VALUE({e})","AVG({e})","NTILE(3)","DENSE_RANK()","MAX({e})"][r.below(10) as usize].replace("{e}", &expr(r, &sc, 0));
                format!("{} OVER (PARTITION BY {} ORDER BY {}){}", f, col(r, sc[0].0, "x0"), col(r, sc[0].0, "x0"), alias(j, r)) }).collect();
            format!("SELECT {}, {} FROM {}", col(r, sc[0].0, "x0"), items.join(", "), from)
        }
        3 => format!("SELECT * FROM {}", from),
        4 => format!("SELECT x0.*, {} FROM {}", expr(r, &sc, 2), from),
        5 => { let e1: Vec<String> = (0..n).map(|_| expr(r, &sc, 1)).collect(); let op = ["UNION ALL","UNION","INTERSECT","EXCEPT"][r.below(4) as usize];
               format!("SELECT {} FROM {} {} SELECT {} FROM {}", e1.join(", "), from, op, e1.join(", "), from) }
        6 => format!("SELECT (SELECT MAX(k) FROM t2), {} FROM {} WHERE {} IN (SELECT k FROM t2)", expr(r, &sc, 1), from, col(r, sc[0].0, "x0")),
        _ => { let items: Vec<String> = (0..n).map(|j| { let e = expr(r, &sc, 2); format!("{}{}", e, alias(j, r)) }).collect();
               format!("SELECT {}{} FROM {}", if r.chance(1, 5) { "DISTINCT " } else { "" }, items.join(", "), from) }
    };
    if shape >= 3 && shape != 5 && r.chance(1, 2) { s += &format!(" WHERE {}", expr(r, &sc, 2)); }
    if r.chance(1, 3) { s += " ORDER BY 1"; if r.chance(1, 2) { s += " DESC NULLS FIRST"; } }
    if r.chance(1, 3) { s += &format!(" LIMIT {}", [0u64, 1, 5, 100][r.below(4) as usize]); }
    s
}

fn tabs_of(setup: &str) -> &'static [Tab] { if setup.starts_with("spill") || setup == "nolimit" { SPILL_TABS } else { STD_TABS } }

pub fn gen_grammar(r: &mut Rng, setup: &str, wild: u64) -> String {
    let d = 1 + r.below(3) as u32;
    let mut g = G { r, tabs: tabs_of(setup), scope: vec![], wild, multi: false };
    g.query(d, true)
}

/// spilled shapes on the `spill` setup: sorts, top-k, aggregates, joins and distincts over 40 000 rows under a 100 kB pool
fn gen_spill(r: &mut Rng) -> String {
    let key = |r: &mut Rng| ["x","y","w","x + 1","- x","y % 7","x IS NULL","COALESCE(x, 0)"][r.below(8) as usize].to_string();
    // ORDER BY keys are plain columns: the spilled merge re-evaluates a key *expression* over the whole buffer for every row
    // comparison (observed 38 s for 20 000 rows) - slow, not a hang, and it would drown the time limit
    let okey = |r: &mut Rng| ["x","y","w","x","y"][r.below(5) as usize].to_string();
    let ord = |r: &mut Rng| { let n = 1 + r.below(2); (0..n).map(|_| format!("{}{}{}", okey(r), ["", " ASC", " DESC"][r.below(3) as usize], ["", " NULLS FIRST", " NULLS LAST"][r.below(3) as usize])).collect::<Vec<_>>().join(", ") };
    let lim = |r: &mut Rng| if r.chance(2, 3) { format!(" LIMIT {}", [0u64, 1, 3, 10, 1000, 39999, 40000, 50000][r.below(8) as usize]) + &(if r.chance(1, 4) { format!(" OFFSET {}", [0u64, 1, 5, 39998, 40001][r.below(5) as usize]) } else { String::new() }) } else { String::new() };
    let wh = |r: &mut Rng| if r.chance(1, 3) { format!(" WHERE {}", ["x > 0","x IS NULL","x IS NOT NULL","y < 20000","w LIKE 'w1%'","x BETWEEN -10 AND 10","FALSE"][r.below(7) as usize]) } else { String::new() };
    match r.below(10) {
        0..=3 => { let (w, o, l) = (wh(r), ord(r), lim(r)); format!("SELECT {} FROM big{} ORDER BY {}{}", ["x","*","x, y","y, w","x + y"][r.below(5) as usize], w, o, l) }
        4 => { let (w, l) = (wh(r), lim(r)); format!("SELECT {}, COUNT(*), SUM(y), MIN(w) FROM big{} GROUP BY 1{}{}", key(r), w, if r.chance(1, 2) { " ORDER BY 1" } else { "" }, l) }
        5 => { let l = lim(r); format!("SELECT DISTINCT {} FROM big{}{}", key(r), if r.chance(1, 2) { " ORDER BY 1 NULLS FIRST" } else { "" }, l) }
        6 => { let l = lim(r); format!("SELECT a.y, b.v FROM big a {} small b ON a.x = b.k{}{}", ["JOIN","LEFT JOIN","RIGHT JOIN","FULL JOIN"][r.below(4) as usize], if r.chance(1, 2) { " ORDER BY a.y NULLS FIRST, b.v" } else { "" }, l) }
        7 => { let (o, l) = (ord(r), lim(r)); format!("SELECT y, ROW_NUMBER() OVER (ORDER BY {}) FROM big{}", o, l) }
        8 => { let (o, l) = (ord(r), lim(r)); format!("SELECT * FROM (SELECT x, y FROM big ORDER BY {}{}) q ORDER BY 1 NULLS FIRST LIMIT 5", o, l) }
        _ => { let l = lim(r); format!("SELECT x FROM big UNION {} SELECT k FROM small ORDER BY 1{}{}", ["", "ALL"][r.below(2) as usize], [" NULLS FIRST", " NULLS LAST", " DESC"][r.below(3) as usize], l) }
    }
}

/// every statement kind the parser knows (all but queries are expected to end in `err`)
fn gen_stmt(r: &mut Rng) -> String {
    let t = ["t1","t2","nosuch","empty0"][r.below(4) as usize];
    let ks: &[&str] = &["INSERT INTO {t} VALUES (1, 2)","INSERT INTO {t} (a) SELECT a FROM t1","UPDATE {t} SET a = 1 WHERE b = 2","DELETE FROM {t} WHERE a = 1","DELETE FROM {t}",
        "CREATE TABLE {t} (a INT, b VARCHAR)","CREATE TABLE n AS SELECT * FROM {t}","CREATE OR REPLACE VIEW v AS SELECT * FROM {t}","CREATE INDEX ix ON {t} (a)","DROP TABLE {t}","DROP TABLE IF EXISTS {t} CASCADE",
        "ALTER TABLE {t} ADD COLUMN z INT","ALTER TABLE {t} RENAME TO u","TRUNCATE TABLE {t}","EXPLAIN SELECT * FROM {t}","EXPLAIN ANALYZE SELECT * FROM {t}","DESCRIBE {t}","SHOW TABLES","SHOW COLUMNS FROM {t}","SHOW CREATE TABLE {t}",
        "SET x = 1","SET TIME ZONE 'UTC'","USE db","BEGIN","START TRANSACTION","COMMIT","ROLLBACK","SAVEPOINT s","GRANT SELECT ON {t} TO u","REVOKE ALL ON {t} FROM u","ANALYZE TABLE {t}","COPY {t} TO '/dev/null'","COPY {t} FROM '/nonexistent'",
        "MERGE INTO {t} USING t2 ON {t}.a = t2.k WHEN MATCHED THEN DELETE","CALL f(1)","PREPARE p AS SELECT * FROM {t}","EXECUTE p","DEALLOCATE p","DECLARE c CURSOR FOR SELECT 1","FETCH NEXT FROM c","CLOSE c","KILL 1",
        "CREATE SCHEMA s","CREATE DATABASE d","CREATE FUNCTION f(x INT) RETURNS INT AS 'x'","CREATE TYPE ty AS (a INT)","COMMENT ON TABLE {t} IS 'c'","VACUUM","PRAGMA foo","ATTACH 'x' AS y","LOAD 'ext'","INSTALL ext","CACHE TABLE {t}","UNCACHE TABLE {t}","MSCK REPAIR TABLE {t}",
        "TABLE {t}","FROM {t} SELECT a","SELECT 1; SELECT 2","SELECT 1;","; SELECT 1","","   ","--c","/* c */","/* unterminated","SELECT 1 -- c","(SELECT 1)","((SELECT a FROM {t}))","SELECT * FROM {t} FOR UPDATE","SELECT * FROM {t} TABLESAMPLE (10 PERCENT)","SELECT * FROM {t} AS OF 1",
        "WITH RECURSIVE c(n) AS (SELECT 1 UNION ALL SELECT n + 1 FROM c WHERE n < 5) SELECT * FROM c","WITH c AS (SELECT 1) SELECT * FROM c c1, c c2","SELECT * FROM {t} PIVOT (SUM(a) FOR b IN (1, 2))","SELECT * FROM {t} UNPIVOT (v FOR n IN (a, b))","SELECT * FROM {t} MATCH_RECOGNIZE (PATTERN (A) DEFINE A AS TRUE)",
        "SELECT * EXCLUDE (a) FROM {t}","SELECT * REPLACE (1 AS a) FROM {t}","SELECT * EXCEPT (a) FROM {t}","SELECT {t}.* FROM {t}","SELECT COUNT(*) FROM {t} GROUP BY ALL","SELECT a FROM {t} ORDER BY ALL","SELECT a FROM {t} LIMIT 1 BY a","SELECT a FROM {t} LIMIT 1, 2",
    ];
    let k = *r.pick(ks);
    k.replace("{t}", t)
}

/// size / nesting boundaries
fn gen_deep(r: &mut Rng) -> String {
    let depths = [10usize, 25, 40, 48, 49, 50, 51, 52, 60, 100, 500, 3000, 10000];
    let chains = [10usize, 100, 1000, 10000];
    let d = *r.pick(&depths);
    let n = *r.pick(&chains);
    let c = ["a","b","c","s","e"][r.below(5) as usize];
    match r.below(31) {
        0 => format!("SELECT {}1{} FROM t1", "(".repeat(d), ")".repeat(d)),
        1 => format!("SELECT a FROM t1 WHERE {}a > 1{}", "(".repeat(d), ")".repeat(d)),
        2 => { let mut s = String::from("SELECT a FROM t1"); for _ in 0..d.min(600) { s = format!("SELECT a FROM ({}) q", s); } s }
        3 => { let mut s = String::from("SELECT 1"); for _ in 0..d.min(600) { s = format!("SELECT ({})", s); } s }
        4 => { let mut s = String::from("SELECT k FROM t2"); for _ in 0..d.min(300) { s = format!("SELECT a FROM t1 WHERE a IN ({})", s); } s }
        5 => { let mut s = String::from("SELECT k FROM t2 WHERE k = t1.a"); for _ in 0..d.min(200) { s = format!("SELECT a FROM t1 WHERE EXISTS ({})", s); } s }
        6 => format!("SELECT a FROM t1 WHERE {}", (0..n).map(|j| format!("a <> {}", j)).collect::<Vec<_>>().join(" AND ")),
        7 => format!("SELECT a FROM t1 WHERE {}", (0..n).map(|j| format!("{} = {}", c, j)).collect::<Vec<_>>().join(" OR ")),
        8 => format!("SELECT {} FROM t1", (0..n).map(|_| "a").collect::<Vec<_>>().join(" + ")),
        9 => format!("SELECT a FROM t1 WHERE {} IN ({})", c, (0..n).map(|j| j.to_string()).collect::<Vec<_>>().join(", ")),
        10 => format!("SELECT a FROM t1 WHERE s IN ({})", (0..n).map(|j| format!("'v{}'", j)).collect::<Vec<_>>().join(", ")),
        11 => format!("SELECT a FROM t1 WHERE a NOT IN ({}, NULL)", (0..n).map(|j| j.to_string()).collect::<Vec<_>>().join(", ")),
        12 => format!("SELECT {}a FROM t1", "NOT ".repeat(d.min(3000)).replace("NOT ", if r.chance(1, 2) { "- " } else { "NOT " })),
        13 => format!("SELECT {} FROM t1", "9".repeat(n.min(5000))),
        14 => format!("SELECT 1.{} FROM t1", "3".repeat(n.min(5000))),
        15 => format!("SELECT LENGTH('{}')", "x".repeat(n * 100)),
        16 => format!("SELECT {} FROM t1", "z".repeat(n * 10)),
        17 => format!("SELECT {} FROM t1 LIMIT 2", (0..n.min(1000)).map(|j| format!("a + {} AS c{}", j, j)).collect::<Vec<_>>().join(", ")),
        18 => (0..n.min(1000)).map(|j| format!("SELECT {} AS v", j)).collect::<Vec<_>>().join(if r.chance(1, 2) { " UNION ALL " } else { " UNION " }),
        19 => format!("SELECT CASE {} ELSE 0 END FROM t1", (0..n.min(1000)).map(|j| format!("WHEN a = {} THEN {}", j, j)).collect::<Vec<_>>().join(" ")),
        20 => { let m = [2usize, 5, 8, 10, 12, 14, 18, 30][r.below(8) as usize]; format!("SELECT COUNT(*) FROM {} WHERE {}", (0..m).map(|j| format!("t1 q{}", j)).collect::<Vec<_>>().join(", "), (1..m).map(|j| format!("q{}.a = q{}.a", j - 1, j)).collect::<Vec<_>>().join(" AND ")) }
        21 => { let m = [2usize, 6, 10, 14, 20, 40][r.below(6) as usize]; format!("SELECT COUNT(*) FROM t1 q0 {}", (1..m).map(|j| format!("{} t1 q{} ON q{}.a = q{}.a", ["JOIN","LEFT JOIN"][r.below(2) as usize], j, j - 1, j)).collect::<Vec<_>>().join(" ")) }
        22 => { let m = n.min(300); format!("WITH {} SELECT * FROM c{}", (0..m).map(|j| if j == 0 { "c0 AS (SELECT 1 AS v)".to_string() } else { format!("c{} AS (SELECT v + 1 AS v FROM c{})", j, j - 1) }).collect::<Vec<_>>().join(", "), m - 1) }
        23 => format!("SELECT COALESCE({}) FROM t1", (0..n.min(1000)).map(|_| "b").collect::<Vec<_>>().join(", ")),
        24 => format!("SELECT a FROM t1 ORDER BY {}", (0..n.min(300)).map(|j| format!("a + {}", j)).collect::<Vec<_>>().join(", ")),
        25 => format!("SELECT a FROM t1 GROUP BY a, {}", (0..n.min(300)).map(|j| format!("b + {}", j)).collect::<Vec<_>>().join(", ")),
        26 => format!("SELECT {}a{} FROM t1", "ABS(".repeat(d), ")".repeat(d)),
        27 => { let dd = if r.chance(1, 8) { d.min(3000) } else { [5usize, 20, 40, 44, 46][r.below(5) as usize] }; format!("SELECT {}a{} FROM t1", "CAST(".repeat(dd), " AS BIGINT)".repeat(dd)) }
        28 => { let cube = r.chance(1, 2); let m = if cube { [2usize, 3, 5, 6][r.below(4) as usize] } else { [2usize, 4, 8, 9, 12, 20][r.below(6) as usize] }; format!("SELECT a, COUNT(*) FROM t1 GROUP BY {}({})", if cube { "CUBE" } else { "ROLLUP" }, (0..m).map(|j| ["a","b","c","s","d","e","i"][j % 7].to_string() + &(if j >= 7 { format!(" + {}", j) } else { String::new() })).collect::<Vec<_>>().join(", ")) }
        29 => { let e = ["empty0","empty1"][r.below(2) as usize]; let m = 2 + r.below(4) as usize;
                format!("SELECT COUNT(*) FROM {} q0, {} WHERE q0.x = q1.a{}", e, (1..=m).map(|j| format!("{} q{}", ["t1","t2","empty1"][j % 3], j)).collect::<Vec<_>>().join(", "), if r.chance(1, 2) { " AND q1.a = q2.k" } else { "" }) }
        _ => format!("SELECT a FROM t1 WHERE {}", (0..n.min(1000)).map(|j| format!("(a = {} AND b = {})", j, j)).collect::<Vec<_>>().join(" OR ")),
    }
}

/// scalar functions and operators at argument boundaries (i64 extremes, shift counts, radices, date overflow, division by zero)
fn gen_fnb(r: &mut Rng) -> String {
    let pool: &[&str] = &["-9223372036854775808","9223372036854775807","0","-1","1","2","36","37","63","64","65","100","-100","2147483647","-2147483648","4294967296",
        "1e308","-1e308","1.5","0.0","'x'","''","NULL","'9223372036854775807'","'zz'","'day'","'year'","'month'","'%Y'","'UTC'","'$.a'","'[1,2]'","'(a'",
        "DATE '9999-12-31'","DATE '0001-01-01'","DATE '1970-01-01'","TIMESTAMP '9999-12-31 23:59:59'","a","b","c","s","d","e","i","ARRAY[1,2]","ARRAY[]","[1.0,2.0]","[]"];
    let bexprs: &[&str] = &["a + 9223372036854775807","b * 9223372036854775807","- (-9223372036854775807 - 1)","a / 0","a % 0","i / 0","c / 0","c % 0","i * 2147483647","i + 2147483647",
        "CAST(1e30 AS BIGINT)","CAST(c * 1e300 AS BIGINT)","CAST(a + 2147483648 AS INTEGER)","CAST('x' AS DATE)","CAST(s AS BIGINT)","CAST(s AS DOUBLE)","CAST(s AS DATE)","CAST(s AS BOOLEAN)","CAST(d AS BIGINT)","CAST(a AS DATE)","CAST(c AS DATE)","CAST(e AS DOUBLE)",
        "d + 2147483647","d - 2147483647","d + INTERVAL '999999999' DAY","d - INTERVAL '9999999' YEAR","d + a","DATE '9999-12-31' + INTERVAL '1' YEAR","d - DATE '0001-01-01'","a - (-9223372036854775807 - 1)","-9223372036854775808","- a * 9223372036854775807","i - 2147483647 - 2"];
    if r.chance(1, 4) { return format!("SELECT {} FROM t1{}", r.pick(bexprs), if r.chance(1, 2) { " WHERE a < 3" } else { "" }); }
    let f = *r.pick(FUNCS);
    if r.chance(1, 5) {
        // untyped draw
        let n = 1 + r.below(3);
        let args: Vec<String> = (0..n).map(|_| r.pick(pool).to_string()).collect();
        return format!("SELECT {}({}) FROM t1", f, args.join(", "));
    }
    // typed by argument class, so that calls get past the arity/type checks and reach the kernels
    let num: &[&str] = &["k","v","a","b","c","i","-9223372036854775808","9223372036854775807","0","-1","1","2","36","37","63","64","65","100","2147483647","-2147483648","4294967296","0.5","1.5","-0.5","1e308","NULL"];
    let st: &[&str] = &["s","name","'héllo'","'日本語'","'a😀b'","'ß'","'e\u{301}'","'€uro'","'x'","''","'11'","'zz'","'9223372036854775807'","'[1,2]'","'{\"a\":1}'","'$.a'","'(a'","'a%'","'http://h.io/p?q=1#f'","NULL"];
    let dt: &[&str] = &["d","DATE '9999-12-31'","DATE '0001-01-01'","DATE '1970-01-01'","TIMESTAMP '9999-12-31 23:59:59'","CAST(d AS TIMESTAMP)","NULL"];
    let unit: &[&str] = &["'day'","'year'","'month'","'week'","'hour'","'second'","'millisecond'","'quarter'","'nosuch'"];
    let arr: &[&str] = &["ARRAY[1,2]","ARRAY[]","[1.0,2.0]","[]","ARRAY['a','b']","ARRAY[NULL]","ARRAY[9223372036854775807, 1]"];
    let shapes: &[&str] = &["N","NN","NNN","NNNN","S","SN","SS","SNS","SSS","SNN","SSN","D","UD","UND","UDD","DN","DS","SD","NS","A","AA","AN","AS","ANN","NA",""];
    let shape = *r.pick(shapes);
    let mut args: Vec<String> = vec![];
    for ch in shape.chars() {
        args.push(match ch { 'N' => r.pick(num), 'S' => r.pick(st), 'D' => r.pick(dt), 'U' => r.pick(unit), _ => r.pick(arr) }.to_string());
    }
    let uses = |cols: &[&str]| args.iter().any(|a| cols.contains(&a.as_str()) || a.contains("(d ")) ;
    let (u1, u2) = (uses(&["a","b","c","i","s","d","e"]), uses(&["k","v","name"]));
    let from = match (u1, u2) { (true, true) => " FROM t1, t2", (true, false) => " FROM t1", (false, true) => " FROM t2", _ => if r.chance(1, 2) { " FROM t2" } else { "" } };
    format!("SELECT {}({}){}", f, args.join(", "), from)
}

fn mutate(r: &mut Rng, s: &str) -> String {
    let mut b: Vec<u8> = s.as_bytes().to_vec();
    let toks: &[&str] = &["SELECT","FROM","WHERE","(",")",")","(",",","'","\"","--","/*","*/",";","NULL","AND","OR","NOT","*","=","<","1","0",".","e","-","+","JOIN","ON","AS","BY","GROUP","ORDER","LIMIT","OVER","CASE","END","\0","\n","\t","\u{a0}","\u{feff}","\u{202e}","ﬁ","\\","%","::","[","]","{","}","$$","@","#","`"];
    for _ in 0..1 + r.below(4) {
        if b.is_empty() { b.extend_from_slice(r.pick(toks).as_bytes()); continue; }
        let p = r.below(b.len() as u64) as usize;
        match r.below(9) {
            0 => { b.remove(p); }
            1 => { b[p] = r.below(256) as u8; }
            2 => { let t = r.pick(toks).as_bytes().to_vec(); for (j, x) in t.iter().enumerate() { b.insert(p + j, *x); } }
            3 => { let q = (p + 1 + r.below(12) as usize).min(b.len()); b.drain(p..q); }
            4 => { let q = (p + 1 + r.below(20) as usize).min(b.len()); let seg: Vec<u8> = b[p..q].to_vec(); for _ in 0..1 + r.below(3) { for (j, x) in seg.iter().enumerate() { b.insert(q + j, *x); } } }
            5 => { b.truncate(p); }
            6 => { let q = r.below(b.len() as u64) as usize; b.swap(p, q); }
            7 => { // replace one word by a token
                let mut q = p; while q < b.len() && b[q].is_ascii_alphanumeric() { q += 1; }
                let mut p0 = p; while p0 > 0 && b[p0 - 1].is_ascii_alphanumeric() { p0 -= 1; }
                let t = r.pick(toks).as_bytes().to_vec(); b.splice(p0..q, t);
            }
            _ => { b[p] ^= 1 << r.below(8); }
        }
    }
    String::from_utf8_lossy(&b).to_string()
}

fn gen_bytes(r: &mut Rng) -> String {
    let n = r.below(60) as usize;
    let v: Vec<u8> = (0..n).map(|_| if r.chance(3, 4) { b" ()'\",.*=<>-+/;SELECTFROMtab1_"[r.below(30) as usize] } else { r.below(256) as u8 }).collect();
    String::from_utf8_lossy(&v).to_string()
}

fn gen_opt(r: &mut Rng) -> Value {
    let k = r.below(6);
    let rules: Vec<Value> = (0..k).map(|j| {
        let kind = *r.pick(&["inc","inc","id","bump","failAt","halve"]);
        let name = if r.chance(1, 5) { "PackedJoinKeys".to_string() } else if r.chance(1, 6) { "JoinReorder".to_string() } else { format!("R{}", j) };
        json!({"name": name, "kind": kind, "m": r.below(40)})
    }).collect();
    json!({"kind":"opt","stream":"opt","start": r.below(30), "rules": rules})
}

struct TestRule { name: String, kind: String, m: usize, apps: Arc<AtomicUsize> }
fn fetch_of(p: &query_engine::planner::LogicalPlan) -> usize { match p { query_engine::planner::LogicalPlan::Limit(l) => l.fetch.unwrap_or(0), _ => 0 } }
impl query_engine::optimizer::OptimizerRule for TestRule {
    fn name(&self) -> &str { &self.name }
    fn optimize(&self, plan: &query_engine::planner::LogicalPlan) -> query_engine::Result<query_engine::planner::LogicalPlan> {
        self.apps.fetch_add(1, Ordering::SeqCst);
        let n = fetch_of(plan);
        let n2 = match self.kind.as_str() {
            "inc" => if n < self.m { n + 1 } else { n },
            "failAt" => if n == self.m { return Err(query_engine::QueryError::Plan(format!("rule {} failed at {}", self.name, n))); } else { n },
            "bump" => n + 1,
            "halve" => if n > self.m { n / 2 } else { n },
            _ => n,
        };
        match plan {
            query_engine::planner::LogicalPlan::Limit(l) => Ok(query_engine::planner::LogicalPlan::Limit(query_engine::planner::LimitNode { input: l.input.clone(), skip: l.skip, fetch: Some(n2) })),
            other => Ok(other.clone()),
        }
    }
}

/// `Optimizer::with_rules(rules).optimize(Limit(fetch = start) over a scan)`: final fetch or failing rule's name, and the number of rule applications
fn run_opt(c: &Value) -> Value {
    let c = c.clone();
    guarded(move || {
        use query_engine::planner::{LogicalPlanBuilder, PlanSchema, SchemaField};
        let apps = Arc::new(AtomicUsize::new(0));
        let rules: Vec<Arc<dyn query_engine::optimizer::OptimizerRule>> = c["rules"].as_array().cloned().unwrap_or_default().iter().map(|j| {
            Arc::new(TestRule { name: j["name"].as_str().unwrap_or("").to_string(), kind: j["kind"].as_str().unwrap_or("id").to_string(), m: j["m"].as_u64().unwrap_or(0) as usize, apps: apps.clone() }) as Arc<dyn query_engine::optimizer::OptimizerRule>
        }).collect();
        let schema = PlanSchema::new(vec![SchemaField::new("a", DataType::Int64)]);
        let plan = LogicalPlanBuilder::scan("t", schema).limit(0, Some(c["start"].as_u64().unwrap_or(0) as usize)).build();
        let out = match query_engine::optimizer::Optimizer::with_rules(rules).optimize(plan) {
            Ok(p) => json!({"ok": fetch_of(&p)}),
            Err(e) => { let m = e.to_string(); json!({"err": m.split('`').nth(1).unwrap_or(&m)}) }
        };
        json!({"out": out, "apps": apps.load(Ordering::SeqCst)})
    })
}

fn gen_case(r: &mut Rng, n: usize, funcs: &[String]) -> Value {
    if n % 20 == 19 && n % 40 == 39 { return gen_opt(r); }
    if n % 20 == 1 || n % 20 == 5 || n % 20 == 8 { return json!({"kind":"sql","setup":"std","stream":"utf8","sql":gen_utf8(r, funcs)}); }
    if n % 20 == 12 { return json!({"kind":"sql","setup":"std","stream":"fnb","sql":gen_fnb(r)}); }
    let (setup, stream, sql) = match n % 20 {
        0..=6 => ("std", "grammar", gen_grammar(r, "std", 4)),
        7 | 8 => ("std", "wild", gen_grammar(r, "std", 30)),
        9 => ("std", "tame", gen_tame(r)),
        10 | 11 => { let base = match r.below(3) { 0 => gen_stmt(r), 1 => gen_tame(r), _ => gen_grammar(r, "std", 4) }; ("std", "mutated", mutate(r, &base)) }
        12 | 13 => ("std", "stmt", gen_stmt(r)),
        14 => ("std", "bytes", gen_bytes(r)),
        15 | 16 => ("std", "deep", gen_deep(r)),
        // the 10 000-row variant covers the spill paths at a fifth of the cost; the 40 000-row one is the A.7 setting
        17 => ("spill10k", "spill-grammar", gen_grammar(r, "spill10k", 4)),
        18 => ("spill10k", "spill", gen_spill(r)),
        _ => ("spill", "spill", gen_spill(r)),
    };
    json!({"kind":"sql","setup":setup,"stream":stream,"sql":sql})
}

pub fn main(o: &Opts) {
    if o.get("child").is_some() { child_main(); return; }
    // the parent runs no engine code: a panic here is a harness bug and must be loud
    std::panic::set_hook(Box::new(|i| { eprintln!("C29 harness bug: {}", i); }));
    let limit_ms = o.get_usize("limit_ms", 10_000) as u64;
    let jobs = o.get_usize("jobs", 4);
    if let Some(p) = &o.replay { run_all(replay_cases(p), limit_ms, jobs); return; }
    let mut r = Rng::new(o.seed ^ 0xC29);
    // `--opt only=<stream>` (development aid): draw every case from one stream
    let only = o.get("only").map(|x| x.to_string());
    let funcs = engine_functions();
    let cases: Vec<Value> = (0..o.cases).map(|n| match only.as_deref() {
        Some("fnb") => json!({"kind":"sql","setup":"std","stream":"fnb","sql":gen_fnb(&mut r)}),
        Some("grammar") => json!({"kind":"sql","setup":"std","stream":"grammar","sql":gen_grammar(&mut r, "std", 4)}),
        Some("deep") => json!({"kind":"sql","setup":"std","stream":"deep","sql":gen_deep(&mut r)}),
        Some("spill") => json!({"kind":"sql","setup":"spill","stream":"spill","sql":gen_spill(&mut r)}),
        Some("utf8") => json!({"kind":"sql","setup":"std","stream":"utf8","sql":gen_utf8(&mut r, &funcs)}),
        _ => gen_case(&mut r, n, &funcs),
    }).collect();
    let mut cases = cases;
    if only.is_none() && o.get("sys") != Some("0") { cases.extend(sys_utf8_cases(&funcs)); }
    run_all(cases, limit_ms, jobs);
}
