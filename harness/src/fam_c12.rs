// FAMILY: C12
//! C12: `assign_lpt` on synthetic `SplitSet`s.
//! Cases: {"kind":"set","nodes":N,"total_bytes":T,"splits":[{"t":[u8],"f":[u8],"rg":n,"off":i,"rows":i,"bytes":u}]}
//!        {"kind":"small","sizes":[..],"nodes":N}   (synthetic set as in the repo's own tests: file t.parquet, row_group = i)
//! Impl:  {"nodes","per_node","node_bytes","node_rows","node_splits","total_bytes","same":bool} | {"panic":msg}
//!        `same` = a second call on a clone whose `path`s differ returns the identical Assignment.
use crate::common::*;
use crate::rng::Rng;
use query_engine::distributed::{assign_lpt};
use query_engine::distributed::splits::{Split, SplitSet, Assignment};
use serde_json::{json, Value};
use std::path::PathBuf;

fn name_pool() -> Vec<&'static str> {
    vec!["a.parquet", "b.parquet", "a", "ab", "a.parquet.1", "part-0.parquet", "part-00.parquet", "é.parquet", "z", "", "Z.parquet", "データ.parquet"]
}

fn gen_size(r: &mut Rng, mode: u64) -> u64 {
    match mode {
        0 => r.below(4),                                   // heavy ties incl. zero
        1 => r.below(8) + 1,
        2 => *r.pick(&[0u64, 1, 1000, 1000, 4 << 20, 4 << 20, (4 << 20) + 1, 64 << 20, 59_000_000, 14_193_988]),
        3 => r.below(1 << 30),
        4 => r.below(1 << 40),
        _ => if r.chance(1, 3) { r.next() >> r.below(6) } else { r.below(100) },   // overflow candidates
    }
}

fn gen_set(r: &mut Rng) -> Value {
    let names = name_pool();
    let n = match r.below(10) { 0 => 0, 1 => 1, 2..=5 => r.below(11), 6..=8 => r.below(60), _ => r.below(400) } as usize;
    let nodes = match r.below(12) { 0 => 0, 1 => 1, 2 => 64, 3..=6 => 1 + r.below(8), _ => 1 + r.below(64) };
    let mode = if r.chance(1, 25) { 5 } else { r.below(5) };
    let ntab = 1 + r.below(2);
    let nfile = 1 + r.below(4);
    let dup_keys = r.chance(1, 6);
    let mut splits = vec![];
    let mut total: u64 = 0;
    for i in 0..n {
        let t = if ntab == 1 { "t" } else { *r.pick(&["t", "u"]) };
        let f = names[r.below(nfile.min(names.len() as u64)) as usize + if r.chance(1, 2) { 0 } else { (names.len() - nfile as usize).min(3) }];
        let rg = if dup_keys { r.below(3) } else { i as u64 };
        let off = if r.chance(1, 3) { r.range(-5, 2000) } else { 0 };
        let rows = match r.below(8) { 0 => 0, 1 => r.range(-10, -1), 2 if mode == 5 => i64::MAX - r.range(0, 3), _ => r.range(1, 100_000) };
        let b = gen_size(r, mode);
        total = total.wrapping_add(b);
        splits.push(json!({"t": bytes_json(t.as_bytes()), "f": bytes_json(f.as_bytes()), "rg": rg, "off": off, "rows": rows, "bytes": b}));
    }
    if r.chance(1, 5) { r.shuffle(&mut splits); }
    let tb = if r.chance(1, 10) { r.below(1000) } else { total };
    json!({"kind": "set", "nodes": nodes, "total_bytes": tb, "splits": splits})
}

fn gen_small(r: &mut Rng) -> Value {
    let n = r.below(11) as usize;
    let nodes = 1 + r.below(5);
    let hi = *r.pick(&[3u64, 6, 10, 50]);
    let sizes: Vec<u64> = (0..n).map(|_| 1 + r.below(hi)).collect();
    json!({"kind": "small", "sizes": sizes, "nodes": nodes})
}

fn s_of(v: &Value) -> String { String::from_utf8_lossy(&json_bytes(v)).into_owned() }

pub fn build_set(c: &Value, dir: &str) -> (SplitSet, usize) {
    let nodes = c["nodes"].as_u64().unwrap_or(1) as usize;
    if c["kind"] == "small" {
        let sizes: Vec<u64> = c["sizes"].as_array().map(|a| a.iter().map(|x| x.as_u64().unwrap_or(0)).collect()).unwrap_or_default();
        let splits: Vec<Split> = sizes.iter().enumerate().map(|(i, &b)| Split {
            table: "t".into(), path: PathBuf::from(format!("{dir}/t.parquet")), file: "t.parquet".into(),
            row_group: i, row_offset: 0, num_rows: 1000, bytes: b }).collect();
        let set = SplitSet { table: "t".into(), total_bytes: sizes.iter().sum(), total_rows: 1000 * sizes.len() as i64,
            target_split_bytes: 64 << 20, splits };
        return (set, nodes);
    }
    let empty = vec![];
    let arr = c["splits"].as_array().unwrap_or(&empty);
    let splits: Vec<Split> = arr.iter().map(|s| {
        let f = s_of(&s["f"]);
        Split { table: s_of(&s["t"]), path: PathBuf::from(format!("{dir}/{f}")), file: f,
            row_group: s["rg"].as_u64().unwrap_or(0) as usize, row_offset: s["off"].as_i64().unwrap_or(0),
            num_rows: s["rows"].as_i64().unwrap_or(0), bytes: s["bytes"].as_u64().unwrap_or(0) }
    }).collect();
    let table = splits.first().map(|s| s.table.clone()).unwrap_or_else(|| "t".into());
    let set = SplitSet { table, total_bytes: c["total_bytes"].as_u64().unwrap_or(0), total_rows: 0, target_split_bytes: 64 << 20, splits };
    (set, nodes)
}

pub fn assignment_json(a: &Assignment) -> Value {
    json!({"nodes": a.nodes, "per_node": a.per_node, "node_bytes": a.node_bytes, "node_rows": a.node_rows,
           "node_splits": a.node_splits, "total_bytes": a.total_bytes})
}

pub fn run_case(c: &Value) -> Value {
    let c2 = c.clone();
    guarded(move || {
        let (set, nodes) = build_set(&c2, "/mnt/a");
        let a = assign_lpt(&set, nodes);
        let (set2, _) = build_set(&c2, "/data/elsewhere/b");
        let b = assign_lpt(&set2, nodes);
        let mut j = assignment_json(&a);
        j["same"] = json!(j.clone() == assignment_json(&b));
        j
    })
}

/// all multisets (non-increasing sequences) of `len` sizes from hi..=1
fn multisets(len: usize, hi: u64, cur: &mut Vec<u64>, out: &mut Vec<Vec<u64>>) {
    if cur.len() == len { out.push(cur.clone()); return; }
    for s in (1..=hi).rev() { cur.push(s); multisets(len, s, cur, out); cur.pop(); }
}

pub fn main(o: &Opts) {
    if let Some(p) = &o.replay { for c in replay_cases(p) { let i = run_case(&c); emit(c, i); } return; }
    // exhaustive stream: every multiset of <= max_n sizes in 1..=max_size on 2..=max_nodes nodes (labelled enumeration)
    let max_n = o.get_usize("exh_n", 0);
    if max_n > 0 {
        let max_size = o.get_usize("exh_size", 6) as u64;
        let max_nodes = o.get_usize("exh_nodes", 4) as u64;
        for len in 0..=max_n {
            let mut out = vec![];
            multisets(len, max_size, &mut vec![], &mut out);
            for sizes in out {
                for nodes in 2..=max_nodes {
                    let c = json!({"kind": "small", "sizes": sizes, "nodes": nodes});
                    let i = run_case(&c);
                    emit(c, i);
                }
            }
        }
    }
    let mut r = Rng::new(o.seed ^ 0xC12);
    for n in 0..o.cases {
        let c = if n % 4 == 3 { gen_small(&mut r) } else { gen_set(&mut r) };
        let i = run_case(&c);
        emit(c, i);
    }
}
