// FAMILY: C20
//! C20: the IPC sidecar is invisible (same answers with QE_IPC_CACHE=0 / auto / 1, cold and warm), its content round-trips
//! the decoded row groups, and concurrent in-process builders (threads) are safe — on REAL files.
//! `QE_IPC_CACHE` is read once per process: the parent writes the files of all cases, then runs one child per mode
//! (`--opt child=<mode>`), and merges the children's lines by case index.
//! Case: {"rgs":[{"n":rows,"seed":x}], "card": distinct values of s, "nulld": every nulld-th k and w is NULL (0 = none),
//!        "dict_s": bool (dictionary pages for s), "c": constant of the `k > c` filter, "threads": T}
//!   row i of a row group: k = (seed*31 + i*7) % 1000 - 100, s = "v{(i*13+seed) % card}", w = "w{i}" (k, w NULL when (i+seed) % nulld == 0)
//! Impl: {"m0": A, "auto_nosidecar": A, "m1cold": A, "m1warm": A, "auto_sidecar": A,      A = [[row strings..] per query]
//!        "sidecar": [{"lens":[batch rows..], "sum":[n, Σk, Σs#, Σw#, nulls_k, nulls_w]} per rg] | {"err":..},
//!        "threads": [A_scan per thread]}
//! Scheduled cases ({"sched": "xproc-race" | "xproc-safe" | "inproc", table spec…}) use the yield points 40-46 of ipc_cache.rs
//! (/repo 325dad0): every participant is a child process (or a thread of one child) whose controller parks at a yield point
//! while `<ctl>/<role>.hold<id>` exists and `<ctl>/<role>.go<id>` does not; the parent creates the go files in the order
//! of the schedule. Impl: {"sched_ok": bool, "A": r, "B": r, "R": r, "R2": r | "C": r}, r = scan summary | {"err":..}.
use crate::common::*;
use crate::rng::Rng;
use arrow::array::{Array, ArrayRef, Int64Array, StringArray};
use arrow::datatypes::{DataType, Field, Schema};
use arrow::record_batch::RecordBatch;
use parquet::arrow::ArrowWriter;
use parquet::file::properties::WriterProperties;
use parquet::schema::types::ColumnPath;
use query_engine::physical::operators::TableProvider;
use query_engine::storage::ParquetTable;
use query_engine::ExecutionContext;
use serde_json::{json, Value};
use std::path::{Path, PathBuf};
use std::sync::Arc;

fn scratch() -> PathBuf {
    let p = PathBuf::from(std::env::var("IQE_SCRATCH").unwrap_or_else(|_| "/verif/harness/scratch/manual".into()));
    let _ = std::fs::create_dir_all(&p);
    p
}

fn write_table(path: &Path, c: &Value) -> Result<(), String> {
    let schema = Arc::new(Schema::new(vec![Field::new("k", DataType::Int64, true), Field::new("s", DataType::Utf8, true), Field::new("w", DataType::Utf8, true)]));
    let card = c["card"].as_u64().unwrap_or(3).max(1);
    let nulld = c["nulld"].as_u64().unwrap_or(0);
    let mut pb = WriterProperties::builder().set_max_row_group_row_count(Some(1 << 22));
    if !c["dict_s"].as_bool().unwrap_or(true) { pb = pb.set_column_dictionary_enabled(ColumnPath::from("s".to_string()), false); }
    pb = pb.set_column_dictionary_enabled(ColumnPath::from("w".to_string()), false);
    let f = std::fs::File::create(path).map_err(|e| e.to_string())?;
    let mut wr = ArrowWriter::try_new(f, schema.clone(), Some(pb.build())).map_err(|e| e.to_string())?;
    for rg in c["rgs"].as_array().cloned().unwrap_or_default() {
        let n = rg["n"].as_u64().unwrap_or(0); let seed = rg["seed"].as_u64().unwrap_or(0);
        let isnull = |i: u64| nulld > 0 && (i + seed) % nulld == 0;
        let k: Int64Array = (0..n).map(|i| if isnull(i) { None } else { Some(((seed * 31 + i * 7) % 1000) as i64 - 100) }).collect();
        let s: StringArray = (0..n).map(|i| Some(format!("v{}", (i * 13 + seed) % card))).collect();
        let w: StringArray = (0..n).map(|i| if isnull(i) { None } else { Some(format!("w{}", i)) }).collect();
        let b = RecordBatch::try_new(schema.clone(), vec![Arc::new(k) as ArrayRef, Arc::new(s), Arc::new(w)]).map_err(|e| e.to_string())?;
        wr.write(&b).map_err(|e| e.to_string())?;
        wr.flush().map_err(|e| e.to_string())?;
    }
    wr.close().map_err(|e| e.to_string())?;
    Ok(())
}

fn cell(a: &ArrayRef, i: usize) -> String {
    if a.is_null(i) { return "NULL".into(); }
    arrow::util::display::array_value_to_string(a, i).unwrap_or_else(|_| "?".into())
}

fn rows_of(batches: &[RecordBatch]) -> Vec<Vec<String>> {
    let mut out = vec![];
    for b in batches { for i in 0..b.num_rows() { out.push(b.columns().iter().map(|a| cell(a, i)).collect()); } }
    out.sort();
    out
}

/// [n, Σk, Σ(number in s), Σ(number in w), nulls_k, nulls_w] of batches with columns (k, s, w)
fn summary(batches: &[RecordBatch]) -> Value {
    let (mut n, mut sk, mut ss, mut sw, mut nk, mut nw) = (0i64, 0i64, 0i64, 0i64, 0i64, 0i64);
    for b in batches {
        n += b.num_rows() as i64;
        if b.num_columns() < 3 { continue; }
        let k = arrow::compute::cast(b.column(0), &DataType::Int64).unwrap();
        let k = k.as_any().downcast_ref::<Int64Array>().unwrap();
        let s = arrow::compute::cast(b.column(1), &DataType::Utf8).unwrap();
        let s = s.as_any().downcast_ref::<StringArray>().unwrap();
        let w = arrow::compute::cast(b.column(2), &DataType::Utf8).unwrap();
        let w = w.as_any().downcast_ref::<StringArray>().unwrap();
        for i in 0..b.num_rows() {
            if k.is_null(i) { nk += 1; } else { sk += k.value(i); }
            if !s.is_null(i) { ss += s.value(i)[1..].parse::<i64>().unwrap_or(0); }
            if w.is_null(i) { nw += 1; } else { sw += w.value(i)[1..].parse::<i64>().unwrap_or(0); }
        }
    }
    json!([n, sk, ss, sw, nk, nw])
}

fn answers(rt: &tokio::runtime::Runtime, path: &Path, cst: i64) -> Value {
    let p = path.to_path_buf();
    let rt = std::panic::AssertUnwindSafe(rt);
    guarded(move || {
        let mut ctx = ExecutionContext::new();
        if let Err(e) = ctx.register_parquet("t", &p) { return json!({"err": format!("register: {e}")}); }
        let qs = [
            "SELECT COUNT(*) AS n, SUM(k) AS x FROM t".to_string(),
            format!("SELECT COUNT(*) AS n, SUM(k) AS x FROM t WHERE k > {}", cst),
            "SELECT s, COUNT(*) AS n, SUM(k) AS x FROM t GROUP BY s".to_string(),
            "SELECT COUNT(*) AS n FROM t WHERE s = 'v1'".to_string(),
            "SELECT COUNT(w) AS n FROM t".to_string(),
        ];
        let mut out = vec![];
        for q in qs.iter() {
            match rt.block_on(ctx.sql(q)) {
                Ok(r) => out.push(json!(rows_of(&r.batches))),
                Err(e) => out.push(json!({"err": format!("{e}").chars().take(100).collect::<String>()})),
            }
        }
        // the provider-level scan
        match ParquetTable::try_new(&p).and_then(|t| t.scan(None)) {
            Ok(bs) => out.push(json!([summary(&bs)])),
            Err(e) => out.push(json!({"err": format!("{e}").chars().take(100).collect::<String>()})),
        }
        json!(out)
    })
}

fn case_dir(root: &Path, idx: usize) -> PathBuf { root.join(format!("case{}", idx)) }

fn child(o: &Opts, mode: &str) {
    let rt = tokio::runtime::Builder::new_multi_thread().worker_threads(2).enable_all().build().unwrap();
    let root = PathBuf::from(o.get("root").expect("root"));
    let cases = replay_cases(o.replay.as_ref().expect("child needs --replay"));
    for (i, c) in cases.iter().enumerate() {
        if c["sched"].is_string() { continue; }
        let d = case_dir(&root, i);
        let cst = c["c"].as_i64().unwrap_or(0);
        let mut out = serde_json::Map::new();
        match mode {
            "0" => { out.insert("m0".into(), answers(&rt, &d.join("a.parquet"), cst)); }
            "1" => {
                // (1) cold: T threads race to build the sidecar of b.parquet (BUILD_LOCK) while reading through it
                let t = c["threads"].as_u64().unwrap_or(2) as usize;
                let pb = d.join("b.parquet");
                let hs: Vec<_> = (0..t).map(|_| { let pb = pb.clone(); std::thread::spawn(move || {
                    guarded(move || match ParquetTable::try_new(&pb).and_then(|t| t.scan(None)) { Ok(bs) => summary(&bs), Err(e) => json!({"err": format!("{e}").chars().take(100).collect::<String>()}) })
                }) }).collect();
                let th: Vec<Value> = hs.into_iter().map(|h| h.join().unwrap_or(json!({"panic": "thread"}))).collect();
                out.insert("threads".into(), json!(th));
                // (2) single-threaded cold then warm on a.parquet
                out.insert("m1cold".into(), answers(&rt, &d.join("a.parquet"), cst));
                out.insert("m1warm".into(), answers(&rt, &d.join("a.parquet"), cst));
                // (3) round trip: what the sidecar of a.parquet holds, row group by row group
                let pa = d.join("a.parquet");
                let n_rg = c["rgs"].as_array().map(|a| a.len()).unwrap_or(0);
                let sc = guarded(move || match query_engine::storage::ipc_cache::ensure_sidecar(&pa) {
                    None => json!({"err": "no sidecar"}),
                    Some(dir) => {
                        let mut v = vec![];
                        for rg in 0..n_rg {
                            match query_engine::storage::ipc_cache::read_row_group(&dir, rg, None, None) {
                                Ok(bs) => v.push(json!({"lens": bs.iter().map(|b| b.num_rows()).collect::<Vec<_>>(), "sum": summary(&bs),
                                    "dict_s": bs.first().map(|b| matches!(b.column(1).data_type(), DataType::Dictionary(_, _))).unwrap_or(false)})),
                                Err(e) => v.push(json!({"err": format!("{e}").chars().take(100).collect::<String>()})),
                            }
                        }
                        json!(v)
                    }
                });
                out.insert("sidecar".into(), sc);
            }
            _ => {
                out.insert("auto_sidecar".into(), answers(&rt, &d.join("a.parquet"), cst));     // sidecar built by the mode-1 child
                out.insert("auto_nosidecar".into(), answers(&rt, &d.join("c.parquet"), cst));  // never built
            }
        }
        println!("{}", json!({"idx": i, "out": out}));
    }
}

fn run_all(cases: Vec<Value>) {
    let root = scratch().join(format!("c20-{}", std::process::id()));
    let _ = std::fs::remove_dir_all(&root);
    let mut ok = vec![true; cases.len()];
    let mut sched_out: Vec<Option<Value>> = vec![None; cases.len()];
    for (i, c) in cases.iter().enumerate() {
        let d = case_dir(&root, i);
        let _ = std::fs::create_dir_all(&d);
        if c["sched"].is_string() {
            if write_table(&d.join("a.parquet"), c).is_err() { ok[i] = false; } else { sched_out[i] = Some(run_sched(c, &d)); }
            continue;
        }
        for f in ["a.parquet", "b.parquet", "c.parquet"] { if write_table(&d.join(f), c).is_err() { ok[i] = false; } }
    }
    let file = root.join("cases.jsonl");
    let text: String = cases.iter().map(|c| format!("{}\n", json!({"case": c}))).collect();
    let _ = std::fs::write(&file, text);
    let mut merged: Vec<serde_json::Map<String, Value>> = vec![serde_json::Map::new(); cases.len()];
    for mode in ["0", "1", "auto"] {
        let exe = std::env::current_exe().unwrap();
        let mut cmd = std::process::Command::new(exe);
        cmd.args(["C20", "--replay", file.to_str().unwrap(), "--opt", &format!("child={}", mode), "--opt", &format!("root={}", root.display())]);
        if mode == "auto" { cmd.env_remove("QE_IPC_CACHE"); } else { cmd.env("QE_IPC_CACHE", mode); }
        cmd.stderr(std::process::Stdio::null());
        if let Ok(o) = cmd.output() {
            for l in String::from_utf8_lossy(&o.stdout).lines() {
                if let Ok(v) = serde_json::from_str::<Value>(l) {
                    if let (Some(i), Some(m)) = (v["idx"].as_u64(), v["out"].as_object()) { if (i as usize) < merged.len() { for (k, x) in m { merged[i as usize].insert(k.clone(), x.clone()); } } }
                }
            }
        }
    }
    for (i, c) in cases.into_iter().enumerate() {
        if !ok[i] { emit(c, json!({"harness_error": "write"})); continue; }
        if let Some(v) = sched_out[i].take() { emit(c, v); continue; }
        // the scratch directory is shared with other runs' clean-ups: files that vanished under us are not an observation
        if !case_dir(&root, i).join("a.parquet").exists() || !case_dir(&root, i).join("c.parquet").exists() { emit(c, json!({"harness_error": "scratch files vanished"})); continue; }
        emit(c, Value::Object(merged[i].clone()));
    }
    let _ = std::fs::remove_dir_all(&root);
}


// ---------------------------------------------------------------- scheduled interleavings (yield points 40..46)
thread_local! { static ROLE: std::cell::RefCell<Option<String>> = const { std::cell::RefCell::new(None) }; }

fn install_controller(ctl: PathBuf, role: String) {
    query_engine::verif::set_controller(Some(Arc::new(move |id: u32| {
        if !(40..=46).contains(&id) { return; }
        let r = ROLE.with(|r| r.borrow().clone()).unwrap_or_else(|| role.clone());
        let _ = std::fs::write(ctl.join(format!("{}.at{}", r, id)), b"");
        if ctl.join(format!("{}.hold{}", r, id)).exists() {
            let go = ctl.join(format!("{}.go{}", r, id));
            let t0 = std::time::Instant::now();
            while !go.exists() && t0.elapsed() < std::time::Duration::from_secs(30) { std::thread::sleep(std::time::Duration::from_millis(2)); }
        }
    })));
}

fn scan_summary(p: &Path) -> Value {
    let p = p.to_path_buf();
    guarded(move || match ParquetTable::try_new(&p).and_then(|t| t.scan(None)) {
        Ok(bs) => summary(&bs),
        Err(e) => json!({"err": format!("{e}").chars().take(120).collect::<String>()}),
    })
}

fn wait_file(p: &Path, secs: u64) -> bool {
    let t0 = std::time::Instant::now();
    while !p.exists() { if t0.elapsed() > std::time::Duration::from_secs(secs) { return false; } std::thread::sleep(std::time::Duration::from_millis(2)); }
    true
}

fn sched_child(o: &Opts, role: &str) {
    let ctl = PathBuf::from(o.get("ctl").expect("ctl"));
    let path = PathBuf::from(o.get("path").expect("path"));
    install_controller(ctl.clone(), role.to_string());
    if role == "inproc" {
        // thread A takes BUILD_LOCK and is parked with its staging directory complete; B and C arrive meanwhile
        let _ = std::fs::write(ctl.join("A.hold44"), b"");
        let spawn = |name: &'static str, p: PathBuf| std::thread::spawn(move || { ROLE.with(|r| *r.borrow_mut() = Some(name.to_string())); scan_summary(&p) });
        let a = spawn("A", path.clone());
        let ok1 = wait_file(&ctl.join("A.at44"), 30);
        let b = spawn("B", path.clone());
        let c = spawn("C", path.clone());
        let ok2 = wait_file(&ctl.join("B.at42"), 30) && wait_file(&ctl.join("C.at42"), 30);
        std::thread::sleep(std::time::Duration::from_millis(20));
        let _ = std::fs::write(ctl.join("A.go44"), b"");
        let ra = a.join().unwrap_or(json!({"panic": "thread"}));
        let rb = b.join().unwrap_or(json!({"panic": "thread"}));
        let rc = c.join().unwrap_or(json!({"panic": "thread"}));
        println!("{}", json!({"sched_ok": ok1 && ok2, "A": ra, "B": rb, "C": rc}));
    } else {
        println!("{}", scan_summary(&path));
    }
}

fn spawn_role(role: &str, ipc: Option<&str>, ctl: &Path, path: &Path) -> Option<std::process::Child> {
    let exe = std::env::current_exe().ok()?;
    let mut cmd = std::process::Command::new(exe);
    cmd.args(["C20", "--opt", &format!("sched_role={}", role), "--opt", &format!("ctl={}", ctl.display()), "--opt", &format!("path={}", path.display())]);
    match ipc { Some(m) => { cmd.env("QE_IPC_CACHE", m); } None => { cmd.env_remove("QE_IPC_CACHE"); } }
    cmd.stdout(std::process::Stdio::piped()).stderr(std::process::Stdio::null());
    cmd.spawn().ok()
}

fn finish(ch: Option<std::process::Child>) -> Value {
    match ch.and_then(|c| c.wait_with_output().ok()) {
        Some(o) => String::from_utf8_lossy(&o.stdout).lines().last().and_then(|l| serde_json::from_str::<Value>(l).ok()).unwrap_or(json!({"harness": "no output"})),
        None => json!({"harness": "spawn"}),
    }
}

/// Runs one scheduled case: the table is written to `dir/a.parquet`, control files live in `dir/ctl`.
fn run_sched(c: &Value, dir: &Path) -> Value {
    let ctl = dir.join("ctl");
    let _ = std::fs::create_dir_all(&ctl);
    let path = dir.join("a.parquet");
    let touch = |n: &str| { let _ = std::fs::write(ctl.join(n), b""); };
    match c["sched"].as_str().unwrap_or("") {
        "inproc" => finish(spawn_role("inproc", Some("1"), &ctl, &path)),
        kind => {
            // Since /repo 87eecb0 the builders of all processes serialise on `<sidecar>.lock`. The schedule still tries to
            // drive the old race: A is parked holding the locks with its staging directory complete (44); B, which also
            // found the sidecar missing (42), is released towards the lock. Only if the cross-process lock is broken can B
            // reach 44 while A is parked; it is then steered through remove_dir_all under the parked reader as before.
            let race = kind == "xproc-race";
            for h in ["A.hold44", "B.hold42", "B.hold44", "B.hold45"] { touch(h); }
            if race { touch("R.hold46"); }
            let a = spawn_role("A", Some("1"), &ctl, &path);
            let b = spawn_role("B", Some("1"), &ctl, &path);
            let mut ok = wait_file(&ctl.join("A.at44"), 40) && wait_file(&ctl.join("B.at42"), 40);
            touch("B.go42");
            let b_built = wait_file(&ctl.join("B.at44"), 1);      // false when B is blocked on the cross-process lock
            touch("A.go44");
            let ra = finish(a);                                   // A publishes: the final directory is fresh
            let (rr, rb);
            if race {
                let r = spawn_role("R", None, &ctl, &path);        // the reader sees A's fresh `.complete` …
                ok = wait_file(&ctl.join("R.at46"), 40) && ok;     // … and is parked before open(rg_0)
                touch("B.go44");
                if b_built { let _ = wait_file(&ctl.join("B.at45"), 20); }   // B ran remove_dir_all(final) on A's directory
                touch("R.go46");
                rr = finish(r);
                touch("B.go45");
                rb = finish(b);
            } else {
                touch("B.go44"); touch("B.go45");
                rb = finish(b);
                rr = finish(spawn_role("R", None, &ctl, &path));
            }
            let r2 = finish(spawn_role("R2", None, &ctl, &path));
            // a participant that could not be spawned / printed nothing is a harness artefact, not an observation
            let harness_ok = ![&ra, &rb, &rr, &r2].iter().any(|v| v.get("harness").is_some());
            json!({"sched_ok": ok && harness_ok, "b_built_under_a": b_built, "A": ra, "B": rb, "R": rr, "R2": r2})
        }
    }
}

pub fn gen_case(r: &mut Rng, big: bool) -> Value {
    let many = r.chance(1, 5);
    let nrg = 1 + r.below(if many { 6 } else { 3 }) as usize;
    let rgs: Vec<Value> = (0..nrg).map(|j| {
        let n = if big && j == 0 { 66_000 + r.below(3000) } else if r.chance(1, 10) { 4200 + r.below(800) } else { 1 + r.below(60) };
        json!({"n": n, "seed": r.below(1000)})
    }).collect();
    // card > 4096 with a row group of > 4096 rows: the wide-dictionary demotion path
    let card = *r.pick(&[1u64, 2, 3, 7, 40, 5000]);
    json!({"rgs": rgs, "card": card, "nulld": *r.pick(&[0u64, 0, 2, 5, 11]), "dict_s": r.chance(3, 4), "c": *r.pick(&[-50i64, 100, 400, 850, 2000]), "threads": 2 + r.below(7)})
}

pub fn main(o: &Opts) {
    if let Some(role) = o.get("sched_role") { let role = role.to_string(); sched_child(o, &role); return; }
    if let Some(m) = o.get("child") { let m = m.to_string(); child(o, &m); return; }
    if let Some(p) = &o.replay { run_all(replay_cases(p)); return; }
    let mut r = Rng::new(o.seed ^ 0xC20);
    let cases: Vec<Value> = (0..o.cases).map(|n| {
        let mut c = gen_case(&mut r, n % 16 == 7);
        // every 8th case is a scheduled interleaving on a small table
        if n % 8 == 3 { c = gen_case(&mut r, false); c["sched"] = json!(["xproc-race", "xproc-safe", "inproc"][(n / 8) % 3]); }
        c
    }).collect();
    run_all(cases);
}
