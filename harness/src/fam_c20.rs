// FAMILY: C20
//! C20: the IPC sidecar is invisible (same answers with QE_IPC_CACHE=0 / auto / 1, cold and warm), its content round-trips
//! the decoded row groups, and concurrent in-process builders (threads) are safe — on REAL files.
//! `QE_IPC_CACHE` is read once per process: the parent writes the files of all cases, then runs one child per mode
//! (`--opt child=<mode>`), and merges the children's lines by case index.
//! Case: {"rgs":[{"n":rows,"seed":x}], "card": distinct values of s, "nulld": every nulld-th k and w is NULL (0 = none),
//!        "dict_s": bool (dictionary pages for s), "c": constant of the `k > c` filter, "threads": T}
//!   row i of a row group: k = (seed*31 + i*7) % 1000 - 100, s = "v{(i*13+seed) % card}", w = "w{i}" (k, w NULL when (i+seed) % nulld == 0)
//! Impl: {"m0": A, "auto_nosidecar": A, "m1cold": A, "m1warm": A, "auto_sidecar": A,      A = [[row strings..] per query]
//!        "sidecar": [{"lens":[batch rows..], "sum":[n, Σk, Σs#, Σw#, nulls_k, nulls_w]} per rg] | {"err":..},
//!        "threads": [A_scan per thread]}
use crate::common::*;
use crate::rng::Rng;
use arrow::array::{Array, ArrayRef, Int64Array, StringArray};
use arrow::datatypes::{DataType, Field, Schema};
use arrow::record_batch::RecordBatch;
use parquet::arrow::ArrowWriter;
use parquet::file::properties::WriterProperties;
use parquet::schema::types::ColumnPath;
use query_engine::physical::operators::TableProvider;
use query_engine::storage::ParquetTable;
use query_engine::ExecutionContext;
use serde_json::{json, Value};
use std::path::{Path, PathBuf};
use std::sync::Arc;

fn scratch() -> PathBuf {
    let p = PathBuf::from(std::env::var("IQE_SCRATCH").unwrap_or_else(|_| "/verif/harness/scratch/manual".into()));
    let _ = std::fs::create_dir_all(&p);
    p
}

fn write_table(path: &Path, c: &Value) -> Result<(), String> {
    let schema = Arc::new(Schema::new(vec![Field::new("k", DataType::Int64, true), Field::new("s", DataType::Utf8, true), Field::new("w", DataType::Utf8, true)]));
    let card = c["card"].as_u64().unwrap_or(3).max(1);
    let nulld = c["nulld"].as_u64().unwrap_or(0);
    let mut pb = WriterProperties::builder().set_max_row_group_row_count(Some(1 << 22));
    if !c["dict_s"].as_bool().unwrap_or(true) { pb = pb.set_column_dictionary_enabled(ColumnPath::from("s".to_string()), false); }
    pb = pb.set_column_dictionary_enabled(ColumnPath::from("w".to_string()), false);
    let f = std::fs::File::create(path).map_err(|e| e.to_string())?;
    let mut wr = ArrowWriter::try_new(f, schema.clone(), Some(pb.build())).map_err(|e| e.to_string())?;
    for rg in c["rgs"].as_array().cloned().unwrap_or_default() {
        let n = rg["n"].as_u64().unwrap_or(0); let seed = rg["seed"].as_u64().unwrap_or(0);
        let isnull = |i: u64| nulld > 0 && (i + seed) % nulld == 0;
        let k: Int64Array = (0..n).map(|i| if isnull(i) { None } else { Some(((seed * 31 + i * 7) % 1000) as i64 - 100) }).collect();
        let s: StringArray = (0..n).map(|i| Some(format!("v{}", (i * 13 + seed) % card))).collect();
        let w: StringArray = (0..n).map(|i| if isnull(i) { None } else { Some(format!("w{}", i)) }).collect();
        let b = RecordBatch::try_new(schema.clone(), vec![Arc::new(k) as ArrayRef, Arc::new(s), Arc::new(w)]).map_err(|e| e.to_string())?;
        wr.write(&b).map_err(|e| e.to_string())?;
        wr.flush().map_err(|e| e.to_string())?;
    }
    wr.close().map_err(|e| e.to_string())?;
    Ok(())
}

fn cell(a: &ArrayRef, i: usize) -> String {
    if a.is_null(i) { return "NULL".into(); }
    arrow::util::display::array_value_to_string(a, i).unwrap_or_else(|_| "?".into())
}

fn rows_of(batches: &[RecordBatch]) -> Vec<Vec<String>> {
    let mut out = vec![];
    for b in batches { for i in 0..b.num_rows() { out.push(b.columns().iter().map(|a| cell(a, i)).collect()); } }
    out.sort();
    out
}

/// [n, Σk, Σ(number in s), Σ(number in w), nulls_k, nulls_w] of batches with columns (k, s, w)
fn summary(batches: &[RecordBatch]) -> Value {
    let (mut n, mut sk, mut ss, mut sw, mut nk, mut nw) = (0i64, 0i64, 0i64, 0i64, 0i64, 0i64);
    for b in batches {
        n += b.num_rows() as i64;
        if b.num_columns() < 3 { continue; }
        let k = arrow::compute::cast(b.column(0), &DataType::Int64).unwrap();
        let k = k.as_any().downcast_ref::<Int64Array>().unwrap();
        let s = arrow::compute::cast(b.column(1), &DataType::Utf8).unwrap();
        let s = s.as_any().downcast_ref::<StringArray>().unwrap();
        let w = arrow::compute::cast(b.column(2), &DataType::Utf8).unwrap();
        let w = w.as_any().downcast_ref::<StringArray>().unwrap();
        for i in 0..b.num_rows() {
            if k.is_null(i) { nk += 1; } else { sk += k.value(i); }
            if !s.is_null(i) { ss += s.value(i)[1..].parse::<i64>().unwrap_or(0); }
            if w.is_null(i) { nw += 1; } else { sw += w.value(i)[1..].parse::<i64>().unwrap_or(0); }
        }
    }
    json!([n, sk, ss, sw, nk, nw])
}

fn answers(rt: &tokio::runtime::Runtime, path: &Path, cst: i64) -> Value {
    let p = path.to_path_buf();
    let rt = std::panic::AssertUnwindSafe(rt);
    guarded(move || {
        let mut ctx = ExecutionContext::new();
        if let Err(e) = ctx.register_parquet("t", &p) { return json!({"err": format!("register: {e}")}); }
        let qs = [
            "SELECT COUNT(*) AS n, SUM(k) AS x FROM t".to_string(),
            format!("SELECT COUNT(*) AS n, SUM(k) AS x FROM t WHERE k > {}", cst),
            "SELECT s, COUNT(*) AS n, SUM(k) AS x FROM t GROUP BY s".to_string(),
            "SELECT COUNT(*) AS n FROM t WHERE s = 'v1'".to_string(),
            "SELECT COUNT(w) AS n FROM t".to_string(),
        ];
        let mut out = vec![];
        for q in qs.iter() {
            match rt.block_on(ctx.sql(q)) {
                Ok(r) => out.push(json!(rows_of(&r.batches))),
                Err(e) => out.push(json!({"err": format!("{e}").chars().take(100).collect::<String>()})),
            }
        }
        // the provider-level scan
        match ParquetTable::try_new(&p).and_then(|t| t.scan(None)) {
            Ok(bs) => out.push(json!([summary(&bs)])),
            Err(e) => out.push(json!({"err": format!("{e}").chars().take(100).collect::<String>()})),
        }
        json!(out)
    })
}

fn case_dir(root: &Path, idx: usize) -> PathBuf { root.join(format!("case{}", idx)) }

fn child(o: &Opts, mode: &str) {
    let rt = tokio::runtime::Builder::new_multi_thread().worker_threads(2).enable_all().build().unwrap();
    let root = PathBuf::from(o.get("root").expect("root"));
    let cases = replay_cases(o.replay.as_ref().expect("child needs --replay"));
    for (i, c) in cases.iter().enumerate() {
        let d = case_dir(&root, i);
        let cst = c["c"].as_i64().unwrap_or(0);
        let mut out = serde_json::Map::new();
        match mode {
            "0" => { out.insert("m0".into(), answers(&rt, &d.join("a.parquet"), cst)); }
            "1" => {
                // (1) cold: T threads race to build the sidecar of b.parquet (BUILD_LOCK) while reading through it
                let t = c["threads"].as_u64().unwrap_or(2) as usize;
                let pb = d.join("b.parquet");
                let hs: Vec<_> = (0..t).map(|_| { let pb = pb.clone(); std::thread::spawn(move || {
                    guarded(move || match ParquetTable::try_new(&pb).and_then(|t| t.scan(None)) { Ok(bs) => summary(&bs), Err(e) => json!({"err": format!("{e}").chars().take(100).collect::<String>()}) })
                }) }).collect();
                let th: Vec<Value> = hs.into_iter().map(|h| h.join().unwrap_or(json!({"panic": "thread"}))).collect();
                out.insert("threads".into(), json!(th));
                // (2) single-threaded cold then warm on a.parquet
                out.insert("m1cold".into(), answers(&rt, &d.join("a.parquet"), cst));
                out.insert("m1warm".into(), answers(&rt, &d.join("a.parquet"), cst));
                // (3) round trip: what the sidecar of a.parquet holds, row group by row group
                let pa = d.join("a.parquet");
                let n_rg = c["rgs"].as_array().map(|a| a.len()).unwrap_or(0);
                let sc = guarded(move || match query_engine::storage::ipc_cache::ensure_sidecar(&pa) {
                    None => json!({"err": "no sidecar"}),
                    Some(dir) => {
                        let mut v = vec![];
                        for rg in 0..n_rg {
                            match query_engine::storage::ipc_cache::read_row_group(&dir, rg, None, None) {
                                Ok(bs) => v.push(json!({"lens": bs.iter().map(|b| b.num_rows()).collect::<Vec<_>>(), "sum": summary(&bs),
                                    "dict_s": bs.first().map(|b| matches!(b.column(1).data_type(), DataType::Dictionary(_, _))).unwrap_or(false)})),
                                Err(e) => v.push(json!({"err": format!("{e}").chars().take(100).collect::<String>()})),
                            }
                        }
                        json!(v)
                    }
                });
                out.insert("sidecar".into(), sc);
            }
            _ => {
                out.insert("auto_sidecar".into(), answers(&rt, &d.join("a.parquet"), cst));     // sidecar built by the mode-1 child
                out.insert("auto_nosidecar".into(), answers(&rt, &d.join("c.parquet"), cst));  // never built
            }
        }
        println!("{}", json!({"idx": i, "out": out}));
    }
}

fn run_all(cases: Vec<Value>) {
    let root = scratch().join(format!("c20-{}", std::process::id()));
    let _ = std::fs::remove_dir_all(&root);
    let mut ok = vec![true; cases.len()];
    for (i, c) in cases.iter().enumerate() {
        let d = case_dir(&root, i);
        let _ = std::fs::create_dir_all(&d);
        for f in ["a.parquet", "b.parquet", "c.parquet"] { if write_table(&d.join(f), c).is_err() { ok[i] = false; } }
    }
    let file = root.join("cases.jsonl");
    let text: String = cases.iter().map(|c| format!("{}\n", json!({"case": c}))).collect();
    let _ = std::fs::write(&file, text);
    let mut merged: Vec<serde_json::Map<String, Value>> = vec![serde_json::Map::new(); cases.len()];
    for mode in ["0", "1", "auto"] {
        let exe = std::env::current_exe().unwrap();
        let mut cmd = std::process::Command::new(exe);
        cmd.args(["C20", "--replay", file.to_str().unwrap(), "--opt", &format!("child={}", mode), "--opt", &format!("root={}", root.display())]);
        if mode == "auto" { cmd.env_remove("QE_IPC_CACHE"); } else { cmd.env("QE_IPC_CACHE", mode); }
        cmd.stderr(std::process::Stdio::null());
        if let Ok(o) = cmd.output() {
            for l in String::from_utf8_lossy(&o.stdout).lines() {
                if let Ok(v) = serde_json::from_str::<Value>(l) {
                    if let (Some(i), Some(m)) = (v["idx"].as_u64(), v["out"].as_object()) { if (i as usize) < merged.len() { for (k, x) in m { merged[i as usize].insert(k.clone(), x.clone()); } } }
                }
            }
        }
    }
    for (i, c) in cases.into_iter().enumerate() {
        if !ok[i] { emit(c, json!({"harness_error": "write"})); continue; }
        emit(c, Value::Object(merged[i].clone()));
    }
    let _ = std::fs::remove_dir_all(&root);
}

pub fn gen_case(r: &mut Rng, big: bool) -> Value {
    let many = r.chance(1, 5);
    let nrg = 1 + r.below(if many { 6 } else { 3 }) as usize;
    let rgs: Vec<Value> = (0..nrg).map(|j| {
        let n = if big && j == 0 { 66_000 + r.below(3000) } else if r.chance(1, 10) { 4200 + r.below(800) } else { 1 + r.below(60) };
        json!({"n": n, "seed": r.below(1000)})
    }).collect();
    // card > 4096 with a row group of > 4096 rows: the wide-dictionary demotion path
    let card = *r.pick(&[1u64, 2, 3, 7, 40, 5000]);
    json!({"rgs": rgs, "card": card, "nulld": *r.pick(&[0u64, 0, 2, 5, 11]), "dict_s": r.chance(3, 4), "c": *r.pick(&[-50i64, 100, 400, 850, 2000]), "threads": 2 + r.below(7)})
}

pub fn main(o: &Opts) {
    if let Some(m) = o.get("child") { let m = m.to_string(); child(o, &m); return; }
    if let Some(p) = &o.replay { run_all(replay_cases(p)); return; }
    let mut r = Rng::new(o.seed ^ 0xC20);
    let cases: Vec<Value> = (0..o.cases).map(|n| gen_case(&mut r, n % 16 == 7)).collect();
    run_all(cases);
}
