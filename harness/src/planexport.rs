//! Plan exporter: walks the PUBLIC `LogicalPlan` / `Expr` enums of query_engine and renders them as a JSON tree.
//! The JSON format is documented at the top of lean/Driver/PlanJson.lean (the Lean decoder) — keep the two in step.
//! Nothing here interprets the plan: node kinds, schemas (name, qualifier, type), expressions rendered structurally.
#![allow(dead_code)]
use arrow::datatypes::DataType;
use query_engine::planner::{
    BinaryOp, Expr, FrameBound, FrameUnits, JoinType, LogicalPlan, NullOrdering, PlanSchema, ScalarValue, SchemaField, SortDirection,
    SortExpr, UnaryOp, WindowExpr, WindowFunc,
};
use serde_json::{json, Value};

pub fn ty_name(t: &DataType) -> String {
    match t {
        DataType::Int64 => "i64".into(),
        DataType::Int32 => "i32".into(),
        DataType::Int16 => "i16".into(),
        DataType::Int8 => "i8".into(),
        DataType::UInt64 => "u64".into(),
        DataType::UInt32 => "u32".into(),
        DataType::Float64 => "f64".into(),
        DataType::Float32 => "f32".into(),
        DataType::Utf8 => "str".into(),
        DataType::Date32 => "date".into(),
        DataType::Boolean => "bool".into(),
        DataType::Null => "null".into(),
        DataType::FixedSizeList(f, n) => format!("fsl<{},{}>", ty_name(f.data_type()), n),
        DataType::List(f) => format!("list<{}>", ty_name(f.data_type())),
        other => format!("{:?}", other),
    }
}

pub fn field_json(f: &SchemaField) -> Value {
    json!({"n": f.name, "r": f.relation, "t": ty_name(&f.data_type), "nullable": f.nullable})
}
pub fn schema_json(s: &PlanSchema) -> Value { Value::Array(s.fields().iter().map(field_json).collect()) }

fn jt_name(j: JoinType) -> &'static str {
    match j {
        JoinType::Inner => "inner", JoinType::Left => "left", JoinType::Right => "right", JoinType::Full => "full",
        JoinType::Semi => "semi", JoinType::Anti => "anti", JoinType::Cross => "cross", JoinType::Single => "single", JoinType::Mark => "mark",
    }
}
fn bin_name(o: BinaryOp) -> &'static str {
    match o {
        BinaryOp::Add => "add", BinaryOp::Subtract => "sub", BinaryOp::Multiply => "mul", BinaryOp::Divide => "div", BinaryOp::Modulo => "mod",
        BinaryOp::Eq => "eq", BinaryOp::NotEq => "ne", BinaryOp::Lt => "lt", BinaryOp::LtEq => "le", BinaryOp::Gt => "gt", BinaryOp::GtEq => "ge",
        BinaryOp::And => "and", BinaryOp::Or => "or", BinaryOp::Like => "like", BinaryOp::NotLike => "notlike", BinaryOp::StringConcat => "concat",
    }
}
fn un_name(o: UnaryOp) -> &'static str {
    match o { UnaryOp::Not => "not", UnaryOp::Negate => "neg", UnaryOp::IsNull => "isnull", UnaryOp::IsNotNull => "isnotnull" }
}

pub fn lit_json(v: &ScalarValue) -> Value {
    let t = ty_name(&v.data_type());
    match v {
        ScalarValue::Null => json!({"t": "null", "v": null}),
        ScalarValue::Boolean(b) => json!({"t": t, "v": {"b": b}}),
        ScalarValue::Int8(i) => json!({"t": t, "v": {"i": *i as i64}}),
        ScalarValue::Int16(i) => json!({"t": t, "v": {"i": *i as i64}}),
        ScalarValue::Int32(i) => json!({"t": t, "v": {"i": *i as i64}}),
        ScalarValue::Int64(i) => json!({"t": t, "v": {"i": *i}}),
        ScalarValue::UInt8(i) => json!({"t": t, "v": {"i": *i as u64}}),
        ScalarValue::UInt16(i) => json!({"t": t, "v": {"i": *i as u64}}),
        ScalarValue::UInt32(i) => json!({"t": t, "v": {"i": *i as u64}}),
        ScalarValue::UInt64(i) => json!({"t": t, "v": {"i": *i}}),
        ScalarValue::Float32(x) => json!({"t": t, "v": {"f": (x.0 as f64).to_bits()}}),
        ScalarValue::Float64(x) => json!({"t": t, "v": {"f": x.0.to_bits()}}),
        ScalarValue::Utf8(s) => json!({"t": t, "v": {"s": s}}),
        ScalarValue::Date32(d) => json!({"t": t, "v": {"d": *d as i64}}),
        ScalarValue::List(items, _) => json!({"t": t, "v": {"list": items.iter().map(lit_json).collect::<Vec<_>>()}}),
        other => json!({"t": t, "v": {"other": other.to_string()}}),
    }
}

fn opt_expr(e: &Option<Expr>) -> Value { match e { Some(x) => expr_json(x), None => Value::Null } }
fn opt_box(e: &Option<Box<Expr>>) -> Value { match e { Some(x) => expr_json(x), None => Value::Null } }
fn exprs(es: &[Expr]) -> Value { Value::Array(es.iter().map(expr_json).collect()) }

pub fn sort_json(s: &SortExpr) -> Value {
    json!({"e": expr_json(&s.expr), "desc": s.direction == SortDirection::Desc, "nf": s.nulls == NullOrdering::NullsFirst})
}

fn bound_json(b: &FrameBound) -> Value {
    match b {
        FrameBound::UnboundedPreceding => json!("up"), FrameBound::Preceding(k) => json!({"p": k}), FrameBound::CurrentRow => json!("cr"),
        FrameBound::Following(k) => json!({"f": k}), FrameBound::UnboundedFollowing => json!("uf"),
    }
}
pub fn window_json(w: &WindowExpr) -> Value {
    let f = match &w.func { WindowFunc::Aggregate(a) => format!("agg:{}", a), other => other.to_string() };
    json!({"fn": f, "args": exprs(&w.args), "partition": exprs(&w.partition_by), "order": w.order_by.iter().map(sort_json).collect::<Vec<_>>(),
           "frame": {"units": if w.frame.units == FrameUnits::Rows { "rows" } else { "range" }, "start": bound_json(&w.frame.start),
                     "stop": bound_json(&w.frame.end), "explicit": w.frame.explicit}})
}

pub fn expr_json(e: &Expr) -> Value {
    match e {
        Expr::Column(c) => json!({"col": [c.relation, c.name]}),
        Expr::Literal(v) => json!({"lit": lit_json(v)}),
        Expr::BinaryExpr { left, op, right } => json!({"bin": [bin_name(*op), expr_json(left), expr_json(right)]}),
        Expr::UnaryExpr { op, expr } => json!({"un": [un_name(*op), expr_json(expr)]}),
        Expr::Aggregate { func, args, distinct } => json!({"agg": {"f": func.to_string(), "args": exprs(args), "distinct": distinct}}),
        Expr::ScalarFunc { func, args } => json!({"fn": {"f": format!("{:?}", func), "args": exprs(args)}}),
        Expr::Cast { expr, data_type } => json!({"cast": [expr_json(expr), ty_name(data_type)]}),
        Expr::Case { operand, when_then, else_expr } => json!({"case": {"operand": opt_box(operand),
            "wt": when_then.iter().map(|(w, t)| json!([expr_json(w), expr_json(t)])).collect::<Vec<_>>(), "else": opt_box(else_expr)}}),
        Expr::InList { expr, list, negated } => json!({"inlist": [expr_json(expr), exprs(list), negated]}),
        Expr::Between { expr, low, high, negated } => json!({"between": [expr_json(expr), expr_json(low), expr_json(high), negated]}),
        Expr::ScalarSubquery(p) => json!({"scalar_sub": plan_json(p)}),
        Expr::Exists { subquery, negated } => json!({"exists": [plan_json(subquery), negated]}),
        Expr::InSubquery { expr, subquery, negated } => json!({"insub": [expr_json(expr), plan_json(subquery), negated]}),
        Expr::Alias { expr, name } => json!({"alias": [expr_json(expr), name]}),
        Expr::WindowFunction(w) => json!({"window": window_json(w)}),
        Expr::Wildcard => json!("wildcard"),
        Expr::QualifiedWildcard(r) => json!({"qwild": r}),
    }
}

fn pairs(on: &[(Expr, Expr)]) -> Value { Value::Array(on.iter().map(|(l, r)| json!([expr_json(l), expr_json(r)])).collect()) }

pub fn plan_json(p: &LogicalPlan) -> Value {
    match p {
        LogicalPlan::Scan(n) => json!({"k": "scan", "table": n.table_name, "schema": schema_json(&n.schema), "proj": n.projection, "filter": opt_expr(&n.filter)}),
        LogicalPlan::Filter(n) => json!({"k": "filter", "pred": expr_json(&n.predicate), "in": plan_json(&n.input)}),
        LogicalPlan::Project(n) => json!({"k": "project", "exprs": exprs(&n.exprs), "schema": schema_json(&n.schema), "in": plan_json(&n.input)}),
        LogicalPlan::Join(n) => json!({"k": "join", "jt": jt_name(n.join_type), "on": pairs(&n.on), "filter": opt_expr(&n.filter),
            "schema": schema_json(&n.schema), "l": plan_json(&n.left), "r": plan_json(&n.right)}),
        LogicalPlan::Aggregate(n) => json!({"k": "agg", "group": exprs(&n.group_by), "aggs": exprs(&n.aggregates), "schema": schema_json(&n.schema), "in": plan_json(&n.input)}),
        LogicalPlan::Window(n) => json!({"k": "window", "wexprs": n.window_exprs.iter().map(|(nm, w)| json!({"name": nm, "w": window_json(w)})).collect::<Vec<_>>(),
            "schema": schema_json(&n.schema), "in": plan_json(&n.input)}),
        LogicalPlan::Sort(n) => json!({"k": "sort", "keys": n.order_by.iter().map(sort_json).collect::<Vec<_>>(), "in": plan_json(&n.input)}),
        LogicalPlan::Limit(n) => json!({"k": "limit", "skip": n.skip, "fetch": n.fetch, "in": plan_json(&n.input)}),
        LogicalPlan::Distinct(n) => json!({"k": "distinct", "in": plan_json(&n.input)}),
        LogicalPlan::Union(n) => json!({"k": "union", "all": n.all, "schema": schema_json(&n.schema), "ins": n.inputs.iter().map(|x| plan_json(x)).collect::<Vec<_>>()}),
        LogicalPlan::SubqueryAlias(n) => json!({"k": "alias", "alias": n.alias, "cte": n.cte_name, "schema": schema_json(&n.schema), "in": plan_json(&n.input)}),
        LogicalPlan::EmptyRelation(n) => json!({"k": "empty", "one_row": n.produce_one_row, "schema": schema_json(&n.schema)}),
        LogicalPlan::Values(n) => json!({"k": "values", "rows": n.values.iter().map(|r| exprs(r)).collect::<Vec<_>>(), "schema": schema_json(&n.schema)}),
        LogicalPlan::DelimJoin(n) => json!({"k": "delimjoin", "jt": jt_name(n.join_type), "delim": exprs(&n.delim_columns), "on": pairs(&n.on),
            "schema": schema_json(&n.schema), "l": plan_json(&n.left), "r": plan_json(&n.right)}),
        LogicalPlan::DelimGet(n) => json!({"k": "delimget", "cols": exprs(&n.columns), "schema": schema_json(&n.schema), "id": n.delim_id}),
        LogicalPlan::VectorSearch(n) => json!({"k": "vsearch", "table": n.table_name, "column": n.column, "qlen": n.query.len(),
            "query": n.query.iter().map(|x| (*x as f64).to_bits()).collect::<Vec<_>>(), "kk": n.k, "skip": n.skip, "metric": n.metric.as_str(),
            "filter": opt_expr(&n.filter), "outputs": n.outputs.iter().map(|(c, f)| json!([c, field_json(f)])).collect::<Vec<_>>(),
            "sort_key": sort_json(&n.sort_key), "schema": schema_json(&n.schema), "in": plan_json(&n.input)}),
    }
}

/// count of nodes (used for the non-triviality rule of families)
pub fn node_count(p: &LogicalPlan) -> usize { 1 + p.children().iter().map(|c| node_count(c)).sum::<usize>() }
