// FAMILY: Fn
//! C36: scalar functions through the SQL front door.
//! Case: {"fn": tag, "e": E, "ty": [t..], "lit": [bool..], "rows": [[V..]..], "law": null | "id0" | "eq"}
//!   E  = {"arg": j} | {"f": name, "a": [E..]}          (expression over the case's arguments; a plain call is f(arg0..argk))
//!   t  = "i" | "s" | "b" | "x" | "d"                      (int64, varchar, boolean, varbinary, date)
//!   V  = null | {"i":n} | {"s":str} | {"b":bool} | {"x":[bytes]} | {"d":days} | {"f":bits}
//!   lit[j] = argument j is rendered as a SQL literal (same value in every row), otherwise it is column c<j> of a
//!   registered in-memory table t(id, c0..ck) holding the case's rows (so the vectorised per-row path is hit).
//!   law "id0": the expression is a documented round trip / involution: its value must equal argument 0 (judged on the
//!   ENGINE's output without the model); law "eq": "e2" holds a second expression that must evaluate to the same value.
//! Impl: {"rows": [V..]} (one per case row, by id) | {"err": msg} | {"panic": msg};  for law "eq" also "rows2".
use crate::common::*;
use crate::rng::Rng;
use arrow::array::*;
use arrow::datatypes::{DataType, Field, Schema, TimeUnit};
use arrow::record_batch::RecordBatch;
use query_engine::ExecutionContext;
use serde_json::{json, Value};
use std::sync::Arc;

// ------------------------------------------------------------------ SQL rendering
fn civil_from_days(z: i64) -> (i64, i64, i64) {
    let z = z + 719_468;
    let era = z.div_euclid(146_097);
    let doe = z.rem_euclid(146_097);
    let yoe = (doe - doe / 1_460 + doe / 36_524 - doe / 146_096) / 365;
    let y = yoe + era * 400;
    let doy = doe - (365 * yoe + yoe / 4 - yoe / 100);
    let mp = (5 * doy + 2) / 153;
    let d = doy - (153 * mp + 2) / 5 + 1;
    let m = if mp < 10 { mp + 3 } else { mp - 9 };
    (if m <= 2 { y + 1 } else { y }, m, d)
}
pub fn days_from_civil(y: i64, m: i64, d: i64) -> i64 {
    let y = if m <= 2 { y - 1 } else { y };
    let era = y.div_euclid(400);
    let yoe = y.rem_euclid(400);
    let doy = (153 * (if m > 2 { m - 3 } else { m + 9 }) + 2) / 5 + d - 1;
    let doe = yoe * 365 + yoe / 4 - yoe / 100 + doy;
    era * 146_097 + doe - 719_468
}
/// days that can be written as DATE 'YYYY-MM-DD' (years 1..=9999)
fn date_literal_ok(d: i64) -> bool { d >= days_from_civil(1, 1, 1) && d <= days_from_civil(9999, 12, 31) }

fn sql_type(t: &str) -> &'static str {
    match t { "i" => "BIGINT", "s" => "VARCHAR", "b" => "BOOLEAN", "x" => "VARBINARY", "d" => "DATE", "j" => "INTEGER", _ => "VARCHAR" }
}
fn hex(b: &[u8]) -> String { b.iter().map(|x| format!("{:02x}", x)).collect() }

fn lit_sql(v: &Value, t: &str) -> String {
    if v.is_null() { return if t == "x" { "from_hex(CAST(NULL AS VARCHAR))".into() } else { format!("CAST(NULL AS {})", sql_type(t)) }; }
    if t == "j" { if let Some(i) = v.get("i").and_then(|x| x.as_i64()) { return format!("CAST({} AS INTEGER)", i); } }
    if let Some(i) = v.get("i").and_then(|x| x.as_i64()) {
        return if i == i64::MIN { "(-9223372036854775807 - 1)".into() } else if i < 0 { format!("({})", i) } else { format!("{}", i) };
    }
    if let Some(s) = v.get("s").and_then(|x| x.as_str()) { return format!("'{}'", s.replace('\'', "''")); }
    if let Some(b) = v.get("b").and_then(|x| x.as_bool()) { return if b { "true".into() } else { "false".into() }; }
    if let Some(x) = v.get("x") { return format!("from_hex('{}')", hex(&json_bytes(x))); }
    if let Some(d) = v.get("d").and_then(|x| x.as_i64()) { let (y, m, dd) = civil_from_days(d); return format!("DATE '{:04}-{:02}-{:02}'", y, m, dd); }
    "NULL".into()
}

fn render(e: &Value, c: &Value) -> String {
    if let Some(j) = e.get("arg").and_then(|x| x.as_u64()) {
        let j = j as usize;
        if c["lit"][j].as_bool().unwrap_or(false) { return lit_sql(&c["rows"][0][j], c["ty"][j].as_str().unwrap_or("s")); }
        return format!("c{}", j);
    }
    if let Some(k) = e.get("k") { return lit_sql(k, e["t"].as_str().unwrap_or("s")); }
    let f = e["f"].as_str().unwrap_or("");
    let a: Vec<String> = e["a"].as_array().map(|v| v.iter().map(|x| render(x, c)).collect()).unwrap_or_default();
    match f {
        "case_searched" => { // [c1, v1, c2, v2, .., else]
            let mut s = String::from("CASE");
            let n = a.len() / 2;
            for k in 0..n { s.push_str(&format!(" WHEN {} THEN {}", a[2 * k], a[2 * k + 1])); }
            if a.len() % 2 == 1 { s.push_str(&format!(" ELSE {}", a[a.len() - 1])); }
            s.push_str(" END"); s
        }
        "case_simple" => { // [operand, w1, v1, .., else]
            let mut s = format!("CASE {}", a[0]);
            let n = (a.len() - 1) / 2;
            for k in 0..n { s.push_str(&format!(" WHEN {} THEN {}", a[1 + 2 * k], a[2 + 2 * k])); }
            if (a.len() - 1) % 2 == 1 { s.push_str(&format!(" ELSE {}", a[a.len() - 1])); }
            s.push_str(" END"); s
        }
        "position" => format!("POSITION({} IN {})", a[0], a[1]),      // position(substring IN string)
        "concat_op" => format!("({} || {})", a[0], a[1]),
        "add" => format!("({} + {})", a[0], a[1]),
        _ => format!("{}({})", f, a.join(", ")),
    }
}

// ------------------------------------------------------------------ arrow in / out
fn make_col(t: &str, vals: Vec<&Value>) -> (DataType, ArrayRef) {
    match t {
        "i" => (DataType::Int64, Arc::new(Int64Array::from(vals.iter().map(|v| v.get("i").and_then(|x| x.as_i64())).collect::<Vec<_>>()))),
        "j" => (DataType::Int32, Arc::new(Int32Array::from(vals.iter().map(|v| v.get("i").and_then(|x| x.as_i64()).map(|x| x as i32)).collect::<Vec<_>>()))),
        "b" => (DataType::Boolean, Arc::new(BooleanArray::from(vals.iter().map(|v| v.get("b").and_then(|x| x.as_bool())).collect::<Vec<_>>()))),
        "d" => (DataType::Date32, Arc::new(Date32Array::from(vals.iter().map(|v| v.get("d").and_then(|x| x.as_i64()).map(|x| x as i32)).collect::<Vec<_>>()))),
        "x" => {
            let owned: Vec<Option<Vec<u8>>> = vals.iter().map(|v| v.get("x").map(json_bytes)).collect();
            (DataType::Binary, Arc::new(BinaryArray::from(owned.iter().map(|o| o.as_deref()).collect::<Vec<_>>())))
        }
        _ => (DataType::Utf8, Arc::new(StringArray::from(vals.iter().map(|v| v.get("s").and_then(|x| x.as_str())).collect::<Vec<_>>()))),
    }
}

fn cell(a: &ArrayRef, i: usize) -> Value {
    if a.is_null(i) { return Value::Null; }
    macro_rules! int { ($t:ty) => { json!({"i": a.as_any().downcast_ref::<$t>().unwrap().value(i) as i64}) }; }
    match a.data_type() {
        DataType::Null => Value::Null,
        DataType::Int64 => int!(Int64Array), DataType::Int32 => int!(Int32Array), DataType::Int16 => int!(Int16Array), DataType::Int8 => int!(Int8Array),
        DataType::UInt8 => int!(UInt8Array), DataType::UInt16 => int!(UInt16Array), DataType::UInt32 => int!(UInt32Array),
        DataType::UInt64 => { let v = a.as_any().downcast_ref::<UInt64Array>().unwrap().value(i); json!({"i": v}) }
        DataType::Float64 => json!({"f": a.as_any().downcast_ref::<Float64Array>().unwrap().value(i).to_bits()}),
        DataType::Float32 => json!({"f": (a.as_any().downcast_ref::<Float32Array>().unwrap().value(i) as f64).to_bits()}),
        DataType::Utf8 => json!({"s": a.as_any().downcast_ref::<StringArray>().unwrap().value(i)}),
        DataType::LargeUtf8 => json!({"s": a.as_any().downcast_ref::<LargeStringArray>().unwrap().value(i)}),
        DataType::Binary => json!({"x": bytes_json(a.as_any().downcast_ref::<BinaryArray>().unwrap().value(i))}),
        DataType::LargeBinary => json!({"x": bytes_json(a.as_any().downcast_ref::<LargeBinaryArray>().unwrap().value(i))}),
        DataType::Boolean => json!({"b": a.as_any().downcast_ref::<BooleanArray>().unwrap().value(i)}),
        DataType::Date32 => json!({"d": a.as_any().downcast_ref::<Date32Array>().unwrap().value(i)}),
        DataType::Timestamp(TimeUnit::Microsecond, _) => json!({"ts": a.as_any().downcast_ref::<TimestampMicrosecondArray>().unwrap().value(i)}),
        other => json!({"other": format!("{:?}", other)}),
    }
}

fn run_sql(c: &Value, expr_sql: &str) -> Value {
    let nargs = c["ty"].as_array().map(|a| a.len()).unwrap_or(0);
    let rows: Vec<&Value> = c["rows"].as_array().map(|a| a.iter().collect()).unwrap_or_default();
    let all_lit = (0..nargs).all(|j| c["lit"][j].as_bool().unwrap_or(false));
    let mut ctx = ExecutionContext::new();
    let sql = if all_lit { format!("SELECT 0 AS id, {} AS r", expr_sql) } else {
        let mut fields = vec![Field::new("id", DataType::Int64, false)];
        let mut cols: Vec<ArrayRef> = vec![Arc::new(Int64Array::from((0..rows.len() as i64).collect::<Vec<_>>()))];
        for j in 0..nargs {
            let (dt, arr) = make_col(c["ty"][j].as_str().unwrap_or("s"), rows.iter().map(|r| &r[j]).collect());
            fields.push(Field::new(format!("c{}", j), dt, true)); cols.push(arr);
        }
        let schema = Arc::new(Schema::new(fields));
        let batch = match RecordBatch::try_new(schema.clone(), cols) { Ok(b) => b, Err(e) => return json!({"harness_error": e.to_string()}) };
        ctx.register_table("t", schema, vec![batch]);
        format!("SELECT id, {} AS r FROM t", expr_sql)
    };
    let rt = match tokio::runtime::Builder::new_current_thread().enable_all().build() { Ok(r) => r, Err(e) => return json!({"harness_error": e.to_string()}) };
    let res = rt.block_on(async { ctx.sql(&sql).await });
    match res {
        Err(e) => { let mut m = e.to_string(); m.truncate(160); json!({"err": m, "sql": sql}) }
        Ok(q) => {
            let n = if all_lit { 1 } else { rows.len() };
            let mut out: Vec<Value> = vec![json!({"missing": true}); n];
            for b in &q.batches {
                if b.num_columns() < 2 { continue; }
                let ids = b.column(0).clone();
                for i in 0..b.num_rows() {
                    let id = match cell(&ids, i).get("i").and_then(|x| x.as_i64()) { Some(x) => x as usize, None => continue };
                    if id < n { out[id] = cell(b.column(1), i); }
                }
            }
            json!({"rows": out, "sql": sql})
        }
    }
}

pub fn run_case(c: &Value) -> Value {
    let c2 = c.clone();
    guarded(std::panic::AssertUnwindSafe(move || {
        let e1 = render(&c2["e"], &c2);
        let mut r = run_sql(&c2, &e1);
        if c2.get("e2").map(|x| !x.is_null()).unwrap_or(false) {
            let e2 = render(&c2["e2"], &c2);
            let r2 = run_sql(&c2, &e2);
            r["second"] = r2;
        }
        r
    }))
}

// ------------------------------------------------------------------ generators
const I_BOUND: [i64; 22] = [0, 1, -1, 2, -2, 3, 7, 10, -10, 63, 64, 65, 255, 256, 1 << 31, -(1 << 31), (1 << 32) + 65, i64::MAX, i64::MIN, i64::MAX - 1, i64::MIN + 1, 1 << 62];
fn gen_int(r: &mut Rng) -> i64 {
    match r.below(10) { 0..=2 => *r.pick(&I_BOUND), 3..=6 => r.range(-20, 20), 7 => r.range(-100000, 100000), _ => r.next() as i64 }
}
fn gen_small(r: &mut Rng) -> i64 {
    match r.below(12) { 0 => *r.pick(&[i64::MAX, i64::MIN, -1, 1 << 32, (1 << 32) + 2, -(1 << 40)]), 1 => r.range(-5, -1), _ => r.range(0, 9) }
}
const ALPHA: [&str; 30] = ["a", "b", "c", "A", "B", "Z", "z", "0", "1", "9", " ", " ", "-", ",", ".", "é", "ß", "ü", "Ω", "日", "本", "😀", "\u{1F3}", "'", "%", "_", "\t", "ab", "aa", "\u{a0}"];
fn gen_str(r: &mut Rng) -> String {
    let n = match r.below(8) { 0 => 0, 1 => 1, 2..=5 => r.below(6) + 1, _ => r.below(14) };
    let mut s = String::new();
    for _ in 0..n { s.push_str(*r.pick(&ALPHA)); }
    s
}
fn gen_short(r: &mut Rng) -> String {
    match r.below(8) { 0 => String::new(), 1..=4 => (*r.pick(&ALPHA)).to_string(), _ => format!("{}{}", *r.pick(&ALPHA), *r.pick(&ALPHA)) }
}
fn gen_ascii_word(r: &mut Rng) -> String {
    let n = r.below(7);
    (0..n).map(|_| *r.pick(&['a', 'b', 'c', 'k', 'i', 't', 'e', 'n', 's', 'g'])).collect()
}
fn gen_digits(r: &mut Rng) -> String {
    let n = r.below(18) + 1;
    (0..n).map(|_| (b'0' + r.below(10) as u8) as char).collect()
}
fn luhn_valid(r: &mut Rng) -> String {
    let body = gen_digits(r);
    let mut sum = 0u32; let mut dbl = true;
    for ch in body.chars().rev() { let mut d = ch.to_digit(10).unwrap(); if dbl { d *= 2; if d > 9 { d -= 9; } } sum += d; dbl = !dbl; }
    format!("{}{}", body, (10 - sum % 10) % 10)
}
fn gen_bytes(r: &mut Rng) -> Vec<u8> {
    let n = match r.below(8) { 0 => 0, 1 => 1, 2 => 2, 3 => 3, 4 => 4, 5 => 8, _ => r.below(20) };
    (0..n).map(|_| if r.chance(1, 4) { *r.pick(&[0u8, 255, 127, 128, 0x2b, 0x2f, 0x3d]) } else { r.below(256) as u8 }).collect()
}
fn gen_date(r: &mut Rng) -> i64 {
    match r.below(10) {
        0 => *r.pick(&[0, -1, 1, 59, 60, 365, 366, 11016, 10957, -719162, 2932896, 19782, 19723, 19724, -25509, 47540]),
        1 => { let y = r.range(1, 9999); let m = 2; let d = *r.pick(&[28, 29]); let leap = (y % 4 == 0 && y % 100 != 0) || y % 400 == 0; days_from_civil(y, m, if d == 29 && !leap { 28 } else { d }) }
        2 => { let y = r.range(1890, 2110); let m = r.range(1, 12); let dim = [31, 28, 31, 30, 31, 30, 31, 31, 30, 31, 30, 31][(m - 1) as usize]; days_from_civil(y, m, *r.pick(&[1, dim])) }
        3..=7 => r.range(-30000, 40000),
        _ => r.range(days_from_civil(1, 1, 1), days_from_civil(9999, 12, 31)),
    }
}
const UNITS: [&str; 9] = ["day", "week", "month", "quarter", "year", "DAY", "Month", "hour", "fortnight"];

fn enc_bits(b: &[u8], k: usize, alpha: &[u8], block: usize) -> String {
    let mut bits: Vec<bool> = vec![];
    for x in b { for i in (0..8).rev() { bits.push((x >> i) & 1 == 1); } }
    while bits.len() % k != 0 { bits.push(false); }
    let mut s: String = bits.chunks(k).map(|g| alpha[g.iter().fold(0usize, |a, b| a * 2 + *b as usize)] as char).collect();
    while s.len() % block != 0 { s.push('='); }
    s
}
const B64: &[u8] = b"ABCDEFGHIJKLMNOPQRSTUVWXYZabcdefghijklmnopqrstuvwxyz0123456789+/";
const B64U: &[u8] = b"ABCDEFGHIJKLMNOPQRSTUVWXYZabcdefghijklmnopqrstuvwxyz0123456789-_";
const B32: &[u8] = b"ABCDEFGHIJKLMNOPQRSTUVWXYZ234567";
fn enc_str(r: &mut Rng, which: u32) -> String {
    let b = gen_bytes(r);
    let mut s = match which { 64 => enc_bits(&b, 6, B64, 4), 65 => enc_bits(&b, 6, B64U, 4), _ => enc_bits(&b, 5, B32, 8) };
    match r.below(10) { 0 => { s.push('!'); } 1 => { s = s.replace('=', ""); } 2 => { s.insert(0, '*'); } 3 => { s.push_str("é"); } _ => {} }
    s
}
fn jv_i(i: i64) -> Value { json!({"i": i}) }
fn jv_s(s: &str) -> Value { json!({"s": s}) }
fn jv_x(b: &[u8]) -> Value { json!({"x": bytes_json(b)}) }

/// One generated value of an argument *kind* (kind decides the SQL type and the distribution).
fn gen_kind(r: &mut Rng, k: &str) -> Value {
    match k {
        "I" => jv_i(gen_int(r)),
        "N" => jv_i(gen_small(r)),                                  // lengths / indexes / counts
        "P" => jv_i(if r.chance(1, 10) { r.range(-2, 0) } else { r.range(1, 6) }),           // 1-based positions
        "R" => jv_i(if r.chance(1, 8) { *r.pick(&[0, 1, 37, -2, 100]) } else { *r.pick(&[2, 8, 10, 16, 36, 3, 7, 35]) }),  // radix
        "C" => jv_i(match r.below(8) { 0 => *r.pick(&[0, -1, 0xD800, 0xDFFF, 0x110000, 0x10FFFF, (1i64 << 32) + 65, i64::MAX]), 1 => r.range(0x80, 0x2FFF), 2 => r.range(0x1F600, 0x1F64F), _ => r.range(32, 126) }), // code points
        "Rv" => jv_i(*r.pick(&[2, 8, 10, 16, 36, 3, 7, 35])),
        "Dm" => json!({"d": r.range(-30000, 40000)}),
        "Md" => jv_i(r.range(-4000, 4000)),
        "Cv" => jv_i(match r.below(4) { 0 => r.range(0x80, 0xD7FF), 1 => r.range(0xE000, 0x10FFFF), _ => r.range(1, 126) }),
        "S" => jv_s(&gen_str(r)),
        "T" => jv_s(&gen_short(r)),                                 // delimiters / patterns / pad strings
        "W" => jv_s(&gen_ascii_word(r)),
        "U" => jv_s(*r.pick(&UNITS)),
        "L" => jv_s(&match r.below(6) { 0 => gen_str(r), 1 => gen_digits(r), 2 => { let mut s = luhn_valid(r); if r.chance(1, 2) { s.push('x'); } s } _ => luhn_valid(r) }),
        "H" => jv_s(&match r.below(6) { 0 => gen_str(r), 1 => { let mut h = hex(&gen_bytes(r)); h.pop(); h } 2 => hex(&gen_bytes(r)).to_uppercase(), _ => hex(&gen_bytes(r)) }),
        "G" => jv_s(&{ // digit strings for from_base
            let n = r.below(12) + 1; let rad = *r.pick(&[2u32, 8, 10, 16, 36]);
            let mut s: String = (0..n).map(|_| std::char::from_digit(r.below(rad as u64) as u32, rad).unwrap()).collect();
            if r.chance(1, 5) { s.insert(0, '-'); } if r.chance(1, 12) { s.insert(0, '+'); } if r.chance(1, 10) { s = s.to_uppercase(); } if r.chance(1, 12) { s.push('z'); } if r.chance(1, 20) { s.clear(); }
            s }),
        "B" => json!({"b": r.chance(1, 2)}),
        "A" => jv_s(&{ let n = r.below(9); (0..n).map(|_| *r.pick(&['a', 'b', 'z', 'A', 'Q', 'Z', '0', '9', ' ', '-', '_', '@', '[', '`', '{', '~', 'm', 'M'])).collect::<String>() }),
        "Ws" => jv_s(&{ let mut s = String::new(); for _ in 0..r.below(3) { s.push(*r.pick(&[' ', '\t', '\n', '\u{a0}', '\u{2003}', '\u{3000}', '\r', '\u{85}'])); } s.push_str(&gen_str(r)); for _ in 0..r.below(3) { s.push(*r.pick(&[' ', '\t', '\n', '\u{a0}', '\u{2003}', '\u{3000}'])); } s }),
        "Z" => jv_i(match r.below(10) { 0 => r.range(-3, -1), 1 => r.range(13, 40), _ => r.range(0, 12) }),        // bounded sizes / counts
        "Zp" => jv_i(match r.below(10) { 0 => r.range(13, 40), _ => r.range(0, 12) }),                              // bounded, never negative
        "J" => jv_i(match r.below(5) { 0 => *r.pick(&[0, 1, -1, i32::MAX as i64, i32::MIN as i64, 255, 256, 65536]), _ => (r.next() as i32) as i64 }),
        "Pn" => jv_i(match r.below(10) { 0 => 0, 1 => r.range(-7, -1), 2 => r.range(8, 20), _ => r.range(1, 7) }), // positions incl. 0 / negative / beyond
        "Wb" => jv_i(r.range(-5, 45)),
        "Wn" => jv_i(match r.below(8) { 0 => *r.pick(&[0, -1]), _ => r.range(1, 100) }),
        "E64" => jv_s(&enc_str(r, 64)), "E64u" => jv_s(&enc_str(r, 65)), "E32" => jv_s(&enc_str(r, 32)),
        "Ue" => jv_s(&{ let mut s = String::new(); for _ in 0..r.below(8) { match r.below(6) { 0 => s.push('+'), 1 => s.push_str(&format!("%{:02X}", r.below(128))), 2 => s.push_str(*r.pick(&["%C3%A9", "%E6%97%A5", "%f0%9f%98%80", "%", "%4", "%zz", "%C3", "%ff"])), _ => s.push_str(*r.pick(&ALPHA)) } } s }),
        "Bo" => json!({"b": r.chance(1, 2)}),
        "Sm" => jv_s(&{ let n = r.below(6); (0..n).map(|_| *r.pick(&["a", "b", "c", "é", "日"])).collect::<String>() }),
        "X" => jv_x(&gen_bytes(r)),
        "Xu" => jv_x(&if r.chance(1, 6) { gen_bytes(r) } else { gen_str(r).into_bytes() }),
        "X4" => jv_x(&{ let n = if r.chance(1, 6) { r.below(10) as usize } else { 4 }; (0..n).map(|_| r.below(256) as u8).collect::<Vec<_>>() }),
        "X8" => jv_x(&{ let n = if r.chance(1, 6) { r.below(12) as usize } else { 8 }; (0..n).map(|_| r.below(256) as u8).collect::<Vec<_>>() }),
        "D" => json!({"d": gen_date(r)}),
        "I32" => jv_i(match r.below(6) { 0 => *r.pick(&[0, 1, -1, i32::MAX as i64, i32::MIN as i64, (i32::MAX as i64) + 1, (i32::MIN as i64) - 1, 1 << 40]), _ => (r.next() as i32) as i64 }),
        "M" => jv_i(match r.below(5) { 0 => r.range(-30, 30), 1 => *r.pick(&[0, 1, -1, 12, -12, 1200, -1200, 100000, -100000, 1 << 33, i64::MAX]), _ => r.range(-400, 400) }), // date_add amounts
        "K" => jv_i(r.range(0, 63) + if r.chance(1, 10) { *r.pick(&[64, 65, -1, 128, 1 << 32]) } else { 0 }), // shift counts
        "Sh" => jv_i(match r.below(4) { 0 => *r.pick(&I_BOUND), _ => r.next() as i64 }),
        _ => Value::Null,
    }
}
fn kind_type(k: &str) -> &'static str {
    match k { "J" => "j", "Dm" => "d", "Rv" | "Md" | "Cv" | "I" | "N" | "P" | "R" | "C" | "I32" | "M" | "K" | "Sh" | "Z" | "Zp" | "Pn" | "Wb" | "Wn" => "i", "B" | "Bo" => "b", "X" | "Xu" | "X4" | "X8" => "x", "D" => "d", _ => "s" }
}

/// (tag, sql name, argument kinds). A trailing "*" on the last kind = variadic (1..4 of that kind).
const FUNCS: &[(&str, &str, &[&str])] = &[
    // integer math
    ("abs", "abs", &["I"]), ("sign", "sign", &["I"]), ("mod", "mod", &["I", "I"]),
    ("greatest", "greatest", &["I", "I*"]), ("least", "least", &["I", "I*"]),
    ("width_bucket", "width_bucket", &["Wb", "Wb", "Wb", "Wn"]),
    ("to_base", "to_base", &["I", "R"]), ("from_base", "from_base", &["G", "R"]),
    // bitwise
    ("bitwise_and", "bitwise_and", &["Sh", "Sh"]), ("bitwise_or", "bitwise_or", &["Sh", "Sh"]), ("bitwise_xor", "bitwise_xor", &["Sh", "Sh"]),
    ("bitwise_not", "bitwise_not", &["Sh"]), ("bit_count", "bit_count", &["Sh"]),
    ("bitwise_left_shift", "bitwise_left_shift", &["Sh", "K"]), ("bitwise_right_shift", "bitwise_right_shift", &["Sh", "K"]),
    ("bitwise_right_shift_arithmetic", "bitwise_right_shift_arithmetic", &["Sh", "K"]),
    // strings
    ("length", "length", &["S"]), ("reverse", "reverse", &["S"]), ("upper", "upper", &["A"]), ("lower", "lower", &["A"]),
    ("trim", "trim", &["Ws"]), ("ltrim", "ltrim", &["Ws"]), ("rtrim", "rtrim", &["Ws"]),
    ("concat", "concat", &["S", "S*"]), ("concat_ws", "concat_ws", &["T", "S", "S*"]),
    ("starts_with", "starts_with", &["S", "T"]), ("ends_with", "ends_with", &["S", "T"]),
    ("substring2", "substring", &["S", "Pn"]), ("substring3", "substring", &["S", "Pn", "Z"]),
    ("left", "left", &["S", "Zp"]), ("right", "right", &["S", "Zp"]), ("repeat", "repeat", &["T", "Z"]),
    ("replace", "replace", &["Sm", "Sm", "T"]), ("strpos", "strpos", &["S", "T"]), ("position", "position", &["T", "S"]),
    ("lpad", "lpad", &["S", "Zp", "T"]), ("rpad", "rpad", &["S", "Zp", "T"]),
    ("split_part", "split_part", &["S", "T", "Pn"]),
    ("chr", "chr", &["C"]), ("codepoint", "codepoint", &["T"]), ("ascii", "ascii", &["T"]),
    ("translate", "translate", &["S", "T", "T"]),
    ("hamming_distance", "hamming_distance", &["Sm", "Sm"]), ("levenshtein_distance", "levenshtein_distance", &["Sm", "Sm"]),
    ("luhn_check", "luhn_check", &["L"]),
    // conditional
    ("coalesce", "coalesce", &["I", "I*"]), ("nullif", "nullif", &["Wb", "Wb"]), ("if", "if", &["Bo", "I", "I"]),
    ("case_searched", "case_searched", &["Bo", "I", "Bo", "I", "I"]), ("case_simple", "case_simple", &["Wb", "Wb", "I", "Wb", "I", "I"]),
    // encodings
    ("to_hex", "to_hex", &["X"]), ("from_hex", "from_hex", &["H"]),
    ("to_base64", "to_base64", &["X"]), ("from_base64", "from_base64", &["E64"]),
    ("to_base64url", "to_base64url", &["X"]), ("from_base64url", "from_base64url", &["E64u"]),
    ("to_base32", "to_base32", &["X"]), ("from_base32", "from_base32", &["E32"]),
    ("to_big_endian_64", "to_big_endian_64", &["I"]), ("from_big_endian_64", "from_big_endian_64", &["X8"]),
    ("to_big_endian_32", "to_big_endian_32", &["J"]), ("from_big_endian_32", "from_big_endian_32", &["X4"]),
    ("url_encode", "url_encode", &["S"]), ("url_decode", "url_decode", &["Ue"]),
    ("to_utf8", "to_utf8", &["S"]), ("from_utf8", "from_utf8", &["Xu"]),
    // dates
    ("year", "year", &["D"]), ("month", "month", &["D"]), ("day", "day", &["D"]), ("quarter", "quarter", &["D"]),
    ("day_of_week", "day_of_week", &["D"]), ("day_of_year", "day_of_year", &["D"]), ("last_day_of_month", "last_day_of_month", &["D"]),
    ("date_add", "date_add", &["U", "M", "D"]), ("date_diff", "date_diff", &["U", "D", "D"]), ("date_trunc", "date_trunc", &["U", "D"]),
];

/// Laws judged on the ENGINE's own outputs, independent of the model.
/// ("id", k): value of `e` must equal argument k;  ("eq"): `e` and `e2` must evaluate to the same value.
fn ap(f: &str, a: Vec<Value>) -> Value { json!({"f": f, "a": a}) }
fn ar(j: usize) -> Value { json!({"arg": j}) }
fn ks(s: &str) -> Value { json!({"k": {"s": s}, "t": "s"}) }
fn ki(i: i64) -> Value { json!({"k": {"i": i}, "t": "i"}) }
struct Law { tag: &'static str, kinds: &'static [&'static str], e: Value, e2: Option<Value>, idk: usize }
fn laws() -> Vec<Law> {
    let id = |tag, kinds, e| Law { tag, kinds, e, e2: None, idk: 0 };
    let idk = |tag, kinds, e, k| Law { tag, kinds, e, e2: None, idk: k };
    let eq = |tag, kinds, e, e2| Law { tag, kinds, e, e2: Some(e2), idk: 0 };
    vec![
        id("law:reverse_reverse", &["S"], ap("reverse", vec![ap("reverse", vec![ar(0)])])),
        id("law:not_not", &["Sh"], ap("bitwise_not", vec![ap("bitwise_not", vec![ar(0)])])),
        id("law:from_hex_to_hex", &["X"], ap("from_hex", vec![ap("to_hex", vec![ar(0)])])),
        id("law:from_base64_to_base64", &["X"], ap("from_base64", vec![ap("to_base64", vec![ar(0)])])),
        id("law:from_base64url_to_base64url", &["X"], ap("from_base64url", vec![ap("to_base64url", vec![ar(0)])])),
        id("law:from_base32_to_base32", &["X"], ap("from_base32", vec![ap("to_base32", vec![ar(0)])])),
        id("law:from_big_endian_64_to", &["I"], ap("from_big_endian_64", vec![ap("to_big_endian_64", vec![ar(0)])])),
        id("law:from_big_endian_32_to", &["J"], ap("from_big_endian_32", vec![ap("to_big_endian_32", vec![ar(0)])])),
        id("law:url_decode_url_encode", &["S"], ap("url_decode", vec![ap("url_encode", vec![ar(0)])])),
        id("law:from_utf8_to_utf8", &["S"], ap("from_utf8", vec![ap("to_utf8", vec![ar(0)])])),
        id("law:codepoint_chr", &["Cv"], ap("codepoint", vec![ap("chr", vec![ar(0)])])),
        id("law:from_base_to_base", &["I", "Rv"], ap("from_base", vec![ap("to_base", vec![ar(0), ar(1)]), ar(1)])),
        id("law:substring_from_1", &["S"], ap("substring", vec![ar(0), ki(1)])),
        idk("law:date_diff_date_add_day", &["Dm", "Md"], ap("date_diff", vec![ks("day"), ar(0), ap("date_add", vec![ks("day"), ar(1), ar(0)])]), 1),
        eq("law:concat_eq_op", &["S", "S"], ap("concat", vec![ar(0), ar(1)]), ap("concat_op", vec![ar(0), ar(1)])),
        eq("law:de_morgan", &["Sh", "Sh"], ap("bitwise_not", vec![ap("bitwise_and", vec![ar(0), ar(1)])]), ap("bitwise_or", vec![ap("bitwise_not", vec![ar(0)]), ap("bitwise_not", vec![ar(1)])])),
        eq("law:bit_count_incl_excl", &["Sh", "Sh"], ap("add", vec![ap("bit_count", vec![ap("bitwise_and", vec![ar(0), ar(1)])]), ap("bit_count", vec![ap("bitwise_or", vec![ar(0), ar(1)])])]),
           ap("add", vec![ap("bit_count", vec![ar(0)]), ap("bit_count", vec![ar(1)])])),
        eq("law:length_concat", &["S", "S"], ap("length", vec![ap("concat_op", vec![ar(0), ar(1)])]), ap("add", vec![ap("length", vec![ar(0)]), ap("length", vec![ar(1)])])),
        eq("law:length_reverse", &["S"], ap("length", vec![ap("reverse", vec![ar(0)])]), ap("length", vec![ar(0)])),
        eq("law:reverse_concat", &["S", "S"], ap("reverse", vec![ap("concat_op", vec![ar(0), ar(1)])]), ap("concat_op", vec![ap("reverse", vec![ar(1)]), ap("reverse", vec![ar(0)])])),
        eq("law:upper_lower", &["A"], ap("upper", vec![ap("lower", vec![ar(0)])]), ap("upper", vec![ar(0)])),
        eq("law:levenshtein_symmetric", &["Sm", "Sm"], ap("levenshtein_distance", vec![ar(0), ar(1)]), ap("levenshtein_distance", vec![ar(1), ar(0)])),
        eq("law:hamming_symmetric", &["Sm", "Sm"], ap("hamming_distance", vec![ar(0), ar(1)]), ap("hamming_distance", vec![ar(1), ar(0)])),
        eq("law:greatest_commutes", &["I", "I"], ap("greatest", vec![ar(0), ar(1)]), ap("greatest", vec![ar(1), ar(0)])),
        eq("law:last_day_idempotent", &["Dm"], ap("last_day_of_month", vec![ap("last_day_of_month", vec![ar(0)])]), ap("last_day_of_month", vec![ar(0)])),
        eq("law:date_trunc_idempotent", &["Dm"], ap("date_trunc", vec![ks("month"), ap("date_trunc", vec![ks("month"), ar(0)])]), ap("date_trunc", vec![ks("month"), ar(0)])),
        eq("law:left_is_substring", &["S", "Zp"], ap("left", vec![ar(0), ar(1)]), ap("substring", vec![ar(0), ki(1), ar(1)])),
        eq("law:strpos_is_position", &["S", "T"], ap("strpos", vec![ar(0), ar(1)]), ap("position", vec![ar(1), ar(0)])),
    ]
}

fn pick_null(r: &mut Rng, v: Value) -> Value { if r.chance(1, 9) { Value::Null } else { v } }

fn gen_case(r: &mut Rng, n: usize) -> Value {
    let law = n % 7 == 6;
    let mut e2 = Value::Null; let mut lawv = Value::Null;
    let (tag, e, kinds): (String, Value, Vec<String>) = if law {
        let ls = laws();
        let l = &ls[(n / 7) % ls.len()];
        let _ = r.next();
        if let Some(x) = &l.e2 { e2 = x.clone(); lawv = json!("eq"); } else { lawv = json!(format!("id{}", l.idk)); }
        (l.tag.to_string(), l.e.clone(), l.kinds.iter().map(|s| s.to_string()).collect())
    } else {
        let (tag, name, kinds) = FUNCS[(n - n / 7) % FUNCS.len()];
        let _ = r.next();
        let mut ks: Vec<String> = vec![];
        for k in kinds.iter() {
            if let Some(base) = k.strip_suffix('*') { for _ in 0..r.below(4) { ks.push(base.to_string()); } } else { ks.push(k.to_string()); }
        }
        let a: Vec<Value> = (0..ks.len()).map(|j| json!({"arg": j})).collect();
        (tag.to_string(), json!({"f": name, "a": a}), ks)
    };
    let nargs = kinds.len();
    // mode: all literal / all columns / mixed
    let mode = r.below(3);
    let lit: Vec<bool> = (0..nargs).map(|j| match mode { 0 => true, 1 => false, _ => j > 0 && r.chance(2, 3) }).collect();
    let all_lit = lit.iter().all(|b| *b);
    let nrows = if all_lit { 1 } else { 1 + r.below(4) as usize };
    let mut rows: Vec<Vec<Value>> = vec![];
    for i in 0..nrows {
        let mut row = vec![];
        for j in 0..nargs {
            if lit[j] && i > 0 { row.push(rows[0][j].clone()); continue; }
            let g = gen_kind(r, &kinds[j]);
            // this law involves two functions with separately listed NULL-handling findings (F5, F17): keep its arguments non-NULL
            let mut v = if tag == "law:left_is_substring" { g } else { pick_null(r, g) };
            // dates outside 0001..9999 cannot be written as literals
            if lit[j] { if let Some(d) = v.get("d").and_then(|x| x.as_i64()) { if !date_literal_ok(d) { v = json!({"d": d.rem_euclid(60000) - 20000}); } } }
            row.push(v);
        }
        rows.push(row);
    }
    let ty: Vec<&str> = kinds.iter().map(|k| kind_type(k)).collect();
    json!({"fn": tag, "e": e, "e2": e2, "ty": ty, "lit": lit, "rows": rows, "law": lawv})
}

pub fn main(o: &Opts) {
    if let Some(p) = &o.replay { for c in replay_cases(p) { let i = run_case(&c); emit(c, i); } return; }
    let mut r = Rng::new(o.seed ^ 0xC36);
    for n in 0..o.cases {
        let c = gen_case(&mut r, n);
        let i = run_case(&c);
        emit(c, i);
    }
}
