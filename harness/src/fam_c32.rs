// FAMILY: C32
//! C32: join reordering never introduces a cross product.
//! Case: {"kind":"reorder","n","shape","naming","form","layout","connected","tables":[..],"sql","graph":{"rels":[..],"preds":[[ra,ca,rb,cb]..]}}
//! Impl: {"bound":Plan|{"err"},"opt":Plan|{"err"},"jr":Plan|{"err"},"ans_bound","ans_opt","ans_jr","stats"}
//!   bound = Binder output; opt = production `Optimizer::new()[.with_table_statistics]` (final PackedJoinKeys pass included);
//!   jr = `Optimizer::with_rules([JoinReorder])`; ans_* = canonical answers of executing each plan with the real PhysicalPlanner.
//! Plans are rendered by `planexport` (format: lean/Driver/PlanJson.lean).
#[path = "planexport.rs"]
pub mod planexport;
#[path = "optlab.rs"]
pub mod optlab;
use crate::common::*;
use crate::rng::Rng;
use optlab::*;
use serde_json::{json, Value};

pub struct Edge { pub a: usize, pub b: usize, pub keys: Vec<(String, String)> }

fn shape_edges(r: &mut Rng, n: usize, shape: &str) -> Vec<(usize, usize)> {
    let mut e: Vec<(usize, usize)> = vec![];
    match shape {
        "chain" => { for i in 0..n - 1 { e.push((i, i + 1)); } }
        "star" => { let c = r.below(n as u64) as usize; for i in 0..n { if i != c { e.push((c, i)); } } }
        "cycle" => { for i in 0..n - 1 { e.push((i, i + 1)); } if n >= 3 { e.push((n - 1, 0)); } }
        "clique" => { for i in 0..n { for j in i + 1..n { e.push((i, j)); } } }
        "tree+" | _ => {
            for i in 1..n { e.push((r.below(i as u64) as usize, i)); }
            let extra = r.below(3) as usize;
            for _ in 0..extra { let a = r.below(n as u64) as usize; let b = r.below(n as u64) as usize; if a != b && !e.contains(&(a, b)) && !e.contains(&(b, a)) { e.push((a.min(b), a.max(b))); } }
        }
    }
    // random orientation
    e.into_iter().map(|(a, b)| if r.chance(1, 2) { (a, b) } else { (b, a) }).collect()
}

pub fn gen_case(r: &mut Rng, layout: &str) -> Value {
    let n = 2 + r.below(6) as usize;
    let shape = *r.pick(&["chain", "star", "cycle", "tree+", "tree+", "clique"]);
    let n = if shape == "clique" { n.min(4) } else { n };
    let naming = *r.pick(&["U", "U", "S", "A"]);
    let form = *r.pick(&["join", "comma", "comma", "joinwhere"]);
    let mut pairs = shape_edges(r, n, shape);
    // a disconnected graph now and then: drop every edge touching one side of a cut
    let mut connected = true;
    if n >= 3 && r.chance(1, 10) {
        let cut = 1 + r.below((n - 1) as u64) as usize;
        pairs.retain(|(a, b)| (*a < cut) == (*b < cut));
        connected = false;
    }
    // relation names / base tables / columns
    let rel: Vec<String> = (0..n).map(|i| if naming == "A" { format!("a{}", i) } else { format!("r{}", i) }).collect();
    let nb = if naming == "A" { 1 + r.below(2) as usize } else { n };
    let base_of: Vec<usize> = (0..n).map(|i| if naming == "A" { i % nb } else { i }).collect();
    let base_name = |b: usize| if naming == "A" { format!("base{}", b) } else { format!("r{}", b) };
    let mut cols: Vec<Vec<String>> = vec![vec![]; nb];
    if naming == "A" { for b in 0..nb { for c in 0..4 { cols[b].push(format!("c{}", c)); } } }
    let mut edges: Vec<Edge> = vec![];
    for (ei, (a, b)) in pairs.iter().enumerate() {
        let nk = if r.chance(1, 3) { 2 } else if r.chance(1, 12) { 3 } else { 1 };
        let mut keys = vec![];
        for j in 0..nk {
            let (ca, cb) = match naming {
                "U" => (format!("r{}_k{}_{}", a, ei, j), format!("r{}_k{}_{}", b, ei, j)),
                "S" => (format!("k{}_{}", ei, j), format!("k{}_{}", ei, j)),
                _ => (format!("c{}", r.below(4)), format!("c{}", r.below(4))),
            };
            if keys.contains(&(ca.clone(), cb.clone())) { continue; }
            if naming != "A" { cols[base_of[*a]].push(ca.clone()); cols[base_of[*b]].push(cb.clone()); }
            keys.push((ca, cb));
        }
        edges.push(Edge { a: *a, b: *b, keys });
    }
    let payload = |i: usize| match naming { "U" => format!("r{}_v", i), _ => "v".to_string() };
    // tables
    let dom = 2 + r.below(3) as i64;
    // one key type per case: joins of an Int32 with an Int64 key hit an unrelated engine defect (hash-join direct addressing /
    // runtime filters assume Int64 probes: panic "index out of bounds" or error "runtime filter column is not Int64"), reported separately
    let kt = if r.chance(1, 7) { CT::I32 } else { CT::I64 };
    let mut tables = vec![];
    for b in 0..nb {
        let mut cs: Vec<(String, CT)> = cols[b].iter().map(|c| (c.clone(), kt)).collect();
        cs.push((if naming == "U" { format!("r{}_v", b) } else { "v".into() }, CT::I64));
        // the unoptimized plan of a comma-join is a real cross product: keep the product of the table sizes below ~20k rows
        let cap = (20000f64).powf(1.0 / n as f64).floor().max(2.0) as u64;
        let nrows = if connected && r.chance(1, 20) { 0 } else if n <= 3 && r.chance(1, 4) { 20 + r.below(30) as usize } else { 1 + r.below(cap.min(10)) as usize };
        let nullable: Vec<bool> = cs.iter().map(|_| r.chance(1, 6)).collect();
        let rows: Vec<Vec<V>> = (0..nrows).map(|_| cs.iter().enumerate().map(|(ci, _)| {
            if nullable[ci] && r.chance(1, 5) { V::Null } else if ci + 1 == cs.len() { V::I(r.below(6) as i64) } else { V::I(r.below(dom as u64) as i64) }
        }).collect()).collect();
        let mut t = Tbl::new(&base_name(b), cs, rows);
        if layout == "pq" { t.rg = *r.pick(&[0usize, 0, 3, 5]); t.files = 1 + r.below(2) as usize; }
        tables.push(t);
    }
    // SQL
    let unq = naming == "U" && r.chance(1, 2);
    let q = |i: usize, c: &str| if unq { c.to_string() } else { format!("{}.{}", rel[i], c) };
    let from_item = |i: usize| if naming == "A" { format!("{} AS {}", base_name(base_of[i]), rel[i]) } else { rel[i].clone() };
    let mut preds_sql: Vec<(usize, String)> = vec![]; // (edge index, text)
    for (ei, e) in edges.iter().enumerate() {
        for (ca, cb) in &e.keys {
            let (l, rr) = (q(e.a, ca), q(e.b, cb));
            preds_sql.push((ei, if r.chance(1, 2) { format!("{} = {}", l, rr) } else { format!("{} = {}", rr, l) }));
        }
    }
    let mut wheres: Vec<String> = vec![];
    let from: String;
    if form == "comma" || !connected {
        let mut order: Vec<usize> = (0..n).collect(); r.shuffle(&mut order);
        let sep = if r.chance(1, 4) { " CROSS JOIN " } else { ", " };
        from = order.iter().map(|i| from_item(*i)).collect::<Vec<_>>().join(sep);
        let mut ps: Vec<String> = preds_sql.iter().map(|(_, s)| s.clone()).collect(); r.shuffle(&mut ps);
        wheres.extend(ps);
    } else {
        // a random connected traversal
        let mut joined = vec![r.below(n as u64) as usize];
        let mut text = from_item(joined[0]);
        let mut used = vec![false; edges.len()];
        while joined.len() < n {
            let cand: Vec<usize> = (0..edges.len()).filter(|&ei| !used[ei] && (joined.contains(&edges[ei].a) != joined.contains(&edges[ei].b))).collect();
            let ei = *r.pick(&cand);
            let newr = if joined.contains(&edges[ei].a) { edges[ei].b } else { edges[ei].a };
            // every edge between newr and the joined set
            let here: Vec<usize> = (0..edges.len()).filter(|&x| !used[x] && ((edges[x].a == newr && joined.contains(&edges[x].b)) || (edges[x].b == newr && joined.contains(&edges[x].a)))).collect();
            let mut on: Vec<String> = vec![];
            for x in &here {
                used[*x] = true;
                let texts: Vec<String> = preds_sql.iter().filter(|(e, _)| e == x).map(|(_, s)| s.clone()).collect();
                if *x == ei || form == "join" || r.chance(1, 2) { on.extend(texts); } else { wheres.extend(texts); }
            }
            text = format!("{} JOIN {} ON {}", text, from_item(newr), on.join(" AND "));
            joined.push(newr);
        }
        from = text;
    }
    // single-relation filters
    if r.chance(1, 3) { let i = r.below(n as u64) as usize; wheres.push(format!("{} <= {}", q(i, &payload(i)), r.below(6))); }
    r.shuffle(&mut wheres);
    let select = if r.chance(1, 4) { "COUNT(*)".to_string() } else {
        let k = 1 + r.below(3) as usize;
        (0..k).map(|j| { let i = r.below(n as u64) as usize; format!("{} AS o{}", q(i, &payload(i)), j) }).collect::<Vec<_>>().join(", ")
    };
    let sql = format!("SELECT {} FROM {}{}", select, from, if wheres.is_empty() { String::new() } else { format!(" WHERE {}", wheres.join(" AND ")) });
    let gp: Vec<Value> = edges.iter().flat_map(|e| e.keys.iter().map(|(ca, cb)| json!([rel[e.a], ca, rel[e.b], cb])).collect::<Vec<_>>()).collect();
    json!({"kind": "reorder", "n": n, "shape": shape, "naming": naming, "form": form, "layout": layout, "connected": connected,
           "tables": tables_json(&tables), "sql": sql, "graph": {"rels": rel, "preds": gp}})
}

fn plan_or_err(p: &Result<query_engine::planner::LogicalPlan, query_engine::QueryError>) -> Value {
    match p { Ok(x) => planexport::plan_json(x), Err(e) => err_json(e) }
}

pub fn run_case(c: &Value) -> Value {
    let c = c.clone();
    guarded(move || {
        let tables = tables_from_json(&c["tables"]);
        let sql = c["sql"].as_str().unwrap_or("").to_string();
        let layout = c["layout"].as_str().unwrap_or("mem").to_string();
        let r = with_providers(&tables, if layout == "pq" { "pq" } else { "mem" }, |provs| {
            let bound = bind(provs, &sql);
            let stats = if layout == "mem0" { std::collections::HashMap::new() } else { stats_of(provs) };
            // an optimizer panic is reported as that plan's error (kind "panic"); judged by C31/C29, not here
            let caught = |f: &dyn Fn() -> Result<query_engine::planner::LogicalPlan, query_engine::QueryError>| {
                match std::panic::catch_unwind(std::panic::AssertUnwindSafe(|| f())) {
                    Ok(r) => r,
                    Err(e) => { let msg = if let Some(s) = e.downcast_ref::<&str>() { s.to_string() } else if let Some(s) = e.downcast_ref::<String>() { s.clone() } else { "panic".into() };
                        Err(query_engine::QueryError::Internal(format!("panic: {}", msg))) }
                }
            };
            let (opt, jr) = match &bound {
                Ok(b) => (caught(&|| optimize_production(&stats, b.clone())), caught(&|| optimize(vec![rule_by_name("JoinReorder").unwrap()], &stats, b.clone()))),
                Err(_) => (Err(query_engine::QueryError::Plan("unbound".into())), Err(query_engine::QueryError::Plan("unbound".into()))),
            };
            let ans = |p: &Result<query_engine::planner::LogicalPlan, query_engine::QueryError>| match p { Ok(x) => execute(provs, x, false), Err(e) => err_json(e) };
            json!({"bound": plan_or_err(&bound), "opt": plan_or_err(&opt), "jr": plan_or_err(&jr),
                   "ans_bound": ans(&bound), "ans_opt": ans(&opt), "ans_jr": ans(&jr), "ans_sql": execute_sql(provs, &sql, false), "stats": stats_json(&stats)})
        });
        match r { Ok(v) => v, Err(e) => json!({"harness_err": e}) }
    })
}

pub fn main(o: &Opts) {
    if o.get("bt").is_some() { std::panic::set_hook(Box::new(|info| eprintln!("PANIC {info}\n{}", std::backtrace::Backtrace::force_capture()))); }
    if let (Some(p), Some(_)) = (&o.replay, o.get("trace")) {
        // development aid: the production fixpoint, rule by rule, printing the plan whenever it changes
        for c in replay_cases(p) {
            let tables = tables_from_json(&c["tables"]);
            let layout = c["layout"].as_str().unwrap_or("mem").to_string();
            let _ = with_providers(&tables, if layout == "pq" { "pq" } else { "mem" }, |provs| {
                let stats = if layout == "mem0" { std::collections::HashMap::new() } else { stats_of(provs) };
                let mut cur = bind(provs, c["sql"].as_str().unwrap()).unwrap();
                eprintln!("BOUND\n{}", cur);
                for iter in 0..10 {
                    let mut changed = false;
                    for name in rule_names() {
                        if name == "PackedJoinKeys" { continue; }
                        // production order lists PredicatePushdown twice; apply it again after JoinReorder
                        let names: Vec<&str> = if name == "JoinReorder" { vec!["JoinReorder", "PredicatePushdown"] } else { vec![name.as_str()] };
                        for nm in names {
                            match apply_rule_once(nm, &stats, &cur) {
                                Some(Ok(p2)) => { if format!("{:?}", p2) != format!("{:?}", cur) { changed = true; eprintln!("== iter {} rule {}\n{}", iter, nm, p2); cur = p2; } }
                                Some(Err(e)) => eprintln!("== iter {} rule {} ERR {}", iter, nm, e),
                                None => {}
                            }
                        }
                    }
                    if !changed { break; }
                }
            });
        }
        return;
    }
    if let Some(p) = &o.replay { for c in replay_cases(p) { let i = run_case(&c); emit(c, i); } return; }
    let mut r = Rng::new(o.seed ^ 0xC32);
    for n in 0..o.cases {
        let layout = match n % 4 { 0 => "mem", 2 => "mem0", _ => "pq" };
        let c = gen_case(&mut r, layout);
        if o.get("dump").is_some() {
            let tables = tables_from_json(&c["tables"]);
            eprintln!("---- {}\n{}", c["sql"], c["graph"]);
            let _ = with_providers(&tables, if layout == "pq" { "pq" } else { "mem" }, |provs| {
                match bind(provs, c["sql"].as_str().unwrap()) {
                    Ok(b) => { eprintln!("BOUND\n{}", b); let st = stats_of(provs);
                        match optimize_production(&st, b.clone()) { Ok(p) => eprintln!("OPT\n{}", p), Err(e) => eprintln!("OPT ERR {}", e) }
                        match optimize(vec![rule_by_name("JoinReorder").unwrap()], &st, b) { Ok(p) => eprintln!("JR\n{}", p), Err(e) => eprintln!("JR ERR {}", e) } }
                    Err(e) => eprintln!("BIND ERR {}", e),
                }
            });
        }
        let i = run_case(&c);
        emit(c, i);
    }
}
