// FAMILY: C18
//! C18: `ParquetTable::statistics()` (footer fold) vs a scan of the same REAL files.
//! Case (spec part, enough to re-create the files on replay):
//!   {"kind":"table","open":"dir"|"files","cols":[{"name","ty"}],"corrupt":bool,
//!    "files":[{"name","nostats":[col..],"rgs":[{"rows":n,"cols":[{"name","vals":[int|null..]}]}]}]}
//! plus the derived footer part, recomputed on every (re)run from the file just written and read back through the
//! parquet crate's metadata reader: per file "bytes", per chunk "nc" (null_count or null) and "mm" ([min,max] or null).
//! Impl: {"stats": {"rows","bytes","cols":[{"name","min","max","nc","ndv"}]} | null | {"panic":..},
//!        "scan":  {"rows","cols":[{"name","nulls","min","max"}]} | {"err":..} | {"panic":..}}
use crate::common::*;
use crate::rng::Rng;
use arrow::array::*;
use arrow::datatypes::{DataType, Field, Schema, TimeUnit};
use arrow::record_batch::RecordBatch;
use parquet::arrow::ArrowWriter;
use parquet::file::properties::{EnabledStatistics, WriterProperties};
use parquet::file::reader::{FileReader, SerializedFileReader};
use parquet::file::statistics::Statistics;
use parquet::schema::types::ColumnPath;
use query_engine::physical::operators::TableProvider;
use query_engine::storage::ParquetTable;
use serde_json::{json, Value};
use std::path::{Path, PathBuf};
use std::sync::Arc;

pub fn scratch() -> PathBuf {
    let p = PathBuf::from(std::env::var("IQE_SCRATCH").unwrap_or_else(|_| "/verif/harness/scratch/manual".into()));
    let _ = std::fs::create_dir_all(&p);
    p
}

fn dtype(ty: &str) -> DataType {
    match ty {
        "i64" => DataType::Int64, "i32" => DataType::Int32, "i16" => DataType::Int16, "i8" => DataType::Int8,
        "u32" => DataType::UInt32, "u64" => DataType::UInt64,
        "date" => DataType::Date32, "ts" => DataType::Timestamp(TimeUnit::Microsecond, None),
        "str" => DataType::Utf8, "f64" => DataType::Float64,
        _ => DataType::Int64,
    }
}

/// values are shipped as integers; for "str"/"f64" the integer is only a seed for the content
pub fn make_array(ty: &str, vals: &[Value]) -> ArrayRef {
    let iv: Vec<Option<i128>> = vals.iter().map(|v| if v.is_null() { None } else if let Some(i) = v.as_i64() { Some(i as i128) } else { v.as_u64().map(|u| u as i128) }).collect();
    match ty {
        "i64" => Arc::new(Int64Array::from(iv.iter().map(|v| v.map(|x| x as i64)).collect::<Vec<_>>())),
        "i32" => Arc::new(Int32Array::from(iv.iter().map(|v| v.map(|x| x as i32)).collect::<Vec<_>>())),
        "i16" => Arc::new(Int16Array::from(iv.iter().map(|v| v.map(|x| x as i16)).collect::<Vec<_>>())),
        "i8" => Arc::new(Int8Array::from(iv.iter().map(|v| v.map(|x| x as i8)).collect::<Vec<_>>())),
        "u32" => Arc::new(UInt32Array::from(iv.iter().map(|v| v.map(|x| x as u32)).collect::<Vec<_>>())),
        "u64" => Arc::new(UInt64Array::from(iv.iter().map(|v| v.map(|x| x as u64)).collect::<Vec<_>>())),
        "date" => Arc::new(Date32Array::from(iv.iter().map(|v| v.map(|x| x as i32)).collect::<Vec<_>>())),
        "ts" => Arc::new(TimestampMicrosecondArray::from(iv.iter().map(|v| v.map(|x| x as i64)).collect::<Vec<_>>())),
        "str" => Arc::new(StringArray::from(iv.iter().map(|v| v.map(|x| format!("s{}", x))).collect::<Vec<_>>())),
        "f64" => Arc::new(Float64Array::from(iv.iter().map(|v| v.map(|x| x as f64 / 4.0)).collect::<Vec<_>>())),
        _ => Arc::new(Int64Array::from(iv.iter().map(|v| v.map(|x| x as i64)).collect::<Vec<_>>())),
    }
}

fn jint(v: i128) -> Value { if v >= 0 { json!(v as u64) } else { json!(v as i64) } }

/// (nulls, min, max) of an Arrow column as mathematical integers (None for non-integer types)
pub fn summarize(a: &ArrayRef) -> (u64, Option<i128>, Option<i128>) {
    let nulls = a.null_count() as u64;
    macro_rules! mm { ($t:ty) => {{
        let arr = a.as_any().downcast_ref::<$t>().unwrap();
        let mut lo: Option<i128> = None; let mut hi: Option<i128> = None;
        for i in 0..arr.len() { if arr.is_valid(i) { let v = arr.value(i) as i128; lo = Some(lo.map_or(v, |m| m.min(v))); hi = Some(hi.map_or(v, |m| m.max(v))); } }
        (nulls, lo, hi)
    }}; }
    match a.data_type() {
        DataType::Int64 => mm!(Int64Array), DataType::Int32 => mm!(Int32Array), DataType::Int16 => mm!(Int16Array), DataType::Int8 => mm!(Int8Array),
        DataType::UInt32 => mm!(UInt32Array), DataType::UInt64 => mm!(UInt64Array), DataType::Date32 => mm!(Date32Array),
        DataType::Timestamp(TimeUnit::Microsecond, _) => mm!(TimestampMicrosecondArray),
        _ => (nulls, None, None),
    }
}

/// Write one file from its spec; every row group is one `write` + `flush`.
pub fn write_file(path: &Path, cols: &[(String, String)], f: &Value) -> Result<(), String> {
    let schema = Arc::new(Schema::new(cols.iter().map(|(n, t)| Field::new(n, dtype(t), true)).collect::<Vec<_>>()));
    let mut pb = WriterProperties::builder().set_statistics_enabled(EnabledStatistics::Chunk).set_max_row_group_row_count(Some(1 << 20));
    for n in f["nostats"].as_array().cloned().unwrap_or_default() {
        pb = pb.set_column_statistics_enabled(ColumnPath::from(n.as_str().unwrap_or("").to_string()), EnabledStatistics::None);
    }
    if f["pagestats"].as_bool().unwrap_or(false) { pb = pb.set_statistics_enabled(EnabledStatistics::Page); }
    let file = std::fs::File::create(path).map_err(|e| e.to_string())?;
    let mut w = ArrowWriter::try_new(file, schema.clone(), Some(pb.build())).map_err(|e| e.to_string())?;
    for rg in f["rgs"].as_array().cloned().unwrap_or_default() {
        let arrays: Vec<ArrayRef> = cols.iter().map(|(n, t)| {
            let c = rg["cols"].as_array().unwrap().iter().find(|c| c["name"] == json!(n)).cloned().unwrap_or(json!({"vals": []}));
            make_array(t, c["vals"].as_array().map(|v| v.as_slice()).unwrap_or(&[]))
        }).collect();
        let b = RecordBatch::try_new(schema.clone(), arrays).map_err(|e| e.to_string())?;
        w.write(&b).map_err(|e| e.to_string())?;
        w.flush().map_err(|e| e.to_string())?;
    }
    w.close().map_err(|e| e.to_string())?;
    Ok(())
}

/// Fill the derived footer part of a file spec from the file on disk (independent read through the parquet crate).
pub fn derive_footer(path: &Path, f: &mut Value) -> Result<(), String> {
    let bytes = std::fs::metadata(path).map_err(|e| e.to_string())?.len();
    f["bytes"] = json!(bytes);
    let r = SerializedFileReader::new(std::fs::File::open(path).map_err(|e| e.to_string())?).map_err(|e| e.to_string())?;
    let md = r.metadata();
    let rgs = f["rgs"].as_array_mut().ok_or("rgs")?;
    if md.num_row_groups() != rgs.len() { return Err(format!("row groups on disk {} != spec {}", md.num_row_groups(), rgs.len())); }
    for (i, rg) in rgs.iter_mut().enumerate() {
        let m = md.row_group(i);
        rg["rows"] = json!(m.num_rows());
        for cc in m.columns() {
            let name = cc.column_path().parts().join(".").to_lowercase();
            let (nc, mm) = match cc.statistics() {
                None => (Value::Null, Value::Null),
                Some(s) => {
                    let nc = s.null_count_opt().map(|n| json!(n)).unwrap_or(Value::Null);
                    let mm = match s {
                        Statistics::Int64(s) => match (s.min_opt(), s.max_opt()) { (Some(a), Some(b)) => json!([a, b]), _ => Value::Null },
                        Statistics::Int32(s) => match (s.min_opt(), s.max_opt()) { (Some(a), Some(b)) => json!([*a as i64, *b as i64]), _ => Value::Null },
                        _ => Value::Null,
                    };
                    (nc, mm)
                }
            };
            // unsigned logical type over INT32 / INT64 (the footer stores the unsigned value's bit pattern)
            let d = cc.column_descr();
            let unsigned = matches!(d.logical_type_ref(), Some(parquet::basic::LogicalType::Integer { is_signed: false, .. }))
                || matches!(d.converted_type(), parquet::basic::ConvertedType::UINT_8 | parquet::basic::ConvertedType::UINT_16
                    | parquet::basic::ConvertedType::UINT_32 | parquet::basic::ConvertedType::UINT_64);
            let ub = if !unsigned { 0 } else if d.physical_type() == parquet::basic::Type::INT64 { 64 } else { 32 };
            if let Some(c) = rg["cols"].as_array_mut().and_then(|cs| cs.iter_mut().find(|c| c["name"] == json!(name))) {
                c["nc"] = nc; c["mm"] = mm; c["ub"] = json!(ub);
            }
        }
    }
    Ok(())
}

fn stats_json(t: &ParquetTable) -> Value {
    match t.statistics() {
        None => Value::Null,
        Some(s) => {
            let mut cols: Vec<(String, Value)> = s.column_stats.iter().map(|(n, c)| (n.clone(), json!({
                "name": n, "min": c.min_i64, "max": c.max_i64, "nc": c.null_count, "ndv": c.ndv_est}))).collect();
            cols.sort_by(|a, b| a.0.cmp(&b.0));
            json!({"rows": s.row_count, "bytes": s.total_byte_size, "cols": cols.into_iter().map(|x| x.1).collect::<Vec<_>>()})
        }
    }
}

fn scan_json(t: &ParquetTable) -> Value {
    match t.scan(None) {
        Err(e) => json!({"err": format!("{e}").chars().take(80).collect::<String>()}),
        Ok(batches) => {
            let schema = t.schema();
            let mut rows = 0u64;
            let mut acc: Vec<(u64, Option<i128>, Option<i128>)> = vec![(0, None, None); schema.fields().len()];
            for b in &batches {
                rows += b.num_rows() as u64;
                for (i, a) in b.columns().iter().enumerate() {
                    if i >= acc.len() { continue; }
                    let (n, lo, hi) = summarize(a);
                    acc[i].0 += n;
                    if let Some(lo) = lo { acc[i].1 = Some(acc[i].1.map_or(lo, |m| m.min(lo))); }
                    if let Some(hi) = hi { acc[i].2 = Some(acc[i].2.map_or(hi, |m| m.max(hi))); }
                }
            }
            let mut cols: Vec<(String, Value)> = schema.fields().iter().zip(acc).map(|(f, (n, lo, hi))| {
                let name = f.name().to_lowercase();
                (name.clone(), json!({"name": name, "nulls": n, "min": lo.map(jint), "max": hi.map(jint)}))
            }).collect();
            cols.sort_by(|a, b| a.0.cmp(&b.0));
            json!({"rows": rows, "cols": cols.into_iter().map(|x| x.1).collect::<Vec<_>>()})
        }
    }
}

/// Writes the files of the case under a fresh directory, completes the derived part of the case, runs the real code.
pub fn run_case(c: &mut Value, uniq: &str) -> Value {
    let dir = scratch().join(format!("c18-{}-{}", std::process::id(), uniq));
    let _ = std::fs::remove_dir_all(&dir);
    if std::fs::create_dir_all(&dir).is_err() { return json!({"harness_error": "mkdir"}); }
    let cols: Vec<(String, String)> = c["cols"].as_array().cloned().unwrap_or_default().iter()
        .map(|x| (x["name"].as_str().unwrap_or("").to_string(), x["ty"].as_str().unwrap_or("i64").to_string())).collect();
    let mut paths = vec![];
    let nfiles = c["files"].as_array().map(|a| a.len()).unwrap_or(0);
    for i in 0..nfiles {
        let name = c["files"][i]["name"].as_str().unwrap_or("f.parquet").to_string();
        let p = dir.join(&name);
        let spec = c["files"][i].clone();
        if let Err(e) = write_file(&p, &cols, &spec) { let _ = std::fs::remove_dir_all(&dir); return json!({"harness_error": format!("write: {e}")}); }
        if let Err(e) = derive_footer(&p, &mut c["files"][i]) { let _ = std::fs::remove_dir_all(&dir); return json!({"harness_error": format!("footer: {e}")}); }
        paths.push(p);
    }
    if c["corrupt"].as_bool().unwrap_or(false) {
        let p = dir.join("zz-corrupt.parquet");
        let _ = std::fs::write(&p, b"PAR1 this is not a parquet file PAR1");
        paths.push(p);
    }
    let open_dir = c["open"].as_str().unwrap_or("dir") == "dir";
    let d2 = dir.clone();
    let out = guarded(move || {
        let t = if open_dir { ParquetTable::try_new(&d2) } else { ParquetTable::try_from_files(paths.clone()) };
        let t = match t { Ok(t) => t, Err(e) => return json!({"open_err": format!("{e}").chars().take(80).collect::<String>()}) };
        let t = std::panic::AssertUnwindSafe(t);
        let stats = guarded(|| stats_json(&t));
        let scan = guarded(|| scan_json(&t));
        json!({"stats": stats, "scan": scan})
    });
    let _ = std::fs::remove_dir_all(&dir);
    out
}

// ---------------------------------------------------------------- generator
const INT_TYPES: [&str; 6] = ["i64", "i64", "i32", "i16", "date", "ts"];

fn gen_val(r: &mut Rng, ty: &str, dom: u64, base: i64, extreme: bool) -> Value {
    if ty == "u64" {
        // dom odd: every value >= 2^63 (does not fit i64); dom even: every value < 2^61. Never mixed within a column, so the
        // reinterpreted range cannot overflow (keeps C18-F2 and C18-F3 in separate strata).
        return if dom % 2 == 1 { json!((r.next() >> 2) | (1u64 << 63)) } else { json!(r.next() >> 3) };
    }
    let (lo, hi): (i64, i64) = match ty {
        "i32" | "date" => (i32::MIN as i64, i32::MAX as i64),
        "i16" => (i16::MIN as i64, i16::MAX as i64),
        "i8" => (-128, 127),
        "u32" => (0, u32::MAX as i64),
        _ => (i64::MIN, i64::MAX),
    };
    if ty == "u32" && r.chance(1, 3) { return json!(*r.pick(&[0i64, 1, 13, (1 << 31) - 1, 1 << 31, (1 << 31) + 7, u32::MAX as i64 - 1, u32::MAX as i64])); }
    if extreme && r.chance(1, 2) {
        return json!(*r.pick(&[lo, lo.saturating_add(1), (-1i64).max(lo), 0i64.max(lo), 1, hi - 1, hi]));
    }
    let v = match dom {
        0 => r.range(-5, 20),
        1 => r.range(-1000, 1000),
        2 => base.saturating_add(r.range(0, 50)),
        _ => { let span = if ty == "i64" || ty == "ts" { 1i64 << 61 } else { hi.min(1 << 30) }; r.range(-span, span) }
    };
    json!(v.clamp(lo, hi))
}

pub fn gen_table(r: &mut Rng, unsigned: bool) -> Value {
    let extreme = r.chance(1, 6);
    // unsigned logical types: their own stratum (all statistics on, no extreme values) so C18-F3 is attributed on its own
    let unsigned = unsigned && !extreme && r.chance(1, 5);
    let ncols = 1 + r.below(4) as usize;
    let mut cols = vec![];
    for i in 0..ncols {
        let ty = if i > 0 && r.chance(1, 6) { *r.pick(&["str", "f64"]) }
                 else if unsigned && r.chance(1, 2) { *r.pick(&["u32", "u32", "u64"]) }
                 else { *r.pick(&INT_TYPES) };
        cols.push((format!("c{}", i), ty.to_string()));
    }
    let nfiles = 1 + r.below(4) as usize;
    let mut files = vec![];
    let doms: Vec<u64> = cols.iter().map(|_| r.below(4)).collect();
    for fi in 0..nfiles {
        // a stats-less column / file: never in the extreme stratum (keeps the two known defects in separate strata)
        let mut nostats: Vec<String> = vec![];
        if !extreme && !unsigned {
            if r.chance(1, 5) { nostats = cols.iter().map(|c| c.0.clone()).collect(); }
            else { for c in &cols { if r.chance(1, 6) { nostats.push(c.0.clone()); } } }
        }
        let many = r.chance(1, 8);
        let nrg = if r.chance(1, 12) { 0 } else { 1 + r.below(if many { 7 } else { 3 }) as usize };
        let base = r.range(-100_000, 100_000) * if r.chance(1, 4) { 1_000_000 } else { 1 };
        let nulld: Vec<u64> = cols.iter().map(|_| *r.pick(&[0u64, 0, 10, 50, 100])).collect();
        let mut rgs = vec![];
        for _ in 0..nrg {
            let rows = if r.chance(1, 6) { 1 } else { 1 + r.below(24) as usize };
            let rg_null_all: Vec<bool> = cols.iter().map(|_| r.chance(1, 12)).collect();
            let mut cc = vec![];
            for (ci, (n, ty)) in cols.iter().enumerate() {
                let vals: Vec<Value> = (0..rows).map(|_| {
                    if rg_null_all[ci] || r.below(100) < nulld[ci] { Value::Null } else { gen_val(r, ty, doms[ci], base, extreme) }
                }).collect();
                cc.push(json!({"name": n, "vals": vals}));
            }
            rgs.push(json!({"rows": rows, "cols": cc}));
        }
        files.push(json!({"name": format!("f{}.parquet", fi), "nostats": nostats, "pagestats": r.chance(1, 5), "rgs": rgs}));
    }
    // the first file must exist for try_new to read a schema; an all-empty table is allowed
    json!({"kind": "table", "open": if r.chance(2, 3) { "dir" } else { "files" }, "extreme": extreme, "unsigned": unsigned,
           "corrupt": r.chance(1, 25),
           "cols": cols.iter().map(|(n, t)| json!({"name": n, "ty": t})).collect::<Vec<_>>(), "files": files})
}

pub fn main(o: &Opts) {
    if let Some(p) = &o.replay {
        for (i, mut c) in replay_cases(p).into_iter().enumerate() { let imp = run_case(&mut c, &format!("r{}", i)); emit(c, imp); }
        return;
    }
    let unsigned = o.get("unsigned") != Some("0");
    let mut r = Rng::new(o.seed ^ 0xC18);
    for n in 0..o.cases {
        let mut c = gen_table(&mut r, unsigned);
        let imp = run_case(&mut c, &format!("g{}", n));
        emit(c, imp);
    }
}
