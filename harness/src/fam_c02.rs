// FAMILY: C02
//! C02: three-valued logic in the expression interpreter (`evaluate_expr`) and the predicate evaluator.
//! Case: {"schema":[ty…],"rows":[[Val…]…],"expr":E,"pred":bool (E is boolean-typed: a filter mask)}   (Val / E in the SqlJson wire format; ty: int i32 f64 str date bool)
//! Impl: {"vals":OUT,"kept":[i…]|null,"pe":OUT|null,"pe_kept":[i…]|null,"compiled":bool}, OUT = {"ok":[Val…]}|{"err":msg}|{"panic":msg}
//! The batch of a case is the cartesian product of small per-column domains (each containing NULL) of the columns the
//! expression references, so every NULL / non-NULL operand combination of the expression is present in every case.
//! Streams: (a) exhaustive enumeration of AND/OR/NOT trees over comparison atoms, (b) random typed trees over
//! comparison, IS [NOT] NULL, IN-list, BETWEEN, LIKE, CASE, COALESCE, NULLIF, arithmetic.
use crate::common::*;
use crate::rng::Rng;
use arrow::array::*;
use arrow::datatypes::{DataType, Field, Schema};
use arrow::record_batch::RecordBatch;
use query_engine::physical::compiled_expr::{CompiledPredicate, PredicateEvaluator};
use query_engine::physical::evaluate_expr;
use query_engine::planner::{BinaryOp, Column, Expr, ScalarFunction, ScalarValue, UnaryOp};
use serde_json::{json, Value};
use std::sync::Arc;

// ---------------------------------------------------------------- wire format → engine values (shared with C06 / C05)
pub fn dtype(ty: &str) -> DataType {
    match ty {
        "int" => DataType::Int64,
        "i32" => DataType::Int32,
        "f64" => DataType::Float64,
        "str" => DataType::Utf8,
        "date" => DataType::Date32,
        _ => DataType::Boolean,
    }
}

pub fn build_batch(schema: &[String], rows: &[Value]) -> RecordBatch {
    let fields: Vec<Field> = schema.iter().enumerate().map(|(i, t)| Field::new(format!("c{i}"), dtype(t), true)).collect();
    let mut cols: Vec<ArrayRef> = vec![];
    for (ci, t) in schema.iter().enumerate() {
        let cell = |r: &Value| r[ci].clone();
        let a: ArrayRef = match t.as_str() {
            "int" => Arc::new(rows.iter().map(|r| cell(r)["i"].as_i64()).collect::<Int64Array>()),
            "i32" => Arc::new(rows.iter().map(|r| cell(r)["i"].as_i64().map(|x| x as i32)).collect::<Int32Array>()),
            "f64" => Arc::new(rows.iter().map(|r| cell(r)["f"].as_u64().map(f64::from_bits)).collect::<Float64Array>()),
            "str" => Arc::new(rows.iter().map(|r| cell(r)["s"].as_str().map(|s| s.to_string())).collect::<StringArray>()),
            "date" => Arc::new(rows.iter().map(|r| cell(r)["d"].as_i64().map(|x| x as i32)).collect::<Date32Array>()),
            _ => Arc::new(rows.iter().map(|r| cell(r)["b"].as_bool()).collect::<BooleanArray>()),
        };
        cols.push(a);
    }
    if cols.is_empty() {
        return RecordBatch::try_new_with_options(Arc::new(Schema::new(fields)), cols, &RecordBatchOptions::new().with_row_count(Some(rows.len()))).unwrap();
    }
    RecordBatch::try_new(Arc::new(Schema::new(fields)), cols).unwrap()
}

pub fn scalar(v: &Value) -> ScalarValue {
    if v.is_null() { return ScalarValue::Null; }
    if let Some(b) = v.get("b").and_then(|x| x.as_bool()) { return ScalarValue::Boolean(b); }
    if let Some(i) = v.get("i").and_then(|x| x.as_i64()) { return ScalarValue::Int64(i); }
    if let Some(i) = v.get("i32").and_then(|x| x.as_i64()) { return ScalarValue::Int32(i as i32); }
    if let Some(f) = v.get("f").and_then(|x| x.as_u64()) { return ScalarValue::Float64(f64::from_bits(f).into()); }
    if let Some(s) = v.get("s").and_then(|x| x.as_str()) { return ScalarValue::Utf8(s.to_string()); }
    if let Some(d) = v.get("d").and_then(|x| x.as_i64()) { return ScalarValue::Date32(d as i32); }
    ScalarValue::Null
}

pub fn bin_op(s: &str) -> BinaryOp {
    match s {
        "add" => BinaryOp::Add, "sub" => BinaryOp::Subtract, "mul" => BinaryOp::Multiply, "div" => BinaryOp::Divide, "mod" => BinaryOp::Modulo,
        "eq" => BinaryOp::Eq, "ne" => BinaryOp::NotEq, "lt" => BinaryOp::Lt, "le" => BinaryOp::LtEq, "gt" => BinaryOp::Gt, "ge" => BinaryOp::GtEq,
        "and" => BinaryOp::And, "or" => BinaryOp::Or, "like" => BinaryOp::Like, "notlike" => BinaryOp::NotLike, _ => BinaryOp::StringConcat,
    }
}

/// SqlJson expression → the engine's `planner::Expr` (columns are named c<i>). `i32cols`: indices of Int32 columns; an Int64
/// literal written {"i32":n} becomes an Int32 literal (used by C06 for same-type comparisons).
pub fn to_engine(e: &Value) -> Expr {
    let bx = |v: &Value| Box::new(to_engine(v));
    if let Some(v) = e.get("lit") { return Expr::Literal(scalar(v)); }
    if let Some(i) = e.get("col").and_then(|x| x.as_u64()) { return Expr::Column(Column::new(format!("c{i}"))); }
    if let Some(a) = e.get("un").and_then(|x| x.as_array()) {
        let op = match a[0].as_str().unwrap_or("") { "not" => UnaryOp::Not, "neg" => UnaryOp::Negate, "isnull" => UnaryOp::IsNull, _ => UnaryOp::IsNotNull };
        return Expr::UnaryExpr { op, expr: bx(&a[1]) };
    }
    if let Some(a) = e.get("bin").and_then(|x| x.as_array()) {
        return Expr::BinaryExpr { left: bx(&a[1]), op: bin_op(a[0].as_str().unwrap_or("")), right: bx(&a[2]) };
    }
    if let Some(a) = e.get("inlist").and_then(|x| x.as_array()) {
        return Expr::InList { expr: bx(&a[0]), list: a[1].as_array().unwrap().iter().map(to_engine).collect(), negated: a[2].as_bool().unwrap_or(false) };
    }
    if let Some(a) = e.get("between").and_then(|x| x.as_array()) {
        return Expr::Between { expr: bx(&a[0]), low: bx(&a[1]), high: bx(&a[2]), negated: a[3].as_bool().unwrap_or(false) };
    }
    if let Some(a) = e.get("case").and_then(|x| x.as_array()) {
        let mut wt = vec![];
        let mut k = 0;
        while k + 1 < a.len() { wt.push((to_engine(&a[k]), to_engine(&a[k + 1]))); k += 2; }
        let els = if k < a.len() { Some(bx(&a[k])) } else { None };
        return Expr::Case { operand: None, when_then: wt, else_expr: els };
    }
    if let Some(a) = e.get("coalesce").and_then(|x| x.as_array()) {
        return Expr::ScalarFunc { func: ScalarFunction::Coalesce, args: a.iter().map(to_engine).collect() };
    }
    if let Some(a) = e.get("nullif").and_then(|x| x.as_array()) {
        return Expr::ScalarFunc { func: ScalarFunction::NullIf, args: vec![to_engine(&a[0]), to_engine(&a[1])] };
    }
    Expr::Wildcard
}

/// Lean-side wire format has no {"i32":n} literal: rewrite it to {"i":n} before shipping the case.
pub fn wire(e: &Value) -> Value {
    match e {
        Value::Object(m) => {
            if m.len() == 1 { if let Some(n) = m.get("i32") { return json!({"i": n}); } }
            Value::Object(m.iter().map(|(k, v)| (k.clone(), wire(v))).collect())
        }
        Value::Array(a) => Value::Array(a.iter().map(wire).collect()),
        x => x.clone(),
    }
}

pub fn array_vals(a: &ArrayRef) -> Result<Vec<Value>, String> {
    let n = a.len();
    let mut out = Vec::with_capacity(n);
    macro_rules! each { ($T:ty, $f:expr) => {{ let x = a.as_any().downcast_ref::<$T>().unwrap(); for i in 0..n { out.push(if x.is_null(i) { Value::Null } else { $f(x, i) }); } }}; }
    match a.data_type() {
        DataType::Null => { for _ in 0..n { out.push(Value::Null); } }
        DataType::Boolean => each!(BooleanArray, |x: &BooleanArray, i| json!({"b": x.value(i)})),
        DataType::Int64 => each!(Int64Array, |x: &Int64Array, i| json!({"i": x.value(i)})),
        DataType::Int32 => each!(Int32Array, |x: &Int32Array, i| json!({"i": x.value(i)})),
        DataType::Float64 => each!(Float64Array, |x: &Float64Array, i| json!({"f": x.value(i).to_bits()})),
        DataType::Utf8 => each!(StringArray, |x: &StringArray, i| json!({"s": x.value(i)})),
        DataType::Date32 => each!(Date32Array, |x: &Date32Array, i| json!({"d": x.value(i)})),
        t => return Err(format!("unexpected result type {t:?}")),
    }
    Ok(out)
}

pub fn kept_by(mask: &BooleanArray) -> Vec<u64> {
    let idx: ArrayRef = Arc::new(UInt64Array::from((0..mask.len() as u64).collect::<Vec<_>>()));
    let f = arrow::compute::filter(idx.as_ref(), mask).unwrap();
    f.as_any().downcast_ref::<UInt64Array>().unwrap().values().to_vec()
}

pub fn run_case(c: &Value) -> Value {
    let c2 = c.clone();
    guarded(move || {
        let schema: Vec<String> = c2["schema"].as_array().unwrap().iter().map(|x| x.as_str().unwrap().to_string()).collect();
        let rows = c2["rows"].as_array().unwrap().clone();
        let batch = build_batch(&schema, &rows);
        let expr = to_engine(&c2["expr"]);
        let mut out = json!({"vals": null, "kept": null, "pe": null, "pe_kept": null, "compiled": false});
        let mut is_bool = false;
        match evaluate_expr(&batch, &expr) {
            Ok(a) => match array_vals(&a) {
                Ok(v) => {
                    out["vals"] = json!({"ok": v});
                    if let Some(m) = a.as_any().downcast_ref::<BooleanArray>() { out["kept"] = json!(kept_by(m)); is_bool = true; }
                }
                Err(m) => out["vals"] = json!({"err": m}),
            },
            Err(e) => out["vals"] = json!({"err": format!("{e}").chars().take(80).collect::<String>()}),
        }
        if is_bool {
            out["compiled"] = json!(CompiledPredicate::compile(&expr, &batch.schema()).is_some());
            let pe = PredicateEvaluator::new(expr.clone());
            match pe.evaluate(&batch) {
                Ok(m) => {
                    let a: ArrayRef = Arc::new(m.clone());
                    out["pe"] = json!({"ok": array_vals(&a).unwrap()});
                    out["pe_kept"] = json!(kept_by(&m));
                }
                Err(e) => out["pe"] = json!({"err": format!("{e}").chars().take(80).collect::<String>()}),
            }
        }
        out
    })
}

// ---------------------------------------------------------------- generator
pub const SCHEMA: [&str; 8] = ["int", "int", "f64", "str", "date", "bool", "i32", "str"];
fn fbits(x: f64) -> Value { json!({"f": x.to_bits()}) }
pub fn domain(ci: usize) -> Vec<Value> {
    match ci {
        0 => vec![Value::Null, json!({"i":1}), json!({"i":2}), json!({"i":3})],
        1 => vec![Value::Null, json!({"i":1}), json!({"i":2}), json!({"i":7})],
        2 => vec![Value::Null, fbits(0.5), fbits(1.0), fbits(2.5)],
        3 => vec![Value::Null, json!({"s":"a"}), json!({"s":"ab"}), json!({"s":"ba"})],
        4 => vec![Value::Null, json!({"d":100}), json!({"d":200})],
        5 => vec![Value::Null, json!({"b":true}), json!({"b":false})],
        6 => vec![Value::Null, json!({"i":1}), json!({"i":2})],
        _ => vec![Value::Null, json!({"s":"a"}), json!({"s":"\u{e9}t\u{e9}"})],
    }
}

fn col(i: usize) -> Value { json!({"col": i}) }
fn lit(v: Value) -> Value { json!({"lit": v}) }
fn bin(op: &str, a: Value, b: Value) -> Value { json!({"bin": [op, a, b]}) }
fn un(op: &str, a: Value) -> Value { json!({"un": [op, a]}) }

#[derive(Clone, Copy, PartialEq)]
enum T { Int, F64, Str, Date, Bool }

fn literal(r: &mut Rng, t: T) -> Value {
    match t {
        T::Int => lit(json!({"i": *r.pick(&[0i64, 1, 2, 3, 7, -1])})),
        T::F64 => lit(fbits(*r.pick(&[0.5f64, 1.0, 2.5, 2.0, -1.5, 0.0]))),
        T::Str => lit(json!({"s": *r.pick(&["a", "ab", "ba", "b", "", "\u{e9}t\u{e9}"])})),
        T::Date => lit(json!({"d": *r.pick(&[100i64, 150, 200])})),
        T::Bool => lit(json!({"b": r.chance(1, 2)})),
    }
}
fn column(r: &mut Rng, t: T) -> Value {
    match t {
        T::Int => col(*r.pick(&[0usize, 1])),
        T::F64 => col(2),
        T::Str => col(*r.pick(&[3usize, 7])),
        T::Date => col(4),
        T::Bool => col(5),
    }
}
fn nullable_lit(t: T) -> bool { matches!(t, T::Int | T::F64 | T::Str) }

/// scalar of the exact arrow type of `t` (Int64 / Float64 / Utf8 / Date32 / Boolean)
fn scalar_e(r: &mut Rng, t: T, depth: u32) -> Value {
    if t == T::Bool && depth > 0 && r.chance(1, 2) { return boolean(r, depth - 1); }
    if depth == 0 || r.chance(2, 5) {
        return if r.chance(3, 5) { column(r, t) } else { literal(r, t) };
    }
    match r.below(6) {
        0 if matches!(t, T::Int | T::F64) => {
            let op = *r.pick(&["add", "sub", "mul"]);
            // an f64 result may mix an Int64 operand in (coerce_numeric_types → Float64)
            let (ta, tb) = if t == T::F64 && r.chance(1, 3) { if r.chance(1, 2) { (T::Int, T::F64) } else { (T::F64, T::Int) } } else { (t, t) };
            bin(op, scalar_e(r, ta, depth - 1), scalar_e(r, tb, depth - 1))
        }
        1 if matches!(t, T::Int | T::F64) => un("neg", scalar_e(r, t, depth - 1)),
        0 | 1 if t == T::Str => bin("concat", scalar_e(r, t, depth - 1), scalar_e(r, t, depth - 1)),
        2 | 3 => {
            // CASE WHEN b THEN s [WHEN b THEN s] [ELSE s | ELSE NULL]   (a NULL literal in THEN position makes the engine fail with a cast error)
            let mut arms = vec![boolean(r, depth - 1), scalar_e(r, t, depth - 1)];
            if r.chance(1, 3) { arms.push(boolean(r, depth - 1)); arms.push(scalar_e(r, t, depth - 1)); }
            match r.below(3) { 0 => {} 1 if nullable_lit(t) => arms.push(lit(Value::Null)), _ => arms.push(scalar_e(r, t, depth - 1)) }
            json!({"case": arms})
        }
        4 => {
            let n = 2 + r.below(2);
            let mut es: Vec<Value> = (0..n).map(|_| scalar_e(r, t, depth - 1)).collect();
            if nullable_lit(t) && r.chance(1, 4) { let k = r.below(n) as usize; es[k] = lit(Value::Null); if es.iter().all(|e| e["lit"].is_null() && e.get("lit").is_some()) { es[0] = column(r, t); } }
            json!({"coalesce": es})
        }
        _ => json!({"nullif": [scalar_e(r, t, depth - 1), scalar_e(r, t, depth - 1)]}),
    }
}

/// comparison operand: numeric classes may mix Int64 / Int32 column / Float64 (coercion)
fn operand(r: &mut Rng, t: T, depth: u32) -> Value {
    match t {
        T::Int if r.chance(1, 6) => col(6),
        T::Int if r.chance(1, 8) => scalar_e(r, T::F64, depth),
        T::F64 if r.chance(1, 6) => scalar_e(r, T::Int, depth),
        _ => scalar_e(r, t, depth),
    }
}
fn item(r: &mut Rng, t: T) -> Value {
    match r.below(10) {
        0 | 1 if nullable_lit(t) => lit(Value::Null),
        2 | 3 => column(r, t),
        _ => literal(r, t),
    }
}

fn atom(r: &mut Rng, depth: u32) -> Value {
    let t = *r.pick(&[T::Int, T::Int, T::F64, T::Str, T::Date, T::Bool]);
    match r.below(12) {
        0 | 1 | 2 => {
            let op = *r.pick(&["eq", "ne", "lt", "le", "gt", "ge"]);
            let a = operand(r, t, depth);
            let b = if nullable_lit(t) && r.chance(1, 12) { lit(Value::Null) } else { operand(r, t, depth) };
            bin(op, a, b)
        }
        3 => un(if r.chance(1, 2) { "isnull" } else { "isnotnull" }, if r.chance(1, 5) { col(6) } else { scalar_e(r, t, depth) }),
        4 | 5 | 6 => {
            let t = if t == T::Bool { T::Int } else { t };
            let n = 1 + r.below(4);
            let all_lit = t == T::Str && r.chance(1, 2);
            let items: Vec<Value> = (0..n).map(|_| if all_lit { literal(r, t) } else { item(r, t) }).collect();
            json!({"inlist": [operand(r, t, depth), items, r.chance(1, 3)]})
        }
        7 | 8 => {
            let t = if t == T::Bool { T::Int } else { t };
            json!({"between": [operand(r, t, depth), item(r, t), item(r, t), r.chance(1, 3)]})
        }
        9 | 10 => {
            let pats = ["a%", "%a", "%b%", "a_", "_", "%", "", "a", "%a_", "_b%", "\u{e9}%", "_t_", "%%", "a%b", "%_%"];
            let s = if r.chance(3, 4) { column(r, T::Str) } else { scalar_e(r, T::Str, depth) };
            let p = if r.chance(5, 6) { lit(json!({"s": *r.pick(&pats)})) } else { column(r, T::Str) };
            bin(if r.chance(2, 3) { "like" } else { "notlike" }, s, p)
        }
        _ => if r.chance(4, 5) { col(5) } else { lit(json!({"b": r.chance(1, 2)})) },
    }
}

fn boolean(r: &mut Rng, depth: u32) -> Value {
    if depth == 0 { return atom(r, 0); }
    match r.below(16) {
        0..=3 => bin("and", boolean(r, depth - 1), boolean(r, depth - 1)),
        4..=7 => bin("or", boolean(r, depth - 1), boolean(r, depth - 1)),
        8 | 9 => un("not", boolean(r, depth - 1)),
        10 => json!({"case": [boolean(r, depth - 1), boolean(r, depth - 1), boolean(r, depth - 1)]}),
        11 => json!({"coalesce": [boolean(r, depth - 1), boolean(r, depth - 1)]}),
        _ => atom(r, depth.min(2)),
    }
}

fn columns_of(e: &Value, acc: &mut Vec<usize>) {
    match e {
        Value::Object(m) => {
            if let Some(i) = m.get("col").and_then(|x| x.as_u64()) { if !acc.contains(&(i as usize)) { acc.push(i as usize); } }
            if m.contains_key("lit") { return; }
            for v in m.values() { columns_of(v, acc); }
        }
        Value::Array(a) => for v in a { columns_of(v, acc); },
        _ => {}
    }
}

/// rows = all combinations of the referenced columns' domains (≤ 256), other columns random; else 200 sampled rows + the all-NULL row
pub fn rows_for(r: &mut Rng, e: &Value) -> Vec<Value> {
    let mut cs = vec![];
    columns_of(e, &mut cs);
    cs.sort();
    let total: usize = cs.iter().map(|c| domain(*c).len()).product();
    let ncols = SCHEMA.len();
    let mut rows = vec![];
    if total <= 256 {
        for k in 0..total {
            let mut row: Vec<Value> = (0..ncols).map(|ci| { let d = domain(ci); d[r.below(d.len() as u64) as usize].clone() }).collect();
            let mut q = k;
            for c in &cs { let d = domain(*c); row[*c] = d[q % d.len()].clone(); q /= d.len(); }
            rows.push(Value::Array(row));
        }
    } else {
        rows.push(Value::Array(vec![Value::Null; ncols]));
        for _ in 0..200 {
            rows.push(Value::Array((0..ncols).map(|ci| { let d = domain(ci); d[r.below(d.len() as u64) as usize].clone() }).collect()));
        }
    }
    rows
}

// exhaustive stream: AND/OR/NOT trees over `a` comparison atoms, children of depth ≤ d-1
fn tree_count(d: u32, a: u64) -> u64 { if d == 0 { a } else { let t = tree_count(d - 1, a); 2 * t + 2 * t * t } }
fn enum_atom(k: u64) -> Value {
    match k { 0 => bin("eq", col(0), lit(json!({"i":1}))), 1 => bin("eq", col(1), lit(json!({"i":1}))), _ => bin("ge", col(4), lit(json!({"d":150}))) }
}
fn tree(idx: u64, d: u32, a: u64) -> Value {
    if d == 0 { return enum_atom(idx % a); }
    let t = tree_count(d - 1, a);
    if idx < t { return tree(idx, d - 1, a); }
    let idx = idx - t;
    if idx < t { return un("not", tree(idx, d - 1, a)); }
    let idx = idx - t;
    let op = if idx / (t * t) == 0 { "and" } else { "or" };
    let rem = idx % (t * t);
    bin(op, tree(rem / t, d - 1, a), tree(rem % t, d - 1, a))
}

fn make_case(r: &mut Rng, e: Value, pred: bool) -> Value {
    let rows = rows_for(r, &e);
    json!({"schema": SCHEMA, "rows": rows, "expr": wire(&e), "pred": pred})
}

pub fn main(o: &Opts) {
    if let Some(p) = &o.replay { for c in replay_cases(p) { let i = run_case(&c); emit(c, i); } return; }
    let mut r = Rng::new(o.seed ^ 0xC02);
    let e1 = tree_count(2, 3).min(o.cases as u64);                 // 1200: all trees of depth ≤ 2 over three atoms
    let e2 = if o.cases >= 150_000 { tree_count(3, 2) } else { 0 }; // 195312: all trees of depth ≤ 3 over two atoms (thorough)
    for n in 0..o.cases as u64 {
        let e = if n < e1 { tree(n, 2, 3) }
            else if n < e1 + e2 { tree(n - e1, 3, 2) }
            else {
                let depth = *r.pick(&[0u32, 1, 1, 2, 2, 2, 3, 3, 4]);
                boolean(&mut r, depth)
            };
        // one in eight random cases is a projection of a scalar (values incl. NULL-ness), the rest are predicates
        let proj = n >= e1 + e2 && r.chance(1, 8);
        let e = if proj { let t = *r.pick(&[T::Int, T::F64, T::Str, T::Date]); scalar_e(&mut r, t, 2) } else { e };
        let c = make_case(&mut r, e, !proj);
        let i = run_case(&c);
        emit(c, i);
    }
}
