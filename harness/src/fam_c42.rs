// FAMILY: C42
//! C42: parse_cpulist / workers_for. Cases: {"kind":"cpulist","s":..,"denotes":[..]?} | {"kind":"workers","work","pool"}
use crate::common::*;
use crate::rng::Rng;
use query_engine::execution::topology::{verif_parse_cpulist, workers_for};
use serde_json::{json, Value};

fn ws(r: &mut Rng) -> String {
    let n = r.below(3);
    (0..n).map(|_| *r.pick(&[' ', '\t', ' ', '\n'])).collect()
}
fn num(r: &mut Rng, n: u64) -> String {
    let mut s = String::new();
    if r.chance(1, 8) { s.push('+'); }
    for _ in 0..r.below(3) { if r.chance(1, 3) { s.push('0'); } }
    s.push_str(&n.to_string());
    s
}

fn rendered(r: &mut Rng) -> Value {
    let universe = *r.pick(&[8u64, 40, 300, 5000]);
    let k = r.below(12);
    let mut items: Vec<(u64, u64)> = vec![];
    for _ in 0..k {
        let a = r.below(universe);
        if r.chance(1, 2) { items.push((a, a)); } else { let len = r.below(9); items.push((a, a + len)); }
    }
    if r.chance(1, 4) && !items.is_empty() { let d = items[r.below(items.len() as u64) as usize]; items.push(d); }
    let mut set = std::collections::BTreeSet::new();
    let mut parts = vec![];
    for (a, b) in &items {
        for c in *a..=*b { set.insert(c); }
        if a == b && r.chance(2, 3) { parts.push(format!("{}{}{}", ws(r), num(r, *a), ws(r))); }
        else { parts.push(format!("{}{}{}-{}{}{}", ws(r), num(r, *a), ws(r), ws(r), num(r, *b), ws(r))); }
        if r.chance(1, 6) { parts.push(ws(r)); }
    }
    let s = parts.join(",");
    json!({"kind":"cpulist","s":s,"denotes":set.into_iter().collect::<Vec<_>>()})
}

fn junk(r: &mut Rng) -> Value {
    let toks = ["0","1","7","12","255","1023","18446744073709551615","18446744073709551616","99999999999999999999999",
        "-","-","+","+5","-5","5-","3-1","1-2-3","a","x9","0x10","1.5"," ","\t",",",",",",","\u{a0}","\u{3000}4","\u{2003}","4\u{85}",
        "2-4","10-12"," 6 - 8 ","+1-+3","1 2","١","٣-٤","","\r\n","\u{b}","\u{c}7"];
    let n = r.below(8);
    let mut s = String::new();
    for i in 0..n {
        if i > 0 && r.chance(3, 4) { s.push(','); }
        s.push_str(*r.pick(&toks));
    }
    // never build a range with a huge upper end (unbounded allocation in the real code; outside this property)
    let huge = s.split(',').any(|p| p.contains('-') && p.chars().filter(|c| c.is_ascii_digit()).count() > 8);
    if huge { return json!({"kind":"cpulist","s":"7-9,x"}); }
    json!({"kind":"cpulist","s":s})
}

fn workers(r: &mut Rng) -> Value {
    let b = [0u64, 1, 2, 3, 7, 8, 16, 64, 1 << 20, u64::MAX - 1, u64::MAX];
    let w = if r.chance(1, 2) { *r.pick(&b) } else { r.below(40) };
    let p = if r.chance(1, 2) { *r.pick(&b) } else { r.below(40) };
    // JSON numbers above 2^53 are shipped exactly as integers by serde_json (u64)
    json!({"kind":"workers","work":w,"pool":p})
}

pub fn run_case(c: &Value) -> Value {
    let c2 = c.clone();
    guarded(move || match c2["kind"].as_str().unwrap_or("") {
        "cpulist" => json!({"out": verif_parse_cpulist(c2["s"].as_str().unwrap_or(""))}),
        "workers" => json!({"out": workers_for(c2["work"].as_u64().unwrap() as usize, c2["pool"].as_u64().unwrap() as usize)}),
        _ => json!({"bad_case": true}),
    })
}

pub fn main(o: &Opts) {
    if let Some(p) = &o.replay { for c in replay_cases(p) { let i = run_case(&c); emit(c, i); } return; }
    let mut r = Rng::new(o.seed ^ 0xC42);
    for n in 0..o.cases {
        let c = match n % 5 { 0 | 1 => rendered(&mut r), 2 | 3 => junk(&mut r), _ => workers(&mut r) };
        let i = run_case(&c);
        emit(c, i);
    }
}
