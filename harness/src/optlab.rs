//! Optimizer lab shared by the optimizer families (C32, C31, C03, C43): small tables registered in memory or written as
//! Parquet (with or without footer statistics), bind / optimize with a chosen rule list / execute a LogicalPlan on the
//! REAL engine through its public API (the same steps `ExecutionContext::sql` performs), canonical answers.
#![allow(dead_code)]
use arrow::array::*;
use arrow::datatypes::{DataType, Field, Schema, SchemaRef};
use arrow::record_batch::RecordBatch;
use futures::TryStreamExt;
use query_engine::execution::{create_memory_pool, ExecutionConfig};
use query_engine::optimizer::{self, Optimizer, OptimizerRule};
use query_engine::physical::operators::{MemoryTable, TableProvider, TableStatistics};
use query_engine::physical::PhysicalPlanner;
use query_engine::planner::{Binder, InMemoryCatalog, LogicalPlan, PlanSchema, SchemaField};
use query_engine::{ParquetTable, QueryError};
use serde_json::{json, Value};
use std::collections::HashMap;
use std::sync::{Arc, OnceLock};

#[derive(Clone, Copy, Debug, PartialEq, Eq)]
pub enum CT { I64, I32, F64, Str, Vec(usize) }
impl CT {
    pub fn name(self) -> String { match self { CT::I64 => "i64".into(), CT::I32 => "i32".into(), CT::F64 => "f64".into(), CT::Str => "str".into(), CT::Vec(n) => format!("vec{}", n) } }
    pub fn parse(s: &str) -> CT { match s { "i64" => CT::I64, "i32" => CT::I32, "f64" => CT::F64, "str" => CT::Str, x if x.starts_with("vec") => CT::Vec(x[3..].parse().unwrap_or(2)), _ => CT::I64 } }
    pub fn arrow(self) -> DataType {
        match self { CT::I64 => DataType::Int64, CT::I32 => DataType::Int32, CT::F64 => DataType::Float64, CT::Str => DataType::Utf8,
            CT::Vec(n) => DataType::FixedSizeList(Arc::new(Field::new("item", DataType::Float32, true)), n as i32) }
    }
}

/// cell values: wire format of lean/Driver/SqlJson.lean (null | {"i"} | {"f": bits} | {"s"}); vectors: {"v":[f32 bit patterns as f64 bits]}
#[derive(Clone, Debug, PartialEq)]
pub enum V { Null, I(i64), F(f64), S(String), B(bool), Vecf(Vec<f32>) }
impl V {
    pub fn json(&self) -> Value {
        match self { V::Null => Value::Null, V::I(i) => json!({"i": i}), V::F(x) => json!({"f": x.to_bits()}), V::S(s) => json!({"s": s}), V::B(b) => json!({"b": b}),
            V::Vecf(v) => json!({"v": v.iter().map(|x| (*x as f64).to_bits()).collect::<Vec<_>>()}) }
    }
    pub fn from_json(v: &Value) -> V {
        if v.is_null() { return V::Null; }
        if let Some(i) = v.get("i").and_then(|x| x.as_i64()) { return V::I(i); }
        if let Some(b) = v.get("f").and_then(|x| x.as_u64()) { return V::F(f64::from_bits(b)); }
        if let Some(s) = v.get("s").and_then(|x| x.as_str()) { return V::S(s.into()); }
        if let Some(b) = v.get("b").and_then(|x| x.as_bool()) { return V::B(b); }
        if let Some(a) = v.get("v").and_then(|x| x.as_array()) { return V::Vecf(a.iter().map(|x| f64::from_bits(x.as_u64().unwrap_or(0)) as f32).collect()); }
        V::Null
    }
    fn sort_key(&self) -> String {
        match self { V::Null => "0".into(), V::B(b) => format!("1{}", b), V::I(i) => format!("2{:020}", (*i as i128) + (1i128 << 63)), V::F(x) => format!("3{:020}", x.to_bits()),
            V::S(s) => format!("4{}", s), V::Vecf(v) => format!("5{:?}", v) }
    }
}

#[derive(Clone, Debug)]
pub struct Tbl {
    pub name: String,
    pub cols: Vec<(String, CT)>,
    pub rows: Vec<Vec<V>>,
    /// Parquet only: max rows per row group (0 = one row group)
    pub rg: usize,
    /// Parquet only: number of files the rows are cut into (>= 1)
    pub files: usize,
    /// Parquet only: index of a file written WITHOUT column statistics (usize::MAX = none); `all_nostats` = every file
    pub nostats_file: usize,
    pub all_nostats: bool,
}
impl Tbl {
    pub fn new(name: &str, cols: Vec<(String, CT)>, rows: Vec<Vec<V>>) -> Tbl { Tbl { name: name.into(), cols, rows, rg: 0, files: 1, nostats_file: usize::MAX, all_nostats: false } }
    pub fn schema(&self) -> SchemaRef { Arc::new(Schema::new(self.cols.iter().map(|(n, t)| Field::new(n, t.arrow(), true)).collect::<Vec<_>>())) }
    pub fn batch(&self, rows: &[Vec<V>]) -> RecordBatch {
        let mut arrays: Vec<ArrayRef> = vec![];
        for (ci, (_, t)) in self.cols.iter().enumerate() {
            let a: ArrayRef = match t {
                CT::I64 => Arc::new(Int64Array::from(rows.iter().map(|r| if let V::I(i) = &r[ci] { Some(*i) } else { None }).collect::<Vec<_>>())),
                CT::I32 => Arc::new(Int32Array::from(rows.iter().map(|r| if let V::I(i) = &r[ci] { Some(*i as i32) } else { None }).collect::<Vec<_>>())),
                CT::F64 => Arc::new(Float64Array::from(rows.iter().map(|r| if let V::F(x) = &r[ci] { Some(*x) } else { None }).collect::<Vec<_>>())),
                CT::Str => Arc::new(StringArray::from(rows.iter().map(|r| if let V::S(s) = &r[ci] { Some(s.clone()) } else { None }).collect::<Vec<_>>())),
                CT::Vec(n) => {
                    let mut b = FixedSizeListBuilder::new(Float32Builder::new(), *n as i32);
                    for r in rows {
                        if let V::Vecf(v) = &r[ci] { for j in 0..*n { b.values().append_value(*v.get(j).unwrap_or(&0.0)); } b.append(true); }
                        else { for _ in 0..*n { b.values().append_null(); } b.append(false); }
                    }
                    let arr = b.finish();
                    // the builder's child field is nullable "item"; rebuild with the declared field so schemas match exactly
                    let (_, _, values, nulls) = arr.into_parts();
                    Arc::new(FixedSizeListArray::new(Arc::new(Field::new("item", DataType::Float32, true)), *n as i32, values, nulls))
                }
            };
            arrays.push(a);
        }
        RecordBatch::try_new(self.schema(), arrays).expect("batch")
    }
    pub fn to_json(&self) -> Value {
        json!({"name": self.name, "cols": self.cols.iter().map(|(n, t)| json!([n, t.name()])).collect::<Vec<_>>(),
               "rows": self.rows.iter().map(|r| Value::Array(r.iter().map(|v| v.json()).collect())).collect::<Vec<_>>(),
               "rg": self.rg, "files": self.files, "nostats_file": if self.nostats_file == usize::MAX { Value::Null } else { json!(self.nostats_file) }, "all_nostats": self.all_nostats})
    }
    pub fn from_json(v: &Value) -> Tbl {
        let e = vec![];
        Tbl { name: v["name"].as_str().unwrap_or("t").into(),
              cols: v["cols"].as_array().unwrap_or(&e).iter().map(|c| (c[0].as_str().unwrap_or("c").to_string(), CT::parse(c[1].as_str().unwrap_or("i64")))).collect(),
              rows: v["rows"].as_array().unwrap_or(&e).iter().map(|r| r.as_array().unwrap_or(&e).iter().map(V::from_json).collect()).collect(),
              rg: v["rg"].as_u64().unwrap_or(0) as usize, files: v["files"].as_u64().unwrap_or(1).max(1) as usize,
              nostats_file: v["nostats_file"].as_u64().map(|x| x as usize).unwrap_or(usize::MAX), all_nostats: v["all_nostats"].as_bool().unwrap_or(false) }
    }
}

pub fn tables_json(ts: &[Tbl]) -> Value { Value::Array(ts.iter().map(|t| t.to_json()).collect()) }
pub fn tables_from_json(v: &Value) -> Vec<Tbl> { v.as_array().map(|a| a.iter().map(Tbl::from_json).collect()).unwrap_or_default() }

pub type Provs = Vec<(String, Arc<dyn TableProvider>)>;

static DIR_SEQ: std::sync::atomic::AtomicU64 = std::sync::atomic::AtomicU64::new(0);
pub fn scratch_dir() -> std::path::PathBuf {
    let base = std::env::var("IQE_SCRATCH").unwrap_or_else(|_| "/verif/harness/scratch/manual".into());
    let d = std::path::PathBuf::from(base).join(format!("opt-{}-{}", std::process::id(), DIR_SEQ.fetch_add(1, std::sync::atomic::Ordering::SeqCst)));
    let _ = std::fs::create_dir_all(&d);
    d
}

/// memory providers (one batch per table; no statistics)
pub fn mem_providers(ts: &[Tbl]) -> Provs {
    ts.iter().map(|t| (t.name.clone(), Arc::new(MemoryTable::new(t.schema(), vec![t.batch(&t.rows)])) as Arc<dyn TableProvider>)).collect()
}

/// Parquet providers: each table in its own directory under `dir` (caller removes `dir`)
pub fn parquet_providers(ts: &[Tbl], dir: &std::path::Path) -> Result<Provs, String> {
    use parquet::file::properties::{EnabledStatistics, WriterProperties};
    let mut out: Provs = vec![];
    for t in ts {
        let d = dir.join(&t.name);
        std::fs::create_dir_all(&d).map_err(|e| e.to_string())?;
        let nf = t.files.max(1);
        let n = t.rows.len();
        for f in 0..nf {
            let lo = n * f / nf; let hi = n * (f + 1) / nf;
            if lo == hi && f > 0 { continue; }
            let batch = t.batch(&t.rows[lo..hi]);
            let file = std::fs::File::create(d.join(format!("part-{:03}.parquet", f))).map_err(|e| e.to_string())?;
            let mut pb = WriterProperties::builder();
            if t.rg > 0 { pb = pb.set_max_row_group_size(t.rg); }
            if t.all_nostats || t.nostats_file == f { pb = pb.set_statistics_enabled(EnabledStatistics::None); }
            let mut w = parquet::arrow::ArrowWriter::try_new(file, t.schema(), Some(pb.build())).map_err(|e| e.to_string())?;
            w.write(&batch).map_err(|e| e.to_string())?;
            w.close().map_err(|e| e.to_string())?;
        }
        let pt = ParquetTable::try_new(&d).map_err(|e| e.to_string())?;
        out.push((t.name.clone(), Arc::new(pt)));
    }
    Ok(out)
}

pub fn plan_schema(s: &Schema) -> PlanSchema {
    PlanSchema::new(s.fields().iter().map(|f| SchemaField::new(f.name().clone(), f.data_type().clone()).with_nullable(f.is_nullable())).collect())
}

pub fn bind(provs: &Provs, sql: &str) -> Result<LogicalPlan, QueryError> {
    let stmt = query_engine::parser::parse_sql(sql)?;
    let mut icat = InMemoryCatalog::new();
    for (n, p) in provs { icat.register_table(n.clone(), plan_schema(&p.schema())); }
    Binder::new(&icat).bind(&stmt)
}

pub fn stats_of(provs: &Provs) -> HashMap<String, TableStatistics> {
    let mut m = HashMap::new();
    for (n, p) in provs { if let Some(s) = p.statistics() { m.insert(n.clone(), s); } }
    m
}

pub fn stats_json(stats: &HashMap<String, TableStatistics>) -> Value {
    let mut names: Vec<&String> = stats.keys().collect(); names.sort();
    Value::Array(names.iter().map(|n| {
        let s = &stats[*n];
        let mut cols: Vec<&String> = s.column_stats.keys().collect(); cols.sort();
        json!({"table": n, "rows": s.row_count, "cols": cols.iter().map(|c| { let cs = &s.column_stats[*c];
            json!({"n": c, "min": cs.min_i64, "max": cs.max_i64, "nulls": cs.null_count, "ndv": cs.ndv_est}) }).collect::<Vec<_>>()})
    }).collect())
}

/// production rule list, in `Optimizer::new` order
pub fn production_rules() -> Vec<Arc<dyn OptimizerRule>> {
    vec![
        Arc::new(optimizer::ConstantFolding), Arc::new(optimizer::DeriveOrPredicates), Arc::new(optimizer::PredicatePushdown),
        Arc::new(optimizer::FlattenDependentJoin), Arc::new(optimizer::SubqueryDecorrelation), Arc::new(optimizer::SemiJoinPushdown),
        Arc::new(optimizer::JoinReorder::new()), Arc::new(optimizer::PredicatePushdown), Arc::new(optimizer::HavingTotalCse),
        Arc::new(optimizer::GroupKeyReduction::new()), Arc::new(optimizer::EagerAggregation::new()), Arc::new(optimizer::PackedGroupKeys::new()),
        Arc::new(optimizer::PackedJoinKeys::new()), Arc::new(optimizer::ProjectionPushdown), Arc::new(optimizer::VectorSearchPushdown),
    ]
}
/// distinct rule names of the production list
pub fn rule_names() -> Vec<String> {
    let mut v: Vec<String> = vec![];
    for r in production_rules() { let n = r.name().to_string(); if !v.contains(&n) { v.push(n); } }
    v
}
/// one rule by name (stats-free instance; `optimize` swaps in the statistics-aware instance when statistics are given)
pub fn rule_by_name(name: &str) -> Option<Arc<dyn OptimizerRule>> { production_rules().into_iter().find(|r| r.name() == name) }

/// `Optimizer::with_rules(rules)[.with_table_statistics(stats)].optimize(plan)` — the production entry point with a chosen rule list
pub fn optimize(rules: Vec<Arc<dyn OptimizerRule>>, stats: &HashMap<String, TableStatistics>, plan: LogicalPlan) -> Result<LogicalPlan, QueryError> {
    let o = Optimizer::with_rules(rules);
    let o = if stats.is_empty() { o } else { o.with_table_statistics(stats.clone()) };
    o.optimize(plan)
}
pub fn optimize_production(stats: &HashMap<String, TableStatistics>, plan: LogicalPlan) -> Result<LogicalPlan, QueryError> {
    let o = Optimizer::new();
    let o = if stats.is_empty() { o } else { o.with_table_statistics(stats.clone()) };
    o.optimize(plan)
}
/// the statistics-aware instance of one rule applied ONCE (`rule.optimize(&plan)`), no fixpoint loop
pub fn apply_rule_once(name: &str, stats: &HashMap<String, TableStatistics>, plan: &LogicalPlan) -> Option<Result<LogicalPlan, QueryError>> {
    let r: Arc<dyn OptimizerRule> = if stats.is_empty() { rule_by_name(name)? } else {
        match name {
            "JoinReorder" => Arc::new(optimizer::JoinReorder::with_table_statistics(stats.clone())),
            "EagerAggregation" => Arc::new(optimizer::EagerAggregation::with_table_statistics(stats.clone())),
            "GroupKeyReduction" => Arc::new(optimizer::GroupKeyReduction::with_table_statistics(stats.clone())),
            "PackedGroupKeys" => Arc::new(optimizer::PackedGroupKeys::with_table_statistics(stats.clone())),
            "PackedJoinKeys" => Arc::new(optimizer::PackedJoinKeys::with_table_statistics(stats.clone())),
            _ => rule_by_name(name)?,
        }
    };
    Some(r.optimize(plan))
}

pub fn runtime() -> &'static tokio::runtime::Runtime {
    static RT: OnceLock<tokio::runtime::Runtime> = OnceLock::new();
    RT.get_or_init(|| tokio::runtime::Builder::new_multi_thread().worker_threads(4).enable_all().build().expect("runtime"))
}

pub fn err_kind(e: &QueryError) -> &'static str {
    match e {
        QueryError::Parse(_) => "parse", QueryError::Bind(_) => "bind", QueryError::Plan(_) => "plan", QueryError::Execution(_) => "execution",
        QueryError::Type(_) => "type", QueryError::ColumnNotFound(_) => "column_not_found", QueryError::TableNotFound(_) => "table_not_found",
        QueryError::Internal(_) => "internal", QueryError::NotImplemented(_) => "not_implemented", _ => "other",
    }
}
pub fn err_json(e: &QueryError) -> Value { json!({"err": err_kind(e), "msg": e.to_string().chars().take(300).collect::<String>()}) }

pub fn batch_rows(b: &RecordBatch, out: &mut Vec<Vec<V>>) {
    let n = b.num_rows();
    let base = out.len();
    for _ in 0..n { out.push(Vec::with_capacity(b.num_columns())); }
    for c in b.columns() {
        let c: ArrayRef = match c.data_type() { DataType::Dictionary(_, v) => arrow::compute::cast(c.as_ref(), v).unwrap_or_else(|_| c.clone()), _ => c.clone() };
        for i in 0..n {
            let v = if c.is_null(i) { V::Null } else {
                match c.data_type() {
                    DataType::Int64 => V::I(c.as_any().downcast_ref::<Int64Array>().unwrap().value(i)),
                    DataType::Int32 => V::I(c.as_any().downcast_ref::<Int32Array>().unwrap().value(i) as i64),
                    DataType::Int16 => V::I(c.as_any().downcast_ref::<Int16Array>().unwrap().value(i) as i64),
                    DataType::Int8 => V::I(c.as_any().downcast_ref::<Int8Array>().unwrap().value(i) as i64),
                    DataType::UInt64 => V::I(c.as_any().downcast_ref::<UInt64Array>().unwrap().value(i) as i64),
                    DataType::UInt32 => V::I(c.as_any().downcast_ref::<UInt32Array>().unwrap().value(i) as i64),
                    DataType::Float64 => V::F(c.as_any().downcast_ref::<Float64Array>().unwrap().value(i)),
                    DataType::Float32 => V::F(c.as_any().downcast_ref::<Float32Array>().unwrap().value(i) as f64),
                    DataType::Utf8 => V::S(c.as_any().downcast_ref::<StringArray>().unwrap().value(i).to_string()),
                    DataType::LargeUtf8 => V::S(c.as_any().downcast_ref::<LargeStringArray>().unwrap().value(i).to_string()),
                    DataType::Boolean => V::B(c.as_any().downcast_ref::<BooleanArray>().unwrap().value(i)),
                    DataType::Date32 => V::I(c.as_any().downcast_ref::<Date32Array>().unwrap().value(i) as i64),
                    DataType::FixedSizeList(_, _) => {
                        let l = c.as_any().downcast_ref::<FixedSizeListArray>().unwrap().value(i);
                        match l.as_any().downcast_ref::<Float32Array>() { Some(f) => V::Vecf((0..f.len()).map(|j| f.value(j)).collect()), None => V::S(format!("{:?}", l)) }
                    }
                    other => V::S(format!("<{:?}>", other)),
                }
            };
            out[base + i].push(v);
        }
    }
}

/// physical planning + execution of every partition of a LogicalPlan (what `ExecutionContext::sql` does after optimizing)
pub async fn execute_async(provs: &Provs, plan: &LogicalPlan) -> Result<Vec<Vec<V>>, QueryError> {
    let config = ExecutionConfig::default();
    let pool = create_memory_pool(config.memory_limit);
    let mut planner = PhysicalPlanner::with_config(pool, config);
    for (n, p) in provs { planner.register_table(n.clone(), p.clone()); }
    planner.enable_subquery_execution();
    let physical = planner.create_physical_plan(plan)?;
    let parts = physical.output_partitions().max(1);
    let mut rows = vec![];
    for p in 0..parts {
        let stream = physical.execute(p).await?;
        let bs: Vec<RecordBatch> = stream.try_collect().await?;
        for b in &bs { batch_rows(b, &mut rows); }
    }
    Ok(rows)
}

/// canonical outcome of executing a plan: {"rows":[[..]..]} (sorted unless `ordered`) | {"digest":{"n":rows,"h":fnv64}} when large | {"err":..} | {"panic":..}
pub fn execute(provs: &Provs, plan: &LogicalPlan, ordered: bool) -> Value {
    let res = std::panic::catch_unwind(std::panic::AssertUnwindSafe(|| {
        runtime().block_on(async {
            match tokio::time::timeout(std::time::Duration::from_secs(60), execute_async(provs, plan)).await {
                Ok(Ok(rows)) => answer_json(rows, ordered),
                Ok(Err(e)) => err_json(&e),
                Err(_) => json!({"err": "timeout", "msg": "no answer within 60 s"}),
            }
        })
    }));
    match res {
        Ok(v) => v,
        Err(e) => {
            let msg = if let Some(s) = e.downcast_ref::<&str>() { s.to_string() } else if let Some(s) = e.downcast_ref::<String>() { s.clone() } else { "panic".into() };
            json!({"panic": msg.chars().take(300).collect::<String>()})
        }
    }
}

/// the production entry point: `ExecutionContext::sql` over the same providers
pub fn execute_sql(provs: &Provs, sql: &str, ordered: bool) -> Value {
    let res = std::panic::catch_unwind(std::panic::AssertUnwindSafe(|| {
        runtime().block_on(async {
            let mut ctx = query_engine::ExecutionContext::new();
            for (n, p) in provs { ctx.register_table_provider(n.clone(), p.clone()); }
            match tokio::time::timeout(std::time::Duration::from_secs(60), ctx.sql(sql)).await {
                Ok(Ok(r)) => { let mut rows = vec![]; for b in &r.batches { batch_rows(b, &mut rows); } answer_json(rows, ordered) }
                Ok(Err(e)) => err_json(&e),
                Err(_) => json!({"err": "timeout", "msg": "no answer within 60 s"}),
            }
        })
    }));
    match res {
        Ok(v) => v,
        Err(e) => {
            let msg = if let Some(s) = e.downcast_ref::<&str>() { s.to_string() } else if let Some(s) = e.downcast_ref::<String>() { s.clone() } else { "panic".into() };
            json!({"panic": msg.chars().take(300).collect::<String>()})
        }
    }
}

pub fn sort_rows(rows: &mut Vec<Vec<V>>) {
    rows.sort_by_cached_key(|r| r.iter().map(|v| v.sort_key()).collect::<Vec<_>>().join("\u{1}"));
}

pub const MAX_ROWS_INLINE: usize = 400;
pub fn answer_json(mut rows: Vec<Vec<V>>, ordered: bool) -> Value {
    if !ordered { sort_rows(&mut rows); }
    if rows.len() > MAX_ROWS_INLINE {
        let mut h: u64 = 0xcbf29ce484222325;
        for r in &rows { for v in r { for b in v.sort_key().bytes().chain(std::iter::once(0u8)) { h ^= b as u64; h = h.wrapping_mul(0x100000001b3); } } h ^= 0xff; h = h.wrapping_mul(0x100000001b3); }
        return json!({"digest": {"n": rows.len(), "h": format!("{:016x}", h)}});
    }
    json!({"rows": rows.iter().map(|r| Value::Array(r.iter().map(|v| v.json()).collect())).collect::<Vec<_>>()})
}

/// a closure run with providers for `ts` in the given layout ("mem" | "pq"); the Parquet scratch directory is removed afterwards
pub fn with_providers<T>(ts: &[Tbl], layout: &str, f: impl FnOnce(&Provs) -> T) -> Result<T, String> {
    if layout == "mem" { return Ok(f(&mem_providers(ts))); }
    let dir = scratch_dir();
    let r = parquet_providers(ts, &dir).map(|p| f(&p));
    let _ = std::fs::remove_dir_all(&dir);
    r
}
