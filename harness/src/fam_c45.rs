// FAMILY: C45
//! C45: gathered tables carry every column the statement reads.
//!
//! One case = one sqlgen statement that takes the GATHER path (`plan_distributed` refuses it), over a multi-table
//! catalog written as Parquet, one cluster of N in-process participants (machinery: `fam_c09::cluster`).
//!
//! case : {"prop":"C45","mode":"meta","sql","plan","tables","cat","tags","engine_defined","layout":{"files","rg"},"n":N,"self":K|null}
//! impl : {"gather": {"tables":[{"name","columns":[…]|null,"gather_sql"}]} | {"err":kind,"msg"},
//!         "refused": why plan_distributed refused (text),
//!         "optimized": exported optimized plan (the plan `collect_scans` walks; format lean/Driver/PlanJson.lean),
//!         "cte_optimized": the optimized plans of the case's "cte_sqls" (each top-level CTE definition behind its predecessors),
//!         "bound": exported bound plan of the ORIGINAL statement,
//!         "schemas": {table:[column names in provider schema order]},
//!         "runs": {"local": single-node outcome, "gathered": `execute_gathered(plan_gather(sql))`,
//!                  "full": `execute_gathered` over EVERY column of EVERY table (the path itself, without pruning)}}
use crate::common::*;
use crate::fams::fam_c09::cluster::*;
use crate::fams::fam_c32::planexport;
use crate::fams::fam_sql::sqlgen::{catalog::*, gen::*};
use crate::rng::Rng;
use query_engine::distributed::{execute_gathered, plan_distributed, plan_gather};
use query_engine::error::QueryError;
use serde_json::{json, Value};
use std::sync::Mutex;

fn plan_or_err(p: Result<query_engine::planner::LogicalPlan, QueryError>) -> Value {
    match p { Ok(x) => planexport::plan_json(&x), Err(e) => err_json(&e) }
}

pub fn run_case(case: &Value) -> Value {
    let env = match env_for(case) { Ok(e) => e, Err(e) => return json!({"setup_error": e}) };
    let sql = case["sql"].as_str().unwrap_or("");
    let n = case["n"].as_u64().unwrap_or(2) as usize;
    let self_ix = case["self"].as_u64().map(|x| x as usize);
    let refused = match std::panic::catch_unwind(std::panic::AssertUnwindSafe(|| plan_distributed(&env.base, sql))) {
        Ok(Ok(p)) => json!({"scatter": format!("{:?}", p.shape)}),
        Ok(Err(e)) => json!(e.to_string().chars().take(200).collect::<String>()),
        Err(_) => json!("panic"),
    };
    let gp = std::panic::catch_unwind(std::panic::AssertUnwindSafe(|| plan_gather(&env.base, sql)));
    let mut schemas = serde_json::Map::new();
    for name in &env.names {
        if let Some(p) = env.base.table_provider(name) { schemas.insert(name.clone(), json!(p.schema().fields().iter().map(|f| f.name().clone()).collect::<Vec<_>>())); }
    }
    let optimized = guarded(std::panic::AssertUnwindSafe(|| plan_or_err(env.base.optimized_plan(sql))));
    let bound = guarded(std::panic::AssertUnwindSafe(|| plan_or_err(env.base.logical_plan(sql))));
    // since /repo 6d3344d plan_gather also plans every top-level CTE definition on its own (behind the definitions before it)
    let empty = vec![];
    let derived: Vec<Value> = if case["cte_sqls"].is_array() { vec![] } else { cte_sqls_of_text(sql).into_iter().map(Value::String).collect() };
    let cte_optimized: Vec<Value> = case["cte_sqls"].as_array().unwrap_or(if case["cte_sqls"].is_array() { &empty } else { &derived }).iter()
        .map(|c| guarded(std::panic::AssertUnwindSafe(|| plan_or_err(env.base.optimized_plan(c.as_str().unwrap_or(""))))) ).collect();
    let mut runs = serde_json::Map::new();
    runs.insert("local".into(), run_local(&env, sql));
    let gather = match gp {
        Ok(Ok(plan)) => {
            let parts = participants(n, self_ix);
            let tr = InProc { peer: env.peer.clone(), served: Mutex::new(vec![]) };
            let out = guarded_block(async { match execute_gathered(&env.base, &plan, &parts, &tr).await { Ok(r) => batches_json(&r.result.batches), Err(e) => err_json(&e) } }, 60);
            runs.insert("gathered".into(), out);
            json!({"tables": plan.tables.iter().map(|t| json!({"name": t.name, "columns": t.columns, "gather_sql": t.gather_sql})).collect::<Vec<_>>()})
        }
        Ok(Err(e)) => err_json(&e),
        Err(_) => json!({"panic": "plan_gather"}),
    };
    runs.insert("full".into(), run_full_gather(&env, sql, n, self_ix));
    json!({"gather": gather, "refused": refused, "optimized": optimized, "cte_optimized": cte_optimized, "bound": bound, "schemas": Value::Object(schemas), "runs": Value::Object(runs)})
}

/// the statements `plan_gather` plans for the top-level CTE definitions: definition i behind the definitions before it
fn cte_sqls(q: &crate::fams::fam_sql::sqlgen::ast::QueryExpr) -> Vec<String> {
    (0..q.with.len()).map(|i| {
        let prefix = if i == 0 { String::new() } else { format!("WITH {} ", q.with[..i].iter().map(|(n, d)| format!("{} AS ({})", n, d.sql())).collect::<Vec<_>>().join(", ")) };
        format!("{}{}", prefix, q.with[i].1.sql())
    }).collect()
}

/// the same for a case that carries only the statement text (older corpus files): top-level `WITH n AS (…), m AS (…) body`
fn cte_sqls_of_text(sql: &str) -> Vec<String> {
    let Some(mut rest) = sql.strip_prefix("WITH ") else { return vec![] };
    let mut defs: Vec<(String, String)> = vec![];
    loop {
        let Some(p) = rest.find(" AS (") else { break };
        let name = rest[..p].to_string();
        let body = &rest[p + 5..];
        let (mut depth, mut in_str, mut end) = (1usize, false, None);
        for (i, c) in body.char_indices() {
            if in_str { if c == '\'' { in_str = false; } continue; }
            match c { '\'' => in_str = true, '(' => depth += 1, ')' => { depth -= 1; if depth == 0 { end = Some(i); break; } } _ => {} }
        }
        let Some(e) = end else { break };
        defs.push((name, body[..e].to_string()));
        rest = &body[e + 1..];
        match rest.strip_prefix(", ") { Some(r) => rest = r, None => break }
    }
    (0..defs.len()).map(|i| {
        let prefix = if i == 0 { String::new() } else { format!("WITH {} ", defs[..i].iter().map(|(n, d)| format!("{} AS ({})", n, d)).collect::<Vec<_>>().join(", ")) };
        format!("{}{}", prefix, defs[i].1)
    }).collect()
}

pub fn main(o: &Opts) {
    if let (Some(p), None) = (&o.replay, o.get("probe")) { for c in replay_cases(p) { let i = run_case(&c); emit(c, i); } return; }
    let mut copts = CatOpts::from_opts(o);
    if o.get("tables").is_none() { copts.max_tables = 4; }
    // `--opt probe="SELECT …"`: one statement over the seed's catalog: gather plan, exported plans, the three runs
    if let Some(sql) = o.get("probe") {
        let mut r = Rng::new(o.seed);
        let cat = match o.get("from") { Some(f) => Catalog::from_case(&replay_cases(f)[0]), None => gen_catalog(&mut r, &copts) };
        for t in &cat.tables { eprintln!("{} {:?} rows={}", t.name, t.cols.iter().map(|c| format!("{}:{}:{}%", c.name, c.cty.name(), c.null_pct)).collect::<Vec<_>>(), t.rows.len()); }
        let case = json!({"sql": sql, "tables": cat.tables_json(), "cat": cat.meta_json(), "layout": {"files": o.get_usize("files", 2), "rg": o.get_usize("rg", 5)}, "n": o.get_usize("n", 3), "self": 0});
        let i = run_case(&case);
        println!("refused: {}", i["refused"]);
        println!("gather: {}", i["gather"]);
        for (k, v) in i["runs"].as_object().unwrap() { println!("{k}: rows={:?} {}", v["ok"].as_array().map(|a| a.len()), v.to_string().chars().take(o.get_usize("show", 300)).collect::<String>()); }
        if o.get_usize("plans", 0) == 1 { println!("optimized: {}", i["optimized"]); println!("bound: {}", i["bound"]); }
        return;
    }
    let gopts = GenOpts::from_opts(o, "join,subquery,cte,setop,distinct,subquery,join,sort_limit,agg,cte");
    let per_cat = o.get_usize("per_cat", 8).max(1);
    let mut r = Rng::new(o.seed ^ 0xC45);
    let mut cat = gen_catalog(&mut r, &copts);
    let mut layout = json!({"files": 1, "rg": 1000});
    let mut n = 0usize; let mut attempts = 0usize;
    while n < o.cases && attempts < o.cases * 6 + 16 {
        if attempts % per_cat == 0 {
            cat = gen_catalog(&mut r, &copts);
            layout = json!({"files": 1 + r.below(3), "rg": *r.pick(&[2u64, 3, 5, 8, 16, 1000])});
        }
        attempts += 1;
        let mut qr = r.fork();
        let g = Gen::new(&mut qr, &cat, &gopts).generate(attempts);
        let nn = *r.pick(&[1usize, 2, 2, 3, 3, 4, 5, 8]);
        let self_ix = if r.chance(1, 4) { None } else { Some(r.below(nn as u64) as usize) };
        let case = json!({"prop": "C45", "mode": "meta", "sql": g.q.sql(), "plan": g.q.plan(0), "tables": cat.tables_json(), "cat": cat.meta_json(),
                          "tags": g.tags, "engine_defined": g.engine_defined, "layout": layout, "n": nn, "self": self_ix, "cte_sqls": cte_sqls(&g.q)});
        // only statements that take the gather path belong to this property
        let takes_gather = match env_for(&case) {
            Ok(env) => matches!(std::panic::catch_unwind(std::panic::AssertUnwindSafe(|| plan_distributed(&env.base, case["sql"].as_str().unwrap_or("")))), Ok(Err(QueryError::NotImplemented(_)))),
            Err(_) => true,
        };
        if !takes_gather { continue; }
        let imp = run_case(&case);
        emit(case, imp);
        n += 1;
    }
}
