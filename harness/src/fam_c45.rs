pub fn main(_o: &crate::common::Opts) {}
