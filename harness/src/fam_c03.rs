// FAMILY: C03
//! C03 (adversarial-statistics stream): optimization never changes a query's answer.
//! Case: {"kind":"stats","stream":s,"layout":"mem"|"pq","sql":text,"tables":[optlab Tbl…],"tags":[…],
//!        "neutral": null | {"sql":text?, "tables":[…]?, "what":"unique"|"rename"}   — the finding-specific neutraliser (DESIGN §3.4)
//!        "gate_cols":[{"table","col","unique_in_data":bool,"gate_unique":bool}…]     — generator's knowledge, cross-checked against the real statistics}
//! Impl: {"stats":[…], "cfgs":{name: answer…}, "plans":{name: Plan|{"err"}…}, "neutral":{"cfgs":{…}} | null}
//!   cfgs: "noopt" (bound plan straight to the PhysicalPlanner), "prod" (Optimizer::new + statistics), "only:<Rule>" for each
//!   statistics-driven rule alone (JoinReorder, GroupKeyReduction, EagerAggregation, PackedGroupKeys, PackedJoinKeys),
//!   "prod-stats" (production rules, statistics withheld), "sql" (ExecutionContext::sql — must equal "prod").
//!   answer = optlab canonical answer (sorted rows | digest | err | panic).
use crate::common::*;
use crate::fams::fam_c32::optlab::*;
use crate::fams::fam_c32::planexport;
use crate::rng::Rng;
use query_engine::planner::LogicalPlan;
use query_engine::QueryError;
use serde_json::{json, Value};

pub const STATS_RULES: &[&str] = &["JoinReorder", "GroupKeyReduction", "EagerAggregation", "PackedGroupKeys", "PackedJoinKeys"];

fn ints(rows: &[Vec<i64>]) -> Vec<Vec<V>> { rows.iter().map(|r| r.iter().map(|x| if *x == i64::MIN { V::Null } else { V::I(*x) }).collect()).collect() }
const NULL: i64 = i64::MIN;

/// key column values of one of the adversarial classes; returns (values, class tag, unique?)
fn key_column(r: &mut Rng, n: usize) -> (Vec<i64>, &'static str, bool) {
    match r.below(8) {
        0 => { let mut v: Vec<i64> = (1..=n as i64).collect(); r.shuffle(&mut v); (v, "k_dense_unique", true) }
        1 => { let mut v: Vec<i64> = (0..n as i64).map(|i| 10 + i * (1 + r.below(4) as i64)).collect(); r.shuffle(&mut v); (v, "k_sparse_unique", true) }
        2 | 3 => {
            // duplicates, but max - min + 1 >= row count: the range "looks" unique to min(non_null, max-min+1)
            let mut v: Vec<i64> = (0..n).map(|_| 1 + r.below((n as u64).max(2) / 2 + 1) as i64).collect();
            if n >= 1 { v[0] = 1; }
            if n >= 2 { v[n - 1] = n as i64 + 1 + r.below(5) as i64; }
            if n >= 3 { v[1] = v[0]; }
            let uniq = { let mut s = v.clone(); s.sort(); s.dedup(); s.len() == v.len() };
            (v, "k_dup_wide_range", uniq)
        }
        4 => { let v: Vec<i64> = (0..n).map(|_| r.below(3) as i64).collect(); let uniq = n <= 1; (v, "k_dup_narrow", uniq) }
        5 => { let mut v: Vec<i64> = (0..n as i64).map(|i| i - (n as i64) / 2).collect(); r.shuffle(&mut v); (v, "k_negative_unique", true) }
        6 => { let mut v: Vec<i64> = (1..=n as i64).collect(); r.shuffle(&mut v); if n >= 2 { v[0] = NULL; } (v, "k_nullable", false) }
        _ => { let v: Vec<i64> = (0..n).map(|i| if i % 2 == 0 { 7 } else { 7 + n as i64 }).collect(); let uniq = n <= 2; (v, "k_two_values_wide", uniq) }
    }
}

/// a "uniquified" copy of a key column inside the same [min, max] (the footer statistics min / max / null_count / row count
/// and hence ndv_est stay the same): one minimum and one maximum keep their positions, the other rows take the smallest
/// unused interior values.  None when the column has NULLs or the range is narrower than the row count.
fn uniquify(v: &[i64]) -> Option<Vec<i64>> {
    if v.is_empty() || v.iter().any(|x| *x == NULL) { return None; }
    let (lo, hi) = (*v.iter().min().unwrap(), *v.iter().max().unwrap());
    if hi - lo + 1 < v.len() as i64 { return None; }
    if v.len() == 1 { return Some(v.to_vec()); }
    let imin = v.iter().position(|x| *x == lo).unwrap();
    let imax = v.iter().rposition(|x| *x == hi).unwrap();
    let mut out = vec![0i64; v.len()];
    let mut next = lo + 1;
    for i in 0..v.len() {
        if i == imin { out[i] = lo; } else if i == imax { out[i] = hi; } else { out[i] = next; next += 1; }
    }
    Some(out)
}

/// Neutraliser of finding C03-F1 for a whole table: every NULL-free integer column that has duplicates although its
/// range is at least as wide as the table is long (exactly the columns the estimate `min(non_null, max-min+1)` can
/// mistake for unique) is made unique inside its range; statistics (min, max, NULL count, row count) stay the same.
fn neutralise_unique(t: &Tbl) -> Option<Tbl> {
    let mut out = t.clone();
    let mut changed = false;
    for ci in 0..t.cols.len() {
        if !matches!(t.cols[ci].1, CT::I64 | CT::I32) { continue; }
        let col: Vec<i64> = t.rows.iter().map(|r| if let V::I(i) = &r[ci] { *i } else { NULL }).collect();
        let mut s = col.clone(); s.sort(); s.dedup();
        if s.len() == col.len() { continue; }
        if let Some(u) = uniquify(&col) { for (ri, v) in u.iter().enumerate() { out.rows[ri][ci] = V::I(*v); } changed = true; }
    }
    if changed { Some(out) } else { None }
}

fn pq_opts(r: &mut Rng, t: &mut Tbl, layout: &str, tags: &mut Vec<String>) {
    if layout != "pq" { return; }
    t.rg = *r.pick(&[0usize, 0, 2, 3, 5]);
    t.files = 1 + r.below(2) as usize;
    match r.below(8) { 0 => { t.nostats_file = r.below(t.files as u64) as usize; tags.push("f:nostats_file".into()); } 1 => { t.all_nostats = true; tags.push("f:all_nostats".into()); } _ => {} }
}

fn second_key(r: &mut Rng, n: usize, tags: &mut Vec<String>) -> Vec<i64> {
    // second keys near powers of two (K = next power of two above the maximum), sometimes negative
    let p = 1i64 << (1 + r.below(5));
    let top = *r.pick(&[p - 1, p, p + 1, p - 2]);
    let neg = r.chance(1, 8);
    if neg { tags.push("f:negative_key".into()); }
    (0..n).map(|i| if neg && i == 0 { -1 - r.below(3) as i64 } else if i == n - 1 { top.max(0) } else { r.below((top.max(1)) as u64 + 1) as i64 }).collect()
}

/// Joins of tables that SHARE column names (ta, tb: id, k, fk, v; tc: id, k, k2, v) and self-joins through aliases, under an
/// IN / NOT IN / EXISTS / NOT EXISTS subquery predicate on a QUALIFIED column of either join input.  After decorrelation a Semi/Anti
/// join sits directly above the Inner/Cross join (or above a Filter over it); SemiJoinPushdown must pick the input the qualifier
/// names, not the first one that has a column of that bare name.  `k` differs row by row between the tables, so filtering on the
/// other table's column changes the answer.  Tag `shape:shared-name-semi`.
pub fn gen_shared_semi(r: &mut Rng) -> (Vec<Tbl>, String, Vec<String>) {
    let mut tags: Vec<String> = vec!["shape:shared-name-semi".into()];
    // the fifth column has a name of its own (ua / ub / uc): a predicate on it can be pushed by the unchanged rule
    let mk = |r: &mut Rng, name: &str, third: &str, own: &str, n: usize, nullable: bool| -> Tbl {
        let rows: Vec<Vec<i64>> = (0..n).map(|i| vec![i as i64 + 1, if nullable && r.chance(1, 6) { NULL } else { r.below(5) as i64 }, 1 + r.below(5) as i64, r.below(4) as i64, r.below(5) as i64]).collect();
        Tbl::new(name, vec![("id".into(), CT::I64), ("k".into(), CT::I64), (third.into(), CT::I64), ("v".into(), CT::I64), (own.into(), CT::I64)], ints(&rows))
    };
    let nullable = r.chance(1, 3);
    if nullable { tags.push("f:nullable_k".into()); }
    let (na, nb, nc) = (1 + r.below(8) as usize, 1 + r.below(10) as usize, r.below(7) as usize);
    let tables = vec![mk(r, "ta", "fk", "ua", na, nullable), mk(r, "tb", "fk", "ub", nb, nullable), mk(r, "tc", "k2", "uc", nc, false)];
    // FROM clause, its join condition when it goes to WHERE, and the qualifiers of its inputs (left to right)
    let (from, wjoin, quals, form): (&str, &str, Vec<&str>, &str) = match r.below(8) {
        0 | 1 => ("ta a JOIN tb b ON a.id = b.fk", "", vec!["a", "b"], "join"),
        2 => ("ta a, tb b", "a.id = b.fk", vec!["a", "b"], "comma"),
        3 => ("ta a JOIN ta b ON a.id = b.fk", "", vec!["a", "b"], "selfjoin"),
        4 => ("ta a CROSS JOIN tb b", "", vec!["a", "b"], "cross"),
        5 => ("ta JOIN tb ON ta.id = tb.fk", "", vec!["ta", "tb"], "noalias"),
        6 => ("ta a JOIN tb b ON a.id = b.fk JOIN tc c ON b.k = c.k2", "", vec!["a", "b", "c"], "three"),
        _ => ("tb b JOIN ta a ON a.id = b.fk", "", vec!["b", "a"], "join_swapped"),
    };
    tags.push(format!("f:from_{}", form));
    let side = r.below(quals.len() as u64) as usize;
    let q = quals[side];
    tags.push(format!("f:side_{}", if side == 0 { "left" } else { "right" }));
    let own_of = |q: &str| -> &'static str { match (form, q) { ("selfjoin", _) => "ua", (_, "a") | (_, "ta") => "ua", (_, "b") | (_, "tb") => "ub", _ => "uc" } };
    let col = *r.pick(&["k", "k", "k", "id", "v", "own", "own"]);
    let col = if col == "own" { tags.push("f:own_column".into()); own_of(q) } else { col };
    let sc = *r.pick(&["k2", "k", "k", "id"]);
    let w = if r.chance(1, 3) { format!(" WHERE v >= {}", r.below(3)) } else { String::new() };
    let pred = match r.below(6) {
        0 | 1 => { tags.push("f:in".into()); format!("{}.{} IN (SELECT {} FROM tc{})", q, col, sc, w) }
        2 => { tags.push("f:not_in".into()); format!("{}.{} NOT IN (SELECT id FROM tc{})", q, if nullable && col == "k" { "id" } else { col }, w) }
        3 | 4 => { tags.push("f:exists".into()); format!("EXISTS (SELECT 1 FROM tc s WHERE s.{} = {}.{}{})", sc, q, col, if w.is_empty() { String::new() } else { format!(" AND s.v >= {}", r.below(3)) }) }
        _ => { tags.push("f:not_exists".into()); format!("NOT EXISTS (SELECT 1 FROM tc s WHERE s.{} = {}.{})", sc, q, col) }
    };
    let mut conj: Vec<String> = vec![];
    if !wjoin.is_empty() { conj.push(wjoin.into()); }
    if r.chance(1, 3) { let o = quals[r.below(quals.len() as u64) as usize]; conj.push(format!("{}.v >= {}", o, r.below(3))); tags.push("f:extra_filter".into()); }
    if r.chance(1, 2) { conj.push(pred); } else { conj.insert(0, pred); }
    let proj: Vec<String> = quals.iter().enumerate().flat_map(|(i, q)| vec![format!("{}.id AS id{}", q, i), format!("{}.k AS k{}", q, i)]).collect();
    let sql = format!("SELECT {} FROM {} WHERE {}", proj.join(", "), from, conj.join(" AND "));
    (tables, sql, tags)
}

pub fn gen_adversarial(r: &mut Rng, layout: &str) -> Value {
    let stream = *r.pick(&["gkr", "gkr", "gkr_join", "gkr_join", "left_count", "packjoin", "packjoin", "packjoin_shadow", "packgroup", "packgroup_shadow", "eager", "eager", "shared_semi", "shared_semi"]);
    let mut tags: Vec<String> = vec![format!("s:{}", stream), format!("layout_{}", layout)];
    let mut tables: Vec<Tbl> = vec![];
    let mut neutral_tables: Option<Vec<Tbl>> = None;
    let mut neutral_sql: Option<String> = None;
    let mut gate_cols: Vec<Value> = vec![];
    let sql: String;
    let n = 1 + r.below(12) as usize;
    match stream {
        "gkr" => {
            let (k, class, uniq) = key_column(r, n);
            tags.push(format!("f:{}", class));
            let dep = r.chance(1, 2); // d a function of k, or independent
            if !dep { tags.push("f:d_independent".into()); }
            let d: Vec<i64> = (0..n).map(|i| if dep { if k[i] == NULL { 0 } else { (k[i] * 7) % 5 } } else { 10 * (i as i64 + 1) }).collect();
            let v: Vec<i64> = (0..n).map(|i| 1 << (i % 20)).collect();
            let rows: Vec<Vec<i64>> = (0..n).map(|i| vec![k[i], d[i], v[i]]).collect();
            let mut t = Tbl::new("t", vec![("k".into(), if r.chance(1, 4) { CT::I32 } else { CT::I64 }), ("d".into(), CT::I64), ("v".into(), CT::I64)], ints(&rows));
            pq_opts(r, &mut t, layout, &mut tags);
            gate_cols.push(json!({"table": "t", "col": "k", "unique_in_data": uniq}));
            if let Some(u) = uniquify(&k) { let rows2: Vec<Vec<i64>> = (0..n).map(|i| vec![u[i], d[i], v[i]]).collect(); let mut t2 = t.clone(); t2.rows = ints(&rows2); neutral_tables = Some(vec![t2]); }
            tables.push(t);
            let tail = match r.below(4) { 0 => " ORDER BY s DESC LIMIT 50", 1 => " ORDER BY k LIMIT 50", _ => "" };
            if !tail.is_empty() { tags.push("f:order_limit".into()); }
            sql = format!("SELECT k, d, SUM(v) AS s FROM t GROUP BY k, d{}", tail);
        }
        "gkr_join" => {
            // o(ok, od, ock) ⋈ l(lok, lv) [⋈ c(ck, ce)]: group by the (claimed) key of o plus columns functionally dependent on it
            let (ok, class, uniq) = key_column(r, n);
            tags.push(format!("f:{}", class));
            let od: Vec<i64> = (0..n).map(|i| 100 + i as i64 % 3).collect();
            let nc = 1 + r.below(5) as usize;
            let (ck, cclass, cuniq) = key_column(r, nc);
            tags.push(format!("f:c_{}", cclass));
            let ock: Vec<i64> = (0..n).map(|_| { let x = ck[r.below(nc as u64) as usize]; if x == NULL { 1 } else { x } }).collect();
            let orows: Vec<Vec<i64>> = (0..n).map(|i| vec![ok[i], od[i], ock[i]]).collect();
            let nl = r.below(16) as usize;
            let lrows: Vec<Vec<i64>> = (0..nl).map(|i| { let x = ok[r.below(n as u64) as usize]; vec![if x == NULL { 1 } else { x }, 1 << (i % 20)] }).collect();
            let crows: Vec<Vec<i64>> = (0..nc).map(|i| vec![ck[i], 1000 + (i as i64 % 2)]).collect();
            let mut o = Tbl::new("o", vec![("ok".into(), CT::I64), ("od".into(), CT::I64), ("ock".into(), CT::I64)], ints(&orows));
            let mut l = Tbl::new("l", vec![("lok".into(), CT::I64), ("lv".into(), CT::I64)], ints(&lrows));
            let mut c = Tbl::new("c", vec![("ck".into(), CT::I64), ("ce".into(), CT::I64)], ints(&crows));
            pq_opts(r, &mut o, layout, &mut tags); pq_opts(r, &mut l, layout, &mut tags); pq_opts(r, &mut c, layout, &mut tags);
            gate_cols.push(json!({"table": "o", "col": "ok", "unique_in_data": uniq}));
            gate_cols.push(json!({"table": "c", "col": "ck", "unique_in_data": cuniq}));
            if let (Some(u), Some(cu)) = (uniquify(&ok), uniquify(&ck)) {
                let mut o2 = o.clone(); o2.rows = ints(&(0..n).map(|i| vec![u[i], od[i], ock[i]]).collect::<Vec<_>>());
                let mut c2 = c.clone(); c2.rows = ints(&(0..nc).map(|i| vec![cu[i], 1000 + (i as i64 % 2)]).collect::<Vec<_>>());
                neutral_tables = Some(vec![o2, l.clone(), c2]);
            }
            let with_c = r.chance(1, 2);
            let tail = match r.below(3) { 0 => " ORDER BY s DESC LIMIT 50", _ => "" };
            if !tail.is_empty() { tags.push("f:order_limit".into()); }
            sql = if with_c {
                tags.push("f:three_way".into());
                format!("SELECT ok, od, ce, SUM(lv) AS s FROM o JOIN l ON ok = lok JOIN c ON ock = ck GROUP BY ok, od, ce{}", tail)
            } else {
                format!("SELECT ok, od, SUM(lv) AS s FROM o JOIN l ON ok = lok GROUP BY ok, od{}", tail)
            };
            tables.push(o); tables.push(l); tables.push(c);
        }
        "left_count" => {
            let (k, class, uniq) = key_column(r, n);
            tags.push(format!("f:{}", class));
            let arows: Vec<Vec<i64>> = (0..n).map(|i| vec![k[i], i as i64]).collect();
            let nb = r.below(14) as usize;
            let brows: Vec<Vec<i64>> = (0..nb).map(|i| { let x = k[r.below(n as u64) as usize]; vec![if x == NULL { 1 } else { x }, if i % 4 == 0 { NULL } else { i as i64 }] }).collect();
            let mut a = Tbl::new("a", vec![("ak".into(), CT::I64), ("ax".into(), CT::I64)], ints(&arows));
            let mut b = Tbl::new("b", vec![("bfk".into(), CT::I64), ("bc".into(), CT::I64)], ints(&brows));
            pq_opts(r, &mut a, layout, &mut tags); pq_opts(r, &mut b, layout, &mut tags);
            gate_cols.push(json!({"table": "a", "col": "ak", "unique_in_data": uniq}));
            if let Some(u) = uniquify(&k) { let mut a2 = a.clone(); a2.rows = ints(&(0..n).map(|i| vec![u[i], i as i64]).collect::<Vec<_>>()); neutral_tables = Some(vec![a2, b.clone()]); }
            tables.push(a); tables.push(b);
            sql = "SELECT ak, COUNT(bc) AS cnt FROM a LEFT JOIN b ON ak = bfk GROUP BY ak".into();
        }
        "packjoin" | "packjoin_shadow" => {
            let n2 = 1 + r.below(10) as usize;
            let big_a = r.chance(1, 8);
            if big_a { tags.push("f:big_first_key".into()); }
            let a1: Vec<i64> = (0..n).map(|i| if big_a && i == 0 { i64::MAX / 4 } else { r.below(4) as i64 }).collect();
            let b1 = second_key(r, n, &mut tags);
            let a2: Vec<i64> = (0..n2).map(|_| r.below(4) as i64).collect();
            let b2 = second_key(r, n2, &mut tags);
            let shared = r.chance(1, 2); // same column names in both tables (qualified refs) or distinct names
            if shared { tags.push("f:shared_names".into()); }
            let (c1a, c1b, c2a, c2b) = if shared { ("a", "b", "a", "b") } else { ("a", "b", "a2", "b2") };
            let rows1: Vec<Vec<i64>> = (0..n).map(|i| vec![a1[i], b1[i], 1 << (i % 20)]).collect();
            let rows2: Vec<Vec<i64>> = (0..n2).map(|i| vec![a2[i], b2[i], 3 * (i as i64 + 1)]).collect();
            let kt = if r.chance(1, 5) { CT::I32 } else { CT::I64 };
            let mut t1 = Tbl::new("t1", vec![(c1a.into(), kt), (c1b.into(), kt), ("v".into(), CT::I64)], ints(&rows1));
            let mut t2 = Tbl::new("t2", vec![(c2a.into(), kt), (c2b.into(), kt), ("w".into(), CT::I64)], ints(&rows2));
            pq_opts(r, &mut t1, layout, &mut tags); pq_opts(r, &mut t2, layout, &mut tags);
            tables.push(t1); tables.push(t2);
            if stream == "packjoin_shadow" {
                // a derived column re-using a base column's name: its values leave the base column's statistics range
                let off = *r.pick(&[1i64, 2, 4, 8, 16, 100]);
                let which = r.below(3);
                let (lhs, lhs_n) = match which {
                    0 => (format!("(SELECT {a}, {b} + {o} AS {b}, v FROM t1) s", a = c1a, b = c1b, o = off), format!("(SELECT {a}, {b} + {o} AS bb, v FROM t1) s", a = c1a, b = c1b, o = off)),
                    1 => (format!("(SELECT {a}, {b} * {o} AS {b}, v FROM t1) s", a = c1a, b = c1b, o = off), format!("(SELECT {a}, {b} * {o} AS bb, v FROM t1) s", a = c1a, b = c1b, o = off)),
                    _ => (format!("(SELECT {a} + {o} AS {a}, {b}, v FROM t1) s", a = c1a, b = c1b, o = off), format!("(SELECT {a} + {o} AS aa, {b}, v FROM t1) s", a = c1a, b = c1b, o = off)),
                };
                let (na, nb) = match which { 2 => ("aa".to_string(), c1b.to_string()), _ => (c1a.to_string(), "bb".to_string()) };
                sql = format!("SELECT COUNT(*) AS n, SUM(s.v) AS sv FROM {} JOIN t2 ON s.{} = t2.{} AND s.{} = t2.{}", lhs, c1a, c2a, c1b, c2b);
                neutral_sql = Some(format!("SELECT COUNT(*) AS n, SUM(s.v) AS sv FROM {} JOIN t2 ON s.{} = t2.{} AND s.{} = t2.{}", lhs_n, na, c2a, nb, c2b));
            } else {
                let third = r.chance(1, 4);
                sql = if third { tags.push("f:three_keys".into()); format!("SELECT COUNT(*) AS n, SUM(t1.v) AS sv FROM t1 JOIN t2 ON t1.{} = t2.{} AND t1.{} = t2.{} AND t1.v = t2.w", c1a, c2a, c1b, c2b) }
                      else { format!("SELECT t1.{}, t1.{}, t1.v, t2.w FROM t1 JOIN t2 ON t1.{} = t2.{} AND t1.{} = t2.{}", c1a, c1b, c1a, c2a, c1b, c2b) };
            }
        }
        "packgroup" | "packgroup_shadow" => {
            let a: Vec<i64> = (0..n).map(|_| r.below(4) as i64).collect();
            let b = second_key(r, n, &mut tags);
            let nullable = r.chance(1, 6);
            let rows: Vec<Vec<i64>> = (0..n).map(|i| vec![a[i], if nullable && i == 0 { NULL } else { b[i] }, 1 << (i % 20)]).collect();
            if nullable { tags.push("f:nullable_key".into()); }
            let kt = if r.chance(1, 4) { CT::I32 } else { CT::I64 };
            let mut t = Tbl::new("t", vec![("a".into(), kt), ("b".into(), kt), ("v".into(), CT::I64)], ints(&rows));
            pq_opts(r, &mut t, layout, &mut tags);
            // GroupKeyReduction may take `b` (or `a`) for a unique key (finding C03-F1): the neutralised tables make `b` unique inside its range
            if stream == "packgroup" && !nullable {
                // each key column that CAN look unique to the estimate (range >= row count) is made unique inside its range
                let ua = uniquify(&a); let ub = uniquify(&b);
                if ua.is_some() || ub.is_some() {
                    let (a2, b2) = (ua.unwrap_or_else(|| a.clone()), ub.unwrap_or_else(|| b.clone()));
                    let mut t2 = t.clone();
                    t2.rows = ints(&(0..n).map(|i| vec![a2[i], b2[i], 1 << (i % 20)]).collect::<Vec<_>>());
                    neutral_tables = Some(vec![t2]);
                }
            }
            tables.push(t);
            if stream == "packgroup_shadow" {
                let off = *r.pick(&[1i64, 3, 8, 64, 1000]);
                let m = *r.pick(&["+", "*", "-"]);
                sql = format!("SELECT a, b, COUNT(*) AS n, SUM(v) AS sv FROM (SELECT a, b {} {} AS b, v FROM t) s GROUP BY a, b", m, off);
                neutral_sql = Some(format!("SELECT a, bb, COUNT(*) AS n, SUM(v) AS sv FROM (SELECT a, b {} {} AS bb, v FROM t) s GROUP BY a, bb", m, off));
            } else {
                sql = "SELECT a, b, COUNT(*) AS n, SUM(v) AS sv FROM t GROUP BY a, b".into();
            }
        }
        "shared_semi" => {
            let (mut ts, q, t) = gen_shared_semi(r);
            tags.extend(t);
            for t in ts.iter_mut() { pq_opts(r, t, layout, &mut tags); }
            tables.extend(ts);
            sql = q;
        }
        _ => {
            // eager: R has duplicated join keys (fanout), SUM of a product with one R factor
            let nr = 4 + r.below(16) as usize;
            let dual = r.chance(1, 2);
            if dual { tags.push("f:dual_key".into()); }
            let rk: Vec<i64> = (0..nr).map(|_| r.below(3) as i64).collect();
            let rk2 = second_key(r, nr, &mut tags);
            let nullable_x = r.chance(1, 5);
            if nullable_x { tags.push("f:nullable_factor".into()); }
            let rrows: Vec<Vec<i64>> = (0..nr).map(|i| vec![rk[i], rk2[i] % 3, if nullable_x && i == 1 { NULL } else { 1 + (i as i64 % 4) }]).collect();
            let ns = 1 + r.below(8) as usize;
            let srows: Vec<Vec<i64>> = (0..ns).map(|i| vec![r.below(3) as i64, r.below(3) as i64, i as i64 % 2, 1 + i as i64]).collect();
            let mut rt = Tbl::new("r", vec![("rk".into(), CT::I64), ("rk2".into(), CT::I64), ("rx".into(), CT::I64)], ints(&rrows));
            let mut st = Tbl::new("s", vec![("sk".into(), CT::I64), ("sk2".into(), CT::I64), ("sg".into(), CT::I64), ("sy".into(), CT::I64)], ints(&srows));
            pq_opts(r, &mut rt, layout, &mut tags); pq_opts(r, &mut st, layout, &mut tags);
            tables.push(rt); tables.push(st);
            let on = if dual { "rk = sk AND rk2 = sk2" } else { "rk = sk" };
            let arg = *r.pick(&["rx * sy", "rx", "sy", "rx * sy + sy", "sy - rx"]);
            sql = format!("SELECT sg, SUM({}) AS t FROM r JOIN s ON {} GROUP BY sg", arg, on);
        }
    }
    if neutral_sql.is_none() {
        // the unique-key neutraliser, over every column that can look unique to the estimate
        let nts: Vec<Option<Tbl>> = tables.iter().map(neutralise_unique).collect();
        neutral_tables = if nts.iter().any(|x| x.is_some()) { Some(nts.into_iter().zip(tables.iter()).map(|(n, t)| n.unwrap_or_else(|| t.clone())).collect()) } else { None };
    }
    let neutral = if neutral_tables.is_some() || neutral_sql.is_some() {
        json!({"sql": neutral_sql, "tables": neutral_tables.map(|t| tables_json(&t)), "what": if neutral_sql.is_some() { "rename" } else { "unique" }})
    } else { Value::Null };
    json!({"kind": "stats", "stream": stream, "layout": layout, "sql": sql, "tables": tables_json(&tables), "tags": tags, "neutral": neutral, "gate_cols": gate_cols})
}

fn caught(f: &dyn Fn() -> Result<LogicalPlan, QueryError>) -> Result<LogicalPlan, QueryError> {
    match std::panic::catch_unwind(std::panic::AssertUnwindSafe(|| f())) {
        Ok(r) => r,
        Err(e) => { let msg = if let Some(s) = e.downcast_ref::<&str>() { s.to_string() } else if let Some(s) = e.downcast_ref::<String>() { s.clone() } else { "panic".into() };
            Err(QueryError::Internal(format!("panic: {}", msg))) }
    }
}

/// answers (and plans) of one statement under every configuration
pub fn observe(provs: &Provs, sql: &str, with_plans: bool) -> Value {
    let bound = match bind(provs, sql) { Ok(b) => b, Err(e) => return json!({"bind_err": err_json(&e)}) };
    let stats = stats_of(provs);
    let none = std::collections::HashMap::new();
    let mut cfgs = serde_json::Map::new();
    let mut plans = serde_json::Map::new();
    let mut fired = serde_json::Map::new();
    let bound_dbg = format!("{:?}", bound);
    let mut add = |name: &str, p: Result<LogicalPlan, QueryError>| {
        match &p { Ok(x) => { cfgs.insert(name.into(), execute(provs, x, false)); fired.insert(name.into(), json!(format!("{:?}", x) != bound_dbg));
                              if with_plans { plans.insert(name.into(), planexport::plan_json(x)); } }
                   Err(e) => { cfgs.insert(name.into(), err_json(e)); if with_plans { plans.insert(name.into(), err_json(e)); } } }
    };
    add("noopt", Ok(bound.clone()));
    // subquery predicates are not executable before decorrelation: the reference is then the plan with ONLY SubqueryDecorrelation applied
    if bound_dbg.contains("InSubquery") || bound_dbg.contains("Exists") || bound_dbg.contains("ScalarSubquery") { add("decorr", caught(&|| optimize(vec![rule_by_name("SubqueryDecorrelation").unwrap()], &none, bound.clone()))); }
    add("prod", caught(&|| optimize_production(&stats, bound.clone())));
    add("prod-stats", caught(&|| optimize_production(&none, bound.clone())));
    for rule in STATS_RULES { add(&format!("only:{}", rule), caught(&|| optimize(vec![rule_by_name(rule).unwrap()], &stats, bound.clone()))); }
    cfgs.insert("sql".into(), execute_sql(provs, sql, false));
    json!({"stats": stats_json(&stats), "cfgs": Value::Object(cfgs), "plans": Value::Object(plans), "fired": Value::Object(fired)})
}

pub fn run_case(c: &Value) -> Value {
    let c = c.clone();
    guarded(move || {
        let sql = c["sql"].as_str().unwrap_or("").to_string();
        let layout = c["layout"].as_str().unwrap_or("pq").to_string();
        let tables = tables_from_json(&c["tables"]);
        let main = match with_providers(&tables, &layout, |p| observe(p, &sql, true)) { Ok(v) => v, Err(e) => return json!({"harness_err": e}) };
        let mut out = main;
        // the neutralised run (same statement over uniquified keys / same data with the shadowing alias renamed)
        if !c["neutral"].is_null() {
            let nsql = c["neutral"]["sql"].as_str().unwrap_or(&sql).to_string();
            let ntables = if c["neutral"]["tables"].is_null() { tables.clone() } else { tables_from_json(&c["neutral"]["tables"]) };
            out["neutral"] = match with_providers(&ntables, &layout, |p| observe(p, &nsql, false)) { Ok(v) => v, Err(e) => json!({"harness_err": e}) };
        } else { out["neutral"] = Value::Null; }
        out
    })
}

pub fn main(o: &Opts) {
    if o.get("bt").is_some() { std::panic::set_hook(Box::new(|info| eprintln!("PANIC {info}\n{}", std::backtrace::Backtrace::force_capture()))); }
    if let Some(p) = &o.replay { for c in replay_cases(p) { let i = run_case(&c); emit(c, i); } return; }
    let mut r = Rng::new(o.seed ^ 0xC03);
    for n in 0..o.cases {
        let layout = if n % 4 == 0 { "mem" } else { "pq" };
        let c = gen_adversarial(&mut r, layout);
        let i = run_case(&c);
        emit(c, i);
    }
}
