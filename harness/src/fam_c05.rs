// FAMILY: C05
//! C05: statistics-based row-group pruning on REAL Parquet files.
//! Case: {"cols":[{"ty":"int|i32|f64|str|date","stats":bool}…], "rgs":[[[Val…] row …] row group …], "preds":[E…]}
//!       (E = SqlJson + Int32 literal {"lit":{"i32":k}}); the file is written with one explicit row group per entry of "rgs".
//! Impl: {"meta":[[STAT|null per column] per row group], "preds":[{"keep":[i…],"might":[bool…],"def":[bool…],"mask":[OUT per row group]}…]}
//!       STAT = {"t":"i64|i32|f64|bytes|other","min":v|null,"max":v|null,"nulls":n|null} as read back from the file's footer
//!       (f64 as bit patterns, bytes as byte arrays); keep = prune_row_groups, might/def = row_group_might_match /
//!       row_group_definitely_matches per row group, mask = evaluate_expr on the DECODED row group.
use super::fam_c02::{array_vals, dtype, to_engine};
use crate::common::*;
use crate::rng::Rng;
use arrow::array::*;
use arrow::datatypes::{Field, Schema};
use arrow::record_batch::RecordBatch;
use parquet::arrow::arrow_reader::ParquetRecordBatchReaderBuilder;
use parquet::arrow::ArrowWriter;
use parquet::file::properties::{EnabledStatistics, WriterProperties};
use parquet::file::statistics::Statistics as PS;
use parquet::schema::types::ColumnPath;
use query_engine::physical::evaluate_expr;
use query_engine::storage::row_group_pruning::{prune_row_groups, row_group_definitely_matches, row_group_might_match};
use serde_json::{json, Value};
use std::sync::Arc;

fn batch_of(fields: &[Field], tys: &[String], rows: &[Value]) -> RecordBatch {
    let mut cols: Vec<ArrayRef> = vec![];
    for (ci, t) in tys.iter().enumerate() {
        let a: ArrayRef = match t.as_str() {
            "int" => Arc::new(rows.iter().map(|r| r[ci]["i"].as_i64()).collect::<Int64Array>()),
            "i32" => Arc::new(rows.iter().map(|r| r[ci]["i"].as_i64().map(|x| x as i32)).collect::<Int32Array>()),
            "f64" => Arc::new(rows.iter().map(|r| r[ci]["f"].as_u64().map(f64::from_bits)).collect::<Float64Array>()),
            "date" => Arc::new(rows.iter().map(|r| r[ci]["d"].as_i64().map(|x| x as i32)).collect::<Date32Array>()),
            _ => Arc::new(rows.iter().map(|r| r[ci]["s"].as_str().map(|s| s.to_string())).collect::<StringArray>()),
        };
        cols.push(a);
    }
    RecordBatch::try_new(Arc::new(Schema::new(fields.to_vec())), cols).unwrap()
}

fn stat_json(s: Option<&PS>) -> Value {
    let s = match s { Some(s) => s, None => return Value::Null };
    let nulls = s.null_count_opt();
    match s {
        PS::Int64(v) => json!({"t":"i64","min":v.min_opt(),"max":v.max_opt(),"nulls":nulls}),
        PS::Int32(v) => json!({"t":"i32","min":v.min_opt(),"max":v.max_opt(),"nulls":nulls}),
        PS::Double(v) => json!({"t":"f64","min":v.min_opt().map(|x| x.to_bits()),"max":v.max_opt().map(|x| x.to_bits()),"nulls":nulls}),
        PS::ByteArray(v) => json!({"t":"bytes","min":v.min_opt().map(|b| bytes_json(b.data())),"max":v.max_opt().map(|b| bytes_json(b.data())),"nulls":nulls}),
        _ => json!({"t":"other","min":null,"max":null,"nulls":nulls}),
    }
}

pub fn run_case(c: &Value) -> Value {
    let c2 = c.clone();
    guarded(move || {
        let scratch = std::env::var("IQE_SCRATCH").unwrap_or_else(|_| ".".into());
        let path = format!("{scratch}/c05-{}-{:x}.parquet", std::process::id(), c2.to_string().len());
        let cols = c2["cols"].as_array().unwrap();
        let tys: Vec<String> = cols.iter().map(|x| x["ty"].as_str().unwrap().to_string()).collect();
        let fields: Vec<Field> = tys.iter().enumerate().map(|(i, t)| Field::new(format!("c{i}"), dtype(t), true)).collect();
        let schema = Arc::new(Schema::new(fields.clone()));
        let mut props = WriterProperties::builder().set_statistics_enabled(EnabledStatistics::Chunk).set_dictionary_enabled(false);
        for (i, col) in cols.iter().enumerate() {
            if col["stats"] == json!(false) { props = props.set_column_statistics_enabled(ColumnPath::from(format!("c{i}")), EnabledStatistics::None); }
        }
        let file = std::fs::File::create(&path).expect("scratch parquet");
        let mut w = ArrowWriter::try_new(file, schema.clone(), Some(props.build())).expect("writer");
        for rg in c2["rgs"].as_array().unwrap() {
            let rows = rg.as_array().unwrap();
            w.write(&batch_of(&fields, &tys, rows)).expect("write");
            w.flush().expect("flush");      // closes the row group
        }
        w.close().expect("close");
        let builder = ParquetRecordBatchReaderBuilder::try_new(std::fs::File::open(&path).unwrap()).expect("reader");
        let meta = builder.metadata().clone();
        let nrg = meta.num_row_groups();
        let meta_json: Vec<Value> = (0..nrg).map(|i| { let rg = meta.row_group(i); Value::Array((0..rg.num_columns()).map(|k| stat_json(rg.column(k).statistics())).collect()) }).collect();
        // decode every row group once
        let mut decoded: Vec<RecordBatch> = vec![];
        for i in 0..nrg {
            let b = ParquetRecordBatchReaderBuilder::try_new(std::fs::File::open(&path).unwrap()).unwrap().with_row_groups(vec![i]).with_batch_size(1 << 20).build().unwrap();
            let bs: Vec<RecordBatch> = b.map(|x| x.unwrap()).collect();
            decoded.push(if bs.is_empty() { RecordBatch::new_empty(schema.clone()) } else { arrow::compute::concat_batches(&schema, &bs).unwrap() });
        }
        let mut preds = vec![];
        for p in c2["preds"].as_array().unwrap() {
            let e = to_engine(p);
            let keep = prune_row_groups(&meta, &schema, Some(&e));
            let might: Vec<bool> = (0..nrg).map(|i| row_group_might_match(&e, meta.row_group(i), &schema)).collect();
            let def: Vec<bool> = (0..nrg).map(|i| row_group_definitely_matches(&e, meta.row_group(i), &schema)).collect();
            let mask: Vec<Value> = decoded.iter().map(|b| match evaluate_expr(b, &e) {
                Ok(a) => match array_vals(&a) { Ok(v) => json!({"ok": v}), Err(m) => json!({"err": m}) },
                Err(err) => json!({"err": format!("{err}").chars().take(80).collect::<String>()}),
            }).collect();
            preds.push(json!({"keep": keep, "might": might, "def": def, "mask": mask}));
        }
        let _ = std::fs::remove_file(&path);
        json!({"meta": meta_json, "preds": preds})
    })
}

// ---------------------------------------------------------------- generator
fn fb(x: f64) -> Value { json!({"f": x.to_bits()}) }
const P53: i64 = 9007199254740992;
fn value(r: &mut Rng, ty: &str, class: u64) -> Value {
    match ty {
        "int" => json!({"i": match class { 0 => r.range(-3, 9), 1 => *r.pick(&[P53 - 1, P53, P53 + 1, P53 + 2, -P53 - 1, -P53]), 2 => *r.pick(&[i64::MAX, i64::MIN, i64::MAX - 1, 0]),
                                        _ => *r.pick(&[(1i64 << 31) - 1, 1i64 << 31, (1i64 << 31) + 5, (1i64 << 32) + 5, -(1i64 << 31) - 1, 7]) }}),
        "i32" => json!({"i": match class { 0 | 1 => r.range(-3, 9), _ => *r.pick(&[i32::MAX as i64, i32::MIN as i64, 0, 100]) }}),
        "date" => json!({"d": match class { 0 | 1 => r.range(95, 105), _ => *r.pick(&[0i64, -1, 19000, i32::MAX as i64]) }}),
        "f64" => match class { 0 => fb(r.range(-4, 8) as f64 * 0.5), 1 => fb(*r.pick(&[0.0f64, -0.0, 0.5, -0.5])), 2 => fb(*r.pick(&[f64::NAN, 1.0, 2.0, f64::INFINITY, f64::NEG_INFINITY])),
                               _ => fb(*r.pick(&[9007199254740992.0f64, 9007199254740994.0, 1e300, -1e300, 5e-324])) },
        _ => json!({"s": match class { 0 => (*r.pick(&["a", "ab", "b", "ba", "c", ""])).to_string(), 1 => (*r.pick(&["\u{e9}", "e", "z", "\u{4e2d}", "\u{1f600}", "zz"])).to_string(),
                                       _ => format!("{}{}", "x".repeat(r.below(3) as usize * 40), r.pick(&["a", "b", "\u{e9}"])) }}),
    }
}
fn literal(r: &mut Rng, ty: &str, class: u64) -> Value {
    // literal types the pruner distinguishes: Int64 / Int32 / Date32 / Float64 / Utf8
    match ty {
        "i32" => { let v = value(r, "i32", class); json!({"lit": {"i32": v["i"]}}) }
        // a NaN literal is not expressible in SQL text (and IEEE statistics cannot bound it): never generated
        "f64" => { let mut v = value(r, ty, class); while f64::from_bits(v["f"].as_u64().unwrap()).is_nan() { v = value(r, ty, class); } json!({"lit": v}) }
        _ => json!({"lit": value(r, ty, class)}),
    }
}
fn col(i: usize) -> Value { json!({"col": i}) }
fn bin(op: &str, a: Value, b: Value) -> Value { json!({"bin": [op, a, b]}) }

fn atom(r: &mut Rng, tys: &[String], classes: &[u64]) -> Value {
    let ci = r.below(tys.len() as u64) as usize;
    let cty = tys[ci].as_str();
    // literal type: usually the column's own; sometimes a sibling type the interpreter coerces (Int32 / Date32 literal against an Int64 column,
    // Int64 literal against Int32, Float64 literal against integers and the reverse)
    let lty = match cty {
        "int" => *r.pick(&["int", "int", "int", "i32", "f64"]),
        "i32" => *r.pick(&["i32", "i32", "int"]),
        "f64" => *r.pick(&["f64", "f64", "f64", "int"]),
        "date" => "date",
        _ => "str",
    };
    let lclass = if r.chance(2, 3) { classes[ci] } else { r.below(4) };
    let l = |r: &mut Rng| literal(r, lty, if lty == cty { lclass } else { lclass.min(1) });
    let op = *r.pick(&["eq", "ne", "lt", "le", "gt", "ge"]);
    match r.below(10) {
        0..=4 => if r.chance(3, 4) { bin(op, col(ci), l(r)) } else { bin(op, l(r), col(ci)) },
        5 | 6 => { let a = l(r); let b = l(r); json!({"between": [col(ci), a, b, r.chance(1, 4)]}) }
        7 | 8 => { let n = 1 + r.below(3); let items: Vec<Value> = (0..n).map(|_| l(r)).collect(); json!({"inlist": [col(ci), items, r.chance(1, 4)]}) }
        // arithmetic only on small values (no i32 / i64 overflow, which the engine reports as an error)
        _ => match r.below(3) { 0 => json!({"un": ["isnull", col(ci)]}), 1 => bin(op, col(ci), col(ci)),
                                _ => if classes[ci] == 0 { let a = literal(r, cty, 0); let b = literal(r, cty, 0); bin(op, bin("add", col(ci), a), b) } else { bin(op, col(ci), col(ci)) } },
    }
}
fn pred(r: &mut Rng, tys: &[String], classes: &[u64], d: u32) -> Value {
    if d == 0 { return atom(r, tys, classes); }
    match r.below(8) {
        0 | 1 => bin("and", pred(r, tys, classes, d - 1), pred(r, tys, classes, d - 1)),
        2 | 3 => bin("or", pred(r, tys, classes, d - 1), pred(r, tys, classes, d - 1)),
        4 | 5 => json!({"un": ["not", pred(r, tys, classes, d - 1)]}),
        _ => atom(r, tys, classes),
    }
}

/// arithmetic on a date/int mix or a string-vs-number comparison would make the interpreter coerce in ways outside the modelled
/// fragment; `add` is only generated on the column's own numeric type
fn sane(e: &Value, tys: &[String]) -> bool {
    if let Some(a) = e.get("bin").and_then(|x| x.as_array()) {
        if a[0] == "add" { if let Some(ci) = a[1].get("col").and_then(|x| x.as_u64()) { let t = tys[ci as usize].as_str(); if t == "str" || t == "date" { return false; } } }
        return sane(&a[1], tys) && sane(&a[2], tys);
    }
    if let Some(a) = e.get("un").and_then(|x| x.as_array()) { return sane(&a[1], tys); }
    true
}

fn gen_case(r: &mut Rng) -> Value {
    let ncols = 1 + r.below(3) as usize;
    let tys: Vec<String> = (0..ncols).map(|_| (*r.pick(&["int", "int", "i32", "f64", "f64", "str", "date"])).to_string()).collect();
    let classes: Vec<u64> = (0..ncols).map(|_| *r.pick(&[0u64, 0, 1, 2, 3])).collect();
    let cols: Vec<Value> = tys.iter().map(|t| json!({"ty": t, "stats": !r.chance(1, 12)})).collect();
    let nrg = 1 + r.below(4) as usize;
    let mut rgs = vec![];
    for _ in 0..nrg {
        let nrows = 1 + r.below(5) as usize;
        let null_pct = *r.pick(&[0u64, 0, 0, 25, 100]);
        // each row group draws from a narrow window so that statistics really separate row groups
        let rows: Vec<Value> = (0..nrows).map(|_| Value::Array((0..ncols).map(|ci| if r.below(100) < null_pct { Value::Null } else { value(r, &tys[ci], classes[ci]) }).collect())).collect();
        rgs.push(Value::Array(rows));
    }
    let mut preds = vec![];
    while preds.len() < 8 { let d = r.below(3) as u32; let p = pred(r, &tys, &classes, d); if sane(&p, &tys) { preds.push(p); } }
    json!({"cols": cols, "rgs": rgs, "preds": preds})
}

pub fn main(o: &Opts) {
    if let Some(p) = &o.replay { for c in replay_cases(p) { let i = run_case(&c); emit(c, i); } return; }
    let mut r = Rng::new(o.seed ^ 0xC05);
    for _ in 0..o.cases { let c = gen_case(&mut r); let i = run_case(&c); emit(c, i); }
}
