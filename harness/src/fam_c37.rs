// FAMILY: C37
//! C37: arrow_ffi encodings round-trip; SIMD helpers vs the real Arrow kernels.
//! Case: {"op":"roundtrip|filter|compare|add|mul|sum|count","ty":T,"a":ARR[,"b":ARR,"tyb":T][,"mask":[0/1..]][,"cmp":"eq|ne|lt|le|gt|ge"]}
//! ARR = {"slots":[[valid,raw],..],"pre":n,"post":m,"nb":0|1}: the array is built as a slice [pre, pre+len) of a longer
//! array (non-zero offset), raw = the PHYSICAL value also under NULL slots; nb=1 attaches a validity bitmap even when all valid.
//! raw: int32/int64 number, float64 = u64 bit pattern, utf8 string, bool 0/1.
//! Impl: {"out":OUTCOME,"arrow":OUTCOME[,"enc":..]}, OUTCOME = {"ok":..}|{"err":kind}|{"panic":msg}; arrays as [[1,raw]|[0,null]].
use crate::common::*;
use crate::rng::Rng;
use arrow::array::*;
use arrow::buffer::{BooleanBuffer, Buffer, NullBuffer, OffsetBuffer, ScalarBuffer};
use arrow::compute::kernels::{cmp, numeric};
use arrow::datatypes::DataType;
use query_engine::{add_simd, compare_simd, count_simd, encode_optimal, filter_simd, multiply_simd, sum_simd, CodecScalarValue, CompareOp};
use serde_json::{json, Value};
use std::sync::Arc;

// ---------------------------------------------------------------- building arrays from the canonical case
fn pad_slot(ty: &str, k: usize) -> Value {
    let valid = if k % 3 == 1 { 0 } else { 1 };
    match ty {
        "int32" | "int64" => json!([valid, 70 + k as i64]),
        "float64" => json!([valid, (70.0 + k as f64).to_bits()]),
        "utf8" => json!([valid, format!("pad{k}")]),
        _ => json!([valid, (k % 2) as u64]),
    }
}

fn build(ty: &str, a: &Value) -> ArrayRef {
    let pre = a["pre"].as_u64().unwrap_or(0) as usize;
    let post = a["post"].as_u64().unwrap_or(0) as usize;
    let nb = a["nb"].as_u64().unwrap_or(1) == 1;
    let empty = vec![];
    let slots = a["slots"].as_array().unwrap_or(&empty);
    let mut all: Vec<Value> = (0..pre).map(|k| pad_slot(ty, k)).collect();
    all.extend(slots.iter().cloned());
    all.extend((0..post).map(|k| pad_slot(ty, k + 5)));
    let validity: Vec<bool> = all.iter().map(|s| s[0].as_u64().unwrap_or(0) == 1).collect();
    let nulls = if validity.iter().all(|v| *v) && !nb { None } else { Some(NullBuffer::from(validity.clone())) };
    let full: ArrayRef = match ty {
        "int32" => Arc::new(Int32Array::new(ScalarBuffer::from(all.iter().map(|s| s[1].as_i64().unwrap_or(0) as i32).collect::<Vec<_>>()), nulls)),
        "int64" => Arc::new(Int64Array::new(ScalarBuffer::from(all.iter().map(|s| s[1].as_i64().unwrap_or(0)).collect::<Vec<_>>()), nulls)),
        "float64" => Arc::new(Float64Array::new(ScalarBuffer::from(all.iter().map(|s| f64::from_bits(s[1].as_u64().unwrap_or(0))).collect::<Vec<_>>()), nulls)),
        "utf8" => {
            let strs: Vec<&str> = all.iter().map(|s| s[1].as_str().unwrap_or("")).collect();
            let offsets = OffsetBuffer::<i32>::from_lengths(strs.iter().map(|s| s.len()));
            let bytes: Vec<u8> = strs.iter().flat_map(|s| s.bytes()).collect();
            Arc::new(StringArray::new(offsets, Buffer::from(bytes), nulls))
        }
        _ => Arc::new(BooleanArray::new(BooleanBuffer::from(all.iter().map(|s| s[1].as_u64().unwrap_or(0) == 1).collect::<Vec<_>>()), nulls)),
    };
    full.slice(pre, slots.len())
}

// ---------------------------------------------------------------- canonical output
fn canon_array(arr: &ArrayRef) -> Value {
    let arr: ArrayRef = match arr.data_type() {
        DataType::Dictionary(_, v) => arrow::compute::cast(arr, v).expect("cast dictionary to its value type"),
        _ => arr.clone(),
    };
    let n = arr.len();
    let slot = |i: usize, v: Value| if arr.is_null(i) { json!([0, null]) } else { json!([1, v]) };
    let (ty, slots): (&str, Vec<Value>) = match arr.data_type() {
        DataType::Int32 => { let a = arr.as_any().downcast_ref::<Int32Array>().unwrap(); ("int32", (0..n).map(|i| slot(i, json!(a.value(i)))).collect()) }
        DataType::Int64 => { let a = arr.as_any().downcast_ref::<Int64Array>().unwrap(); ("int64", (0..n).map(|i| slot(i, json!(a.value(i)))).collect()) }
        DataType::Float64 => { let a = arr.as_any().downcast_ref::<Float64Array>().unwrap(); ("float64", (0..n).map(|i| slot(i, json!(a.value(i).to_bits()))).collect()) }
        DataType::Utf8 => { let a = arr.as_any().downcast_ref::<StringArray>().unwrap(); ("utf8", (0..n).map(|i| slot(i, json!(a.value(i)))).collect()) }
        DataType::Boolean => { let a = arr.as_any().downcast_ref::<BooleanArray>().unwrap(); ("bool", (0..n).map(|i| slot(i, json!(a.value(i) as u64))).collect()) }
        other => return json!({"ty": format!("{other:?}"), "slots": []}),
    };
    json!({"ty": ty, "slots": slots})
}

fn err_kind(msg: &str) -> &'static str {
    let m = msg.to_lowercase();
    if m.contains("unsupported") { "unsupported" } else if m.contains("length") { "len" } else if m.contains("downcast") { "downcast" } else { "other" }
}
fn ok_or_err<T>(r: query_engine::error::Result<T>, f: impl FnOnce(T) -> Value) -> Value {
    match r { Ok(v) => json!({"ok": f(v)}), Err(e) => json!({"err": err_kind(&e.to_string())}) }
}
fn arrow_res<T>(r: std::result::Result<T, arrow::error::ArrowError>, f: impl FnOnce(T) -> Value) -> Value {
    match r { Ok(v) => json!({"ok": f(v)}), Err(_) => json!({"err": "arrow"}) }
}

pub fn run_case(c: &Value) -> Value {
    let op = c["op"].as_str().unwrap_or("").to_string();
    let ty = c["ty"].as_str().unwrap_or("int64").to_string();
    let tyb = c["tyb"].as_str().unwrap_or(&ty).to_string();
    let a = build(&ty, &c["a"]);
    let b = if c.get("b").is_some() { Some(build(&tyb, &c["b"])) } else { None };
    let mask: Vec<bool> = c["mask"].as_array().map(|m| m.iter().map(|x| x.as_u64() == Some(1)).collect()).unwrap_or_default();
    let cmpop = c["cmp"].as_str().unwrap_or("eq").to_string();
    let (a1, b1, m1, op1, cmp1) = (a.clone(), b.clone(), mask.clone(), op.clone(), cmpop.clone());
    let mut enc = Value::Null;
    let out = guarded(std::panic::AssertUnwindSafe(move || match op1.as_str() {
        "roundtrip" => match encode_optimal(a1.clone()) {
            Ok(e) => json!({"ok": canon_array(&e.decode()), "enc": format!("{:?}", e.encoding())}),
            Err(e) => json!({"err": err_kind(&e.to_string())}),
        },
        "filter" => ok_or_err(filter_simd(a1.as_ref(), &m1), |r| canon_array(&r)),
        "compare" => {
            let o = match cmp1.as_str() { "eq" => CompareOp::Eq, "ne" => CompareOp::Ne, "lt" => CompareOp::Lt, "le" => CompareOp::Le, "gt" => CompareOp::Gt, _ => CompareOp::Ge };
            ok_or_err(compare_simd(a1.as_ref(), b1.as_ref().unwrap().as_ref(), o), |r| canon_array(&(Arc::new(r) as ArrayRef)))
        }
        "add" => ok_or_err(add_simd(a1.as_ref(), b1.as_ref().unwrap().as_ref()), |r| canon_array(&r)),
        "mul" => ok_or_err(multiply_simd(a1.as_ref(), b1.as_ref().unwrap().as_ref()), |r| canon_array(&r)),
        "sum" => ok_or_err(sum_simd(a1.as_ref()), |r| match r {
            CodecScalarValue::Int64(Some(v)) => json!([1, v]),
            CodecScalarValue::Float64(Some(v)) => json!([1, v.to_bits()]),
            CodecScalarValue::Null | CodecScalarValue::Int64(None) | CodecScalarValue::Float64(None) => json!([0, null]),
            other => json!({"unexpected": format!("{other:?}")}),
        }),
        "count" => ok_or_err(count_simd(a1.as_ref()), |r| json!(r)),
        _ => json!({"bad_case": true}),
    }));
    let mut out = out;
    if let Some(e) = out.get("enc").cloned() { enc = e; out.as_object_mut().unwrap().remove("enc"); }
    // the equivalent Arrow kernel on the same arrays
    let arrow = guarded(std::panic::AssertUnwindSafe(move || match op.as_str() {
        "roundtrip" => json!({"ok": canon_array(&a)}),
        "filter" => {
            if mask.len() != a.len() { return json!({"err": "arrow"}); }
            arrow_res(arrow::compute::filter(a.as_ref(), &BooleanArray::from(mask)), |r| canon_array(&r))
        }
        "compare" => {
            let b = b.unwrap();
            let r = match cmpop.as_str() { "eq" => cmp::eq(&a, &b), "ne" => cmp::neq(&a, &b), "lt" => cmp::lt(&a, &b), "le" => cmp::lt_eq(&a, &b), "gt" => cmp::gt(&a, &b), _ => cmp::gt_eq(&a, &b) };
            arrow_res(r, |r| canon_array(&(Arc::new(r) as ArrayRef)))
        }
        "add" => arrow_res(numeric::add(&a, &b.unwrap()), |r| canon_array(&r)),
        "mul" => arrow_res(numeric::mul(&a, &b.unwrap()), |r| canon_array(&r)),
        "sum" => match a.data_type() {
            DataType::Int64 => json!({"ok": match arrow::compute::sum(a.as_any().downcast_ref::<Int64Array>().unwrap()) { Some(v) => json!([1, v]), None => json!([0, null]) }}),
            DataType::Int32 => json!({"ok": match arrow::compute::sum(a.as_any().downcast_ref::<Int32Array>().unwrap()) { Some(v) => json!([1, v]), None => json!([0, null]) }}),
            DataType::Float64 => json!({"ok": match arrow::compute::sum(a.as_any().downcast_ref::<Float64Array>().unwrap()) { Some(v) => json!([1, v.to_bits()]), None => json!([0, null]) }}),
            _ => json!({"err": "arrow"}),
        },
        "count" => json!({"ok": (a.len() - a.null_count()) as i64}),
        _ => json!({"bad_case": true}),
    }));
    json!({"out": out, "arrow": arrow, "enc": enc})
}

// ---------------------------------------------------------------- generators
const TYS: [&str; 5] = ["int32", "int64", "float64", "utf8", "bool"];
const WORDS: [&str; 8] = ["", "a", "b", "ab", "NULL", "x y", "\u{e9}", "zz"];

fn raw_of(ty: &str, k: i64) -> Value {
    match ty {
        "int32" | "int64" => json!(k),
        "float64" => json!((k as f64).to_bits()),
        "utf8" => json!(WORDS[k.rem_euclid(WORDS.len() as i64) as usize]),
        _ => json!(k.rem_euclid(2) as u64),
    }
}

/// An array description. `special` allows NaN / -0.0 / inf bit patterns in float64 arrays.
fn gen_arr(r: &mut Rng, ty: &str, len: usize, special: bool) -> Value { gen_arr2(r, ty, len, special, false) }
fn gen_arr2(r: &mut Rng, ty: &str, len: usize, special: bool, nonull: bool) -> Value {
    let shape = r.below(5); // 0 constant, 1 runs, 2 random small, 3 few-unique, 4 random wide
    let base = r.range(-3, 3);
    let mut vals: Vec<i64> = Vec::with_capacity(len);
    let mut cur = base;
    for i in 0..len {
        let v = match shape {
            0 => base,
            1 => { if i > 0 && r.chance(1, 6) { cur = r.range(-3, 3); } cur }
            2 => r.range(-3, 3),
            3 => base + r.below(2) as i64,
            _ => r.range(-1000, 1000),
        };
        vals.push(v);
    }
    let nullp = if nonull { 0 } else { r.below(6) }; // 0,1 none; 2 all; 3 sparse; 4 half; 5 exactly one
    let one = r.below(len.max(1) as u64) as usize;
    let raw_mode = r.below(3); // value under a NULL slot: 0 keeps the pattern value, 1 zero, 2 arbitrary
    let mut slots = vec![];
    for i in 0..len {
        let valid = match nullp { 0 | 1 => true, 2 => false, 3 => !r.chance(1, 8), 4 => r.chance(1, 2), _ => i != one };
        let mut raw = raw_of(ty, vals[i]);
        if ty == "float64" && special && r.chance(1, 5) {
            raw = json!(*r.pick(&[f64::NAN.to_bits(), (-f64::NAN).to_bits(), 0x7ff8000000000001u64, (-0.0f64).to_bits(), 0u64, f64::INFINITY.to_bits(), f64::NEG_INFINITY.to_bits(), 1u64]));
        }
        if !valid {
            raw = match raw_mode { 0 => raw, 1 => raw_of(ty, 0), _ => raw_of(ty, r.range(-5, 5)) };
        }
        slots.push(json!([valid as u64, raw]));
    }
    let pre = if r.chance(1, 2) { 0 } else { *r.pick(&[1u64, 3, 8, 9, 64]) };
    let post = if r.chance(1, 2) { 0 } else { r.below(4) };
    json!({"slots": slots, "pre": pre, "post": post, "nb": r.below(2)})
}

fn gen_len(r: &mut Rng) -> usize {
    match r.below(10) { 0 => 0, 1 => 1, 2 => 2, 3 => 3, 4 => 6, 5 => 7, 6 => 8, 7 => 10, 8 => 20, _ => r.below(70) as usize }
}

fn gen_case(r: &mut Rng, n: usize) -> Value {
    let ty = *r.pick(&TYS);
    let len = gen_len(r);
    match n % 10 {
        0 | 1 | 2 => json!({"op":"roundtrip","ty":ty,"a":gen_arr(r, ty, len, true)}),
        3 | 4 => {
            let mask: Vec<u64> = { let m = r.below(4); (0..len).map(|_| match m { 0 => 1, 1 => 0, _ => r.below(2) }).collect() };
            json!({"op":"filter","ty":ty,"a":gen_arr(r, ty, len, true),"mask":mask})
        }
        5 | 6 => {
            let special = r.chance(1, 3);
            let nonull = r.chance(1, 3);
            let cmp = *r.pick(&["eq", "ne", "lt", "le", "gt", "ge"]);
            json!({"op":"compare","cmp":cmp,"ty":ty,"a":gen_arr2(r, ty, len, special, nonull),"b":gen_arr2(r, ty, len, special, nonull)})
        }
        7 => json!({"op":"add","ty":ty,"a":gen_arr(r, ty, len, false),"b":gen_arr(r, ty, len, false)}),
        8 => json!({"op":"mul","ty":ty,"a":gen_arr(r, ty, len, false),"b":gen_arr(r, ty, len, false)}),
        _ => if r.chance(1, 2) { json!({"op":"sum","ty":ty,"a":gen_arr(r, ty, len, false)}) } else { json!({"op":"count","ty":ty,"a":gen_arr(r, ty, len, true)}) },
    }
}

/// malformed / boundary stream: length mismatches, type mismatches
fn gen_malformed(r: &mut Rng) -> Value {
    let ty = *r.pick(&["int64", "float64"]);
    let len = 1 + r.below(8) as usize;
    let other = if r.chance(1, 2) { len + 1 + r.below(3) as usize } else { len - 1 - r.below(len as u64) as usize % len };
    match r.below(5) {
        0 => json!({"op":"filter","ty":ty,"a":gen_arr(r, ty, len, false),"mask":(0..other).map(|_| r.below(2)).collect::<Vec<_>>()}),
        1 => json!({"op":"compare","cmp":"lt","ty":ty,"a":gen_arr(r, ty, len, false),"b":gen_arr(r, ty, other, false)}),
        2 => json!({"op":"add","ty":ty,"a":gen_arr(r, ty, len, false),"b":gen_arr(r, ty, other, false)}),
        3 => json!({"op":"mul","ty":ty,"a":gen_arr(r, ty, len, false),"b":gen_arr(r, ty, other, false)}),
        _ => { let tyb = if ty == "int64" { "float64" } else { "int64" };
               json!({"op":*r.pick(&["add","mul","compare"]),"cmp":"eq","ty":ty,"tyb":tyb,"a":gen_arr(r, ty, len, false),"b":gen_arr(r, tyb, len, false)}) }
    }
}

pub fn main(o: &Opts) {
    if let Some(p) = &o.replay { for c in replay_cases(p) { let i = run_case(&c); emit(c, i); } return; }
    let mut r = Rng::new(o.seed ^ 0xC37);
    for n in 0..o.cases {
        let c = if n % 12 == 11 { gen_malformed(&mut r) } else { gen_case(&mut r, n) };
        let i = run_case(&c);
        emit(c, i);
    }
}
