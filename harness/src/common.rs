use serde_json::{json, Value};
use std::io::Write;

pub struct Opts {
    pub seed: u64,
    pub cases: usize,
    pub replay: Option<String>,
    pub kv: std::collections::HashMap<String, String>,
}
impl Opts {
    pub fn get(&self, k: &str) -> Option<&str> { self.kv.get(k).map(|s| s.as_str()) }
    pub fn get_usize(&self, k: &str, d: usize) -> usize { self.get(k).and_then(|s| s.parse().ok()).unwrap_or(d) }
}

pub fn emit(case: Value, imp: Value) {
    let line = json!({"case": case, "impl": imp});
    let out = std::io::stdout();
    let mut l = out.lock();
    let _ = writeln!(l, "{}", line);
}

/// Run `f`, mapping a panic to the canonical outcome {"panic": msg}.
pub fn guarded<F: FnOnce() -> Value + std::panic::UnwindSafe>(f: F) -> Value {
    match std::panic::catch_unwind(f) {
        Ok(v) => v,
        Err(e) => {
            let msg = if let Some(s) = e.downcast_ref::<&str>() { s.to_string() }
                      else if let Some(s) = e.downcast_ref::<String>() { s.clone() } else { "panic".into() };
            json!({"panic": msg})
        }
    }
}

/// Replay file: either a JSON object with a "case" member, or JSONL of such objects.
pub fn replay_cases(path: &str) -> Vec<Value> {
    let text = std::fs::read_to_string(path).expect("replay file");
    let mut out = vec![];
    if let Ok(v) = serde_json::from_str::<Value>(&text) {
        if let Some(c) = v.get("case") { out.push(c.clone()); return out; }
        if let Some(a) = v.get("cases").and_then(|x| x.as_array()) { return a.clone(); }
    }
    for l in text.lines() {
        if l.trim().is_empty() { continue; }
        if let Ok(v) = serde_json::from_str::<Value>(l) {
            if let Some(c) = v.get("case") { out.push(c.clone()); }
        }
    }
    out
}

pub fn bytes_json(b: &[u8]) -> Value { Value::Array(b.iter().map(|x| json!(*x)).collect()) }
pub fn json_bytes(v: &Value) -> Vec<u8> { v.as_array().map(|a| a.iter().map(|x| x.as_u64().unwrap_or(0) as u8).collect()).unwrap_or_default() }
