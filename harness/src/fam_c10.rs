// FAMILY: C10
//! C10: a failing fragment fails the whole query.
//!
//! Two case kinds (both run the REAL coordinator / decoder in-process):
//!
//! * `{"kind":"decode","data":D,"n":N,"shard":I,"sql":S,"cuts":"all"|[..]}` — the Arrow IPC body of one real
//!   `/fragment` answer (`execute_fragment` + `encode_ipc`), then `decode_ipc(body[..cut])` for every listed cut.
//!   impl: `{"wire":[bytes], "rows":declared, "accepted":[[cut,[rows per batch]]..], "cuts":[..evaluated..]}`.
//! * `{"kind":"scatter","data":D,"n":N,"self":K|null,"sql":S,"faults":[{"t":table,"shard":i,"f":FAULT}]}` —
//!   `execute_any_distributed` over N in-process participants behind a fault-injecting `FragmentTransport`.
//!   FAULT = {"k":"transport"} | {"k":"http","status":500} | {"k":"bad","how":"empty|garbage|zerohead|json"} |
//!           {"k":"trunc","cut":c} | {"k":"trunc","at":[msg,delta]} | {"k":"digest"} | {"k":"rows","delta":d}
//!   impl: `{"res":"ok","rows":[..sorted..]} | {"res":"err","class":..,"table":..,"shard":..,"msg":..}` plus the
//!   observed facts the model needs: `shape`, `tables` (gather order), `active` per table, `wire` per faulted
//!   (table,shard) = full body bytes + declared rows + resolved cut, `ids` per (table,shard) for Concat shapes,
//!   `baseline` = the fault-free distributed answer (sorted rows).
use crate::common::*;
use crate::rng::Rng;
use serde_json::{json, Value};

pub mod dist {
    //! Shared helpers for the distributed families (C10, C35, C34, C09, C45).
    use crate::rng::Rng;
    use arrow::array::{ArrayRef, Int64Array, StringArray};
    use arrow::datatypes::{DataType, Field, Schema};
    use arrow::record_batch::RecordBatch;
    use parquet::arrow::ArrowWriter;
    use parquet::file::properties::WriterProperties;
    use query_engine::ExecutionContext;
    use serde_json::{json, Value};
    use std::path::{Path, PathBuf};
    use std::sync::atomic::{AtomicU64, Ordering};
    use std::sync::Arc;

    pub fn scratch() -> PathBuf {
        let p = PathBuf::from(std::env::var("IQE_SCRATCH").unwrap_or_else(|_| "/verif/harness/scratch/manual".into()));
        let _ = std::fs::create_dir_all(&p);
        p
    }
    static UNIQ: AtomicU64 = AtomicU64::new(0);
    /// A fresh directory (paths are never reused: /repo caches Parquet metadata by path).
    pub fn fresh_dir(tag: &str) -> PathBuf {
        let n = UNIQ.fetch_add(1, Ordering::Relaxed);
        let p = scratch().join(format!("{tag}-{}-{n}", std::process::id()));
        let _ = std::fs::create_dir_all(&p);
        p
    }

    /// One runtime per harness process (building one per case costs ~1 s of thread start-up each).
    pub fn runtime() -> &'static tokio::runtime::Runtime {
        static RT: std::sync::OnceLock<tokio::runtime::Runtime> = std::sync::OnceLock::new();
        RT.get_or_init(|| tokio::runtime::Builder::new_multi_thread().worker_threads(4).enable_all().build().expect("tokio runtime"))
    }

    /// Data spec: {"seed":u64,"f_rows":n,"f_files":k,"f_rg":rows per row group,"g_rows":n,"g_files":k,"g_rg":r,"kdom":d,"nulls":pct}
    /// Table f(id BIGINT unique, k BIGINT?, v BIGINT?, s VARCHAR?) and g(k BIGINT, w BIGINT, name VARCHAR).
    pub fn gen_data_spec(r: &mut Rng) -> Value {
        let f_rows = *r.pick(&[0u64, 1, 40, 40, 120, 120, 300, 300, 700, 700, 90, 2000]);
        let g_rows = *r.pick(&[0u64, 3, 12, 60]);
        // at most ~40 row groups: every row group is a separate split and a separate read in every fragment of every case
        let mut f_rg = *r.pick(&[5u64, 16, 50, 1000]);
        while f_rows / f_rg > 40 { f_rg *= 4; }
        json!({"seed": r.next() >> 12, "f_rows": f_rows, "f_files": 1 + r.below(3), "f_rg": f_rg,
               "g_rows": g_rows, "g_files": 1 + r.below(2), "g_rg": *r.pick(&[4u64, 1000]), "kdom": *r.pick(&[3u64, 8]), "nulls": *r.pick(&[0u64, 10, 50])})
    }

    fn f_schema() -> Arc<Schema> {
        Arc::new(Schema::new(vec![Field::new("id", DataType::Int64, false), Field::new("k", DataType::Int64, true),
            Field::new("v", DataType::Int64, true), Field::new("s", DataType::Utf8, true)]))
    }
    fn g_schema() -> Arc<Schema> {
        Arc::new(Schema::new(vec![Field::new("k", DataType::Int64, true), Field::new("w", DataType::Int64, true), Field::new("name", DataType::Utf8, true)]))
    }

    fn write_parts(dir: &Path, schema: Arc<Schema>, cols: Vec<ArrayRef>, files: usize, rg: usize) {
        std::fs::create_dir_all(dir).unwrap();
        let batch = RecordBatch::try_new(schema.clone(), cols).unwrap();
        let n = batch.num_rows();
        let files = files.max(1);
        let per = n.div_ceil(files).max(1);
        for i in 0..files {
            let lo = (i * per).min(n);
            let hi = ((i + 1) * per).min(n);
            if lo == hi && i > 0 { continue; }
            let part = batch.slice(lo, hi - lo);
            let props = WriterProperties::builder().set_max_row_group_row_count(Some(rg.max(1))).build();
            let file = std::fs::File::create(dir.join(format!("part-{i}.parquet"))).unwrap();
            let mut w = ArrowWriter::try_new(file, schema.clone(), Some(props)).unwrap();
            w.write(&part).unwrap();
            w.close().unwrap();
        }
    }

    /// Writes the tables of `spec` under `root` (root/f/*.parquet, root/g/*.parquet). `skew` ≠ 0 writes a DIFFERENT
    /// copy of f and of g (one more row each) — a node with stale data, for the digest-mismatch fault.
    pub fn write_tables(root: &Path, spec: &Value, skew: u64) {
        let mut r = Rng::new(spec["seed"].as_u64().unwrap_or(1));
        let kdom = spec["kdom"].as_u64().unwrap_or(3).max(1);
        let nulls = spec["nulls"].as_u64().unwrap_or(0);
        let nf = spec["f_rows"].as_u64().unwrap_or(0) + skew;
        let spicy = spec["spicy"].as_bool().unwrap_or(false);   // strings that need CSV / JSON escaping (C35)
        let mut id = vec![]; let mut k = vec![]; let mut v = vec![]; let mut s = vec![];
        for i in 0..nf {
            id.push(i as i64 + 1);
            k.push(if r.below(100) < nulls { None } else { Some(r.below(kdom) as i64) });
            v.push(if r.below(100) < nulls { None } else { Some(r.range(-50, 50)) });
            s.push(if r.below(100) < nulls { None } else if spicy && r.chance(1, 3) {
                Some(r.pick(&["a,b", "q\"uote", "line\nbreak", " lead", "trail ", "NULL", "é✓", "x\ty", "semi;colon", "cr\rlf", "'single'", "\"\""]).to_string())
            } else { Some(format!("s{}", r.below(20))) });
        }
        write_parts(&root.join("f"), f_schema(), vec![Arc::new(Int64Array::from(id)), Arc::new(Int64Array::from(k)),
            Arc::new(Int64Array::from(v)), Arc::new(StringArray::from(s))],
            spec["f_files"].as_u64().unwrap_or(1) as usize, spec["f_rg"].as_u64().unwrap_or(1000) as usize);
        let ng = spec["g_rows"].as_u64().unwrap_or(0) + skew;
        let mut gk = vec![]; let mut gw = vec![]; let mut gn = vec![];
        for i in 0..ng {
            gk.push(if r.below(100) < nulls { None } else { Some(r.below(kdom + 1) as i64) });
            gw.push(Some(i as i64 * 3 - 7));
            gn.push(Some(format!("n{}", i % 5)));
        }
        write_parts(&root.join("g"), g_schema(), vec![Arc::new(Int64Array::from(gk)), Arc::new(Int64Array::from(gw)), Arc::new(StringArray::from(gn))],
            spec["g_files"].as_u64().unwrap_or(1) as usize, spec["g_rg"].as_u64().unwrap_or(1000) as usize);
    }

    pub fn context_over(root: &Path) -> Result<ExecutionContext, String> {
        let mut ctx = ExecutionContext::new();
        ctx.register_parquet("f", root.join("f")).map_err(|e| e.to_string())?;
        ctx.register_parquet("g", root.join("g")).map_err(|e| e.to_string())?;
        Ok(ctx)
    }

    /// Rows as canonical strings (cells joined by '|', NULL as "NULL"), SORTED — row order is not part of any answer compared here.
    pub fn rows_sorted(batches: &[RecordBatch]) -> Vec<String> {
        let mut out = rows_in_order(batches);
        out.sort();
        out
    }
    pub fn rows_in_order(batches: &[RecordBatch]) -> Vec<String> {
        use arrow::util::display::{ArrayFormatter, FormatOptions};
        let opts = FormatOptions::default().with_null("NULL");
        let mut out = vec![];
        for b in batches {
            let fs: Vec<ArrayFormatter> = b.columns().iter().map(|c| ArrayFormatter::try_new(c.as_ref(), &opts).expect("formatter")).collect();
            for i in 0..b.num_rows() {
                out.push(fs.iter().map(|f| f.value(i).to_string()).collect::<Vec<_>>().join("|"));
            }
        }
        out
    }
    pub fn schema_json(s: &arrow::datatypes::Schema) -> Value {
        Value::Array(s.fields().iter().map(|f| json!([f.name(), format!("{:?}", f.data_type())])).collect())
    }

    /// Message layout of an Arrow IPC stream: (start, end) of every framed message incl. the EOS marker.
    /// Used ONLY to choose interesting truncation offsets when generating cases (never to judge).
    pub fn message_bounds(bytes: &[u8]) -> Vec<(usize, usize)> {
        let mut out = vec![];
        let mut o = 0usize;
        while o + 8 <= bytes.len() {
            let len = i32::from_le_bytes(bytes[o + 4..o + 8].try_into().unwrap());
            if bytes[o..o + 4] != [255, 255, 255, 255] || len < 0 { break; }
            if len == 0 { out.push((o, o + 8)); break; }
            let m0 = o + 8; let m1 = m0 + len as usize;
            if m1 > bytes.len() { break; }
            let body = match arrow::ipc::root_as_message(&bytes[m0..m1]) { Ok(m) => m.bodyLength().max(0) as usize, Err(_) => break };
            out.push((o, m1 + body));
            o = m1 + body;
        }
        out
    }
}

use dist::*;
use query_engine::distributed::coordinator::{decode_ipc, encode_ipc};
use query_engine::distributed::{execute_any_distributed, execute_fragment, plan_distributed, plan_gather, splits_of, assign_lpt,
    FragmentRequest, FragmentTransport, Participant};
use query_engine::error::QueryError;
use query_engine::ExecutionContext;
use std::collections::BTreeMap;
use std::sync::{Arc, Mutex};

pub const SQLS: &[&str] = &[
    // Concat
    "SELECT id, k, v FROM f",
    "SELECT id, s FROM f WHERE v > 0",
    // TwoPhase
    "SELECT COUNT(*) AS n, SUM(v) AS sv FROM f",
    "SELECT k, COUNT(*) AS n, MIN(v) AS lo, MAX(v) AS hi FROM f GROUP BY k",
    // TopN
    "SELECT id, v FROM f ORDER BY id DESC LIMIT 5",
    // Gather (one and two tables)
    "SELECT COUNT(DISTINCT k) AS dk FROM f",
    "SELECT f.id, g.w FROM f JOIN g ON f.k = g.k WHERE g.w > 0",
];

fn addr_of(i: usize) -> String { format!("10.9.0.{}:7777", i + 1) }
fn shard_of_addr(a: &str) -> Option<usize> { a.strip_prefix("10.9.0.")?.split(':').next()?.parse::<usize>().ok().map(|x| x - 1) }

#[derive(Clone, Debug)]
struct Sent { table: String, shard: usize, body: Vec<u8>, rows: usize, cut: Option<usize>, ids: Vec<String> }

/// In-process participants behind a fault injector.
struct FaultyTransport {
    peer: Arc<ExecutionContext>,
    stale: Option<Arc<ExecutionContext>>,
    faults: BTreeMap<(String, usize), Value>,
    log: Mutex<Vec<Sent>>,
}

fn resolve_cut(f: &Value, body: &[u8]) -> usize {
    if let Some(c) = f.get("cut").and_then(|c| c.as_u64()) { return (c as usize).min(body.len()); }
    if let Some(at) = f.get("at").and_then(|a| a.as_array()) {
        let b = message_bounds(body);
        let j = at.first().and_then(|x| x.as_u64()).unwrap_or(0) as usize;
        let d = at.get(1).and_then(|x| x.as_i64()).unwrap_or(0);
        let base = if b.is_empty() { 0 } else { b[j.min(b.len() - 1)].1 as i64 };
        return (base + d).clamp(0, body.len() as i64) as usize;
    }
    body.len() / 2
}

#[async_trait::async_trait]
impl FragmentTransport for FaultyTransport {
    async fn send(&self, address: &str, req: &FragmentRequest) -> query_engine::error::Result<(Vec<u8>, usize, f64)> {
        let fault = self.faults.get(&(req.table.clone(), req.shard_index)).cloned();
        let kind = fault.as_ref().and_then(|f| f["k"].as_str()).unwrap_or("").to_string();
        if shard_of_addr(address) != Some(req.shard_index) {
            return Err(QueryError::Execution(format!("harness: shard {} sent to {address}", req.shard_index)));
        }
        let peer = if kind == "digest" { self.stale.as_ref().unwrap_or(&self.peer) } else { &self.peer };
        let (r, _) = execute_fragment(peer, req).await?;
        let body = encode_ipc(&r.schema, &r.batches)?;
        let mut sent = Sent { table: req.table.clone(), shard: req.shard_index, body: body.clone(), rows: r.row_count, cut: None, ids: rows_in_order(&r.batches) };
        let out = match kind.as_str() {
            "transport" => Err(QueryError::Execution(format!("connection reset by peer: {address}"))),
            "http" => Err(QueryError::Execution(format!("HTTP {} — injected failure", fault.as_ref().unwrap()["status"].as_u64().unwrap_or(500)))),
            "bad" => {
                let b = match fault.as_ref().unwrap()["how"].as_str().unwrap_or("empty") {
                    "empty" => vec![],
                    // NB: the first four bytes are read as a little-endian metadata length and arrow zero-fills a buffer of
                    // that size before reading: text such as `{"er..` means a ~1.9 GB allocation per decode. Keep it small / negative.
                    "garbage" => b"\xf0\xff\xff\xffnot an arrow stream at all, just bytes".to_vec(),
                    "json" => b"\x10\x00\x00\x00{\"error\":\"x\"}....".to_vec(),
                    _ => { let mut b = body.clone(); for x in b.iter_mut().take(8) { *x = 0; } b }
                };
                Ok((b, r.row_count, 0.0))
            }
            "trunc" => {
                let cut = resolve_cut(fault.as_ref().unwrap(), &body);
                sent.cut = Some(cut);
                Ok((body[..cut].to_vec(), r.row_count, 0.0))
            }
            "rows" => {
                let d = fault.as_ref().unwrap()["delta"].as_i64().unwrap_or(1);
                Ok((body, (r.row_count as i64 + d).max(0) as usize, 0.0))
            }
            _ => Ok((body, r.row_count, 0.0)),
        };
        self.log.lock().unwrap().push(sent);
        out
    }
}

fn participants(n: usize, self_ix: Option<usize>) -> Vec<Participant> {
    (0..n).map(|i| Participant { node_id: 100 + i as u64, address: addr_of(i), is_self: Some(i) == self_ix }).collect()
}

fn classify_err(msg: &str) -> Value {
    // "distributed query failed: node 102 (10.9.0.3:7777) did not complete shard 2 of 4 (table `f`): …"
    // "node 102 (10.9.0.3:7777) returned an undecodable fragment result: …"   (the proposed fix adds "incomplete fragment result")
    let node = msg.find("node ").and_then(|p| msg[p + 5..].split(' ').next()).and_then(|s| s.parse::<u64>().ok());
    let shard = node.filter(|n| *n >= 100).map(|n| n - 100);
    let class = if msg.contains("did not complete shard") { "transport" }
        else if msg.contains("undecodable fragment result") || msg.contains("incomplete fragment result") || msg.contains("truncated fragment result") { "payload" }
        else { "other" };
    let table = msg.find("(table `").map(|p| msg[p + 8..].split('`').next().unwrap_or("").to_string());
    json!({"res": "err", "class": class, "shard": shard, "table": table, "msg": msg.chars().take(300).collect::<String>()})
}

struct Env { root: std::path::PathBuf, base: ExecutionContext, peer: Arc<ExecutionContext>, stale: Option<Arc<ExecutionContext>> }
impl Drop for Env { fn drop(&mut self) { let _ = std::fs::remove_dir_all(&self.root); } }

/// The tables of one data spec are written once and reused by consecutive cases over the same spec.
fn make_env(data: &Value, need_stale: bool) -> Result<Arc<Env>, String> {
    static CACHE: Mutex<Option<(String, Arc<Env>)>> = Mutex::new(None);
    let key = format!("{}#{}", data, need_stale);
    let mut g = CACHE.lock().unwrap_or_else(|e| e.into_inner());
    if let Some((k, e)) = g.as_ref() { if *k == key { return Ok(e.clone()); } }
    let e = Arc::new(build_env(data, need_stale)?);
    *g = Some((key, e.clone()));
    Ok(e)
}

fn build_env(data: &Value, need_stale: bool) -> Result<Env, String> {
    let root = fresh_dir("c10");
    write_tables(&root.join("a"), data, 0);
    let base = context_over(&root.join("a"))?;
    let peer = Arc::new(context_over(&root.join("a"))?);
    let stale = if need_stale {
        write_tables(&root.join("b"), data, 1);
        Some(Arc::new(context_over(&root.join("b"))?))
    } else { None };
    Ok(Env { root, base, peer, stale })
}

/// What the fault-free run of one (data, cluster, statement) configuration shows; computed once per configuration.
#[derive(Clone)]
struct Clean { shape: String, tables: Vec<String>, active: serde_json::Map<String, Value>, baseline: Vec<String>, ids: serde_json::Map<String, Value> }

fn clean_run(env: &Env, n: usize, self_ix: Option<usize>, sql: &str) -> Result<Clean, Value> {
    let rt = runtime();
    let parts = participants(n, self_ix);
    // observed plan facts
    let (shape, tables): (String, Vec<String>) = match plan_distributed(&env.base, sql) {
        Ok(p) => (format!("{:?}", p.shape), vec![p.table.clone()]),
        Err(QueryError::NotImplemented(_)) => match plan_gather(&env.base, sql) {
            Ok(g) => ("Gather".into(), g.tables.iter().map(|t| t.name.clone()).collect()),
            Err(e) => return Err(json!({"plan_error": e.to_string()})),
        },
        Err(e) => return Err(json!({"plan_error": e.to_string()})),
    };
    let mut active = serde_json::Map::new();
    for t in &tables {
        match splits_of(&env.base, t, n) {
            Ok(set) => { let a = assign_lpt(&set, n); active.insert(t.clone(), json!((0..n).filter(|&i| a.node_splits[i] > 0).collect::<Vec<_>>())); }
            Err(e) => return Err(json!({"plan_error": e.to_string()})),
        }
    }
    // fault-free baseline (also records every shard's complete answer)
    let clean = FaultyTransport { peer: env.peer.clone(), stale: None, faults: BTreeMap::new(), log: Mutex::new(vec![]) };
    let baseline = match rt.block_on(execute_any_distributed(&env.base, sql, &parts, &clean)) {
        Ok(r) => rows_sorted(&r.result.batches),
        Err(e) => return Err(json!({"baseline_error": e.to_string()})),
    };
    let clean_log = clean.log.lock().unwrap().clone();
    let mut ids = serde_json::Map::new();
    for s in &clean_log { ids.insert(format!("{}:{}", s.table, s.shard), json!(s.ids)); }
    // the local shard's rows (Concat only: needed to predict the exact surviving row set)
    if let Some(k) = self_ix {
        if shape == "Concat" {
            if let Ok(p) = plan_distributed(&env.base, sql) {
                if let Ok(set) = splits_of(&env.base, &p.table, n) {
                    let req = FragmentRequest { sql: p.partial_sql.clone(), table: p.table.clone(), shard_index: k, shard_count: n, splits_digest: set.digest() };
                    if let Ok((r, _)) = rt.block_on(execute_fragment(&env.base, &req)) { ids.insert(format!("{}:{}", p.table, k), json!(rows_in_order(&r.batches))); }
                }
            }
        }
    }
    Ok(Clean { shape, tables, active, baseline, ids })
}

fn clean_cached(env: &Env, key: String, n: usize, self_ix: Option<usize>, sql: &str) -> Result<Clean, Value> {
    static CACHE: Mutex<Option<(String, Result<Clean, Value>)>> = Mutex::new(None);
    let mut g = CACHE.lock().unwrap_or_else(|e| e.into_inner());
    if let Some((k, c)) = g.as_ref() { if *k == key { return c.clone(); } }
    let c = clean_run(env, n, self_ix, sql);
    *g = Some((key, c.clone()));
    c
}

fn run_scatter(c: &Value) -> Value {
    let data = &c["data"];
    let n = c["n"].as_u64().unwrap_or(1) as usize;
    let self_ix = c["self"].as_u64().map(|x| x as usize);
    let sql = c["sql"].as_str().unwrap_or("").to_string();
    let faults: BTreeMap<(String, usize), Value> = c["faults"].as_array().cloned().unwrap_or_default().into_iter()
        .map(|f| ((f["t"].as_str().unwrap_or("f").to_string(), f["shard"].as_u64().unwrap_or(0) as usize), f["f"].clone())).collect();
    // one environment per data spec (the stale copy is only consulted by the digest fault)
    let env = match make_env(data, true) { Ok(e) => e, Err(e) => return json!({"setup_error": e}) };
    let rt = runtime();
    let parts = participants(n, self_ix);
    let Clean { shape, tables, active, baseline, mut ids } =
        match clean_cached(&env, format!("{}#{}#{:?}#{}", data, n, self_ix, sql), n, self_ix, &sql) { Ok(c) => c, Err(e) => return e };

    let tr = FaultyTransport { peer: env.peer.clone(), stale: env.stale.clone(), faults: faults.clone(), log: Mutex::new(vec![]) };
    let res = rt.block_on(execute_any_distributed(&env.base, &sql, &parts, &tr));
    let mut out = match res {
        Ok(r) => json!({"res": "ok", "rows": rows_sorted(&r.result.batches)}),
        Err(e) => classify_err(&e.to_string()),
    };
    let mut wire = serde_json::Map::new();
    // rows of every remote answer in the order THIS run produced them (the truncated prefix is a prefix of these)
    for s in tr.log.lock().unwrap().iter() { ids.insert(format!("{}:{}", s.table, s.shard), json!(s.ids)); }
    for s in tr.log.lock().unwrap().iter() {
        if let Some(f) = faults.get(&(s.table.clone(), s.shard)) {
            if f["k"] == "trunc" || f["k"] == "rows" {
                wire.insert(format!("{}:{}", s.table, s.shard), json!({"body": bytes_json(&s.body), "rows": s.rows, "cut": s.cut}));
            }
        }
    }
    out["shape"] = json!(shape);
    out["tables"] = json!(tables);
    out["active"] = Value::Object(active);
    out["wire"] = Value::Object(wire);
    out["ids"] = if shape == "Concat" { Value::Object(ids) } else { json!({}) };
    out["baseline"] = json!(baseline);
    out
}

/// The decoder of proposed_fixes/C10-fragment-completeness.patch, verbatim, so that every run also checks that the
/// PROPOSED repair behaves like the intended model (`Dev.fixed`) on every truncation offset. Not part of /repo.
mod proposed_fix {
    use arrow::record_batch::RecordBatch;
    pub fn ipc_stream_is_terminated(bytes: &[u8]) -> bool {
        const CONTINUATION: [u8; 4] = [0xff; 4];
        let mut at = 0usize;
        loop {
            let Some(head) = at.checked_add(8).and_then(|end| bytes.get(at..end)) else {
                return false;
            };
            if head[..4] != CONTINUATION {
                return false;
            }
            let meta_len = i32::from_le_bytes([head[4], head[5], head[6], head[7]]);
            if meta_len == 0 {
                return at + 8 == bytes.len();
            }
            let Ok(meta_len) = usize::try_from(meta_len) else {
                return false;
            };
            let meta_start = at + 8;
            let Some(meta_end) = meta_start.checked_add(meta_len) else {
                return false;
            };
            let Some(meta) = bytes.get(meta_start..meta_end) else {
                return false;
            };
            let Ok(message) = arrow::ipc::root_as_message(meta) else {
                return false;
            };
            let Ok(body_len) = usize::try_from(message.bodyLength()) else {
                return false;
            };
            at = match meta_end.checked_add(body_len) {
                Some(next) => next,
                None => return false,
            };
        }
    }
    pub fn decode_ipc(bytes: &[u8]) -> Result<Vec<RecordBatch>, String> {
        let reader = arrow::ipc::reader::StreamReader::try_new(std::io::Cursor::new(bytes), None).map_err(|e| e.to_string())?;
        let schema = reader.schema();
        let mut out = Vec::new();
        for b in reader {
            out.push(b.map_err(|e| e.to_string())?);
        }
        if !ipc_stream_is_terminated(bytes) {
            return Err("truncated Arrow IPC stream".into());
        }
        if out.is_empty() {
            out.push(RecordBatch::new_empty(schema));
        }
        Ok(out)
    }
}

fn run_decode(c: &Value) -> Value {
    let data = &c["data"];
    let n = c["n"].as_u64().unwrap_or(1) as usize;
    let shard = c["shard"].as_u64().unwrap_or(0) as usize;
    let sql = c["sql"].as_str().unwrap_or("").to_string();
    let env = match make_env(data, true) { Ok(e) => e, Err(e) => return json!({"setup_error": e}) };
    let rt = runtime();
    // the partial statement the coordinator would send
    let (psql, table) = match plan_distributed(&env.base, &sql) {
        Ok(p) => (p.partial_sql, p.table),
        Err(_) => match plan_gather(&env.base, &sql) { Ok(g) => (g.tables[0].gather_sql.clone(), g.tables[0].name.clone()), Err(e) => return json!({"plan_error": e.to_string()}) },
    };
    let set = match splits_of(&env.base, &table, n) { Ok(s) => s, Err(e) => return json!({"plan_error": e.to_string()}) };
    let req = FragmentRequest { sql: psql, table, shard_index: shard.min(n.saturating_sub(1)), shard_count: n, splits_digest: set.digest() };
    let (r, _) = match rt.block_on(execute_fragment(&env.peer, &req)) { Ok(x) => x, Err(e) => return json!({"fragment_error": e.to_string()}) };
    let body = match encode_ipc(&r.schema, &r.batches) { Ok(b) => b, Err(e) => return json!({"encode_error": e.to_string()}) };
    let cuts: Vec<usize> = match c["cuts"].as_array() {
        Some(a) => a.iter().filter_map(|x| x.as_u64()).map(|x| (x as usize).min(body.len())).collect(),
        None => {
            if body.len() <= 6000 { (0..=body.len()).collect() } else {
                // large body: every offset within 12 bytes of a message boundary, plus a stride
                let mut v: Vec<usize> = (0..=body.len()).step_by(97).collect();
                for (_, e) in message_bounds(&body) { for d in 0..25usize { let x = (e + d).saturating_sub(12); if x <= body.len() { v.push(x); } } }
                v.push(body.len()); v.sort(); v.dedup(); v
            }
        }
    };
    let mut accepted = vec![];
    let mut patched = vec![];
    for &cut in &cuts {
        if let Ok(bs) = decode_ipc(&body[..cut]) { accepted.push(json!([cut, bs.iter().map(|b| b.num_rows()).collect::<Vec<_>>()])); }
        if let Ok(bs) = proposed_fix::decode_ipc(&body[..cut]) { patched.push(json!([cut, bs.iter().map(|b| b.num_rows()).collect::<Vec<_>>()])); }
    }
    json!({"wire": bytes_json(&body), "rows": r.row_count, "accepted": accepted, "patched_accepted": patched, "cuts": if c["cuts"].is_array() || body.len() > 6000 { json!(cuts) } else { json!("all") }})
}

pub fn run_case(c: &Value) -> Value {
    let c2 = c.clone();
    guarded(std::panic::AssertUnwindSafe(move || match c2["kind"].as_str().unwrap_or("") {
        "scatter" => run_scatter(&c2),
        "decode" => run_decode(&c2),
        _ => json!({"bad_case": true}),
    }))
}

fn basic_faults() -> Vec<Value> {
    vec![
        json!({"k": "transport"}), json!({"k": "http", "status": 500}), json!({"k": "http", "status": 400}), json!({"k": "http", "status": 503}),
        json!({"k": "bad", "how": "empty"}), json!({"k": "bad", "how": "garbage"}), json!({"k": "bad", "how": "zerohead"}), json!({"k": "bad", "how": "json"}),
        json!({"k": "digest"}),
    ]
}

/// truncations around message boundaries (message j: 0 = schema, 1.. = batches / EOS) and inside messages
fn trunc_faults(r: &mut Rng) -> Vec<Value> {
    let mut v = vec![json!({"k": "trunc", "cut": 0})];
    for j in 0..4u64 { for d in [-1i64, 0, 1, 3, 4, 7] { v.push(json!({"k": "trunc", "at": [j, d]})); } }
    v.push(json!({"k": "trunc", "at": [99, -1]}));   // one byte short of the complete body
    v.push(json!({"k": "trunc", "at": [99, -8]}));   // exactly the EOS marker missing
    v.push(json!({"k": "trunc", "at": [99, -5]}));
    v.push(json!({"k": "trunc", "at": [99, 0]}));    // not a truncation at all: the complete body
    for _ in 0..4 { v.push(json!({"k": "trunc", "cut": r.below(900)})); }
    v
}

pub fn main(o: &Opts) {
    if let Some(p) = &o.replay { for c in replay_cases(p) { let i = run_case(&c); emit(c, i); } return; }
    let mut r = Rng::new(o.seed ^ 0xC10);
    let mut emitted = 0usize;
    let mut cfg = r.below(SQLS.len() as u64);
    let per_cfg = (o.cases / 6).clamp(40, 400);
    // every run starts with one fixed multi-batch body (40 rows in row groups of 16, shard 1 of 2 holds two batches)
    {
        let data = json!({"seed": 7, "f_rows": 40, "f_files": 1, "f_rg": 16, "g_rows": 3, "g_files": 1, "g_rg": 1000, "kdom": 3, "nulls": 0});
        let c = json!({"kind": "decode", "data": data, "n": 2, "shard": 1, "sql": "SELECT id, k, v FROM f"});
        let i = run_case(&c); emit(c, i); emitted += 1;
    }
    while emitted < o.cases {
        cfg += 1;
        let data = gen_data_spec(&mut r);
        let n = if r.chance(1, 10) { 1 } else { 2 + r.below(4) as usize };
        let self_ix = if r.chance(1, 6) { None } else { Some(r.below(n as u64) as usize) };
        let sql = SQLS[cfg as usize % SQLS.len()];
        let tables: Vec<&str> = if sql.contains("JOIN g") { vec!["f", "g"] } else { vec!["f"] };
        let mut cases: Vec<Value> = vec![];
        // every truncation offset of one real fragment body per table
        for t in &tables {
            let dsql = if *t == "g" { "SELECT k, w, name FROM g" } else { sql };
            cases.push(json!({"kind": "decode", "data": data, "n": n, "shard": r.below(n as u64), "sql": dsql}));
        }
        let mk = |fs: Vec<Value>| json!({"kind": "scatter", "data": data, "n": n, "self": self_ix, "sql": sql, "faults": fs});
        cases.push(mk(vec![]));
        // every basic fault kind × every shard of every table, alone (the initiator's own shard included: never sent)
        let mut singles: Vec<Value> = vec![];
        for t in &tables { for s in 0..n { for (j, f) in basic_faults().into_iter().enumerate() {
            if Some(s) == self_ix && j % 5 != 0 { continue; }
            singles.push(json!({"t": t, "shard": s, "f": f}));
        } } }
        // truncations: a sample per shard
        for t in &tables { for s in 0..n {
            let mut tf = trunc_faults(&mut r); r.shuffle(&mut tf);
            for f in tf.into_iter().take(if Some(s) == self_ix { 1 } else { 7 }) { singles.push(json!({"t": t, "shard": s, "f": f})); }
            if r.chance(1, 3) { singles.push(json!({"t": t, "shard": s, "f": {"k": "rows", "delta": *r.pick(&[-1i64, 1, 5])}})); }
        } }
        let mut all: Vec<Vec<Value>> = singles.iter().map(|f| vec![f.clone()]).collect();
        // pairs on distinct (table, shard)
        for _ in 0..singles.len() / 3 + 4 {
            let a = r.pick(&singles).clone(); let b = r.pick(&singles).clone();
            if a["t"] == b["t"] && a["shard"] == b["shard"] { continue; }
            all.push(vec![a, b]);
        }
        if all.len() > per_cfg { r.shuffle(&mut all); all.truncate(per_cfg); }
        for fs in all { cases.push(mk(fs)); }
        for c in cases {
            if emitted >= o.cases { break; }
            let i = run_case(&c); emit(c, i); emitted += 1;
        }
    }
}
