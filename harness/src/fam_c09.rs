// FAMILY: C09
//! C09: a distributed answer equals the single-node answer.
//!
//! One case = one sqlgen statement over one generated catalog, written as Parquet under a chosen layout, answered
//!   * `local`        — `ExecutionContext::sql` over the Parquet tables (the single-node answer), and
//!   * `d<N>s<K>` / `d<N>x` — `execute_any_distributed` over N in-process participants (K = index of the initiator's own
//!                      participant, `x` = the initiator holds no shard), every remote fragment going through a
//!                      `FragmentTransport` that runs the REAL `execute_fragment` + `encode_ipc` of a peer context.
//!
//! case : sqlgen meta case {"prop":"C09","mode":"meta","sql","plan","tables","cat","tags","engine_defined","cfgs":[…]}
//!        + {"layout":{"files":f,"rg":r}}
//! impl : {"runs":{cfg:{"ok":rows}|{"err":kind,"msg"}|{"panic":msg}},
//!         "dist":{cfg:{"shape":"Concat|TwoPhase|TopN|Gather","tables":[names],"active":{table:[shards]},"n":N,"self":K|null,
//!                      "partial_sql":…,"final_sql":…}},
//!         "plan_error": msg?                       (neither planner accepts the statement)
//!         "neutral_noself":{cfg:outcome}           (only for runs that failed with `no shard returned a schema`:
//!                                                   the same cluster with the initiator holding no shard)}
use crate::common::*;
use crate::fams::fam_sql::sqlgen::{ast::*, catalog::*, gen::*};
use crate::rng::Rng;
use serde_json::{json, Value};

pub mod cluster {
    //! In-process clusters over sqlgen catalogs written as Parquet (shared by C09 and C45).
    use crate::fams::fam_sql::sqlgen::{catalog::*, exec::{batch_rows, err_kind}, rows_json};
    use query_engine::distributed::coordinator::encode_ipc;
    use query_engine::distributed::{assign_lpt, execute_any_distributed, execute_fragment, execute_gathered, plan_distributed, plan_gather, splits_of, FragmentRequest, FragmentTransport, GatherPlan, GatherTable, Participant};
    use query_engine::error::QueryError;
    use query_engine::ExecutionContext;
    use serde_json::{json, Value};
    use std::path::PathBuf;
    use std::sync::atomic::{AtomicU64, Ordering};
    use std::sync::{Arc, Mutex};

    pub fn runtime() -> &'static tokio::runtime::Runtime {
        static RT: std::sync::OnceLock<tokio::runtime::Runtime> = std::sync::OnceLock::new();
        RT.get_or_init(|| tokio::runtime::Builder::new_multi_thread().worker_threads(3).enable_all().build().expect("tokio runtime"))
    }

    static UNIQ: AtomicU64 = AtomicU64::new(0);
    /// never reuse a path: /repo caches Parquet metadata by path
    fn fresh_dir() -> PathBuf {
        let base = std::env::var("IQE_SCRATCH").unwrap_or_else(|_| "/verif/harness/scratch/manual".into());
        let n = UNIQ.fetch_add(1, Ordering::Relaxed);
        let p = std::path::Path::new(&base).join(format!("c09-{}-{}", std::process::id(), n));
        std::fs::create_dir_all(&p).expect("scratch dir");
        p
    }

    /// the tables of one catalog on disk + the initiator's context and one peer context over the same files
    pub struct Env { pub dir: PathBuf, pub base: ExecutionContext, pub peer: Arc<ExecutionContext>, pub names: Vec<String> }
    impl Drop for Env { fn drop(&mut self) { let _ = std::fs::remove_dir_all(&self.dir); } }

    fn context_over(dir: &std::path::Path, names: &[String]) -> Result<ExecutionContext, String> {
        let mut ctx = ExecutionContext::new();
        for n in names { ctx.register_parquet(n.clone(), dir.join(n)).map_err(|e| format!("register {n}: {e}"))?; }
        Ok(ctx)
    }

    /// `files` Parquet files per table (rows cut evenly), row groups of `rg` rows
    pub fn build_env(cat: &Catalog, files: usize, rg: usize) -> Result<Env, String> {
        let dir = fresh_dir();
        let mut names = vec![];
        for t in &cat.tables {
            let d = dir.join(&t.name);
            std::fs::create_dir_all(&d).map_err(|e| e.to_string())?;
            let nf = files.max(1);
            let n = t.rows.len();
            for f in 0..nf {
                let lo = n * f / nf; let hi = n * (f + 1) / nf;
                if lo == hi && f > 0 { continue; }
                let batch = t.batch_of(&t.rows[lo..hi]);
                let file = std::fs::File::create(d.join(format!("part-{:03}.parquet", f))).map_err(|e| e.to_string())?;
                let props = parquet::file::properties::WriterProperties::builder().set_max_row_group_row_count(Some(rg.max(1))).build();
                let mut w = parquet::arrow::ArrowWriter::try_new(file, t.schema(), Some(props)).map_err(|e| e.to_string())?;
                w.write(&batch).map_err(|e| e.to_string())?;
                w.close().map_err(|e| e.to_string())?;
            }
            names.push(t.name.clone());
        }
        let base = context_over(&dir, &names)?;
        let peer = Arc::new(context_over(&dir, &names)?);
        Ok(Env { dir, base, peer, names })
    }

    /// one environment per (catalog, layout): consecutive cases over the same catalog reuse the files and contexts
    pub fn env_for(case: &Value) -> Result<Arc<Env>, String> {
        static CACHE: Mutex<Option<(String, Arc<Env>)>> = Mutex::new(None);
        let key = format!("{}#{}#{}", case["tables"], case["cat"], case["layout"]);
        let mut g = CACHE.lock().unwrap_or_else(|e| e.into_inner());
        if let Some((k, e)) = g.as_ref() { if *k == key { return Ok(e.clone()); } }
        *g = None;   // drop the previous environment (removes its files) before building the next
        let cat = Catalog::from_case(case);
        let files = case["layout"]["files"].as_u64().unwrap_or(1) as usize;
        let rg = case["layout"]["rg"].as_u64().unwrap_or(1000) as usize;
        let e = Arc::new(build_env(&cat, files, rg)?);
        *g = Some((key, e.clone()));
        Ok(e)
    }

    /// every participant answers from the peer context (what a healthy cluster does); counts the fragments it served
    pub struct InProc { pub peer: Arc<ExecutionContext>, pub served: Mutex<Vec<(String, usize, usize)>> }
    #[async_trait::async_trait]
    impl FragmentTransport for InProc {
        async fn send(&self, address: &str, req: &FragmentRequest) -> query_engine::error::Result<(Vec<u8>, usize, f64)> {
            if shard_of_addr(address) != Some(req.shard_index) {
                return Err(QueryError::Execution(format!("harness: shard {} sent to {address}", req.shard_index)));
            }
            let (r, _) = execute_fragment(&self.peer, req).await?;
            let bytes = encode_ipc(&r.schema, &r.batches)?;
            self.served.lock().unwrap().push((req.table.clone(), req.shard_index, r.row_count));
            Ok((bytes, r.row_count, 0.0))
        }
    }

    pub fn addr_of(i: usize) -> String { format!("10.9.0.{}:7777", i + 1) }
    pub fn shard_of_addr(a: &str) -> Option<usize> { a.strip_prefix("10.9.0.")?.split(':').next()?.parse::<usize>().ok().map(|x| x - 1) }
    pub fn participants(n: usize, self_ix: Option<usize>) -> Vec<Participant> {
        (0..n).map(|i| Participant { node_id: 100 + i as u64, address: addr_of(i), is_self: Some(i) == self_ix }).collect()
    }

    /// "d3s0" → (3, Some(0)); "d5x" → (5, None)
    pub fn parse_cfg(name: &str) -> Option<(usize, Option<usize>)> {
        let rest = name.strip_prefix('d')?;
        if let Some(n) = rest.strip_suffix('x') { return Some((n.parse().ok()?, None)); }
        let (n, k) = rest.split_once('s')?;
        Some((n.parse().ok()?, Some(k.parse().ok()?)))
    }
    pub fn cfg_name(n: usize, self_ix: Option<usize>) -> String { match self_ix { Some(k) => format!("d{n}s{k}"), None => format!("d{n}x") } }

    pub fn err_json(e: &QueryError) -> Value { let m = e.to_string(); json!({"err": err_kind(e), "msg": m.chars().take(300).collect::<String>()}) }

    pub fn batches_json(bs: &[arrow::record_batch::RecordBatch]) -> Value {
        let mut rows = vec![];
        for b in bs { batch_rows(b, &mut rows); }
        json!({"ok": rows_json(&rows)})
    }

    pub fn guarded_block<F: std::future::Future<Output = Value>>(f: F, timeout_s: u64) -> Value {
        let res = std::panic::catch_unwind(std::panic::AssertUnwindSafe(|| {
            runtime().block_on(async {
                match tokio::time::timeout(std::time::Duration::from_secs(timeout_s), f).await {
                    Ok(v) => v,
                    Err(_) => json!({"err": "timeout", "msg": format!("no answer within {timeout_s} s")}),
                }
            })
        }));
        match res {
            Ok(v) => v,
            Err(e) => {
                let msg = if let Some(s) = e.downcast_ref::<&str>() { s.to_string() } else if let Some(s) = e.downcast_ref::<String>() { s.clone() } else { "panic".into() };
                json!({"panic": msg.chars().take(300).collect::<String>()})
            }
        }
    }

    /// the single-node answer over the Parquet tables
    pub fn run_local(env: &Env, sql: &str) -> Value {
        guarded_block(async { match env.base.sql(sql).await { Ok(r) => batches_json(&r.batches), Err(e) => err_json(&e) } }, 60)
    }

    /// the forced-distributed answer + what the run reports about itself
    pub fn run_dist(env: &Env, sql: &str, n: usize, self_ix: Option<usize>) -> (Value, Value) {
        let parts = participants(n, self_ix);
        let tr = InProc { peer: env.peer.clone(), served: Mutex::new(vec![]) };
        let mut info = json!({"n": n, "self": self_ix});
        let out = guarded_block(async {
            match execute_any_distributed(&env.base, sql, &parts, &tr).await {
                Ok(r) => {
                    let d = &r.distribution;
                    info["reported_shape"] = json!(format!("{:?}", d.shape));
                    info["nodes"] = Value::Array(d.nodes.iter().map(|c| json!([c.table, c.shard_index, c.assigned_splits, c.result_rows, c.local])).collect());
                    batches_json(&r.result.batches)
                }
                Err(e) => err_json(&e),
            }
        }, 60);
        let mut served = tr.served.lock().unwrap().clone();
        served.sort();
        info["served"] = Value::Array(served.iter().map(|(t, s, r)| json!([t, s, r])).collect());
        (out, info)
    }

    /// neutraliser of the under-gathering findings (C45-F1/F2 → C09-F4): the gather path over EVERY column of EVERY table
    pub fn run_full_gather(env: &Env, sql: &str, n: usize, self_ix: Option<usize>) -> Value {
        let parts = participants(n, self_ix);
        let tr = InProc { peer: env.peer.clone(), served: Mutex::new(vec![]) };
        let tables: Vec<GatherTable> = env.names.iter().filter_map(|name| {
            let p = env.base.table_provider(name)?;
            let cols: Vec<String> = p.schema().fields().iter().map(|f| format!("\"{}\"", f.name().replace('"', "\"\""))).collect();
            Some(GatherTable { name: name.clone(), columns: None, gather_sql: format!("SELECT {} FROM \"{}\"", cols.join(", "), name) })
        }).collect();
        let plan = GatherPlan { tables, sql: sql.trim().trim_end_matches(';').to_string() };
        guarded_block(async {
            match execute_gathered(&env.base, &plan, &parts, &tr).await { Ok(r) => batches_json(&r.result.batches), Err(e) => err_json(&e) }
        }, 60)
    }

    /// `sql` over `ctx` through the public pipeline (parse → Binder → Optimizer::with_rules → PhysicalPlanner → every
    /// partition) with the production rule list minus `without` — what `ExecutionContext::sql` does, one rule left out
    pub async fn sql_without(ctx: &ExecutionContext, sql: &str, without: &[String]) -> Result<Vec<arrow::record_batch::RecordBatch>, QueryError> {
        use futures::TryStreamExt;
        use query_engine::execution::{create_memory_pool, ExecutionConfig};
        use query_engine::optimizer::Optimizer;
        use query_engine::physical::PhysicalPlanner;
        use query_engine::planner::{Binder, InMemoryCatalog, PlanSchema, SchemaField};
        let stmt = query_engine::parser::parse_sql(sql)?;
        let mut icat = InMemoryCatalog::new();
        let mut provs = vec![];
        for name in ctx.table_names() { if let Some(p) = ctx.table_provider(&name) { provs.push((name, p)); } }
        for (n, p) in &provs {
            icat.register_table(n.clone(), PlanSchema::new(p.schema().fields().iter().map(|f| SchemaField::new(f.name().clone(), f.data_type().clone()).with_nullable(f.is_nullable())).collect()));
        }
        let logical = Binder::new(&icat).bind(&stmt)?;
        let mut stats = std::collections::HashMap::new();
        for (n, p) in &provs { if let Some(s) = p.statistics() { stats.insert(n.clone(), s); } }
        let rules: Vec<_> = crate::fams::fam_sql::sqlgen::exec::production_rules().into_iter().filter(|r| !without.iter().any(|w| w == r.name())).collect();
        let opt = Optimizer::with_rules(rules);
        let opt = if stats.is_empty() { opt } else { opt.with_table_statistics(stats) };
        let optimized = opt.optimize(logical)?;
        let config = ExecutionConfig::default();
        let pool = create_memory_pool(config.memory_limit);
        let mut planner = PhysicalPlanner::with_config(pool, config);
        for (n, p) in &provs { planner.register_table(n.clone(), p.clone()); }
        planner.enable_subquery_execution();
        let physical = planner.create_physical_plan(&optimized)?;
        let mut all = vec![];
        for p in 0..physical.output_partitions().max(1) {
            let stream = physical.execute(p).await?;
            let bs: Vec<arrow::record_batch::RecordBatch> = stream.try_collect().await?;
            all.extend(bs);
        }
        Ok(all)
    }

    /// neutraliser of finding C09-F5 (a worker's partial GROUP BY inherits C03-F1 through the shard's scaled statistics):
    /// every active shard answers the coordinator's partial statement over ITS shard context (`shard_context`) with the
    /// optimizer rule(s) `without` left out; the coordinator's merge statement then runs unchanged over the partial rows
    pub fn run_two_phase_without(env: &Env, sql: &str, n: usize, without: &str) -> Value {
        use query_engine::distributed::coordinator::shard_context;
        let plan = match plan_distributed(&env.base, sql) { Ok(p) => p, Err(e) => return err_json(&e) };
        let Some(final_sql) = plan.final_sql.clone() else { return json!({"err": "harness", "msg": "no merge statement"}) };
        let set = match splits_of(&env.base, &plan.table, n) { Ok(s) => s, Err(e) => return err_json(&e) };
        let a = assign_lpt(&set, n);
        let rules: Vec<String> = if without == "NONE" { vec![] } else { without.split('/').map(|s| s.to_string()).collect() };
        guarded_block(async {
            let mut batches: Vec<arrow::record_batch::RecordBatch> = vec![];
            let active: Vec<usize> = (0..n).filter(|&i| a.node_splits[i] > 0).collect();
            let shards: Vec<usize> = if active.is_empty() { vec![0] } else { active };
            for i in shards {
                let (ctx, _) = match shard_context(&env.peer, &plan.table, &set, &a, i) { Ok(x) => x, Err(e) => return err_json(&e) };
                match sql_without(&ctx, &plan.partial_sql, &rules).await { Ok(bs) => batches.extend(bs), Err(e) => return err_json(&e) }
            }
            let Some(first) = batches.first() else { return json!({"err": "harness", "msg": "no partial batch"}) };
            let schema = Arc::new(arrow::datatypes::Schema::new(first.schema().fields().iter().map(|f| f.as_ref().clone().with_nullable(true)).collect::<Vec<_>>()));
            let mut unified = vec![];
            for b in &batches { match arrow::record_batch::RecordBatch::try_new(schema.clone(), b.columns().to_vec()) { Ok(x) => unified.push(x), Err(e) => return json!({"err": "harness", "msg": e.to_string()}) } }
            let mut mctx = ExecutionContext::new();
            mctx.register_table("qe_dist_partial", schema, unified);
            match mctx.sql(&final_sql).await { Ok(r) => batches_json(&r.batches), Err(e) => err_json(&e) }
        }, 60)
    }

    /// the plan the coordinator builds for the statement: scatter (Concat / TwoPhase / TopN over one table) or gather
    pub fn plan_info(env: &Env, sql: &str, n: usize) -> Value {
        let r = std::panic::catch_unwind(std::panic::AssertUnwindSafe(|| {
            let (shape, tables, extra): (String, Vec<String>, Value) = match plan_distributed(&env.base, sql) {
                Ok(p) => (format!("{:?}", p.shape), vec![p.table.clone()], json!({"partial_sql": p.partial_sql, "final_sql": p.final_sql})),
                Err(QueryError::NotImplemented(why)) => match plan_gather(&env.base, sql) {
                    Ok(g) => ("Gather".into(), g.tables.iter().map(|t| t.name.clone()).collect(),
                              json!({"refused": why.chars().take(160).collect::<String>(),
                                     "columns": g.tables.iter().map(|t| json!([t.name, t.columns])).collect::<Vec<_>>()})),
                    Err(e) => return json!({"plan_error": e.to_string().chars().take(200).collect::<String>()}),
                },
                Err(e) => return json!({"plan_error": e.to_string().chars().take(200).collect::<String>()}),
            };
            let mut active = serde_json::Map::new();
            for t in &tables {
                if let Ok(set) = splits_of(&env.base, t, n) {
                    let a = assign_lpt(&set, n);
                    active.insert(t.clone(), json!((0..n).filter(|&i| a.node_splits[i] > 0).collect::<Vec<_>>()));
                }
            }
            let mut o = json!({"shape": shape, "tables": tables, "active": Value::Object(active)});
            if let (Some(o), Some(e)) = (o.as_object_mut(), extra.as_object()) { for (k, v) in e { o.insert(k.clone(), v.clone()); } }
            o
        }));
        r.unwrap_or_else(|_| json!({"plan_error": "panic in the distributed planner"}))
    }
}

use cluster::*;

/// run a case (as generated or as read from a replay / corpus file) on the real engine
pub fn run_case(case: &Value) -> Value {
    let env = match env_for(case) { Ok(e) => e, Err(e) => return json!({"runs": {}, "setup_error": e}) };
    let sql = case["sql"].as_str().unwrap_or("");
    let mut runs = serde_json::Map::new();
    let mut dist = serde_json::Map::new();
    let mut neutral = serde_json::Map::new();
    let mut full = serde_json::Map::new();
    let mut merge = serde_json::Map::new();
    let mut unshadow = serde_json::Map::new();
    let mut mem1: Option<Value> = None;
    let empty = vec![];
    for c in case["cfgs"].as_array().unwrap_or(&empty) {
        let name = c.as_str().unwrap_or("");
        if name == "local" { runs.insert(name.into(), run_local(&env, sql)); continue; }
        let Some((n, self_ix)) = parse_cfg(name) else { continue };
        let mut info = plan_info(&env, sql, n);
        let (out, run_info) = run_dist(&env, sql, n, self_ix);
        if let (Some(i), Some(r)) = (info.as_object_mut(), run_info.as_object()) { for (k, v) in r { i.insert(k.clone(), v.clone()); } }
        // neutraliser of finding C09-F1: the same cluster with the initiator holding no shard
        if out["msg"].as_str().map(|m| m.contains("no shard returned a schema")).unwrap_or(false) && self_ix.is_some() {
            let (o2, _) = run_dist(&env, sql, n, None);
            neutral.insert(name.into(), o2);
        }
        // neutraliser of finding C09-F4 (= C45-F1/F2): a gather that fails, or answers differently from the single-node run,
        // is repeated over a FULL gather of every table
        if info["shape"] == "Gather" {
            let local = runs.get("local");
            let differs = match (local.and_then(|l| l.get("ok")), out.get("ok")) {
                (Some(a), Some(b)) => sorted_rows(a) != sorted_rows(b),
                (Some(_), None) => true,
                _ => false,
            };
            if differs { full.insert(name.into(), run_full_gather(&env, sql, n, self_ix)); }
        }
        // neutralisers for failures inherited from the single-node engine: (i) the same statement single-node over IN-MEMORY
        // tables (a layout-dependent engine failure is not a distribution defect), (ii) the TwoPhase merge without GroupKeyReduction
        {
            let local = runs.get("local");
            let differs = match (local.and_then(|l| l.get("ok")), out.get("ok")) {
                (Some(a), Some(b)) => sorted_rows(a) != sorted_rows(b),
                (Some(_), None) => true,
                _ => false,
            };
            if differs && mem1.is_none() {
                let cat = Catalog::from_case(case);
                mem1 = Some(crate::fams::fam_sql::sqlgen::exec::run(&cat, sql, &crate::fams::fam_sql::sqlgen::exec::ExecCfg::mem_single()));
            }
            if differs && info["shape"] == "TwoPhase" && out.get("ok").is_some() {
                merge.insert(name.into(), run_two_phase_without(&env, sql, n, "GroupKeyReduction"));
            }
        }
        if let Some(ns) = case["neutral_sql"].as_str() { unshadow.insert(name.into(), run_dist(&env, ns, n, self_ix).0); }
        runs.insert(name.into(), out);
        dist.insert(name.into(), info);
    }
    let mut o = json!({"runs": Value::Object(runs), "dist": Value::Object(dist)});
    if !neutral.is_empty() { o["neutral_noself"] = Value::Object(neutral); }
    if !full.is_empty() { o["neutral_fullgather"] = Value::Object(full); }
    if !merge.is_empty() { o["neutral_twophase_nogkr"] = Value::Object(merge); }
    if let Some(m) = mem1 { o["neutral_mem1"] = m; }
    if !unshadow.is_empty() { o["neutral_unshadow"] = Value::Object(unshadow); }
    o
}

fn sorted_rows(v: &Value) -> Vec<String> { let mut r: Vec<String> = v.as_array().map(|a| a.iter().map(|x| x.to_string()).collect()).unwrap_or_default(); r.sort(); r }

fn leftmost_table(r: &Rel) -> Option<(usize, String)> {
    match r { Rel::Table { t, alias, .. } => Some((*t, alias.clone())), Rel::Join { l, .. } => leftmost_table(l), _ => None }
}

/// `WHERE … AND <row id> IS NULL`: the statement matches no row (the row id is unique and never NULL)
fn force_empty(cat: &Catalog, q: &mut QueryExpr) -> bool {
    if let Body::Select(sel) = &mut q.body {
        if let Some((t, alias)) = sel.from.as_ref().and_then(leftmost_table) {
            let c0 = &cat.tables[t].cols[0];
            if !c0.unique { return false; }
            let p = Expr::Un(UnOp::IsNull, Box::new(Expr::Col { i: 0, sql: format!("{}.{}", alias, c0.name) }));
            sel.where_ = Some(match sel.where_.take() { Some(w) => Expr::and(w, p), None => p });
            return true;
        }
    }
    false
}

/// `SELECT t.a AS x, t.b AS a FROM t ORDER BY t.a …`: the ORDER BY names an INPUT column by its qualified name while
/// another output column carries that bare name as its alias (standard SQL: the qualified name is the input column)
fn shadow_order(q: &mut QueryExpr) -> Option<(usize, String)> {
    if q.order.is_empty() { return None; }
    if let Body::Select(sel) = &mut q.body {
        if sel.group.is_some() || sel.distinct || sel.proj.len() < 2 { return None; }
        let plain: Vec<(usize, String)> = sel.proj.iter().enumerate().filter_map(|(i, (e, _))| match e {
            Expr::Col { sql, .. } if sql.matches('.').count() == 1 => Some((i, sql.clone())), _ => None }).collect();
        let Some((i, qualified)) = plain.first().cloned() else { return None };
        let bare = qualified.split('.').nth(1).unwrap_or("").to_string();
        let j = (0..sel.proj.len()).find(|&j| j != i).unwrap();
        if sel.proj.iter().any(|(_, a)| *a == bare) { return None; }
        let original = std::mem::replace(&mut sel.proj[j].1, bare);
        let (desc, nf) = (q.order[0].desc, q.order[0].nulls_first);
        q.order = vec![SortKey { e: Expr::Col { i, sql: qualified }, desc, nulls_first: nf }];
        return Some((j, original));
    }
    None
}

pub fn main(o: &Opts) {
    if let (Some(p), None) = (&o.replay, o.get("probe")) { for c in replay_cases(p) { let i = run_case(&c); emit(c, i); } return; }
    // `--opt probe="SELECT …" [--opt cfgs=local,d3s0,d2x] [--opt files=2 --opt rg=5]`: one statement over the seed's catalog (dialect / defect probing)
    if let Some(sql) = o.get("probe") {
        let mut r = Rng::new(o.seed);
        let cat = match o.get("from") { Some(f) => Catalog::from_case(&replay_cases(f)[0]), None => gen_catalog(&mut r, &CatOpts::from_opts(o)) };
        for t in &cat.tables { eprintln!("{} {:?} rows={}", t.name, t.cols.iter().map(|c| format!("{}:{}:{}%", c.name, c.cty.name(), c.null_pct)).collect::<Vec<_>>(), t.rows.len()); }
        let cfgs: Vec<String> = o.get("cfgs").unwrap_or("local,d3s0,d2x").split(',').map(|s| s.to_string()).collect();
        let case = json!({"sql": sql, "tables": cat.tables_json(), "cat": cat.meta_json(), "cfgs": cfgs, "layout": {"files": o.get_usize("files", 2), "rg": o.get_usize("rg", 5)}});
        let i = run_case(&case);
        for (k, v) in i["runs"].as_object().unwrap() { println!("{k}: rows={:?} {}", v["ok"].as_array().map(|a| a.len()), v.to_string().chars().take(o.get_usize("show", 600)).collect::<String>()); }
        for (k, v) in i["dist"].as_object().unwrap() { println!("{k}: {}", v.to_string().chars().take(700).collect::<String>()); }
        // `--opt mergewithout=GroupKeyReduction,PackedGroupKeys,ALL --opt n=5`: the TwoPhase merge over the real partial rows without a rule
        if let Some(m) = o.get("mergewithout") {
            let env = env_for(&case).expect("env");
            for rule in m.split(',') { let v = run_two_phase_without(&env, sql, o.get_usize("n", 5), rule); println!("merge without {rule}: rows={:?} {}", v["ok"].as_array().map(|a| a.len()), v.to_string().chars().take(o.get_usize("show", 200)).collect::<String>()); }
        }
        // `--opt memcfgs=mem1,memb`: the same statement through sqlgen's single-node executors (in-memory layouts)
        if let Some(m) = o.get("memcfgs") {
            for c in m.split(',').filter_map(crate::fams::fam_sql::sqlgen::exec::ExecCfg::parse) {
                let v = crate::fams::fam_sql::sqlgen::exec::run(&cat, sql, &c);
                println!("{}: rows={:?} {}", c.name, v["ok"].as_array().map(|a| a.len()), v.to_string().chars().take(o.get_usize("show", 600)).collect::<String>());
            }
        }
        return;
    }
    let gopts = GenOpts::from_opts(o, "filter,agg,join,sort_limit,agg,subquery,filter,sort_limit,join,distinct,agg,setop,cte");
    // plain single-table / derived-table selects for the `tail:*` stratum: primary stratum `filter` only (no join, aggregate, DISTINCT, ORDER BY of its own)
    let tail_opts = { let mut t = GenOpts::from_opts(o, "filter"); t.strata = vec!["filter".into()]; for x in ["join", "agg", "distinct", "sort_limit", "setop", "cte", "subquery", "gsets", "values"] { t.allow.remove(x); } t };
    let mut copts = CatOpts::from_opts(o);
    // the reference semantics is a nested loop: keep tables small (default classes tiny / small <= 60 rows) and get many
    // splits from small row groups instead
    let _ = &mut copts;
    let per_cat = o.get_usize("per_cat", 8).max(1);
    let mut r = Rng::new(o.seed ^ 0xC09);
    let mut cat = gen_catalog(&mut r, &copts);
    let mut layout = json!({"files": 1, "rg": 1000});
    let mut n = 0usize; let mut attempts = 0usize;
    while n < o.cases && attempts < o.cases * 4 + 16 {
        if attempts % per_cat == 0 {
            cat = gen_catalog(&mut r, &copts);
            layout = json!({"files": 1 + r.below(3), "rg": *r.pick(&[2u64, 3, 5, 8, 16, 1000])});
        }
        attempts += 1;
        let mut qr = r.fork();
        // stratum `tail:*` (30 % of the cases): a plain single-block SELECT whose trailing clauses are OFFSET only (4 in 7 of
        // them), LIMIT only, LIMIT + OFFSET without ORDER BY, or ORDER BY + OFFSET without LIMIT — with and without WHERE
        let tail: Option<u64> = if r.below(100) < 30 { Some(r.below(7)) } else { None };
        let mut g = Gen::new(&mut qr, &cat, if tail.is_some() { &tail_opts } else { &gopts }).generate(n);
        let mut tags = g.tags.clone();
        if let Some(kind) = tail {
            let k = *r.pick(&[1usize, 1, 2, 2, 5, 50]);
            let lim = *r.pick(&[0usize, 1, 3, 3, 10]);
            let no_where = r.chance(1, 2);
            let width = g.q.width();
            if let Body::Select(sel) = &mut g.q.body { if no_where && !sel.where_.as_ref().map(|w| w.has_subquery()).unwrap_or(false) { sel.where_ = None; tags.push("tail:no_where".into()); } }
            let keys: Vec<SortKey> = if let Body::Select(sel) = &g.q.body {
                (0..width.min(2)).map(|i| SortKey { e: Expr::Col { i, sql: sel.proj[i].1.clone() }, desc: r.chance(1, 2), nulls_first: r.chance(1, 2) }).collect()
            } else { vec![] };
            match kind {
                0..=3 => { g.q.order = vec![]; g.q.limit = Some((k, None)); tags.push("tail:offset-only".into()); }
                4 => { g.q.order = vec![]; g.q.limit = Some((0, Some(lim))); tags.push("tail:limit-only".into()); }
                5 => { g.q.order = vec![]; g.q.limit = Some((k, Some(lim))); tags.push("tail:limit-offset".into()); }
                _ => { g.q.order = keys; g.q.limit = Some((k, None)); tags.push("tail:order-offset".into()); }
            }
        }
        // special streams
        let special = if tail.is_some() { 99 } else { r.below(12) };
        if special == 0 && force_empty(&cat, &mut g.q) { tags.push("forced_empty".into()); }
        // neutraliser of finding C09-F7: the same statement with the shadowing alias given back its generated name
        let mut neutral_sql: Option<String> = None;
        if special == 1 { if let Some((j, original)) = shadow_order(&mut g.q) {
            tags.push("shadow_order".into());
            let mut q2 = g.q.clone();
            if let Body::Select(sel) = &mut q2.body { sel.proj[j].1 = original; }
            neutral_sql = Some(q2.sql());
        } }
        // two clusters per case: sizes 1..8, the initiator holding a shard or not
        let mut cfgs = vec!["local".to_string()];
        let n1 = if tail.is_some() { *r.pick(&[2usize, 2, 3, 5, 8]) } else { *r.pick(&[1usize, 1, 2, 2, 3, 3, 4, 5, 6, 7, 8]) };
        let s1 = if r.chance(1, 5) { None } else { Some(r.below(n1 as u64) as usize) };
        cfgs.push(cfg_name(n1, s1));
        let n2 = if tail.is_some() { *r.pick(&[1usize, 2, 3, 5, 8]) } else { *r.pick(&[1usize, 2, 3, 4, 5, 8]) };
        let s2 = if r.chance(1, 3) { None } else { Some(r.below(n2 as u64) as usize) };
        if cfg_name(n2, s2) != cfgs[1] { cfgs.push(cfg_name(n2, s2)); }
        let mut case = json!({"prop": "C09", "mode": "meta", "sql": g.q.sql(), "plan": g.q.plan(0), "tables": cat.tables_json(), "cat": cat.meta_json(),
                          "tags": tags, "engine_defined": g.engine_defined, "cfgs": cfgs, "layout": layout});
        if let Some(ns) = neutral_sql { case["neutral_sql"] = json!(ns); }
        let imp = run_case(&case);
        emit(case, imp);
        n += 1;
    }
}
