// FAMILY: SQL
//! Generic SQL family: generated queries over generated catalogs, run on the real engine.  The library lives in
//! `sqlgen/` (see sqlgen/README.md); other family files use it through `crate::fams::fam_sql::sqlgen`.
//!   --opt prop=C01 --opt strata=filter,join,… --opt mode=spec|meta --opt cfgs=mem1,memb,pq2x7 …
//!   --opt probe="SELECT …"   run one statement over a generated catalog and print catalog + outcome (dialect probing)
#[path = "sqlgen/mod.rs"]
pub mod sqlgen;
use crate::common::*;
use sqlgen::driver::family_main;

pub fn main(o: &Opts) {
    // `--opt panic_loc=1`: print the source location of engine panics to stderr (debugging aid)
    if o.get("panic_loc").is_some() { std::panic::set_hook(Box::new(|i| { eprintln!("PANIC at {:?}: {}", i.location().map(|l| format!("{}:{}", l.file(), l.line())), i)})); }
    if let Some(sql) = o.get("probe") {
        let mut r = crate::rng::Rng::new(o.seed);
        let cat = sqlgen::catalog::gen_catalog(&mut r, &sqlgen::catalog::CatOpts::from_opts(o));
        for t in &cat.tables { eprintln!("{} {:?} rows={} cuts={:?}", t.name, t.cols.iter().map(|c| format!("{}:{}", c.name, c.cty.name())).collect::<Vec<_>>(), t.rows.len(), t.cuts); }
        for cfg in sqlgen::driver::cfgs_from_opts(o, "memb") { println!("{} {}", cfg.name, sqlgen::exec::run(&cat, sql, &cfg)); }
        return;
    }
    let meta = o.get("mode") == Some("meta");
    family_main(o, "C01", 0x5c1, "filter", if meta { "mem1,memb,mem8c" } else { "memb,mem1,mem8c" }, meta, |_, _, g| Some(g));
}
